package main

import (
	"fmt"
	"go/token"
	"go/types"
	"strings"

	"golang.org/x/tools/go/ssa"
)

func isMutexCall(in ssa.Instruction) (string, bool) {
	call, ok := in.(ssa.CallInstruction)
	if !ok {
		return "", false
	}
	f := calleeFunc(call.Common())
	if f == nil || f.Pkg() == nil || f.Pkg().Path() != "sync" {
		return "", false
	}
	switch f.Name() {
	case "Lock", "Unlock", "RLock", "RUnlock":
		return strings.ToLower(f.Name()), true
	}
	return "", false
}

// ---------------------------------------------------------------------------
// C18.1: pending entry removed, under the lock of its lookup, before the
// completion is invoked

func ruleNatsRemoveBeforeInvoke(c *Ctx) {
	p := c.P
	fReqs, fF, fIsReq := natsRoles(p)
	parseMeta := p.Method("nats.Client.parseMeta")
	if fReqs == nil || fF == nil || fIsReq == nil {
		c.undecided("nats.Client.mqReqs", "anchor", "-", "not found")
		return
	}
	entriesNonNil := true
	for _, f := range p.Repo {
		for _, in := range instrsOf(f) {
			if mu, ok := in.(*ssa.MapUpdate); ok {
				if g, _ := fieldLoad(mu.Map); g == fReqs {
					if _, isAlloc := mu.Value.(*ssa.Alloc); !isAlloc {
						entriesNonNil = false
					}
				}
			}
		}
	}
	for _, nm := range []string{"(*nats.Client).listener", "(*nats.Client).onTimeout"} {
		fn := p.Fn(nm)
		if fn == nil {
			c.undecided(nm, "anchor", "-", "not found")
			continue
		}
		c.inst(1)
		sp := &Spec{}
		sp.Classify = func(t *Tracer, fr *Frame, in ssa.Instruction) []Ev {
			if k, ok := isMutexCall(in); ok {
				return []Ev{{Kind: k}}
			}
			if lk, ok := in.(*ssa.Lookup); ok {
				if f, _ := fieldLoad(lk.X); f == fReqs {
					return []Ev{{Kind: "lookup"}}
				}
			}
			if call, ok := isBuiltinCall(in, "delete"); ok {
				if f, _ := fieldLoad(call.Call.Args[0]); f == fReqs {
					return []Ev{{Kind: "delete"}}
				}
			}
			if _, ok := isCallTo(in, parseMeta); ok {
				return []Ev{{Kind: "premeta", Stop: true}}
			}
			if call, ok := in.(ssa.CallInstruction); ok && !call.Common().IsInvoke() && call.Common().StaticCallee() == nil {
				if f, _ := fieldLoad(call.Common().Value); f == fF {
					if _, isGo := in.(*ssa.Go); isGo {
						return []Ev{{Kind: "invoke:go"}}
					}
					return []Ev{{Kind: "invoke"}}
				}
			}
			return nil
		}
		sp.Branch = func(t *Tracer, fr *Frame, i *ssa.If, dir bool) []Ev {
			if f, _ := fieldLoad(i.Cond); f == fIsReq {
				if dir {
					return []Ev{{Kind: "isreq"}}
				}
				return []Ev{{Kind: "notreq"}}
			}
			if e, ok := i.Cond.(*ssa.Extract); ok && e.Index == 1 {
				if lk, ok := e.Tuple.(*ssa.Lookup); ok {
					if f, _ := fieldLoad(lk.X); f == fReqs {
						if dir {
							return []Ev{{Kind: "found"}}
						}
						return []Ev{{Kind: "notfound"}}
					}
				}
			}
			// `rc != nil` on the looked-up entry stands for "found" when every entry stored is an allocation
			if b, ok := i.Cond.(*ssa.BinOp); ok && (b.Op == token.EQL || b.Op == token.NEQ) && entriesNonNil {
				x := b.X
				if isNilConst(x) {
					x = b.Y
				} else if !isNilConst(b.Y) {
					x = nil
				}
				if x != nil {
					if e, ok := t.Resolve(fr, x).V.(*ssa.Extract); ok && e.Index == 0 {
						if lk, ok := e.Tuple.(*ssa.Lookup); ok {
							if f, _ := fieldLoad(lk.X); f == fReqs {
								if (b.Op == token.NEQ) == dir {
									return []Ev{{Kind: "found"}}
								}
								return []Ev{{Kind: "entry-nil"}}
							}
						}
					}
				}
			}
			if e, ok := i.Cond.(*ssa.Extract); ok && e.Index == 1 { // v, ok := <-ch
				if u, ok := e.Tuple.(*ssa.UnOp); ok && u.Op == token.ARROW {
					if dir {
						return []Ev{{Kind: "msg"}}
					}
				}
			}
			return nil
		}
		tr := runTrace(p, fn, sp)
		bad := ""
		ninv := 0
		// one segment per handled message (loop iteration)
		var segs [][]Ev
		for _, full := range tr.Paths {
			cur := []Ev{}
			for _, e := range full {
				if e.Kind == "msg" && len(cur) > 0 {
					segs = append(segs, cur)
					cur = []Ev{}
				}
				cur = append(cur, e)
			}
			segs = append(segs, cur)
		}
		for _, path := range segs {
			li := indexKind(path, "lookup")
			for i, e := range path {
				if e.Kind != "invoke" && e.Kind != "invoke:go" {
					continue
				}
				ninv++
				// completions run with the adapter's lock released: a callback that comes back into the
				// adapter (a retry from a timeout) must not meet the lock its caller still holds
				depth := 0
				for _, pe := range path[:i] {
					switch pe.Kind {
					case "lock":
						depth++
					case "unlock":
						depth--
					}
				}
				if depth > 0 {
					bad = "the completion is invoked while the adapter's mutex is held: a callback that sends a request from there deadlocks the listener and every pending timeout: " + tr.FmtPath(path)
				}
				isReq := hasKind(path[:i], "isreq") || nm == "(*nats.Client).onTimeout"
				if hasKind(path[:i], "notfound") {
					bad = "completion invoked although no pending entry was found (it was already completed by a reply or timeout): " + tr.FmtPath(path)
				}
				if !isReq {
					if e.Kind == "invoke:go" {
						bad = "event callback started with go: publish order is lost: " + tr.FmtPath(path)
					}
					continue
				}
				di := -1
				for j := li + 1; j < i && li >= 0; j++ {
					if path[j].Kind == "delete" {
						di = j
						break
					}
				}
				if li < 0 || di < 0 {
					bad = "request completion invoked without first removing the pending entry: a reply and a timeout could both complete the request: " + tr.FmtPath(path)
					continue
				}
				for j := li; j < di; j++ {
					if path[j].Kind == "unlock" {
						bad = "pending entry removed in a different critical section than the lookup (reply and timeout can both find it): " + tr.FmtPath(path)
					}
				}
				if hasKind(path[li:i], "premeta") {
					bad = "a pre-response is treated as the reply: " + tr.FmtPath(path)
				}
			}
			// whoever takes a found pending request out of the map completes it: nobody else can any more
			if di := indexKind(path, "delete"); di >= 0 && hasKind(path, "found") && !hasKind(path, "notfound") && !hasKind(path, "entry-nil") && (hasKind(path, "isreq") || nm == "(*nats.Client).onTimeout") {
				if !hasKind(path[di:], "invoke") && !hasKind(path[di:], "invoke:go") && !(tr.Trunc) {
					bad = "a pending request is removed from the map on a path that does not complete it: neither the reply nor the timeout can find it any more, its completion runs zero times: " + tr.FmtPath(path)
				}
			}
			if pi := indexKind(path, "premeta"); pi >= 0 {
				if hasKind(path[pi:], "delete") || hasKind(path[pi:], "invoke") {
					bad = "a pre-response removes or completes the pending request: " + tr.FmtPath(path)
				}
			}
			// lookups happen under the lock
			if li >= 0 && (indexKind(path, "lock") < 0 || indexKind(path, "lock") > li) {
				bad = "pending-request map read outside the adapter lock: " + tr.FmtPath(path)
			}
		}
		if ninv == 0 {
			bad = "no completion invocation found"
		}
		if tr.Trunc {
			bad = "path budget exhausted"
		}
		c.check(bad == "", nm, "pending entry removed under the lookup's lock before the completion runs; pre-responses complete nothing; events invoked in order", p.Pos(fn.Pos()), fmt.Sprintf("%d paths, %d invocations", len(tr.Paths), ninv), bad)
	}
}

// C18.2/.3/.4: control-line guards, single listener, closed handler
func ruleNatsPlumbing(c *Ctx) {
	p := c.P
	// a pre-response replaces the running timeout: once the old one has been taken out (Remove / Stop
	// returned true) a new one is armed on every path — a request left without any timeout completes
	// zero times when the service never replies
	if fn := p.Fn("(*nats.Client).parseMeta"); fn != nil {
		c.inst(1)
		sp := &Spec{}
		isStopCall := func(v ssa.Value) bool {
			call, ok := v.(*ssa.Call)
			if !ok {
				return false
			}
			cf := calleeFunc(&call.Call)
			if cf == nil || cf.Pkg() == nil {
				return false
			}
			return (cf.Name() == "Stop" && cf.Pkg().Path() == "time") || (cf.Name() == "Remove" && strings.HasSuffix(cf.Pkg().Path(), "timerqueue"))
		}
		sp.Classify = func(t *Tracer, fr *Frame, in ssa.Instruction) []Ev {
			if call, ok := in.(*ssa.Call); ok {
				if cf := calleeFunc(&call.Call); cf != nil && cf.Pkg() != nil && cf.Pkg().Path() == "time" && cf.Name() == "AfterFunc" {
					return []Ev{{Kind: "arm"}}
				}
			}
			return nil
		}
		sp.Branch = func(t *Tracer, fr *Frame, i *ssa.If, dir bool) []Ev {
			v := i.Cond
			neg := false
			if u, ok := v.(*ssa.UnOp); ok && u.Op == token.NOT {
				v, neg = u.X, true
			}
			r := t.Resolve(fr, v).V
			if isStopCall(r) && dir != neg {
				return []Ev{{Kind: "removed"}}
			}
			return nil
		}
		tr := runTrace(p, fn, sp)
		bad := ""
		n := 0
		for _, path := range tr.Paths {
			ri := indexKind(path, "removed")
			if ri < 0 {
				continue
			}
			n++
			armed := false
			for _, e := range path[ri:] {
				if e.Kind == "arm" {
					armed = true
				}
			}
			if !armed {
				bad = "the running timeout is taken out but no new one is armed on this path: if the service never replies the request completes zero times and stays registered: " + tr.FmtPath(path)
			}
		}
		if tr.Trunc {
			bad = "path budget exhausted"
		}
		c.check(bad == "" && n > 0, fnName(fn), "a pre-response that removes the running timeout arms a new one", p.Pos(fn.Pos()), fmt.Sprintf("%d paths remove the timeout; each arms a new one", n), bad)
	}
	// once Unsubscribe returns, the handler is called no more — whatever the library answers (after a
	// disconnect it answers with an error): the entry leaves the pending map on every returning path
	if fn := p.Fn("(*nats.Subscription).Unsubscribe"); fn != nil {
		reqs, _, _ := natsRoles(p)
		c.inst(1)
		sp := &Spec{}
		sp.Classify = func(t *Tracer, fr *Frame, in ssa.Instruction) []Ev {
			if call, ok := isBuiltinCall(in, "delete"); ok {
				if f, _ := fieldLoad(t.Resolve(fr, call.Call.Args[0]).V); f != nil && f == reqs {
					return []Ev{{Kind: "forget"}}
				}
			}
			if _, ok := in.(*ssa.Return); ok && fr == t.RootFr {
				return []Ev{{Kind: "return"}}
			}
			return nil
		}
		tr := runTrace(p, fn, sp)
		bad := ""
		n := 0
		for _, path := range tr.Paths {
			if !hasKind(path, "return") {
				continue
			}
			n++
			if !hasKind(path, "forget") {
				bad = "a returning path of Unsubscribe leaves the subscription in the pending map: messages already queued in the adapter still reach the handler after Unsubscribe returned: " + tr.FmtPath(path)
			}
		}
		c.check(bad == "" && n > 0, fnName(fn), "the handler is forgotten on every returning path of Unsubscribe", p.Pos(fn.Pos()), fmt.Sprintf("%d returning paths", n), bad)
	}
	// a reply inbox or an event subscription stays as the library made it until the adapter removes it:
	// the only method the adapter calls on a nats.go subscription is Unsubscribe (a delivery limit such as
	// AutoUnsubscribe(1) lets a pre-response use up the quota and drops the real reply)
	{
		n := 0
		for _, fn := range p.Repo {
			if fn.Pkg == nil && fn.Parent() == nil {
				continue
			}
			if pk := TopLevel(fn).Pkg; pk == nil || pk.Pkg.Name() != "nats" {
				continue
			}
			for _, call := range callsIn(fn) {
				cf := calleeFunc(call.Common())
				if cf == nil || cf.Pkg() == nil || cf.Pkg().Path() != "github.com/nats-io/nats.go" {
					continue
				}
				sig, ok := cf.Type().(*types.Signature)
				if !ok || sig.Recv() == nil || !strings.HasSuffix(sig.Recv().Type().String(), "nats.go.Subscription") {
					continue
				}
				n++
				c.inst(1)
				c.check(cf.Name() == "Unsubscribe", fnName(fn), "only Unsubscribe is called on a messaging subscription ("+cf.Name()+")", p.InstrPos(call), "Unsubscribe", "the adapter alters the subscription ("+cf.Name()+"): a delivery limit or drain on a reply inbox lets a pre-response or an early message consume it, and the request then ends with a timeout instead of the service's reply")
			}
		}
		if n == 0 {
			c.viol("nats", "only Unsubscribe is called on a messaging subscription", "-", "no call on a nats.go subscription found")
		}
	}
	for _, nm := range []string{"(*nats.Client).SendRequest", "(*nats.Client).Subscribe"} {
		fn := p.Fn(nm)
		if fn == nil {
			c.undecided(nm, "anchor", "-", "not found")
			continue
		}
		guard := func(i *ssa.If) (bool, bool) {
			x, op, k, ok := cmpConst(i.Cond)
			if !ok || k < 4000 || k > 4096 {
				return false, false
			}
			// x must be built from len(...)
			isLen := false
			var walk func(v ssa.Value)
			walk = func(v ssa.Value) {
				switch y := v.(type) {
				case *ssa.BinOp:
					walk(y.X)
					walk(y.Y)
				case *ssa.Call:
					if b, ok := y.Call.Value.(*ssa.Builtin); ok && b.Name() == "len" {
						isLen = true
					}
				}
			}
			walk(x)
			if !isLen {
				return false, false
			}
			switch op {
			case token.GTR, token.GEQ:
				return false, true
			case token.LSS, token.LEQ:
				return true, true
			}
			return false, false
		}
		for _, call := range callsIn(fn) {
			f := calleeFunc(call.Common())
			if f == nil || (f.Name() != "ChanSubscribe" && f.Name() != "PublishRequest") {
				continue
			}
			c.inst(1)
			g := p.guardedBy(call, guard)
			c.check(g != nil, nm, "subject length checked against the control-line limit before "+f.Name(), p.InstrPos(call), "dominated by the length guard", "a subject that cannot fit a control line is handed to the NATS client (connection error instead of system.subjectTooLong)")
		}
	}
	// Connect: NoReconnect + ClosedHandler(onClose); one listener goroutine
	conn := p.Fn("(*nats.Client).Connect")
	if conn == nil {
		c.undecided("(*nats.Client).Connect", "anchor", "-", "not found")
		return
	}
	c.inst(1)
	hasNoRe, hasClosed, nListener := false, false, 0
	scan := []*ssa.Function{conn}
	for _, call := range callsIn(conn) {
		if sf := call.Common().StaticCallee(); sf != nil && p.isRepoFn(sf) && sf.Pkg == conn.Pkg {
			scan = append(scan, sf)
		}
	}
	var connCalls []ssa.CallInstruction
	for _, f := range scan {
		connCalls = append(connCalls, callsIn(f)...)
	}
	// conditional: the instruction lies behind some branch of its function (or, in a helper, the helper's call in Connect does)
	var conditional func(in ssa.Instruction, d int) bool
	conditional = func(in ssa.Instruction, d int) bool {
		b := in.Block()
		for _, blk := range b.Parent().Blocks {
			if blockIf(blk) == nil || blk == b {
				continue
			}
			for _, sx := range blk.Succs {
				if edgeDominates(blk, sx, b) {
					return true
				}
			}
		}
		if f := in.Parent(); f != conn && d < 2 {
			for _, call := range callsIn(conn) {
				if call.Common().StaticCallee() == f {
					return conditional(call, d+1)
				}
			}
		}
		return false
	}
	condClosed := false
	for _, call := range connCalls {
		if f := calleeFunc(call.Common()); f != nil {
			switch f.Name() {
			case "NoReconnect":
				hasNoRe = true
			case "ClosedHandler":
				if mc, ok := stripConv(call.Common().Args[0]).(*ssa.MakeClosure); ok && (strings.Contains(mc.Fn.Name(), "onClose") || callsStoredHandler(p, mc)) {
					hasClosed = true
					if conditional(call, 0) {
						condClosed = true
					}
				}
			}
		}
	}
	c.inst(1)
	c.check(!condClosed, fnName(conn), "the closed handler is registered with the connection unconditionally", p.Pos(conn.Pos()), "ClosedHandler(c.onClose) lies behind no branch",
		"the closed handler is registered only under a condition decided at Connect (e.g. whether a handler was set already): a handler set afterwards — the gateway sets it after Connect — is never told about the loss of the connection, the gateway keeps serving from a cache it cannot keep current")
	for _, fn := range p.Repo {
		allInstrs(fn, func(in ssa.Instruction) {
			if g, ok := in.(*ssa.Go); ok {
				if f := calleeFunc(g.Common()); f != nil && f.Name() == "listener" {
					nListener++
				}
			}
		})
	}
	c.check(hasNoRe && hasClosed && nListener == 1, fnName(conn), "no reconnect, closed handler installed, exactly one listener goroutine", p.Pos(conn.Pos()),
		"NoReconnect, ClosedHandler(c.onClose), one `go c.listener`", fmt.Sprintf("NoReconnect=%v ClosedHandler(onClose)=%v listeners=%d", hasNoRe, hasClosed, nListener))
	// close tears the adapter down whenever it was connected — also when the connection itself is already
	// closed (Stop after a connection loss): the listener is stopped and the pending timeouts are cleared, or a
	// timeout fires into the stopped cache later
	if cl := p.Fn("(*nats.Client).close"); cl != nil {
		fMq := p.Field("nats.Client.mq")
		fCh := p.Field("nats.Client.mqCh")
		c.inst(1)
		sp := &Spec{InlineHelpers: true}
		sp.Classify = func(t *Tracer, fr *Frame, in ssa.Instruction) []Ev {
			if call, ok := isBuiltinCall(in, "close"); ok {
				if f, _ := fieldLoad(t.Resolve(fr, call.Call.Args[0]).V); f == fCh && fCh != nil {
					return []Ev{{Kind: "listener-stopped"}}
				}
				if f, _ := fieldLoad(call.Call.Args[0]); f == fCh && fCh != nil {
					return []Ev{{Kind: "listener-stopped"}}
				}
			}
			if call, ok := in.(ssa.CallInstruction); ok {
				if cf := calleeFunc(call.Common()); cf != nil && cf.Pkg() != nil && strings.HasSuffix(cf.Pkg().Path(), "timerqueue") && (cf.Name() == "Clear" || cf.Name() == "Flush") {
					return []Ev{{Kind: "timeouts-cleared"}}
				}
			}
			return nil
		}
		sp.Branch = func(t *Tracer, fr *Frame, i *ssa.If, dir bool) []Ev {
			if x, nn, ok := nilTest(i, dir); ok {
				if f, _ := fieldLoad(t.Resolve(fr, x).V); f == fMq && fMq != nil {
					if nn {
						return []Ev{{Kind: "connected"}}
					}
					return []Ev{{Kind: "never-connected"}}
				}
			}
			return nil
		}
		tr := runTrace(p, cl, sp)
		bad := ""
		nConn := 0
		for _, path := range tr.Paths {
			if hasKind(path, "never-connected") {
				continue
			}
			nConn++
			if !hasKind(path, "listener-stopped") || !hasKind(path, "timeouts-cleared") {
				bad = "a path of close leaves a connected adapter's listener running or its pending timeouts armed (for example when the connection itself is already closed, as it is when Stop follows a connection loss): a request timeout later fires into the stopped cache: " + tr.FmtPath(path)
			}
		}
		if nConn == 0 {
			bad = "no path for a connected adapter found"
		}
		if tr.Trunc {
			bad = "path budget exhausted"
		}
		c.check(bad == "", fnName(cl), "close stops the listener and clears the pending timeouts whenever the adapter was connected", p.Pos(cl.Pos()), fmt.Sprintf("%d paths, %d for a connected adapter", len(tr.Paths), nConn), bad)
	}
	// onClose forwards to the close handler
	oc := p.Fn("(*nats.Client).onClose")
	if oc != nil {
		c.inst(1)
		fCH := p.Field("nats.Client.closeHandler")
		ok := false
		for _, call := range callsIn(oc) {
			if f, _ := fieldLoad(call.Common().Value); f == fCH {
				ok = true
			}
		}
		c.check(ok, fnName(oc), "loss of the server connection invokes the closed handler", p.Pos(oc.Pos()), "calls c.closeHandler", "closed handler is not invoked")
		// ... on every path: the only way not to call it is that none is set. (The adapter's own Close after a
		// slow-consumer error clears the connection field before this callback runs; a filter on "is this still
		// the current connection" would swallow exactly that loss.)
		c.inst(1)
		sp := &Spec{}
		sp.Classify = func(t *Tracer, fr *Frame, in ssa.Instruction) []Ev {
			if call, isC := in.(ssa.CallInstruction); isC {
				if f, _ := fieldLoad(t.Resolve(fr, call.Common().Value).V); f != nil && f == fCH {
					return []Ev{{Kind: "handler"}}
				}
			}
			if _, isR := in.(*ssa.Return); isR && fr == t.RootFr {
				return []Ev{{Kind: "return"}}
			}
			return nil
		}
		sp.Branch = func(t *Tracer, fr *Frame, i *ssa.If, dir bool) []Ev {
			if x, nonNil, isN := nilTest(i, dir); isN && !nonNil {
				if f, _ := fieldLoad(x); f == fCH {
					return []Ev{{Kind: "no-handler"}}
				}
			}
			return nil
		}
		tr := runTrace(p, oc, sp)
		bad := ""
		for _, path := range tr.Paths {
			if hasKind(path, "return") && !hasKind(path, "handler") && !hasKind(path, "no-handler") {
				bad = "a path of the connection-closed callback returns without invoking the closed handler although one may be set: the gateway keeps serving from a cache it can no longer update: " + tr.FmtPath(path)
			}
		}
		c.check(bad == "", fnName(oc), "every loss of the server connection reaches the closed handler", p.Pos(oc.Pos()), fmt.Sprintf("%d paths", len(tr.Paths)), bad)
	}
}

// ---------------------------------------------------------------------------
// C20: ordered, fail-stop shutdown

func ruleStop(c *Ctx) {
	p := c.P
	stop := p.Fn("(*server.Service).Stop")
	if stop == nil {
		c.undecided("(*server.Service).Stop", "anchor", "-", "not found")
		return
	}
	fStopping := p.Field("server.Service.stopping")
	fStop := p.Field("server.Service.stop")
	order := []string{"stopMetricsServer", "stopWSHandler", "stopHTTPServer", "stopMQClient"}
	{
		c.inst(1)
		sp := &Spec{}
		sp.Classify = func(t *Tracer, fr *Frame, in ssa.Instruction) []Ev {
			if k, ok := isMutexCall(in); ok {
				return []Ev{{Kind: k}}
			}
			if st, ok := isStoreToT(t, fr, in, fStopping); ok {
				if b, ok := constBool(st.Val); ok {
					return []Ev{{Kind: fmt.Sprintf("stopping=%v", b)}}
				}
			}
			if st, ok := isStoreToT(t, fr, in, fStop); ok && isNilConst(st.Val) {
				return []Ev{{Kind: "stop=nil"}}
			}
			if s, ok := in.(*ssa.Send); ok {
				if f, _ := fieldLoad(s.Chan); f == fStop {
					return []Ev{{Kind: "send"}}
				}
			}
			if call, ok := isBuiltinCall(in, "close"); ok {
				if f, _ := fieldLoad(call.Call.Args[0]); f == fStop {
					return []Ev{{Kind: "close"}}
				}
			}
			if call, ok := in.(ssa.CallInstruction); ok {
				if f := calleeFunc(call.Common()); f != nil {
					for _, o := range order {
						if f.Name() == o {
							return []Ev{{Kind: o, Stop: true}}
						}
					}
				}
			}
			return nil
		}
		sp.Branch = func(t *Tracer, fr *Frame, i *ssa.If, dir bool) []Ev {
			v, neg := i.Cond, false
			if u, ok := v.(*ssa.UnOp); ok && u.Op == token.NOT {
				v, neg = u.X, true
			}
			if f, _ := fieldLoad(v); f != nil && f == fStopping && dir != neg {
				return []Ev{{Kind: "early"}}
			}
			if x, nn, ok := nilTest(i, dir); ok && !nn {
				if f, _ := fieldLoad(x); f == fStop {
					return []Ev{{Kind: "early"}}
				}
			}
			return nil
		}
		sp.InlineHelpers = true
		tr := runTrace(p, stop, sp)
		bad := ""
		full := 0
		for _, path := range tr.Paths {
			if hasKind(path, "early") {
				if hasKind(path, "stopMQClient") || hasKind(path, "send") {
					bad = "a second Stop proceeds while one is running: " + tr.FmtPath(path)
				}
				continue
			}
			full++
			seq := append([]string{"stopping=true"}, order...)
			seq = append(seq, "send", "close", "stop=nil", "stopping=false")
			last := -1
			for _, k := range seq {
				i := indexKind(path, k)
				if i < 0 || countKind(path, k) != 1 {
					bad = "shutdown step " + k + " missing or repeated: " + tr.FmtPath(path)
					break
				}
				if i < last {
					bad = "shutdown step " + k + " out of order (sockets must be closed before the messaging client, the cause reported last): " + tr.FmtPath(path)
					break
				}
				last = i
			}
			// stopping=true and the final block under s.mu
			if li := indexKind(path, "lock"); li < 0 || li > indexKind(path, "stopping=true") {
				bad = "stopping flag set outside the service mutex: " + tr.FmtPath(path)
			}
			// the cause is reported in the critical section that also returns the service to "not running":
			// whoever reacts to the stop channel with Start must find stop == nil and stopping == false
			if si, ei := indexKind(path, "send"), indexKind(path, "stopping=false"); si >= 0 && ei > si {
				depth := 0
				for _, e := range path[:si] {
					switch e.Kind {
					case "lock":
						depth++
					case "unlock":
						depth--
					}
				}
				cut := false
				for _, e := range path[si:ei] {
					if e.Kind == "lock" || e.Kind == "unlock" {
						cut = true
					}
				}
				if depth < 1 || cut {
					bad = "the cause is put on the stop channel outside the critical section that clears stop/stopping: a Start issued in reaction to the stop finds the service still marked running and does nothing — the gateway stays stopped: " + tr.FmtPath(path)
				}
			}
		}
		if full == 0 {
			bad = "no full shutdown path"
		}
		c.check(bad == "", fnName(stop), "ordered shutdown: metrics, sockets, HTTP, messaging, then the cause on the stop channel", p.Pos(stop.Pos()), fmt.Sprintf("%d paths (%d full)", len(tr.Paths), full), bad)
	}
	// stopMQClient: close the mq, then stop the cache
	if fn := p.Fn("(*server.Service).stopMQClient"); fn != nil {
		c.inst(1)
		mqClose := p.Method("mq.Client.Close")
		cacheStop := p.Method("rescache.Cache.Stop")
		sp := &Spec{}
		sp.Classify = func(t *Tracer, fr *Frame, in ssa.Instruction) []Ev {
			if _, ok := isCallTo(in, mqClose); ok {
				return []Ev{{Kind: "mq.Close"}}
			}
			if _, ok := isCallTo(in, cacheStop); ok {
				return []Ev{{Kind: "cache.Stop", Stop: true}}
			}
			if _, ok := in.(*ssa.Select); ok {
				return []Ev{{Kind: "select"}}
			}
			return nil
		}
		sp.InlineHelpers = true
		sp.Inline = func(t *Tracer, fr *Frame, cl ssa.CallInstruction, f *ssa.Function) bool {
			if f.Parent() != nil {
				return true
			}
			// `go s.closeMQ(done)`: the closing goroutine as a named method
			_, isGo := cl.(*ssa.Go)
			return isGo && f.Pkg == fn.Pkg && t.interesting(f, 0)
		}
		tr := runTrace(p, fn, sp)
		bad := ""
		for _, path := range tr.Paths {
			a, s, b := indexKind(path, "mq.Close"), indexKind(path, "select"), indexKind(path, "cache.Stop")
			if a < 0 || b < 0 || s < 0 || !(a < b && s < b) {
				bad = "messaging client must be closed (bounded by the timeout select) before the cache workers stop: " + tr.FmtPath(path)
			}
			for _, e := range path {
				if e.Kind == "mq.Close" && !e.Fr.In(func(f *Frame) bool { return f.Async }) {
					bad = "mq.Close is awaited on the stopping goroutine without a timeout: " + tr.FmtPath(path)
				}
			}
		}
		c.check(bad == "", fnName(fn), "messaging closed (bounded wait) before the cache stops", p.Pos(fn.Pos()), fmt.Sprintf("%d paths", len(tr.Paths)), bad)
	}
	// Cache.Stop does its clean-up on the started path
	if fn := p.Fn("(*rescache.Cache).Stop"); fn != nil {
		c.inst(1)
		fStarted := p.Field("rescache.Cache.started")
		fInCh := p.Field("rescache.Cache.inCh")
		fUQ := p.Field("rescache.Cache.unsubQueue")
		sp := &Spec{}
		sp.Classify = func(t *Tracer, fr *Frame, in ssa.Instruction) []Ev {
			if call, ok := isBuiltinCall(in, "close"); ok {
				if f, _ := fieldLoad(call.Call.Args[0]); f == fInCh {
					return []Ev{{Kind: "close(inCh)"}}
				}
			}
			if call, ok := in.(ssa.CallInstruction); ok {
				if f := calleeFunc(call.Common()); f != nil && f.Name() == "Clear" {
					if fl, _ := fieldLoad(callArgs(call.Common())[0]); fl == fUQ {
						return []Ev{{Kind: "unsubQueue.Clear"}}
					}
				}
			}
			if st, ok := isStoreToT(t, fr, in, fStarted); ok {
				if b, ok := constBool(st.Val); ok && !b {
					return []Ev{{Kind: "started=false"}}
				}
			}
			return nil
		}
		sp.Branch = func(t *Tracer, fr *Frame, i *ssa.If, dir bool) []Ev {
			if f, _ := fieldLoad(i.Cond); f == fStarted && !dir {
				return []Ev{{Kind: "notstarted"}}
			}
			return nil
		}
		sp.Inline = func(t *Tracer, fr *Frame, cl ssa.CallInstruction, f *ssa.Function) bool {
			return f.Pkg != nil && f.Pkg.Pkg.Name() == "rescache"
		}
		tr := runTrace(p, fn, sp)
		bad := ""
		for _, path := range tr.Paths {
			if hasKind(path, "notstarted") {
				continue
			}
			for _, k := range []string{"close(inCh)", "unsubQueue.Clear", "started=false"} {
				if countKind(path, k) != 1 {
					bad = "Cache.Stop leaves " + k + " undone: pending evictions or workers survive into the next Start: " + tr.FmtPath(path)
				}
			}
		}
		c.check(bad == "", fnName(fn), "workers stopped, pending evictions cleared, restartable", p.Pos(fn.Pos()), fmt.Sprintf("%d paths", len(tr.Paths)), bad)
	}
	// Stop and connection loss close every client socket themselves: Disconnect closes the socket on every
	// path on which there is one (it does not wait for the client to finish a closing handshake)
	if fn := p.Fn("(*server.wsConn).Disconnect"); fn != nil {
		c.inst(1)
		fWS := p.Field("server.wsConn.ws")
		sp := &Spec{}
		sp.Classify = func(t *Tracer, fr *Frame, in ssa.Instruction) []Ev {
			if call, ok := in.(ssa.CallInstruction); ok {
				if cf := calleeFunc(call.Common()); cf != nil && cf.Name() == "Close" && cf.Pkg() != nil && strings.Contains(cf.Pkg().Path(), "websocket") {
					return []Ev{{Kind: "close"}}
				}
			}
			if _, ok := in.(*ssa.Return); ok && fr == t.RootFr {
				return []Ev{{Kind: "return"}}
			}
			return nil
		}
		sp.Branch = func(t *Tracer, fr *Frame, i *ssa.If, dir bool) []Ev {
			if x, nn, ok := nilTest(i, dir); ok && !nn {
				if f, _ := fieldLoad(x); f != nil && f == fWS {
					return []Ev{{Kind: "no-socket"}}
				}
			}
			return nil
		}
		tr := runTrace(p, fn, sp)
		bad := ""
		for _, path := range tr.Paths {
			if hasKind(path, "return") && !hasKind(path, "close") && !hasKind(path, "no-socket") {
				bad = "a path of Disconnect leaves the socket open (it relies on the client to end the connection): a client that does not answer keeps its socket, Stop runs into its timeout and the gateway keeps reading that client's requests after it stopped: " + tr.FmtPath(path)
			}
		}
		c.check(bad == "", fnName(fn), "Disconnect closes the socket on every path", p.Pos(fn.Pos()), fmt.Sprintf("%d paths", len(tr.Paths)), bad)
	}
	// new connections refused while stopped/stopping
	if fn := p.Fn("(*server.Service).newWSConn"); fn != nil {
		fConns := p.Field("server.Service.conns")
		wsT := p.Named("server.wsConn")
		guard := func(i *ssa.If) (bool, bool) {
			// `s.stop == nil || s.stopping` lowered to two Ifs: accept either test, false edge
			if f, _ := fieldLoad(i.Cond); f == fStopping {
				return false, true
			}
			return false, false
		}
		guard2 := func(i *ssa.If) (bool, bool) {
			for _, d := range []bool{true, false} {
				if x, nn, ok := nilTest(i, d); ok && nn {
					if f, _ := fieldLoad(x); f == fStop {
						return d, true
					}
				}
			}
			return false, false
		}
		allInstrs(fn, func(in ssa.Instruction) {
			isReg := false
			if mu, ok := in.(*ssa.MapUpdate); ok {
				if f, _ := fieldLoad(mu.Map); f == fConns {
					isReg = true
				}
			}
			if al, ok := in.(*ssa.Alloc); ok && al.Heap && wsT != nil {
				if pt, ok := al.Type().(*types.Pointer); ok && types.Identical(pt.Elem(), wsT) {
					isReg = true
				}
			}
			if g, ok := in.(*ssa.Go); ok {
				_ = g
				isReg = true
			}
			if !isReg {
				return
			}
			c.inst(1)
			g1, g2 := p.guardedBy(in, guard), p.guardedBy(in, guard2)
			c.check(g1 != nil && g2 != nil, fnName(fn), "no connection is created or registered once the service is stopped or stopping", p.InstrPos(in), "dominated by stop != nil and !stopping", "a connection can be accepted during shutdown")
		})
	}
	// closed handler plumbing
	if fn := p.Fn("(*server.Service).startMQClient"); fn != nil {
		c.inst(1)
		setCH := p.Method("mq.Client.SetClosedHandler")
		ok, direct := false, false
		for _, call := range callsIn(fn) {
			if _, is := isCallTo(call, setCH); is {
				if mc, isMC := stripConv(callArgs(call.Common())[1]).(*ssa.MakeClosure); isMC {
					if strings.Contains(mc.Fn.Name(), "handleClosedMQ") {
						ok = true
					}
					// the Stop method itself as handler
					if bm := boundMethod(mc.Fn.(*ssa.Function)); bm != nil && bm.Name() == "Stop" {
						ok, direct = true, true
					}
				}
			}
		}
		h := p.Fn("(*server.Service).handleClosedMQ")
		ok2 := direct
		if h != nil {
			for _, call := range callsIn(h) {
				if f := calleeFunc(call.Common()); f != nil && f.Name() == "Stop" {
					if prm, isP := callArgs(call.Common())[1].(*ssa.Parameter); isP && prm.Name() == "err" {
						ok2 = true
					}
				}
			}
		}
		c.check(ok && ok2, fnName(fn), "loss of the messaging connection stops the service with the cause", p.Pos(fn.Pos()), "SetClosedHandler(s.handleClosedMQ); handleClosedMQ calls Stop(err)", fmt.Sprintf("handler installed=%v, handler stops with the error=%v", ok, ok2))
	}
}

// ---------------------------------------------------------------------------
// C11: disconnect cleanup

func ruleDispose(c *Ctx) {
	p := c.P
	fn := p.Fn("(*server.wsConn).dispose")
	if fn == nil {
		c.undecided("(*server.wsConn).dispose", "anchor", "-", "not found")
		return
	}
	fDisp := p.Field("server.wsConn.disposing")
	fWork := p.Field("server.wsConn.work")
	fSubs := p.Field("server.wsConn.subs")
	fConns := p.Field("server.Service.conns")
	removeConn := p.Method("rescache.Cache.RemoveConn")
	unsubConn := p.Method("server.wsConn.unsubscribeConn")
	subDispose := p.Method("server.Subscription.Dispose")
	{
		c.inst(1)
		sp := &Spec{}
		sp.Classify = func(t *Tracer, fr *Frame, in ssa.Instruction) []Ev {
			if k, ok := isMutexCall(in); ok {
				return []Ev{{Kind: k}}
			}
			if st, ok := isStoreToT(t, fr, in, fDisp); ok {
				if b, ok := constBool(st.Val); ok && b {
					return []Ev{{Kind: "disposing=true"}}
				}
			}
			if call, ok := isBuiltinCall(in, "close"); ok {
				if f, _ := fieldLoad(call.Call.Args[0]); f == fWork {
					return []Ev{{Kind: "close(work)"}}
				}
			}
			if _, ok := isCallTo(in, removeConn); ok {
				return []Ev{{Kind: "RemoveConn", Stop: true}}
			}
			if _, ok := isCallTo(in, unsubConn); ok {
				return []Ev{{Kind: "unsubscribeConn", Stop: true}}
			}
			if _, ok := isCallTo(in, subDispose); ok {
				return []Ev{{Kind: "sub.Dispose", Stop: true}}
			}
			if r, ok := in.(*ssa.Range); ok {
				if f, _ := fieldLoad(t.Resolve(fr, r.X).V); f == fSubs {
					return []Ev{{Kind: "range-subs"}}
				}
			}
			if call, ok := in.(ssa.CallInstruction); ok {
				if f := calleeFunc(call.Common()); f != nil && f.Name() == "Done" && f.Pkg() != nil && f.Pkg().Path() == "sync" {
					return []Ev{{Kind: "wg.Done"}}
				}
			}
			if call, ok := isBuiltinCall(in, "delete"); ok {
				if f, _ := fieldLoad(call.Call.Args[0]); f == fConns {
					return []Ev{{Kind: "delete(conns)"}}
				}
			}
			return nil
		}
		sp.Branch = func(t *Tracer, fr *Frame, i *ssa.If, dir bool) []Ev {
			if f, _ := fieldLoad(i.Cond); f == fDisp && dir {
				return []Ev{{Kind: "already"}}
			}
			if e, ok := i.Cond.(*ssa.Extract); ok && e.Index == 0 {
				if _, ok := e.Tuple.(*ssa.Next); ok && dir {
					return []Ev{{Kind: "iter"}}
				}
			}
			return nil
		}
		sp.InlineHelpers = true
		tr := runTrace(p, fn, sp)
		bad := ""
		for _, path := range tr.Paths {
			if hasKind(path, "already") {
				continue
			}
			for _, k := range []string{"disposing=true", "close(work)", "RemoveConn", "unsubscribeConn", "range-subs", "wg.Done", "delete(conns)"} {
				if countKind(path, k) != 1 {
					bad = "dispose step " + k + " missing or repeated: " + tr.FmtPath(path)
				}
			}
			if countKind(path, "iter") != countKind(path, "sub.Dispose") {
				bad = "a subscription of the connection is not disposed: " + tr.FmtPath(path)
			}
			// flag and close inside one critical section
			l, d, cl, u := indexKind(path, "lock"), indexKind(path, "disposing=true"), indexKind(path, "close(work)"), indexKind(path, "unlock")
			if !(l >= 0 && l < d && d < u && l < cl && cl < u) {
				bad = "disposing flag and worker channel close are not in one critical section of the connection mutex (Enqueue could send on the closed channel): " + tr.FmtPath(path)
			}
			// the wait-group release is what Stop waits for before it closes the messaging client and the cache:
			// it comes after everything the connection still does with them
			wg := indexKind(path, "wg.Done")
			for _, k := range []string{"RemoveConn", "unsubscribeConn", "sub.Dispose", "range-subs"} {
				for j, e := range path {
					if e.Kind == k && j > wg && wg >= 0 {
						bad = "the connection reports itself done (wg.Done, which releases Stop) before " + k + ": Stop goes on to close the messaging client and the cache workers while the connection is still releasing its subscriptions (send on the closed worker channel): " + tr.FmtPath(path)
					}
				}
			}
		}
		c.check(bad == "", fnName(fn), "dispose releases everything: flag+close under the mutex, cache conn, conn events, every subscription, wait group, registry", p.Pos(fn.Pos()), fmt.Sprintf("%d paths", len(tr.Paths)), bad)
	}
	// Enqueue refuses a task for one reason only: the connection is disposing. (The clean-up of a closed
	// connection is itself a task handed to Enqueue: any other refusal can refuse the clean-up.)
	if f := p.Fn("(*server.wsConn).Enqueue"); f != nil {
		c.inst(1)
		sp := &Spec{}
		sp.Classify = func(t *Tracer, fr *Frame, in ssa.Instruction) []Ev {
			if r, ok := in.(*ssa.Return); ok && fr == t.RootFr && len(r.Results) == 1 {
				if b, isC := constBool(t.Resolve(fr, r.Results[0]).V); isC && !b {
					return []Ev{{Kind: "refuse"}}
				}
				return []Ev{{Kind: "accept"}}
			}
			return nil
		}
		sp.Branch = func(t *Tracer, fr *Frame, i *ssa.If, dir bool) []Ev {
			if fr != t.RootFr {
				return nil
			}
			v := i.Cond
			if u, ok := v.(*ssa.UnOp); ok && u.Op == token.NOT {
				v = u.X
			}
			if fl, _ := fieldLoad(v); fl != nil && fl == fDisp {
				return []Ev{{Kind: "disposing?"}}
			}
			if t.DecidedInHelper(i) {
				return nil
			}
			return []Ev{{Kind: "other", Note: p.InstrPos(i)}}
		}
		tr := runTrace(p, f, sp)
		bad := ""
		for _, path := range tr.Paths {
			if !hasKind(path, "refuse") {
				continue
			}
			last := ""
			for _, e := range path {
				if e.Kind == "disposing?" || e.Kind == "other" {
					last = e.Kind
				}
			}
			if last != "disposing?" {
				bad = "a task is refused although the connection is not disposing: the task may be the connection's own clean-up (Dispose hands dispose() to Enqueue), which then never runs — its subscriptions, its conn-event subscription and its place in the token-reset fan-out stay: " + tr.FmtPath(path)
			}
		}
		c.check(bad == "", fnName(f), "a task is refused only when the connection is disposing", p.Pos(f.Pos()), fmt.Sprintf("%d paths", len(tr.Paths)), bad)
	}
	// Enqueue refuses after dispose; Subscribe/Unsubscribe/UnsubscribeByRID are no-ops
	enq := p.Method("server.wsConn.enqueue")
	for _, nm := range []string{"(*server.wsConn).Enqueue", "(*server.wsConn).Subscribe", "(*server.wsConn).Unsubscribe", "(*server.wsConn).UnsubscribeByRID"} {
		f := p.Fn(nm)
		if f == nil {
			c.undecided(nm, "anchor", "-", "not found")
			continue
		}
		for _, call := range callsIn(f) {
			cf := calleeFunc(call.Common())
			if cf == nil || !(cf == enq || cf.Name() == "subscribe" || cf.Name() == "removeCount") {
				continue
			}
			c.inst(1)
			g := p.guardedBy(call, boolFieldGuard(fDisp, false))
			c.check(g != nil, nm, "no work accepted for a disposing connection", p.InstrPos(call), "dominated by !c.disposing", "a disposed connection still accepts tasks / subscriptions")
		}
	}
	// Subscription.Dispose
	if f := p.Fn("(*server.Subscription).Dispose"); f != nil {
		c.inst(1)
		fState := p.Field("server.Subscription.state")
		fRS := p.Field("server.Subscription.resourceSub")
		unsubRefs := p.Method("server.Subscription.unsubscribeRefs")
		rsUnsub := p.Method("rescache.ResourceSubscription.Unsubscribe")
		sp := &Spec{}
		sp.Classify = func(t *Tracer, fr *Frame, in ssa.Instruction) []Ev {
			if st, ok := isStoreToT(t, fr, in, fState); ok {
				if k, ok := constInt(st.Val); ok && k == 0 {
					return []Ev{{Kind: "state=disposed"}}
				}
			}
			if st, ok := isStoreToT(t, fr, in, fRS); ok && isNilConst(st.Val) {
				return []Ev{{Kind: "resourceSub=nil"}}
			}
			if _, ok := isCallTo(in, unsubRefs); ok {
				return []Ev{{Kind: "unsubscribeRefs", Stop: true}}
			}
			if _, ok := isCallTo(in, rsUnsub); ok {
				return []Ev{{Kind: "cache-release"}}
			}
			return nil
		}
		sp.Branch = func(t *Tracer, fr *Frame, i *ssa.If, dir bool) []Ev {
			if x, op, k, ok := cmpConst(i.Cond); ok {
				if fl, _ := fieldLoad(x); fl == fState && k == 0 && (op == token.EQL) == dir {
					return []Ev{{Kind: "already"}}
				}
				// state != stateDeleted on the saved state
				if k == 6 {
					if (op == token.NEQ) == dir {
						return []Ev{{Kind: "notdeleted"}}
					}
					return []Ev{{Kind: "deleted"}}
				}
			}
			if x, nn, ok := nilTest(i, dir); ok {
				if fl, _ := fieldLoad(x); fl == fRS {
					if nn {
						return []Ev{{Kind: "loaded"}}
					}
					return []Ev{{Kind: "notloaded"}}
				}
			}
			return nil
		}
		tr := runTrace(p, f, sp)
		bad := ""
		for _, path := range tr.Paths {
			if hasKind(path, "already") {
				continue
			}
			if !hasKind(path, "state=disposed") {
				bad = "state not set to disposed: " + tr.FmtPath(path)
			}
			if hasKind(path, "loaded") {
				if !hasKind(path, "unsubscribeRefs") || !hasKind(path, "resourceSub=nil") {
					bad = "references or the resource handle are not released: " + tr.FmtPath(path)
				}
				if hasKind(path, "notdeleted") && countKind(path, "cache-release") != 1 {
					bad = "cache use is not released exactly once: " + tr.FmtPath(path)
				}
				if hasKind(path, "deleted") && hasKind(path, "cache-release") {
					bad = "cache use released although the delete event already released it: " + tr.FmtPath(path)
				}
			}
		}
		c.check(bad == "", fnName(f), "Dispose marks disposed, releases references and exactly one cache use", p.Pos(f.Pos()), fmt.Sprintf("%d paths", len(tr.Paths)), bad)
	}
}

// C11.5 (F10): no request on behalf of a disposed connection from deferred continuations
func rulePostDispose(c *Ctx) {
	p := c.P
	fDisp := p.Field("server.wsConn.disposing")
	targets := []*types.Func{p.Method("rescache.Cache.Call"), p.Method("rescache.Cache.CustomAuth")}
	type site struct{ key, why string }
	exceptions := map[string]string{
		"(*server.wsConn).CallHTTPResource": "temporary HTTP connection: disposed only by its own response writer, after this continuation",
	}
	for _, fn := range p.Repo {
		if fn.Pkg == nil || fn.Pkg.Pkg.Name() != "server" {
			continue
		}
		if fn.Parent() == nil {
			// a named function that sends the request: each call of it from deferred code (a closure) is
			// held to the same rule, unless the function itself tests the flag first
			for _, call := range callsIn(fn) {
				if _, ok := isCallTo(call, targets...); !ok {
					continue
				}
				if p.guardedByNow(call, boolFieldGuard(fDisp, false)) != nil {
					continue
				}
				if _, ok := exceptions[fnName(fn)]; ok {
					continue
				}
				if n := p.CG.Nodes[fn]; n != nil {
					for _, e := range n.In {
						cf := e.Caller.Func
						if cf == nil || cf.Parent() == nil || e.Site == nil || !p.isRepoFn(cf) || e.Site.Common().StaticCallee() != fn {
							continue
						}
						if why, ok := exceptions[fnName(TopLevel(cf))]; ok {
							// a phase of an excepted function split off into a named method: same exception
							c.inst(1)
							c.ok(fnName(cf)+" → "+fnName(fn), "no request after dispose", p.InstrPos(e.Site), "exception: "+why)
							continue
						}
						c.inst(1)
						c.check(p.guardedByNow(e.Site, boolFieldGuard(fDisp, false)) != nil, fnName(cf)+" → "+fnName(fn), "no request after dispose", p.InstrPos(e.Site), "call of the requesting function dominated by !c.disposing in the continuation", "a continuation (service answer, queued task) issues a service request on the connection's behalf after it was disposed")
					}
				}
			}
			continue
		}
		for _, call := range callsIn(fn) {
			if _, ok := isCallTo(call, targets...); !ok {
				continue
			}
			c.inst(1)
			top := fnName(TopLevel(fn))
			name := fnName(fn)
			// obligation key is the continuation that holds the request
			key := top + "$1"
			what := "no request after dispose"
			if why, ok := exceptions[top]; ok {
				c.ok(key, what, p.InstrPos(call), "exception: "+why)
				continue
			}
			g := p.guardedByNow(call, boolFieldGuard(fDisp, false))
			_ = name
			c.check(g != nil, key, what, p.InstrPos(call), "request dominated by !c.disposing in the continuation", "a continuation queued before the connection was disposed issues a service request on its behalf afterwards")
		}
	}
}

// C11.6: temporary HTTP connections are disposed exactly once on every exit
func ruleTempConn(c *Ctx) {
	p := c.P
	fn := p.Fn("(*server.Service).temporaryConn")
	if fn == nil {
		c.undecided("(*server.Service).temporaryConn", "anchor", "-", "not found")
		return
	}
	dispose := p.Method("server.wsConn.dispose")
	isDirect := p.Method("codec.Meta.IsDirectResponseStatus")
	c.inst(1)
	sp := &Spec{}
	sp.Classify = func(t *Tracer, fr *Frame, in ssa.Instruction) []Ev {
		if _, ok := isCallTo(in, dispose); ok {
			return []Ev{{Kind: "dispose", Stop: true}}
		}
		if _, ok := isBuiltinCall(in, "close"); ok {
			return []Ev{{Kind: "close(done)"}}
		}
		if call, ok := in.(ssa.CallInstruction); ok && !call.Common().IsInvoke() && call.Common().StaticCallee() == nil {
			if _, isB := call.Common().Value.(*ssa.Builtin); !isB {
				r := t.Resolve(fr, call.Common().Value)
				if r.Fr == t.RootFr {
					if prm, isP := r.V.(*ssa.Parameter); isP && prm.Name() == "cb" {
						return []Ev{{Kind: "cb"}}
					}
				}
			}
		}
		if u, ok := in.(*ssa.UnOp); ok && u.Op == token.ARROW {
			return []Ev{{Kind: "wait"}}
		}
		if call, ok := in.(ssa.CallInstruction); ok {
			// an error response: a repository function that writes the response status (httpError, s.writeError, ...)
			if sf := call.Common().StaticCallee(); sf != nil && p.isRepoFn(sf) && sf.Parent() == nil && p.writesResponse(sf, 0) && !takesRequestCB(t, fr, call) {
				return []Ev{{Kind: "httpError", Stop: true}}
			}
		}
		return nil
	}
	sp.Branch = func(t *Tracer, fr *Frame, i *ssa.If, dir bool) []Ev {
		if call, ok := i.Cond.(*ssa.Call); ok && calleeFunc(&call.Call) == isDirect && dir {
			return []Ev{{Kind: "direct"}}
		}
		return nil
	}
	sp.Inline = func(t *Tracer, fr *Frame, cl ssa.CallInstruction, f *ssa.Function) bool {
		return f.Parent() != nil || takesRequestCB(t, fr, cl)
	}
	// the response writer rs is handed to cb: model "cb(c, rs)" as running rs once
	tr := runTrace(p, fn, sp)
	bad := ""
	// 1. paths of the function itself
	for _, path := range tr.Paths {
		if !hasKind(path, "wait") {
			if !hasKind(path, "httpError") {
				bad = "request ends without a response and without waiting: " + tr.FmtPath(path)
			}
			continue
		}
		if hasKind(path, "drop:Enqueue") {
			continue
		}
		if hasKind(path, "cb") {
			continue // response written by rs (checked below)
		}
		if countKind(path, "dispose") != 1 || countKind(path, "close(done)") != 1 {
			bad = "exit without the callback must dispose the temporary connection and release the waiting handler exactly once: " + tr.FmtPath(path)
		}
	}
	// 2. the response writer handed to the callback (a closure or a bound method): every path disposes and closes exactly once
	var writers []*ssa.Function
	for _, g := range p.withHelpers(fn) {
		for _, call := range callsIn(g) {
			com := call.Common()
			if com.IsInvoke() || com.StaticCallee() != nil {
				continue
			}
			if _, isB := com.Value.(*ssa.Builtin); isB {
				continue
			}
			for _, a := range com.Args {
				for _, wf := range p.closuresHeld(a, 0) {
					if wf.Synthetic != "" {
						if m := boundMethod(wf); m != nil {
							if f2 := p.SSA.FuncValue(m); f2 != nil {
								wf = f2
							}
						}
					}
					if p.isRepoFn(wf) && wf.Signature.Params().Len() >= 3 {
						writers = append(writers, wf)
					}
				}
			}
		}
	}
	if len(writers) == 0 {
		bad = "response writer handed to the request callback not found"
	}
	for _, rs := range writers {
		tr2 := runTrace(p, rs, sp)
		for _, path := range tr2.Paths {
			if countKind(path, "dispose") != 1 || countKind(path, "close(done)") != 1 {
				bad = fmt.Sprintf("response writer disposes %d times and releases the handler %d times on a path (want 1/1): %s", countKind(path, "dispose"), countKind(path, "close(done)"), tr2.FmtPath(path))
			}
		}
		if len(tr2.Paths) == 0 {
			bad = "response writer has no normal path"
		}
	}
	c.check(bad == "", fnName(fn), "temporary connection disposed and the HTTP handler released exactly once on every exit", p.Pos(fn.Pos()), fmt.Sprintf("%d paths", len(tr.Paths)), bad)
}

// natsRoles resolves the adapter's pending-request bookkeeping by role rather
// than by name: the map of pending entries, and in its element type the
// completion (the field of type mq.Response) and the request flag (the bool).
func natsRoles(p *Prog) (reqs, completion, isReq *types.Var) {
	reqs = p.Field("nats.Client.mqReqs")
	if reqs == nil {
		// the only map-typed field of Client whose values point to a struct holding an mq.Response
		if n := p.Named("nats.Client"); n != nil {
			st := n.Underlying().(*types.Struct)
			for i := 0; i < st.NumFields(); i++ {
				if _, ok := st.Field(i).Type().Underlying().(*types.Map); ok {
					reqs = st.Field(i)
				}
			}
		}
	}
	if reqs == nil {
		return
	}
	m, ok := reqs.Type().Underlying().(*types.Map)
	if !ok {
		return
	}
	et := m.Elem()
	if pt, ok := et.(*types.Pointer); ok {
		et = pt.Elem()
	}
	st, ok := et.Underlying().(*types.Struct)
	if !ok {
		return
	}
	for i := 0; i < st.NumFields(); i++ {
		f := st.Field(i)
		if _, isSig := f.Type().Underlying().(*types.Signature); isSig {
			completion = f
		}
		if b, isB := f.Type().Underlying().(*types.Basic); isB && b.Kind() == types.Bool {
			isReq = f
		}
	}
	return
}

// writesResponse: the function (or a repository function it calls, three
// levels deep) calls WriteHeader on an http.ResponseWriter.
func (p *Prog) writesResponse(f *ssa.Function, depth int) bool {
	if depth > 3 {
		return false
	}
	for _, call := range callsIn(f) {
		com := call.Common()
		if com.IsInvoke() && com.Method.Name() == "WriteHeader" && strings.HasSuffix(com.Value.Type().String(), "net/http.ResponseWriter") {
			return true
		}
		if sf := com.StaticCallee(); sf != nil && p.isRepoFn(sf) && sf != f && p.writesResponse(sf, depth+1) {
			return true
		}
	}
	return false
}

// CTX/async-completion (C18, C13): the messaging client's contract is that
// the completion of SendRequest runs on another goroutine, never on the
// caller's stack — callers send requests with their own mutex held (the
// cache worker holds the event subscription's mutex in handleQueryEvent) and
// the completion takes that mutex. In the adapter's SendRequest every call
// of the completion parameter made by the function itself is a go statement.
func ruleAsyncCompletion(c *Ctx) {
	p := c.P
	fn := p.Fn("(*nats.Client).SendRequest")
	if fn == nil {
		c.undecided("(*nats.Client).SendRequest", "anchor", "-", "not found")
		return
	}
	var cb *ssa.Parameter
	for _, prm := range fn.Params {
		if _, ok := prm.Type().Underlying().(*types.Signature); ok {
			cb = prm
		}
	}
	if cb == nil {
		c.undecided("(*nats.Client).SendRequest", "anchor", "-", "no completion parameter")
		return
	}
	n := 0
	// the function body and the helpers it calls synchronously with the completion as argument
	var scan func(f *ssa.Function, prm ssa.Value, depth int)
	scan = func(f *ssa.Function, prm ssa.Value, depth int) {
		if depth > 3 {
			return
		}
		for _, call := range callsIn(f) {
			com := call.Common()
			if com.Value == prm && !com.IsInvoke() {
				n++
				c.inst(1)
				_, isGo := call.(*ssa.Go)
				c.check(isGo, fnName(f), "the completion is never run on the caller's stack", p.InstrPos(call), "go statement", "the completion is called synchronously inside SendRequest: a caller that sends with its own mutex held (handleQueryEvent holds the event subscription's mutex; the completion takes it) deadlocks on itself")
				continue
			}
			if _, isGo := call.(*ssa.Go); isGo {
				continue
			}
			if sf := com.StaticCallee(); sf != nil && p.isRepoFn(sf) && sf.Parent() == nil {
				for i, a := range com.Args {
					if a == prm && i < len(sf.Params) {
						scan(sf, sf.Params[i], depth+1)
					}
				}
			}
		}
	}
	scan(fn, cb, 0)
	if n == 0 {
		c.viol(fnName(fn), "the completion is never run on the caller's stack", p.Pos(fn.Pos()), "no direct call of the completion found (the immediate-error paths were expected)")
	}
}

// takesRequestCB: the call hands the root function's request callback (its
// func-typed parameter named cb) on to its callee — a continuation moved into
// a named method, to be followed like the closure it replaced.
func takesRequestCB(t *Tracer, fr *Frame, call ssa.CallInstruction) bool {
	for _, a := range callArgs(call.Common()) {
		r := t.Resolve(fr, a)
		if r.Fr == t.RootFr {
			if prm, isP := r.V.(*ssa.Parameter); isP && prm.Name() == "cb" {
				if _, isSig := prm.Type().Underlying().(*types.Signature); isSig {
					return true
				}
			}
		}
	}
	return false
}

// callsStoredHandler: the function value handed to the NATS client as closed handler is a method of the adapter
// that (itself or through helpers) calls the handler its owner stored with SetClosedHandler — whatever it is named.
func callsStoredHandler(p *Prog, mc *ssa.MakeClosure) bool {
	f, _ := mc.Fn.(*ssa.Function)
	if f == nil {
		return false
	}
	if strings.HasSuffix(f.Name(), "$bound") {
		if m := boundMethod(f); m != nil {
			if mf := p.SSA.FuncValue(m); mf != nil {
				f = mf
			}
		}
	}
	closeH := natsFields(p).closeH
	if closeH == nil {
		return false
	}
	for _, g := range p.withHelpers(f) {
		for _, call := range callsIn(g) {
			cc := call.Common()
			if cc.IsInvoke() || cc.StaticCallee() != nil {
				continue
			}
			if fld, _ := fieldLoad(cc.Value); fld == closeH {
				return true
			}
		}
	}
	return false
}
