package main

import (
	"go/token"
	"go/types"

	"golang.org/x/tools/go/ssa"
)

// DOM/copy-on-write (C01, C12): the values of a cached model or collection
// are shared with every subscriber that was handed the resource (snapshots,
// resource sets being encoded on other goroutines). They are immutable:
// an update builds a new map / slice. The rule: no instruction of the
// repository writes into a container that originates from a load of
// Collection.Values or Model.Values — element stores, copy() destinations,
// append() on the shared slice (which may write into its spare capacity),
// map updates and deletes.
func ruleCopyOnWrite(c *Ctx) {
	p := c.P
	shared := map[*types.Var]string{}
	for _, q := range []string{"rescache.Collection.Values", "rescache.Model.Values"} {
		if f := p.Field(q); f != nil {
			shared[f] = q
		} else {
			c.undecided(q, "anchor", "-", "field not found")
		}
	}
	if len(shared) == 0 {
		return
	}
	var origin func(v ssa.Value, seen map[ssa.Value]bool) string
	origin = func(v ssa.Value, seen map[ssa.Value]bool) string {
		if v == nil || seen[v] || len(seen) > 64 {
			return ""
		}
		seen[v] = true
		switch x := v.(type) {
		case *ssa.Slice:
			return origin(x.X, seen)
		case *ssa.ChangeType:
			return origin(x.X, seen)
		case *ssa.Convert:
			return origin(x.X, seen)
		case *ssa.Phi:
			for _, e := range x.Edges {
				if o := origin(e, seen); o != "" {
					return o
				}
			}
		case *ssa.Call:
			if b, ok := x.Call.Value.(*ssa.Builtin); ok && b.Name() == "append" && len(x.Call.Args) > 0 {
				if cappedSlice(x.Call.Args[0]) {
					return "" // append to s[:i:i] always copies
				}
				return origin(x.Call.Args[0], seen)
			}
		case *ssa.UnOp:
			if x.Op != token.MUL {
				return ""
			}
			if f, _ := fieldLoad(x); f != nil {
				if q, ok := shared[f]; ok {
					return q
				}
				return ""
			}
			if al, ok := x.X.(*ssa.Alloc); ok && al.Referrers() != nil {
				for _, r := range *al.Referrers() {
					if st, ok := r.(*ssa.Store); ok && st.Addr == ssa.Value(al) {
						if o := origin(st.Val, seen); o != "" {
							return o
						}
					}
				}
			}
		}
		return ""
	}
	n := 0
	for _, fn := range p.Repo {
		for _, in := range instrsOf(fn) {
			var target ssa.Value
			how := ""
			switch x := in.(type) {
			case *ssa.Store:
				if ia, ok := x.Addr.(*ssa.IndexAddr); ok {
					target, how = ia.X, "element store"
				}
			case *ssa.MapUpdate:
				target, how = x.Map, "map update"
			case *ssa.Call:
				if b, ok := x.Call.Value.(*ssa.Builtin); ok {
					switch b.Name() {
					case "copy":
						target, how = x.Call.Args[0], "copy destination"
					case "append":
						if !cappedSlice(x.Call.Args[0]) {
							target, how = x.Call.Args[0], "append (may write into the spare capacity of the shared slice)"
						}
					case "delete":
						target, how = x.Call.Args[0], "map delete"
					}
				}
			}
			if target == nil {
				continue
			}
			n++
			if q := origin(target, map[ssa.Value]bool{}); q != "" {
				c.inst(1)
				c.viol(fnName(fn), "cached content is updated copy-on-write: no write into a container loaded from "+q, p.InstrPos(in), how+" into a value that originates from "+q+": a snapshot already handed to a subscriber (or being encoded on another goroutine) changes under it")
			}
		}
	}
	c.inst(1)
	c.ok("repository", "cached content is updated copy-on-write", "-", "container writes inspected; none originates from Collection.Values / Model.Values")
	c.note("DOM/copy-on-write: %d container-writing instructions inspected", n)
}

// cappedSlice: s[lo:hi:hi] — a slice with no spare capacity; appending to it
// allocates a new backing array.
func cappedSlice(v ssa.Value) bool {
	sl, ok := v.(*ssa.Slice)
	return ok && sl.Max != nil && sl.High != nil && sl.Max == sl.High
}
