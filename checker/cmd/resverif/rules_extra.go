package main

import (
	"fmt"
	"go/token"
	"go/types"
	"os"
	"strings"

	"golang.org/x/tools/go/ssa"
)

func lenOfField(v ssa.Value, f *types.Var) bool {
	call, ok := v.(*ssa.Call)
	if !ok {
		return false
	}
	b, ok := call.Call.Value.(*ssa.Builtin)
	if !ok || b.Name() != "len" {
		return false
	}
	lf, _ := fieldLoad(call.Call.Args[0])
	return lf == f
}

// DOM/inch-send (C03.2, C13.5): a worker is woken only when the queue went
// from empty to non-empty and, for ordinary tasks, no locks are set.
func ruleInChSend(c *Ctx) {
	p := c.P
	fQueue := p.Field("rescache.EventSubscription.queue")
	fLocks := p.Field("rescache.EventSubscription.locks")
	fInCh := p.Field("rescache.Cache.inCh")
	for _, spec := range []struct {
		fn       string
		q        *types.Var
		needNoLk bool
	}{{"(*rescache.EventSubscription).Enqueue", fQueue, true}, {"(*rescache.EventSubscription).enqueueUnlock", fLocks, false}} {
		fn := p.Fn(spec.fn)
		if fn == nil {
			c.undecided(spec.fn, "anchor", "-", "not found")
			continue
		}
		sendsInCh := func(g *ssa.Function) bool {
			for _, in := range instrsOf(g) {
				if s, ok := in.(*ssa.Send); ok {
					if f, _ := fieldLoad(s.Chan); f == fInCh {
						return true
					}
				}
			}
			return false
		}
		for _, in := range instrsOf(fn) {
			var s ssa.Instruction
			if sx, ok := in.(*ssa.Send); ok {
				if f, _ := fieldLoad(sx.Chan); f == fInCh {
					s = sx
				}
			} else if call, ok := in.(*ssa.Call); ok {
				// the wake-up extracted into a helper (schedule)
				if h := call.Call.StaticCallee(); h != nil && h != fn && h.Pkg == fn.Pkg && h.Object() != nil && !h.Object().Exported() && sendsInCh(h) {
					s = call
				}
			}
			if s == nil {
				continue
			}
			c.inst(1)
			wasEmpty := func(i *ssa.If) (bool, bool) {
				x, op, k, ok := cmpConst(i.Cond)
				if !ok || k != 0 || !lenOfField(x, spec.q) {
					return false, false
				}
				// the length must have been taken before the append of this call
				lenCall := x.(*ssa.Call)
				for _, st := range p.stores[spec.q] {
					if st.Parent() == fn && !dominates(lenCall, st) {
						return false, false
					}
				}
				switch op {
				case token.EQL:
					return true, true
				case token.NEQ, token.GTR:
					return false, true
				}
				return false, false
			}
			noLocks := func(i *ssa.If) (bool, bool) {
				for _, d := range []bool{true, false} {
					if x, nn, ok := nilTest(i, d); ok && !nn {
						if f, _ := fieldLoad(x); f == fLocks {
							return d, true
						}
					}
				}
				return false, false
			}
			g1 := p.guardedBy(s, wasEmpty)
			ok2 := true
			if spec.needNoLk {
				ok2 = p.guardedBy(s, noLocks) != nil
			}
			c.check(g1 != nil && ok2, spec.fn, "a worker is woken only on the empty→non-empty transition (and not while query locks are set)", p.InstrPos(s),
				"send dominated by len(queue)==0 taken before the append"+map[bool]string{true: " and locks == nil", false: ""}[spec.needNoLk],
				"a second worker can be started for a resource whose queue is already being processed: it would run inside the first worker's unlock window and deliver event n+1 before event n")
		}
	}
}

// DOM/revoke (C06.4, C08.4)
func ruleRevoke(c *Ctx) {
	p := c.P
	fDirect := p.Field("server.Subscription.direct")
	unsub := []*types.Func{p.Method("server.ConnSubscriber.Unsubscribe"), p.Method("server.wsConn.Unsubscribe")}
	send := []*types.Func{p.Method("server.ConnSubscriber.Send"), p.Method("server.wsConn.Send")}
	newEvent := p.PkgFunc("rpc.NewEvent")
	ud := p.Fn("(*server.Subscription).unsubscribeDirect")
	udM := p.Method("server.Subscription.unsubscribeDirect")
	canGet := p.Method("rescache.Access.CanGet")
	if ud == nil {
		c.undecided("(*server.Subscription).unsubscribeDirect", "anchor", "-", "not found")
		return
	}
	{
		c.inst(1)
		sp := &Spec{}
		sp.Classify = func(t *Tracer, fr *Frame, in ssa.Instruction) []Ev {
			if call, ok := isCallTo(in, unsub...); ok {
				args := callArgs(call.Common())
				d, dc := constBool(args[2])
				f, _ := fieldLoad(args[4])
				if dc && d && f == fDirect {
					return []Ev{{Kind: "unsubscribe-all", Stop: true}}
				}
				return []Ev{{Kind: "unsubscribe-some", Stop: true}}
			}
			if call, ok := isCallTo(in, newEvent); ok {
				// (the event name may come in through a send helper: what the helper was handed on this path)
				if s, ok := constString(t.Resolve(fr, call.Common().Args[1]).V); ok && s == "unsubscribe" {
					return []Ev{{Kind: "event:unsubscribe"}}
				}
			}
			if _, ok := isCallTo(in, send...); ok {
				return []Ev{{Kind: "send", Stop: true}}
			}
			return nil
		}
		sp.Branch = func(t *Tracer, fr *Frame, i *ssa.If, dir bool) []Ev {
			if x, op, k, ok := cmpConst(i.Cond); ok && k == 0 {
				if f, _ := fieldLoad(x); f == fDirect {
					if (op == token.GTR) == dir {
						return []Ev{{Kind: "has-direct"}}
					}
					return []Ev{{Kind: "no-direct"}}
				}
			}
			return nil
		}
		tr := runTrace(p, ud, sp)
		bad := ""
		for _, path := range tr.Paths {
			if hasKind(path, "unsubscribe-some") {
				bad = "revocation removes only part of the direct subscriptions (count is not s.direct): " + tr.FmtPath(path)
			}
			if hasKind(path, "has-direct") {
				if !hasKind(path, "unsubscribe-all") || !hasKind(path, "event:unsubscribe") || !hasKind(path, "send") {
					bad = "a directly subscribed resource is not fully unsubscribed with an unsubscribe event: " + tr.FmtPath(path)
				}
			} else if hasKind(path, "send") || hasKind(path, "unsubscribe-all") {
				bad = "unsubscribe event sent for a resource without direct subscriptions: " + tr.FmtPath(path)
			}
		}
		c.check(bad == "", fnName(ud), "revocation removes all direct subscriptions and sends the unsubscribe event with the reason", p.Pos(ud.Pos()), fmt.Sprintf("%d paths", len(tr.Paths)), bad)
	}
	if va := p.Fn("(*server.Subscription).validateAccess"); va != nil {
		c.inst(1)
		sp := &Spec{}
		sp.Classify = func(t *Tracer, fr *Frame, in ssa.Instruction) []Ev {
			if _, ok := isCallTo(in, udM); ok {
				return []Ev{{Kind: "revoke", Stop: true}}
			}
			return nil
		}
		sp.Branch = func(t *Tracer, fr *Frame, i *ssa.If, dir bool) []Ev {
			if x, nn, ok := nilTest(i, dir); ok {
				if call, ok := t.Resolve(fr, x).V.(*ssa.Call); ok && calleeFunc(&call.Call) == canGet {
					if nn {
						return []Ev{{Kind: "denied"}}
					}
					return []Ev{{Kind: "granted"}}
				}
			}
			return nil
		}
		tr := runTrace(p, va, sp)
		bad := ""
		for _, path := range tr.Paths {
			if hasKind(path, "denied") != hasKind(path, "revoke") {
				bad = "direct subscriptions are removed exactly when the verdict is not a get grant: " + tr.FmtPath(path)
			}
			if !hasKind(path, "denied") && !hasKind(path, "granted") {
				bad = "verdict is not examined: " + tr.FmtPath(path)
			}
		}
		c.check(bad == "", fnName(va), "a verdict that is not a get grant revokes; a grant does not", p.Pos(va.Pos()), fmt.Sprintf("%d paths", len(tr.Paths)), bad)
	}
	// delete events revoke after the event was sent
	for _, nm := range []string{"(*server.Subscription).processCollectionEvent", "(*server.Subscription).processModelEvent"} {
		fn := p.Fn(nm)
		if fn == nil {
			continue
		}
		fState := p.Field("server.Subscription.state")
		for _, st := range p.stores[fState] {
			if st.Parent() != fn {
				continue
			}
			if k, ok := constInt(st.Val); !ok || k != 6 {
				continue
			}
			c.inst(1)
			ok := false
			for _, call := range callsIn(fn) {
				if _, is := isCallTo(call, udM); is && dominates(st, call) {
					for _, c2 := range callsIn(fn) {
						if p.sendsLike(c2, send) && dominates(st, c2) && dominates(c2, call) {
							ok = true
						}
					}
				}
			}
			c.check(ok, nm, "delete event is sent and then all direct subscriptions are removed", p.InstrPos(st), "stateDeleted, Send, unsubscribeDirect in order", "a deleted resource keeps its direct subscriptions (or is unsubscribed before the delete event is sent)")
		}
	}
}

// DOM/unsub-precond (C08.2, C08.3)
func ruleUnsubPrecond(c *Ctx) {
	p := c.P
	fDirect := p.Field("server.Subscription.direct")
	removeCount := p.Method("server.wsConn.removeCount")
	if fn := p.Fn("(*server.wsConn).UnsubscribeByRID"); fn != nil {
		for _, call := range callsIn(fn) {
			if _, ok := isCallTo(call, removeCount); !ok {
				continue
			}
			c.inst(1)
			args := callArgs(call.Common())
			cnt, okCnt := callRoleArg(call, "count")
			dirArg, okDir := callRoleArg(call, "direct")
			if !okCnt || !okDir || cnt == nil || dirArg == nil {
				c.undecided(fnName(fn), "unsubscribe removes exactly the requested count, only if that many direct subscriptions are held", p.InstrPos(call), "the release call's count / direct arguments are not recognised")
				continue
			}
			_ = args
			enough := func(i *ssa.If) (bool, bool) {
				b, ok := i.Cond.(*ssa.BinOp)
				if !ok {
					return false, false
				}
				f, _ := fieldLoad(b.X)
				if f != fDirect || b.Y != cnt {
					return false, false
				}
				switch b.Op {
				case token.LSS:
					return false, true
				case token.GEQ:
					return true, true
				}
				return false, false
			}
			found := func(i *ssa.If) (bool, bool) {
				v := i.Cond
				neg := false
				if u, ok := v.(*ssa.UnOp); ok && u.Op == token.NOT {
					v, neg = u.X, true
				}
				if isLookupOK(p, v, 0) {
					return !neg, true
				}
				return false, false
			}
			d, dc := constBool(dirArg)
			_, isParam := cnt.(*ssa.Parameter)
			c.check(p.guardedBy(call, enough) != nil && p.guardedBy(call, found) != nil && dc && d && isParam, fnName(fn), "unsubscribe removes exactly the requested count, only if that many direct subscriptions are held", p.InstrPos(call),
				"dominated by the lookup and by !(direct < count) with the same count", "an unsubscribe can succeed without enough direct subscriptions (negative count) or removes a different count than it checked")
		}
	}
	// the direct count is never lowered by more than is held: a release that arrives after the count was
	// already taken (access denied while the request was pending: unsubscribeDirect released everything) must
	// not drive it negative — a negative count makes the next subscribe unreleasable
	for _, st := range p.stores[fDirect] {
		b, ok := st.Val.(*ssa.BinOp)
		if !ok || b.Op != token.SUB {
			continue
		}
		if f, _ := fieldLoad(b.X); f != fDirect {
			continue
		}
		c.inst(1)
		bounded := func(y ssa.Value, at ssa.Instruction) bool {
			if f, _ := fieldLoad(y); f == fDirect {
				return true // lowered by exactly what is held
			}
			return p.guardedBy(at, func(i *ssa.If) (bool, bool) {
				cb, ok := i.Cond.(*ssa.BinOp)
				if !ok {
					return false, false
				}
				fx, _ := fieldLoad(cb.X)
				fy, _ := fieldLoad(cb.Y)
				switch {
				case fx == fDirect && cb.Y == y: // direct OP y
					switch cb.Op {
					case token.GEQ:
						return true, true
					case token.LSS:
						return false, true
					}
				case fy == fDirect && cb.X == y: // y OP direct
					switch cb.Op {
					case token.LEQ:
						return true, true
					case token.GTR:
						return false, true
					}
				}
				return false, false
			}) != nil
		}
		ok2 := false
		onlyHeld := false
		if ph, isPhi := b.Y.(*ssa.Phi); isPhi {
			ok2 = true
			live := liveBlocks(ph.Block().Parent())
			asked := false
			for k, e := range ph.Edges {
				pred := ph.Block().Preds[k]
				if live != nil && !live[pred] {
					continue // statically dead edge (constant test)
				}
				if f, _ := fieldLoad(e); f != fDirect {
					asked = true
				}
				if !bounded(e, pred.Instrs[len(pred.Instrs)-1]) {
					// the edge may come straight from the test's own block
					okEdge := false
					if i := blockIf(pred); i != nil {
						if cb, isB := i.Cond.(*ssa.BinOp); isB {
							fx, _ := fieldLoad(cb.X)
							fy, _ := fieldLoad(cb.Y)
							succTrue := pred.Succs[0] == ph.Block()
							switch {
							case fx == fDirect && cb.Y == e:
								okEdge = (cb.Op == token.GEQ && succTrue) || (cb.Op == token.LSS && !succTrue)
							case fy == fDirect && cb.X == e:
								okEdge = (cb.Op == token.LEQ && succTrue) || (cb.Op == token.GTR && !succTrue)
							}
						}
					}
					if !okEdge {
						ok2 = false
					}
				}
			}
			if !asked {
				onlyHeld = true
			}
		} else {
			ok2 = bounded(b.Y, st)
		}
		if onlyHeld {
			c.viol(fnName(st.Parent()), "the direct count is lowered by the count asked for when that many are held", p.InstrPos(st), "every live path lowers the direct count by all that is held, whatever count was asked for: one unsubscribe of a resource subscribed three times removes all three")
			continue
		}
		c.check(ok2, fnName(st.Parent()), "the direct count is lowered by no more than is held", p.InstrPos(st), "subtrahend is the count itself, or bounded by a test against it",
			"a late release (the request's own error path after unsubscribeDirect already took every direct count) drives the direct count negative while an indirect reference keeps the subscription alive: the next successful subscribe brings it to 0 and can never be unsubscribed")
	}
	// ... and refused only for the listed reasons: connection going away, no such subscription, fewer direct
	// subscriptions than asked for. Any other refusal leaves a direct subscription the client can never release.
	if fn := p.Fn("(*server.wsConn).UnsubscribeByRID"); fn != nil {
		c.inst(1)
		fDisp := p.Field("server.wsConn.disposing")
		sp := &Spec{}
		sp.Classify = func(t *Tracer, fr *Frame, in ssa.Instruction) []Ev {
			if r, ok := in.(*ssa.Return); ok && fr == t.RootFr && len(r.Results) == 1 {
				if b, isC := constBool(t.Resolve(fr, r.Results[0]).V); isC {
					if b {
						return []Ev{{Kind: "accept"}}
					}
					return []Ev{{Kind: "refuse"}}
				}
				return []Ev{{Kind: "return:?"}}
			}
			return nil
		}
		sp.Branch = func(t *Tracer, fr *Frame, i *ssa.If, dir bool) []Ev {
			if fr != t.RootFr && fr.ID != -1 && !(fr.Parent == t.RootFr && isSmallPredicate(fr.Fn)) {
				return nil // decisions inside removeCount and the collector are not refusals
			}
			v := i.Cond
			neg := false
			if u, ok := v.(*ssa.UnOp); ok && u.Op == token.NOT {
				v, neg = u.X, true
			}
			if f, _ := fieldLoad(v); f != nil && f == fDisp {
				return []Ev{{Kind: "listed"}}
			}
			if isLookupOK(p, v, 0) {
				return []Ev{{Kind: "listed"}}
			}
			_ = neg
			if b, ok := v.(*ssa.BinOp); ok {
				if f, _ := fieldLoad(b.X); f == fDirect {
					return []Ev{{Kind: "listed"}}
				}
				if f, _ := fieldLoad(b.Y); f == fDirect {
					return []Ev{{Kind: "listed"}}
				}
			}
			if t.DecidedInHelper(i) {
				return nil
			}
			return []Ev{{Kind: "other", Note: p.InstrPos(i)}}
		}
		tr := runTrace(p, fn, sp)
		bad := ""
		for _, path := range tr.Paths {
			if os.Getenv("RV_DEBUG") != "" {
				fmt.Println("UNSUB-PATH", tr.FmtPath(path))
			}
			if !hasKind(path, "refuse") {
				continue
			}
			// the decision that led to the refusal is the last branch before it
			last := ""
			for _, e := range path {
				if e.Kind == "listed" || e.Kind == "other" {
					last = e.Kind
				}
			}
			if last == "other" {
				bad = "an unsubscribe is refused for a reason other than 'connection closing', 'no such subscription' or 'fewer direct subscriptions than asked for': the client keeps a direct subscription it cannot release: " + tr.FmtPath(path)
			}
		}
		c.check(bad == "", fnName(fn), "unsubscribe refused only for the listed reasons", p.Pos(fn.Pos()), fmt.Sprintf("%d paths", len(tr.Paths)), bad)
	}
	if fn := p.Fn("(*server.wsConn).addCount"); fn != nil {
		for _, st := range p.stores[fDirect] {
			if st.Parent() != fn {
				continue
			}
			c.inst(1)
			g := p.guardedBy(st, func(i *ssa.If) (bool, bool) {
				x, op, k, ok := cmpConst(i.Cond)
				if !ok || k != 256 {
					return false, false
				}
				if f, _ := fieldLoad(x); f != fDirect {
					return false, false
				}
				switch op {
				case token.GEQ:
					return false, true
				case token.LSS:
					return true, true
				}
				return false, false
			})
			c.check(g != nil, fnName(fn), "direct count raised only below the per-resource limit of 256", p.InstrPos(st), "dominated by !(direct >= 256)", "limit test missing or weakened")
		}
	}
	// rpc: the count handed to UnsubscribeResource is 1 or a decoded value that passed `count <= 0` -> error,
	// on every path (through the helpers the decoding may have been moved to)
	if fn := p.Fn("rpc.HandleRequest"); fn != nil {
		ur := p.Method("rpc.Requester.UnsubscribeResource")
		c.inst(1)
		sp := &Spec{InlineHelpers: true}
		sp.Classify = func(t *Tracer, fr *Frame, in ssa.Instruction) []Ev {
			if cl, isC := in.(*ssa.Call); isC {
				if cf := calleeFunc(&cl.Call); cf != nil && cf.Pkg() != nil && cf.Pkg().Path() == "encoding/json" && cf.Name() == "Unmarshal" && len(cl.Call.Args) == 2 {
					if mi, isMI := cl.Call.Args[1].(*ssa.MakeInterface); isMI && strings.HasSuffix(mi.X.Type().String(), "rpc.UnsubscribeRequest") {
						return []Ev{{Kind: "decode-params", Stop: true}}
					}
				}
			}
			call, ok := isCallTo(in, ur)
			if !ok {
				return nil
			}
			cnt := callArgs(call.Common())[2]
			if k, isC := t.foldInt(fr, cnt); isC {
				if k >= 1 {
					return []Ev{{Kind: "unsub", Note: "const"}}
				}
				return []Ev{{Kind: "unsub", Note: fmt.Sprintf("const %d", k)}}
			}
			return []Ev{{Kind: "unsub", Note: t.valKey(fr, cnt, t.cur)}}
		}
		sp.Branch = func(t *Tracer, fr *Frame, i *ssa.If, dir bool) []Ev {
			r := t.Resolve(fr, i.Cond)
			v := r.V
			for {
				u, isU := v.(*ssa.UnOp)
				if !isU || u.Op != token.NOT {
					break
				}
				rr := t.Resolve(r.Fr, u.X)
				r, v, dir = rr, rr.V, !dir
			}
			x, op, k, isC := cmpConst(v)
			if !isC {
				return nil
			}
			positive := false
			switch {
			case op == token.GTR && k >= 0 && dir, op == token.LEQ && k >= 0 && !dir,
				op == token.GEQ && k >= 1 && dir, op == token.LSS && k >= 1 && !dir:
				positive = true
			}
			if !positive {
				return nil
			}
			return []Ev{{Kind: "pos", Note: t.valKey(r.Fr, x, t.cur)}}
		}
		tr := runTrace(p, fn, sp)
		bad := ""
		n := 0
		for _, path := range tr.Paths {
			for i, e := range path {
				if e.Kind != "unsub" {
					continue
				}
				n++
				if e.Note == "const" {
					continue
				}
				okp := false
				for _, e2 := range path[:i] {
					if e2.Kind == "pos" && e2.Note == e.Note {
						okp = true
					}
				}
				if !okp {
					bad = "a zero or negative count reaches the connection (it would succeed and raise the direct count): " + tr.FmtPath(path) + " [count is " + e.Note + "]"
				}
			}
		}
		if tr.Trunc {
			bad = "path budget exhausted"
		}
		if n == 0 && bad == "" {
			bad = "no path reaches UnsubscribeResource"
		}
		// the default: params that carry no count unsubscribe once
		if bad == "" {
			dflt := false
			for _, path := range tr.Paths {
				if hasKind(path, "decode-params") {
					for _, e := range path {
						if e.Kind == "unsub" && e.Note == "const" {
							dflt = true
						}
					}
				}
			}
			if !dflt {
				bad = "no path on which params were decoded reaches UnsubscribeResource with the default count 1: an unsubscribe whose params carry no count is refused instead of releasing one subscription"
			}
		}
		c.check(bad == "", fnName(fn), "unsubscribe count is 1 or a decoded value that passed the positivity test", p.Pos(fn.Pos()), fmt.Sprintf("%d paths reach UnsubscribeResource: constant 1 or guarded by !(count <= 0)", n), bad)
	}
}

// DOM/evict (C09.1, C09.3, C09.4)
func ruleEvict(c *Ctx) {
	p := c.P
	fCount := p.Field("rescache.EventSubscription.count")
	fQueue := p.Field("rescache.EventSubscription.queue")
	fSubs := p.Field("rescache.Cache.eventSubs")
	if fn := p.Fn("(*rescache.EventSubscription).mqUnsubscribe"); fn != nil {
		unused := func(i *ssa.If) (bool, bool) {
			x, op, k, ok := cmpConst(i.Cond)
			if !ok || k != 0 {
				return false, false
			}
			if f, _ := fieldLoad(x); f != fCount {
				return false, false
			}
			switch op {
			case token.GTR:
				return false, true
			case token.LEQ, token.EQL:
				return true, true
			}
			return false, false
		}
		n := 0
		for _, in := range instrsOf(fn) {
			isEvict := false
			if call, ok := in.(ssa.CallInstruction); ok && call.Common().IsInvoke() && call.Common().Method.Name() == "Unsubscribe" {
				isEvict = true
			}
			if st, ok := isStoreTo(in, fQueue); ok && isNilConst(st.Val) {
				isEvict = true
			}
			if !isEvict {
				continue
			}
			n++
			c.inst(1)
			c.check(p.guardedBy(in, unused) != nil, fnName(fn), "eviction re-checks the use count under the locks", p.InstrPos(in), "dominated by !(count > 0)", "an entry that was re-used during the eviction delay is unsubscribed / its queue dropped")
		}
		if n == 0 {
			c.viol(fnName(fn), "eviction re-checks the use count under the locks", p.Pos(fn.Pos()), "no eviction action found")
		}
	}
	if fn := p.Fn("(*rescache.Cache).mqUnsubscribe"); fn != nil {
		mu := p.Method("rescache.EventSubscription.mqUnsubscribe")
		cmu := p.Field("rescache.Cache.mu")
		ls := lockStates(fn, cmu, 0)
		for _, call := range callsIn(fn) {
			if _, ok := isCallTo(call, mu); ok {
				c.inst(1)
				c.check(ls[call] == 1, fnName(fn), "eviction decides and unsubscribes under the cache mutex", p.InstrPos(call), "Cache.mu held",
					"the entry is unsubscribed from the messaging system outside the cache mutex: a subscribe arriving in between is served from an entry without event subscription, which is then deleted while in use")
			}
		}
		for _, in := range instrsOf(fn) {
			call, ok := isBuiltinCall(in, "delete")
			if !ok {
				continue
			}
			if f, _ := fieldLoad(call.Call.Args[0]); f != fSubs {
				continue
			}
			c.inst(1)
			g := p.guardedBy(in, func(i *ssa.If) (bool, bool) {
				v := i.Cond
				neg := false
				if u, ok := v.(*ssa.UnOp); ok && u.Op == token.NOT {
					v, neg = u.X, true
				}
				if cl, ok := v.(*ssa.Call); ok && calleeFunc(&cl.Call) == mu {
					return !neg, true
				}
				return false, false
			})
			c.check(g != nil, fnName(fn), "entry removed from the cache index only after a successful mq unsubscribe", p.InstrPos(in), "dominated by mqUnsubscribe() == true", "entry dropped although it is in use again")
		}
	}
	if fn := p.Fn("(*rescache.EventSubscription).removeCount"); fn != nil {
		hasGauge := false
		for _, call := range callsIn(fn) {
			cf := calleeFunc(call.Common())
			if cf == nil {
				continue
			}
			if cf.Name() == "Add" && cf.Pkg() != nil && strings.Contains(cf.Pkg().Path(), "openmetrics") {
				hasGauge = true
			}
			// the gauge behind a nil-safe wrapper (metrics.addSubscriptions)
			if sf := call.Common().StaticCallee(); sf != nil && p.isRepoFn(sf) {
				for _, h := range p.withHelpers(sf) {
					for _, c2 := range callsIn(h) {
						if f2 := calleeFunc(c2.Common()); f2 != nil && f2.Name() == "Add" && f2.Pkg() != nil && strings.Contains(f2.Pkg().Path(), "openmetrics") {
							hasGauge = true
						}
					}
				}
			}
			if cf.Name() == "Add" && cf.Pkg() != nil && strings.HasSuffix(cf.Pkg().Path(), "timerqueue") {
				c.inst(1)
				g := p.guardedBy(call, func(i *ssa.If) (bool, bool) {
					x, op, k, ok := cmpConst(i.Cond)
					if !ok || k != 0 || op != token.EQL {
						return false, false
					}
					if f, _ := fieldLoad(x); f == fCount {
						return true, true
					}
					return false, false
				})
				c.check(g != nil, fnName(fn), "entry queued for eviction exactly when its use count reaches zero", p.InstrPos(call), "dominated by count == 0", "eviction queued while the entry is in use (timerqueue.Add panics on a duplicate)")
			}
		}
		c.inst(1)
		c.check(hasGauge, fnName(fn), "subscription gauge follows the count", p.Pos(fn.Pos()), "CacheSubscriptions.Add(-n)", "gauge not updated on release")
	}
	if fn := p.Fn("(*rescache.EventSubscription).addCount"); fn != nil {
		for _, call := range callsIn(fn) {
			cf := calleeFunc(call.Common())
			if cf != nil && cf.Name() == "Remove" && cf.Pkg() != nil && strings.HasSuffix(cf.Pkg().Path(), "timerqueue") {
				c.inst(1)
				g := p.guardedBy(call, func(i *ssa.If) (bool, bool) {
					x, op, k, ok := cmpConst(i.Cond)
					if !ok || k != 0 || op != token.EQL {
						return false, false
					}
					if f, _ := fieldLoad(x); f == fCount {
						return true, true
					}
					return false, false
				})
				c.check(g != nil, fnName(fn), "a pending eviction is cancelled when the entry is used again", p.InstrPos(call), "unsubQueue.Remove under count == 0", "eviction not cancelled")
			}
		}
	}
	// get requests are issued only by addSubscriber (first subscriber of a subscribed entry) and by reset
	allowed := map[string]bool{"(*rescache.EventSubscription).addSubscriber": true, "(*rescache.ResourceSubscription).handleResetResource": true}
	for _, site := range mqSites(p) {
		if calleeFunc(site.Common()).Name() != "SendRequest" {
			continue
		}
		subj := callArgs(site.Common())[1]
		isGet := false
		var walk func(v ssa.Value, d int)
		walk = func(v ssa.Value, d int) {
			if d > 8 {
				return
			}
			switch x := v.(type) {
			case *ssa.Const:
				if s, ok := constString(x); ok && strings.HasPrefix(s, "get.") {
					isGet = true
				}
			case *ssa.BinOp:
				walk(x.X, d+1)
				walk(x.Y, d+1)
			case *ssa.UnOp:
				if fv, ok := x.X.(*ssa.FreeVar); ok {
					if mc := p.parent[fv.Parent()]; mc != nil {
						for i, f2 := range fv.Parent().FreeVars {
							if f2 == fv {
								walk(mc.Bindings[i], d+1)
							}
						}
					}
				}
				if al, ok := x.X.(*ssa.Alloc); ok {
					for _, r := range *al.Referrers() {
						if st, ok := r.(*ssa.Store); ok && st.Addr == ssa.Value(al) {
							walk(st.Val, d+1)
						}
					}
				}
			case *ssa.Alloc:
				for _, r := range *x.Referrers() {
					if st, ok := r.(*ssa.Store); ok && st.Addr == ssa.Value(x) {
						walk(st.Val, d+1)
					}
				}
			}
		}
		walk(subj, 0)
		if !isGet {
			continue
		}
		c.inst(1)
		top := fnName(TopLevel(site.Parent()))
		if o, ok := p.ownedBy(site.Parent(), func(nm string) bool { return allowed[nm] }); ok {
			top = o
		}
		c.check(allowed[top], top, "get requests are issued only for an entry that holds an event subscription", p.InstrPos(site), "addSubscriber (entry obtained from getSubscription(name, true)) or reset of a cached entry", "a resource is fetched without a prior event subscription: events between fetch and subscribe would be lost")
	}
	if fn := p.Fn("(*rescache.EventSubscription).addSubscriber"); fn != nil {
		c.inst(1)
		callers := callerNames(p, fn)
		c.check(len(callers) == 1 && callers[0] == "(*rescache.Cache).Subscribe", fnName(fn), "only Cache.Subscribe registers subscribers", p.Pos(fn.Pos()), "single caller", "callers: "+strings.Join(callers, ", "))
	}
}

// DOM/fanout-set (C10.4)
func ruleFanoutSet(c *Ctx) {
	p := c.P
	fSubs := p.Field("rescache.ResourceSubscription.subs")
	ms := []*types.Func{p.Method("rescache.Subscriber.Event"), p.Method("rescache.Subscriber.Loaded"), p.Method("rescache.Subscriber.Reaccess")}
	for _, fn := range p.Repo {
		for _, call := range callsIn(fn) {
			if _, ok := isCallTo(call, ms...); !ok {
				continue
			}
			c.inst(1)
			recv := callArgs(call.Common())[0]
			ok := false
			seen := map[ssa.Value]bool{}
			var walk func(v ssa.Value, d int) bool
			var structField func(v ssa.Value, idx int, d int) bool
			structField = func(v ssa.Value, idx int, d int) bool {
				if d > 10 {
					return false
				}
				switch x := v.(type) {
				case *ssa.Call:
					if sf := x.Call.StaticCallee(); sf != nil && p.isRepoFn(sf) {
						for _, in := range instrsOf(sf) {
							if r, ok := in.(*ssa.Return); ok && len(r.Results) == 1 && structField(r.Results[0], idx, d+1) {
								return true
							}
						}
					}
				case *ssa.Phi:
					for _, e := range x.Edges {
						if structField(e, idx, d+1) {
							return true
						}
					}
				case *ssa.UnOp:
					al, ok := x.X.(*ssa.Alloc)
					if !ok || x.Op != token.MUL {
						return false
					}
					for _, r := range *al.Referrers() {
						switch y := r.(type) {
						case *ssa.FieldAddr:
							if y.Field != idx {
								continue
							}
							for _, r2 := range *y.Referrers() {
								if st, ok := r2.(*ssa.Store); ok && st.Addr == ssa.Value(y) {
									delete(seen, st.Val)
									if walk(st.Val, d+1) {
										return true
									}
								}
							}
						case *ssa.Store:
							if y.Addr == ssa.Value(al) && structField(y.Val, idx, d+1) {
								return true
							}
						}
					}
				}
				return false
			}
			walk = func(v ssa.Value, d int) bool {
				if d > 24 || seen[v] {
					return false
				}
				seen[v] = true
				switch x := v.(type) {
				case *ssa.Parameter:
					if x.Name() == "sub" {
						return true
					}
					// parameter of an extracted helper: every caller passes a value from the set
					pf := x.Parent()
					if pf.Object() == nil || pf.Object().Exported() || pf.Parent() != nil {
						return false
					}
					idx := -1
					for i, pp := range pf.Params {
						if pp == x {
							idx = i
						}
					}
					n := 0
					if node := p.CG.Nodes[pf]; node != nil && idx >= 0 {
						for _, e := range node.In {
							if e.Site == nil || e.Site.Common().StaticCallee() != pf {
								continue
							}
							// a method-set wrapper nobody calls is no caller
							if cf := e.Caller.Func; cf != nil && cf.Synthetic != "" && !strings.HasSuffix(cf.Name(), "$bound") {
								if cn := p.CG.Nodes[cf]; cn == nil || len(cn.In) == 0 {
									continue
								}
							}
							args := e.Site.Common().Args
							if idx >= len(args) {
								return false
							}
							n++
							delete(seen, args[idx])
							if !walk(args[idx], d+1) {
								return false
							}
						}
					}
					return n > 0
				case *ssa.Extract:
					if nx, ok := x.Tuple.(*ssa.Next); ok {
						if rg, ok := nx.Iter.(*ssa.Range); ok {
							return walk(rg.X, d+1)
						}
					}
					if cl, ok := x.Tuple.(*ssa.Call); ok {
						if sf := cl.Call.StaticCallee(); sf != nil && p.isRepoFn(sf) {
							for _, in := range instrsOf(sf) {
								if r, ok := in.(*ssa.Return); ok && x.Index < len(r.Results) {
									if walk(r.Results[x.Index], d+1) {
										return true
									}
								}
							}
						}
					}
				case *ssa.Field:
					// a result struct (getResponseOutcome{rs, waiting}): follow the field to what was stored in it
					return structField(x.X, x.Field, d+1)
				case *ssa.UnOp:
					if f, _ := fieldLoad(x); f == fSubs {
						return true
					}
					if fa, ok := x.X.(*ssa.FieldAddr); ok && x.Op == token.MUL {
						if al, ok := fa.X.(*ssa.Alloc); ok {
							if structField(&ssa.UnOp{Op: token.MUL, X: al}, fa.Field, d+1) {
								return true
							}
						}
					}
					switch a := x.X.(type) {
					case *ssa.Alloc:
						for _, r := range *a.Referrers() {
							if st, ok := r.(*ssa.Store); ok && st.Addr == ssa.Value(a) && walk(st.Val, d+1) {
								return true
							}
						}
					case *ssa.IndexAddr:
						return walk(a.X, d+1)
					case *ssa.FreeVar:
						if mc := p.parent[a.Parent()]; mc != nil {
							for i, f2 := range a.Parent().FreeVars {
								if f2 == a {
									return walk(mc.Bindings[i], d+1)
								}
							}
						}
					}
				case *ssa.Alloc:
					for _, r := range *x.Referrers() {
						if st, ok := r.(*ssa.Store); ok && st.Addr == ssa.Value(x) && walk(st.Val, d+1) {
							return true
						}
					}
				case *ssa.MakeSlice:
					// sublist: filled from rs.subs
					for _, r := range *x.Referrers() {
						if ia, ok := r.(*ssa.IndexAddr); ok {
							for _, r2 := range *ia.Referrers() {
								if st, ok := r2.(*ssa.Store); ok && walk(st.Val, d+1) {
									return true
								}
							}
						}
					}
				case *ssa.Call:
					// sublist returned by processGetResponse
					if sf := x.Call.StaticCallee(); sf != nil && p.isRepoFn(sf) {
						for _, in := range instrsOf(sf) {
							if r, ok := in.(*ssa.Return); ok {
								for _, rv := range r.Results {
									switch rv.Type().Underlying().(type) {
									case *types.Slice, *types.Map:
										if walk(rv, d+1) {
											return true
										}
									}
								}
							}
						}
					}
				case *ssa.Phi:
					for _, e := range x.Edges {
						if walk(e, d+1) {
							return true
						}
					}
				case *ssa.ChangeType:
					return walk(x.X, d+1) // a named set type handed to a helper that takes the plain map (or the reverse)
				case *ssa.Convert:
					return walk(x.X, d+1)
				}
				return false
			}
			if e, isE := recv.(*ssa.Extract); isE {
				if cl, isC := e.Tuple.(*ssa.Call); isC {
					ok = walk(cl, 0)
				}
			}
			if !ok {
				ok = walk(recv, 0)
			}
			c.check(ok, fnName(fn), "subscriber notified is a member of this resource's subscriber set ("+calleeFunc(call.Common()).Name()+")", p.InstrPos(call), "receiver ranges over rs.subs (or its saved copy), or is the subscriber being added", "receiver of the notification does not come from the resource's own subscriber set")
		}
	}
}

// ruleChanFor restricts the CHAN rule to one channel field.
func ruleChanFor(field string) func(c *Ctx) {
	return func(c *Ctx) {
		tmp := &RuleResult{Rule: c.res.Rule}
		ruleChan(&Ctx{P: c.P, Tier: c.Tier, res: tmp})
		short := field[strings.Index(field, ".")+1:]
		for _, o := range tmp.Obs {
			if strings.Contains(o.What, short) || strings.Contains(o.Construct, short) {
				c.ob(o)
				c.inst(1)
			}
		}
		// the discipline has two sides: include the dispose rule's critical-section clause by reference
		c.inst(2)
	}
}

// DOM/valid-patterns (C12.1, C06.5)
func ruleValidPatterns(c *Ctx) {
	p := c.P
	{
		// every ResourcePattern that is kept for matching passed IsValid()
		isValid := p.Method("rescache.ResourcePattern.IsValid")
		rpT := p.Named("rescache.ResourcePattern")
		n := 0
		for _, fn := range p.Repo {
			if TopLevel(fn).Pkg == nil || TopLevel(fn).Pkg.Pkg.Name() != "rescache" {
				continue
			}
			for _, in := range instrsOf(fn) {
				call, isC := in.(*ssa.Call)
				if !isC {
					continue
				}
				if b, isB := call.Call.Value.(*ssa.Builtin); !isB || b.Name() != "append" {
					continue
				}
				sl, ok := call.Type().Underlying().(*types.Slice)
				if !ok || rpT == nil || !types.Identical(sl.Elem(), rpT) {
					continue
				}
				n++
				c.inst(1)
				g := p.guardedBy(call, func(i *ssa.If) (bool, bool) {
					if cl, ok := i.Cond.(*ssa.Call); ok && calleeFunc(&cl.Call) == isValid {
						return true, true
					}
					return false, false
				})
				c.check(g != nil, fnName(fn), "only valid patterns are matched", p.InstrPos(call), "pattern kept only under IsValid()", "invalid patterns take part in matching")
			}
		}
		if n == 0 {
			c.viol("(*rescache.Cache).forEachMatch", "only valid patterns are matched", "-", "no pattern list construction found")
		}
		// an invalid pattern is skipped, it does not end the scan: from the invalid edge of the test the
		// loop over the list is always continued
		for _, fn := range p.Repo {
			if TopLevel(fn).Pkg == nil || TopLevel(fn).Pkg.Pkg.Name() != "rescache" {
				continue
			}
			for _, b := range fn.Blocks {
				i := blockIf(b)
				if i == nil {
					continue
				}
				v, neg := ssa.Value(i.Cond), false
				if u, ok := v.(*ssa.UnOp); ok && u.Op == token.NOT {
					v, neg = u.X, true
				}
				cl, ok := v.(*ssa.Call)
				if !ok || calleeFunc(&cl.Call) != isValid {
					continue
				}
				h := innermostLoopHeader(b)
				if h == nil {
					continue
				}
				c.inst(1)
				inv := b.Succs[1]
				if neg {
					inv = b.Succs[0]
				}
				body := loopBody(h)
				seen := map[*ssa.BasicBlock]bool{}
				leaves := false
				var dfs func(x *ssa.BasicBlock)
				dfs = func(x *ssa.BasicBlock) {
					if x == h || seen[x] {
						return
					}
					seen[x] = true
					if !body[x] {
						leaves = true
						return
					}
					for _, sx := range x.Succs {
						dfs(sx)
					}
				}
				dfs(inv)
				c.check(!leaves, fnName(fn), "an invalid pattern is skipped: the scan of the list continues with the next pattern", p.InstrPos(i), "every path from the invalid edge returns to the loop head", "an invalid pattern ends the scan of the list: the valid patterns behind it are ignored (their resources are not re-fetched / their access not re-validated)")
			}
		}
	}
	if fn := p.Fn("(*rescache.Cache).handleSystemReset"); fn != nil {
		fem := p.Method("rescache.Cache.forEachMatch")
		fRes := p.Field("codec.SystemReset.Resources")
		fAcc := p.Field("codec.SystemReset.Access")
		for _, call := range callsIn(fn) {
			if _, ok := isCallTo(call, fem); !ok {
				continue
			}
			c.inst(1)
			args := callArgs(call.Common())
			var fld *types.Var
			var findFld func(v ssa.Value, d int)
			findFld = func(v ssa.Value, d int) {
				if fld != nil || d > 2 {
					return
				}
				switch x := v.(type) {
				case *ssa.Field:
					if f := x.X.Type().Underlying().(*types.Struct).Field(x.Field); f == fRes || f == fAcc {
						fld = f
					}
				case *ssa.Call:
					// the pattern list parsed on the way in (parseResourcePatterns(r.Resources))
					for _, a := range x.Call.Args {
						findFld(a, d+1)
					}
				default:
					if f, _ := fieldLoad(v); f != nil && (f == fRes || f == fAcc) {
						fld = f
					}
				}
			}
			for _, a := range args[1:] {
				findFld(a, 0)
			}
			target := ""
			mRes := p.Method("rescache.EventSubscription.handleResetResource")
			mAcc := p.Method("rescache.EventSubscription.handleResetAccess")
			// the visitor: a closure literal calling the handler, or the handler itself as a method expression / value
			for _, a := range args[2:] {
				var vf *ssa.Function
				switch x := stripConv(a).(type) {
				case *ssa.MakeClosure:
					vf = x.Fn.(*ssa.Function)
				case *ssa.Function:
					vf = x
				}
				if vf == nil {
					continue
				}
				if o, isM := vf.Object().(*types.Func); isM && (o == mRes || o == mAcc) {
					target = map[bool]string{true: "handleResetResource", false: "handleResetAccess"}[o == mRes]
				}
				for _, cl := range callsIn(vf) {
					switch cf := calleeFunc(cl.Common()); {
					case cf != nil && cf == mRes:
						target = "handleResetResource"
					case cf != nil && cf == mAcc:
						target = "handleResetAccess"
					}
				}
				// collect first, visit later: the visitor only appends the match to a captured list; the
				// handler called on the elements of that list is the target
				if mc, isMC := stripConv(a).(*ssa.MakeClosure); isMC && target == "" {
					for bi, bnd := range mc.Bindings {
						cell, isAlloc := bnd.(*ssa.Alloc)
						if !isAlloc || bi >= len(vf.FreeVars) {
							continue
						}
						stores := false
						for _, in := range instrsOf(vf) {
							if st, ok := in.(*ssa.Store); ok && st.Addr == ssa.Value(vf.FreeVars[bi]) {
								stores = true
							}
						}
						if !stores {
							continue
						}
						fromCell := func(v ssa.Value) bool {
							u, ok := v.(*ssa.UnOp)
							return ok && u.Op == token.MUL && u.X == ssa.Value(cell)
						}
						for _, g := range WithClosures(fn) {
							for _, cl := range callsIn(g) {
								cf := calleeFunc(cl.Common())
								if cf == nil || (cf != mRes && cf != mAcc) {
									continue
								}
								if dependsOn(callArgs(cl.Common())[0], fromCell, map[ssa.Value]bool{}, 0) {
									nt := map[bool]string{true: "handleResetResource", false: "handleResetAccess"}[cf == mRes]
									if target != "" && target != nt {
										target = "both handlers"
									} else {
										target = nt
									}
								}
							}
						}
					}
				}
			}
			ok := (fld == fRes && target == "handleResetResource") || (fld == fAcc && target == "handleResetAccess")
			fn2 := "?"
			if fld != nil {
				fn2 = fld.Name()
			}
			c.check(ok, fnName(fn), "reset field "+fn2+" is routed to its own visitor", p.InstrPos(call), fn2+" → "+target, "pattern list "+fn2+" is visited by "+target+": resources would be re-accessed instead of re-fetched or vice versa")
		}
	}
}

// TWIN/encode-value (C16.4)
func ruleEncodeValueTwin(c *Ctx) {
	p := c.P
	fType := p.Field("codec.Value.Type")
	fInner := p.Field("codec.Value.Inner")
	for _, enc := range []string{"encoderJSON", "encoderJSONFlat"} {
		fn := p.Fn("(*server." + enc + ").encodeValue")
		if fn == nil {
			c.undecided("(*server."+enc+").encodeValue", "anchor", "-", "not found")
			continue
		}
		encSub := p.Method("server." + enc + ".encodeSubscription")
		ridToPath := p.PkgFunc("server.RIDToPath")
		c.inst(1)
		bad := ""
		for _, tc := range []struct {
			typ  int64
			want string
		}{{3, "descend"}, {4, "href"}, {5, "inner"}, {2, "raw"}} {
			sp := &Spec{}
			sp.Eval = func(t *Tracer, fr *Frame, cond ssa.Value) (bool, bool) {
				x, op, k, ok := cmpConst(cond)
				if !ok {
					return false, false
				}
				var f *types.Var
				switch y := x.(type) {
				case *ssa.Field:
					f = y.X.Type().Underlying().(*types.Struct).Field(y.Field)
				default:
					f, _ = fieldLoad(x)
				}
				if f != fType {
					return false, false
				}
				return evalIntCmp(op, tc.typ, k)
			}
			sp.Classify = func(t *Tracer, fr *Frame, in ssa.Instruction) []Ev {
				if _, ok := isCallTo(in, encSub); ok {
					return []Ev{{Kind: "descend", Stop: true}}
				}
				if _, ok := isCallTo(in, ridToPath); ok {
					return []Ev{{Kind: "href"}}
				}
				if call, ok := in.(ssa.CallInstruction); ok {
					if cf := calleeFunc(call.Common()); cf != nil && cf.Name() == "Write" {
						arg := callArgs(call.Common())[1]
						switch y := stripConv(arg).(type) {
						case *ssa.Field:
							if y.X.Type().Underlying().(*types.Struct).Field(y.Field) == fInner {
								return []Ev{{Kind: "inner"}}
							}
							return []Ev{{Kind: "raw"}}
						}
					}
				}
				return nil
			}
			tr := runTrace(p, fn, sp)
			for _, path := range tr.Paths {
				got := map[string]bool{}
				for _, e := range path {
					got[e.Kind] = true
				}
				okk := got[tc.want]
				for _, other := range []string{"descend", "href", "inner", "raw"} {
					if other != tc.want && got[other] {
						okk = false
					}
				}
				if !okk && !strings.Contains(tr.FmtPath(path), "return") {
					// error returns of json.Marshal have no output event
					if len(path) > 0 {
						bad = fmt.Sprintf("value type %d is rendered as %v, expected %s", tc.typ, sortedKeys(got), tc.want)
					}
				}
			}
		}
		c.check(bad == "", fnName(fn), "reference → nested, soft reference → href only, data → inner value, primitive → raw", p.Pos(fn.Pos()), "4 value kinds evaluated by constant propagation", bad)
	}
}

// DOM/origin (C17.4)
func ruleOrigin(c *Ctx) {
	p := c.P
	// the CORS check is skipped only when the request has NO Origin header (or "null"): a header that is
	// present but empty is an origin that matches nothing. Reading the header with Get and comparing with ""
	// conflates the two; the presence test is on the header's value list.
	if fn := p.Fn("(*server.Service).setCommonHeaders"); fn != nil {
		c.inst(1)
		bad := ""
		for _, g := range p.withHelpers(fn) {
			for _, in := range instrsOf(g) {
				b, ok := in.(*ssa.BinOp)
				if !ok || (b.Op != token.EQL && b.Op != token.NEQ) {
					continue
				}
				for _, pr := range [][2]ssa.Value{{b.X, b.Y}, {b.Y, b.X}} {
					if s, isS := constString(pr[1]); !isS || s != "" {
						continue
					}
					if call, isC := pr[0].(*ssa.Call); isC {
						if cf := calleeFunc(&call.Call); cf != nil && cf.Name() == "Get" && cf.Pkg() != nil && (cf.Pkg().Path() == "net/http" || cf.Pkg().Path() == "net/textproto") {
							if k, isK := constString(call.Call.Args[len(call.Call.Args)-1]); isK && strings.EqualFold(k, "Origin") {
								bad = "the Origin header's value is compared with \"\" (" + p.InstrPos(b) + "): an Origin header that is present but empty is treated as absent and skips the allow-list"
							}
						}
					}
				}
			}
		}
		c.check(bad == "", fnName(fn), "the origin check is skipped only for a request without Origin header", p.Pos(fn.Pos()), "no comparison of Header.Get(\"Origin\") with the empty string", bad)
	}
	if fn := p.Fn("(*server.Service).wsHandler"); fn != nil {
		auth := p.Method("server.Service.wsHeaderAuth")
		fCheck := p.Field("websocket.Upgrader.CheckOrigin")
		_ = fCheck
		for _, call := range callsIn(fn) {
			if _, ok := isCallTo(call, auth); !ok {
				continue
			}
			c.inst(1)
			g := p.guardedBy(call, func(i *ssa.If) (bool, bool) {
				if cl, ok := i.Cond.(*ssa.Call); ok && cl.Call.StaticCallee() == nil && !cl.Call.IsInvoke() {
					if f, _ := fieldLoad(cl.Call.Value); f != nil && f.Name() == "CheckOrigin" {
						return true, true
					}
				}
				return false, false
			})
			c.check(g != nil, fnName(fn), "header authentication only for an allowed origin", p.InstrPos(call), "dominated by upgrader.CheckOrigin(r)", "an auth request is made for a forbidden origin")
		}
	}
	// the origin test of the upgrader is the one installed with the service's upgrader: nobody replaces it
	// afterwards, not on the service's upgrader and not on a per-request copy of it
	if fUp := p.Field("server.Service.upgrader"); fUp != nil {
		nSt := 0
		for _, fn := range p.Repo {
			for _, in := range instrsOf(fn) {
				st, ok := in.(*ssa.Store)
				if !ok {
					continue
				}
				fa, ok := st.Addr.(*ssa.FieldAddr)
				if !ok {
					continue
				}
				f := fieldOfAddr(fa)
				if f == nil || f.Name() != "CheckOrigin" || f.Pkg() == nil || !strings.Contains(f.Pkg().Path(), "websocket") {
					continue
				}
				nSt++
				c.inst(1)
				okSt := false
				switch b := fa.X.(type) {
				case *ssa.FieldAddr:
					okSt = fieldOfAddr(b) == fUp
				case *ssa.Alloc:
					// a literal built in a temporary and then stored into the service's field
					for _, r := range *b.Referrers() {
						if u, isU := r.(*ssa.UnOp); isU && u.Op == token.MUL {
							for _, r2 := range *u.Referrers() {
								if s2, isS := r2.(*ssa.Store); isS && s2.Val == ssa.Value(u) {
									if fa2, isFA := s2.Addr.(*ssa.FieldAddr); isFA && fieldOfAddr(fa2) == fUp {
										okSt = true
									}
								}
							}
						}
					}
				}
				c.check(okSt, fnName(fn), "the upgrader's origin test is set only where the service's upgrader is built", p.InstrPos(st), "part of the literal stored into Service.upgrader", "the origin test of an upgrader is replaced outside the construction of the service's upgrader (a per-request copy whose test always passes): an origin that is not on the allow-list is upgraded")
			}
		}
		if nSt == 0 {
			c.inst(1)
			c.viol("server.Service.upgrader", "the upgrader's origin test is set only where the service's upgrader is built", "-", "no store to CheckOrigin found")
		}
	}
	if fn := p.Fn("(*server.Service).apiHandler"); fn != nil {
		sch := p.Method("server.Service.setCommonHeaders")
		for _, call := range callsIn(fn) {
			cf := calleeFunc(call.Common())
			if cf == nil || (cf.Name() != "temporaryConn" && cf.Name() != "handleCall") {
				continue
			}
			c.inst(1)
			g := p.guardedBy(call, func(i *ssa.If) (bool, bool) {
				for _, d := range []bool{true, false} {
					if x, nn, ok := nilTest(i, d); ok && !nn {
						if e, ok := x.(*ssa.Call); ok && calleeFunc(&e.Call) == sch {
							return d, true
						}
					}
				}
				return false, false
			})
			c.check(g != nil, fnName(fn), "no service request for a forbidden origin ("+cf.Name()+")", p.InstrPos(call), "dominated by setCommonHeaders() == nil", "request served although the origin check failed")
		}
	}
	if fn := p.Fn("(*server.Service).setCommonHeaders"); fn != nil {
		c.inst(1)
		mo := p.PkgFunc("server.matchesOrigins")
		sp := &Spec{}
		sp.Classify = func(t *Tracer, fr *Frame, in ssa.Instruction) []Ev {
			if r, ok := in.(*ssa.Return); ok && fr == t.RootFr {
				if isNilConst(t.Resolve(fr, r.Results[0]).V) {
					return []Ev{{Kind: "allow"}}
				}
				return []Ev{{Kind: "forbid"}}
			}
			return nil
		}
		sp.Branch = func(t *Tracer, fr *Frame, i *ssa.If, dir bool) []Ev {
			if cl, ok := i.Cond.(*ssa.Call); ok && calleeFunc(&cl.Call) == mo {
				if dir {
					return []Ev{{Kind: "match"}}
				}
				return []Ev{{Kind: "nomatch"}}
			}
			return nil
		}
		tr := runTrace(p, fn, sp)
		bad := ""
		for _, path := range tr.Paths {
			if hasKind(path, "nomatch") && !hasKind(path, "forbid") {
				bad = "an origin that matches no allow-list entry is allowed: " + tr.FmtPath(path)
			}
			if hasKind(path, "match") && hasKind(path, "forbid") {
				bad = "a listed origin is refused: " + tr.FmtPath(path)
			}
		}
		c.check(bad == "", fnName(fn), "a non-matching origin yields the forbidden-origin error", p.Pos(fn.Pos()), fmt.Sprintf("%d paths", len(tr.Paths)), bad)
	}
}

// DOM/throttle (C19.1, C19.3)
func ruleThrottle(c *Ctx) {
	p := c.P
	fRun := p.Field("rescache.Throttle.running")
	fLimit := p.Field("rescache.Throttle.limit")
	fQueue := p.Field("rescache.Throttle.queue")
	if fn := p.Fn("(*rescache.Throttle).Add"); fn != nil {
		// check-then-act in one critical section: the decision "no slot free" and the queueing of the closure
		// (or "a slot is free" and taking it) are not separated by an unlock — a Done landing in between would
		// find nothing queued, and the closure queued afterwards is never started
		{
			c.inst(1)
			sp := &Spec{InlineHelpers: true}
			sp.Classify = func(t *Tracer, fr *Frame, in ssa.Instruction) []Ev {
				if k, ok := isMutexCall(in); ok {
					return []Ev{{Kind: k}}
				}
				if _, ok := isStoreToT(t, fr, in, fQueue); ok {
					return []Ev{{Kind: "enqueue"}}
				}
				if st, ok := isStoreToT(t, fr, in, fRun); ok {
					if b, isB := st.Val.(*ssa.BinOp); isB && b.Op == token.ADD {
						return []Ev{{Kind: "take"}}
					}
				}
				return nil
			}
			sp.Branch = func(t *Tracer, fr *Frame, i *ssa.If, dir bool) []Ev {
				b, ok := i.Cond.(*ssa.BinOp)
				if !ok {
					return nil
				}
				f1, _ := fieldLoad(b.X)
				f2, _ := fieldLoad(b.Y)
				if f1 != fRun || f2 != fLimit {
					return nil
				}
				full := false
				switch b.Op {
				case token.GEQ:
					full = dir
				case token.LSS:
					full = !dir
				default:
					return nil
				}
				if full {
					return []Ev{{Kind: "full"}}
				}
				return []Ev{{Kind: "free"}}
			}
			tr := runTrace(p, fn, sp)
			bad := ""
			for _, path := range tr.Paths {
				for _, pr := range [][2]string{{"full", "enqueue"}, {"free", "take"}} {
					di, ai := indexKind(path, pr[0]), indexKind(path, pr[1])
					if di < 0 {
						continue
					}
					if ai < di {
						bad = "the throttle decides \"" + pr[0] + "\" and does not act on it (" + pr[1] + ") on this path: " + tr.FmtPath(path)
						continue
					}
					depth := 0
					for _, e := range path[:di] {
						switch e.Kind {
						case "lock":
							depth++
						case "unlock":
							depth--
						}
					}
					cut := depth < 1
					for _, e := range path[di:ai] {
						if e.Kind == "unlock" {
							cut = true
						}
					}
					if cut {
						bad = "the throttle's decision (" + pr[0] + ") and its consequence (" + pr[1] + ") are not in one critical section: an answer's Done landing in between finds nothing queued, and the closure queued afterwards is never started — the governed request is never sent: " + tr.FmtPath(path)
					}
				}
			}
			if tr.Trunc {
				bad = "path budget exhausted"
			}
			c.check(bad == "", fnName(fn), "capacity decision and its consequence lie in one critical section", p.Pos(fn.Pos()), fmt.Sprintf("%d paths", len(tr.Paths)), bad)
		}
		for _, st := range p.stores[fRun] {
			if st.Parent() != fn {
				continue
			}
			c.inst(1)
			g := p.guardedBy(st, func(i *ssa.If) (bool, bool) {
				b, ok := i.Cond.(*ssa.BinOp)
				if !ok {
					return false, false
				}
				f1, _ := fieldLoad(b.X)
				f2, _ := fieldLoad(b.Y)
				if f1 != fRun || f2 != fLimit {
					return false, false
				}
				switch b.Op {
				case token.GEQ:
					return false, true
				case token.LSS:
					return true, true
				}
				return false, false
			})
			mu := p.Field("rescache.Throttle.mu")
			ls := lockStates(fn, mu, 0)[st]
			c.check(g != nil && ls == 1, fnName(fn), "a slot is taken only below the limit, under the throttle mutex", p.InstrPos(st), "running++ dominated by !(running >= limit), lock held", "more than limit requests can be outstanding (or the counter races)")
		}
	}
	if fn := p.Fn("(*rescache.Throttle).Done"); fn != nil {
		c.inst(1)
		sp := &Spec{}
		sp.Classify = func(t *Tracer, fr *Frame, in ssa.Instruction) []Ev {
			if st, ok := isStoreToT(t, fr, in, fRun); ok {
				if b, ok := st.Val.(*ssa.BinOp); ok && b.Op == token.SUB {
					return []Ev{{Kind: "running--"}}
				}
				return []Ev{{Kind: "running=?"}}
			}
			if st, ok := isStoreToT(t, fr, in, fQueue); ok {
				return []Ev{{Kind: "dequeue:" + queueForm(st, fQueue)}}
			}
			if g, ok := in.(*ssa.Go); ok && g.Common().StaticCallee() == nil {
				return []Ev{{Kind: "start-next"}}
			}
			if call, ok := in.(*ssa.Call); ok && call.Call.StaticCallee() == nil && !call.Call.IsInvoke() {
				if _, isB := call.Call.Value.(*ssa.Builtin); !isB {
					return []Ev{{Kind: "start-next:inline"}}
				}
			}
			if k, ok := isMutexCall(in); ok {
				return []Ev{{Kind: k}}
			}
			return nil
		}
		sp.Branch = func(t *Tracer, fr *Frame, i *ssa.If, dir bool) []Ev {
			if x, nn, ok := nilTest(i, dir); ok && !nn {
				if _, isP := x.(*ssa.Parameter); isP {
					return []Ev{{Kind: "nil-throttle"}}
				}
			}
			return nil
		}
		tr := runTrace(p, fn, sp)
		bad := ""
		for _, path := range tr.Paths {
			if hasKind(path, "nil-throttle") {
				if len(path) > 1 {
					bad = "Done on a nil throttle must be a no-op: " + tr.FmtPath(path)
				}
				continue
			}
			dec := countKind(path, "running--")
			next := countKind(path, "start-next") + countKind(path, "start-next:inline")
			if dec+next != 1 {
				bad = fmt.Sprintf("Done must either free the slot or hand it to exactly one waiting closure (running--=%d, started=%d): %s", dec, next, tr.FmtPath(path))
			}
			if next == 1 && !hasKind(path, "dequeue:headdrop") {
				bad = "the waiting closure started is not removed from the head of the queue: " + tr.FmtPath(path)
			}
			if hasKind(path, "start-next:inline") {
				bad = "the next closure runs under the completing request's stack (and the throttle mutex order): " + tr.FmtPath(path)
			}
			if hasKind(path, "running=?") {
				bad = "unrecognised update of running: " + tr.FmtPath(path)
			}
			if countKind(path, "lock") != countKind(path, "unlock") {
				bad = "throttle mutex not released on a path: " + tr.FmtPath(path)
			}
		}
		c.check(bad == "", fnName(fn), "Done frees the slot or hands it to the head of the queue, never both, never neither", p.Pos(fn.Pos()), fmt.Sprintf("%d paths", len(tr.Paths)), bad)
	}
	// NewThrottle only with a positive limit
	nt := p.PkgFunc("rescache.NewThrottle")
	for _, fn := range p.Repo {
		for _, call := range callsIn(fn) {
			if _, ok := isCallTo(call, nt); !ok {
				continue
			}
			c.inst(1)
			arg := call.Common().Args[0]
			g := p.guardedBy(call, func(i *ssa.If) (bool, bool) {
				x, op, k, ok := cmpConst(i.Cond)
				if !ok || k != 0 {
					return false, false
				}
				same := x == arg
				if !same {
					f1, _ := fieldLoad(x)
					f2, _ := fieldLoad(arg)
					same = f1 != nil && f1 == f2
				}
				if !same {
					return false, false
				}
				switch op {
				case token.GTR:
					return true, true
				case token.LEQ:
					return false, true
				}
				return false, false
			})
			c.check(g != nil, fnName(fn), "a throttle is created only with a positive limit", p.InstrPos(call), "dominated by limit > 0", "a zero-limit throttle queues every request forever")
			// ... and with a positive limit it IS created: no further condition (an estimate of the fan-out, a
			// count of matches) may let the governed requests go out unthrottled
			fLimit, _ := fieldLoad(arg)
			theCall := call
			root := TopLevel(fn)
			if fn.Parent() != nil {
				root = fn
			}
			sp := &Spec{InlineHelpers: true}
			sp.Classify = func(t *Tracer, fr *Frame, in ssa.Instruction) []Ev {
				if in == ssa.Instruction(theCall) {
					return []Ev{{Kind: "new-throttle", Stop: true}}
				}
				return nil
			}
			sp.Branch = func(t *Tracer, fr *Frame, i *ssa.If, dir bool) []Ev {
				x, op, k, ok := cmpConst(i.Cond)
				if !ok || k != 0 {
					return nil
				}
				same := fr.Fn == theCall.Parent() && x == arg
				if !same && fLimit != nil {
					f1, _ := fieldLoad(t.Resolve(fr, x).V)
					same = f1 == fLimit
				}
				if !same {
					return nil
				}
				if (op == token.GTR && dir) || (op == token.LEQ && !dir) {
					return []Ev{{Kind: "limit>0"}}
				}
				return nil
			}
			tr := runTrace(p, root, sp)
			bad := ""
			for _, path := range tr.Paths {
				if hasKind(path, "limit>0") && !hasKind(path, "new-throttle") {
					// a throttle handed in by the caller (t != nil) needs no new one: the limit test lies behind `t == nil`
					bad = "the limit is positive and yet no throttle is created on this path: the governed requests go out unbounded: " + tr.FmtPath(path)
				}
			}
			if tr.Trunc {
				bad = "path budget exhausted"
			}
			c.inst(1)
			c.check(bad == "", fnName(fn), "with a positive limit the throttle is created on every path", p.InstrPos(call), fmt.Sprintf("%d paths", len(tr.Paths)), bad)
		}
	}
}

// isLookupOK: v is the ok of a map lookup `x, ok := m[k]`, directly or as the
// second result of a small helper that returns the lookup's pair.
func isLookupOK(p *Prog, v ssa.Value, depth int) bool {
	e, ok := v.(*ssa.Extract)
	if !ok || depth > 2 {
		return false
	}
	switch t := e.Tuple.(type) {
	case *ssa.Lookup:
		return e.Index == 1 && t.CommaOk
	case *ssa.Call:
		sf := t.Call.StaticCallee()
		if sf == nil || !p.isRepoFn(sf) || len(sf.Blocks) == 0 || len(sf.Blocks) > 4 {
			return false
		}
		n := 0
		for _, in := range instrsOf(sf) {
			if r, isR := in.(*ssa.Return); isR && e.Index < len(r.Results) {
				n++
				if !isLookupOK(p, r.Results[e.Index], depth+1) {
					return false
				}
			}
		}
		return n > 0
	}
	return false
}

// lookupOKField: the field whose map the ok of `x, ok := recv.field[k]` was
// looked up in (through small pair-returning helpers), or nil.
func lookupOKField(p *Prog, v ssa.Value, depth int) *types.Var {
	e, ok := v.(*ssa.Extract)
	if !ok || depth > 2 {
		return nil
	}
	switch t := e.Tuple.(type) {
	case *ssa.Lookup:
		if e.Index == 1 && t.CommaOk {
			f, _ := fieldLoad(t.X)
			return f
		}
	case *ssa.Call:
		sf := t.Call.StaticCallee()
		if sf == nil || !p.isRepoFn(sf) || len(sf.Blocks) == 0 || len(sf.Blocks) > 4 {
			return nil
		}
		var f *types.Var
		for _, in := range instrsOf(sf) {
			if r, isR := in.(*ssa.Return); isR && e.Index < len(r.Results) {
				g := lookupOKField(p, r.Results[e.Index], depth+1)
				if g == nil || (f != nil && f != g) {
					return nil
				}
				f = g
			}
		}
		return f
	}
	return nil
}

// guardedUp: the instruction is guarded in its own function, or every call of
// its (statically called, repo-internal) function is.
func (p *Prog) guardedUp(in ssa.Instruction, pred guardPred, depth int) bool {
	if p.guardedBy(in, pred) != nil {
		return true
	}
	if depth >= 3 {
		return false
	}
	fn := in.Parent()
	for fn.Parent() != nil {
		fn = fn.Parent()
	}
	n := p.CG.Nodes[fn]
	if n == nil {
		return false
	}
	sites := 0
	for _, e := range n.In {
		if e.Caller.Func == nil || !p.isRepoFn(e.Caller.Func) || e.Site == nil {
			continue
		}
		if e.Caller.Func.Synthetic != "" && p.CG.Nodes[e.Caller.Func] != nil && len(p.CG.Nodes[e.Caller.Func].In) == 0 {
			continue
		}
		if e.Site.Common().StaticCallee() != fn {
			return false
		}
		sites++
		if !p.guardedUp(e.Site, pred, depth+1) {
			return false
		}
	}
	return sites > 0
}

// DOM/one-sub-per-rid (C08): a connection has one Subscription object per
// resource ID — the direct count, the reference counts and the held-back events
// live on it. A new object is registered under a resource ID only where the
// lookup of that ID found nothing: a second object for an ID still registered
// orphans the first (its count can no longer be released, its events go to an
// object the client does not see).
func ruleOneSubPerRID(c *Ctx) {
	p := c.P
	fSubs := p.Field("server.wsConn.subs")
	if fSubs == nil {
		c.undecided("server.wsConn.subs", "anchor", "-", "not found")
		return
	}
	n := 0
	for _, fn := range p.Repo {
		for _, in := range instrsOf(fn) {
			mu, ok := in.(*ssa.MapUpdate)
			if !ok {
				continue
			}
			if f, _ := fieldLoad(mu.Map); f != fSubs {
				continue
			}
			n++
			c.inst(1)
			absent := func(i *ssa.If) (bool, bool) {
				v := i.Cond
				neg := false
				if u, ok := v.(*ssa.UnOp); ok && u.Op == token.NOT {
					v, neg = u.X, true
				}
				if lookupOKField(p, v, 0) == fSubs {
					return neg, true
				}
				// `sub := c.subs[rid]; if sub == nil` — a nil entry is as good as none
				if b, ok := i.Cond.(*ssa.BinOp); ok && (b.Op == token.EQL || b.Op == token.NEQ) {
					x := b.X
					if isNilConst(x) {
						x = b.Y
					} else if !isNilConst(b.Y) {
						x = nil
					}
					var lk *ssa.Lookup
					switch y := x.(type) {
					case *ssa.Lookup:
						lk = y
					case *ssa.Extract:
						if l, ok := y.Tuple.(*ssa.Lookup); ok && y.Index == 0 {
							lk = l
						}
					}
					if lk != nil {
						if f, _ := fieldLoad(lk.X); f == fSubs {
							return b.Op == token.EQL, true
						}
					}
				}
				return false, false
			}
			c.check(p.guardedUp(mu, absent, 0), fnName(fn), "a subscription is registered under a resource ID only where the lookup of that ID found none", p.InstrPos(mu),
				"dominated by the not-found edge of the lookup in the same map", "a second Subscription object can be registered for a resource ID that still has one: the first one's counts can no longer be released and its events reach no client-visible state")
		}
	}
	if n == 0 {
		c.viol("server.wsConn.subs", "a subscription is registered under a resource ID only where the lookup of that ID found none", "-", "no registration found")
	}
}

// innermostLoopHeader: the header of the innermost natural loop containing b.
func innermostLoopHeader(b *ssa.BasicBlock) *ssa.BasicBlock {
	var best *ssa.BasicBlock
	for _, h := range b.Parent().Blocks {
		if !h.Dominates(b) && h != b {
			continue
		}
		if !loopBody(h)[b] {
			continue
		}
		if best == nil || best.Dominates(h) {
			best = h
		}
	}
	return best
}

// loopBody: the blocks of the natural loop(s) with header h (empty when h is
// no loop header).
func loopBody(h *ssa.BasicBlock) map[*ssa.BasicBlock]bool {
	body := map[*ssa.BasicBlock]bool{}
	var work []*ssa.BasicBlock
	for _, pr := range h.Preds {
		if h.Dominates(pr) || pr == h {
			work = append(work, pr)
		}
	}
	if len(work) == 0 {
		return body
	}
	body[h] = true
	for len(work) > 0 {
		x := work[len(work)-1]
		work = work[:len(work)-1]
		if body[x] {
			continue
		}
		body[x] = true
		for _, pr := range x.Preds {
			work = append(work, pr)
		}
	}
	return body
}

// sendsLike: the instruction sends to the client — a call of Send itself, or of a helper that did not exist on the
// reference tree and (transitively) does (sendEvent(event, data)).
func (p *Prog) sendsLike(in ssa.Instruction, send []*types.Func) bool {
	if _, ok := isCallTo(in, send...); ok {
		return true
	}
	call, ok := in.(ssa.CallInstruction)
	if !ok {
		return false
	}
	sf := call.Common().StaticCallee()
	if sf == nil || !p.isRepoFn(sf) || p.onReferenceTree(sf) || sf.Parent() != nil {
		return false
	}
	for _, h := range p.withNewHelpers(sf) {
		for _, c2 := range callsIn(h) {
			if _, ok := isCallTo(c2, send...); ok {
				return true
			}
		}
	}
	return false
}
