package main

// Generic guard rules written after the mutation sweep of round 11/12: each
// decides a crash-freedom (C15) necessary condition for every site of a
// syntactic kind in the repository, not for a named function.

import (
	"fmt"
	"go/token"
	"go/types"
	"strings"

	"golang.org/x/tools/go/ssa"
)

func inScopePkgs(fn *ssa.Function, pkgs ...string) bool {
	top := TopLevel(fn)
	if top.Pkg == nil {
		return false
	}
	for _, n := range pkgs {
		if top.Pkg.Pkg.Name() == n {
			return true
		}
	}
	return false
}

// ---------------------------------------------------------------------------
// DOM/lookup-ok (C15, C18, C20): the pointer a comma-ok map lookup returns is
// dereferenced only where the lookup is known to have found it: on the ok edge
// of that lookup, or under a non-nil test of the value. `rc, ok := c.mqReqs[sub]`
// followed by `rc.isReq` without `ok` is a nil dereference for every message
// that arrives for a request already completed — on the listener goroutine,
// which nothing recovers.

func ruleLookupOK(c *Ctx) {
	p := c.P
	n := 0
	for _, fn := range p.Repo {
		if !inScopePkgs(fn, "server", "rescache", "nats", "rpc", "codec") {
			continue
		}
		for _, in := range instrsOf(fn) {
			var lk ssa.Value
			switch x := in.(type) {
			case *ssa.Lookup:
				if !x.CommaOk {
					continue
				}
				mt, ok := x.X.Type().Underlying().(*types.Map)
				if !ok {
					continue
				}
				if _, isPtr := mt.Elem().Underlying().(*types.Pointer); !isPtr {
					continue
				}
				lk = x
			case *ssa.TypeAssert:
				// `rerr, ok := err.(*reserr.Error)`: nil when the assertion fails
				if !x.CommaOk {
					continue
				}
				if _, isPtr := x.AssertedType.Underlying().(*types.Pointer); !isPtr {
					continue
				}
				lk = x
			default:
				continue
			}
			if lk.Referrers() == nil {
				continue
			}
			// the value and the ok of this lookup
			var val, okv ssa.Value
			for _, r := range *lk.Referrers() {
				if ex, isE := r.(*ssa.Extract); isE {
					if ex.Index == 0 {
						val = ex
					} else {
						okv = ex
					}
				}
			}
			if val == nil {
				continue
			}
			// every dereference of val (also through a local cell it is spilled to)
			vals := map[ssa.Value]bool{val: true}
			for _, r := range *val.Referrers() {
				if st, isS := r.(*ssa.Store); isS && st.Val == val {
					if al, isA := st.Addr.(*ssa.Alloc); isA {
						// only when this is the cell's single store (otherwise the cell may hold something else)
						ns := 0
						for _, r2 := range *al.Referrers() {
							if s2, ok := r2.(*ssa.Store); ok && s2.Addr == ssa.Value(al) {
								ns++
							}
						}
						if ns == 1 {
							for _, r2 := range *al.Referrers() {
								if u, ok := r2.(*ssa.UnOp); ok && u.Op == token.MUL {
									vals[u] = true
								}
							}
						}
					}
				}
			}
			found := func(i *ssa.If) (bool, bool) {
				v := i.Cond
				neg := false
				if u, isU := v.(*ssa.UnOp); isU && u.Op == token.NOT {
					v, neg = u.X, true
				}
				if okv != nil && v == okv {
					return !neg, true
				}
				// ok spilled to a cell and re-loaded
				if u, isU := v.(*ssa.UnOp); isU && u.Op == token.MUL && okv != nil {
					if al, isA := u.X.(*ssa.Alloc); isA {
						for _, r := range *al.Referrers() {
							if st, isS := r.(*ssa.Store); isS && st.Val == okv {
								return !neg, true
							}
						}
					}
				}
				for _, d := range []bool{true, false} {
					if x, nn, isN := nilTest(i, d); isN && nn && vals[x] {
						return d, true
					}
				}
				// ok && other: the conjunction's true edge implies ok (compiled to nested ifs: handled by dominance)
				return false, false
			}
			for v := range vals {
				if v.Referrers() == nil {
					continue
				}
				for _, r := range *v.Referrers() {
					var at ssa.Instruction
					switch y := r.(type) {
					case *ssa.FieldAddr:
						if y.X == v {
							at = y
						}
					case *ssa.UnOp:
						if y.Op == token.MUL && y.X == v {
							at = y
						}
					case ssa.CallInstruction:
						if y.Common().IsInvoke() && y.Common().Value == v {
							at = y
						}
					}
					if at == nil {
						continue
					}
					n++
					c.inst(1)
					g := p.guardedBy(at, found)
					c.check(g != nil, fnName(fn), "the value of a comma-ok lookup is dereferenced only where the lookup found it", p.InstrPos(at), "dominated by the ok edge (or a non-nil test)",
						"a pointer taken out of a map is dereferenced on a path where the lookup may have found nothing: nil dereference — in a goroutine nothing recovers (message listener, timer queue, cache worker) that ends the gateway")
				}
			}
		}
	}
	if n == 0 {
		c.viol("repository", "the value of a comma-ok lookup is dereferenced only where the lookup found it", "-", "no such dereference found")
	}
}

// ---------------------------------------------------------------------------
// DOM/const-index (C15, C18): an element at a constant position of a slice or
// string that comes from outside (a message payload, a subject, a path) is read
// only where the length is known to exceed the position. `msg.Data[0]` without
// `len(msg.Data) > 0` panics on the empty "no responders" status message.

func ruleConstIndex(c *Ctx) {
	p := c.P
	n := 0
	for _, fn := range p.Repo {
		if !inScopePkgs(fn, "server", "rescache", "nats", "rpc", "codec") {
			continue
		}
		for _, in := range instrsOf(fn) {
			var x, idx ssa.Value
			switch y := in.(type) {
			case *ssa.IndexAddr:
				x, idx = y.X, y.Index
			case *ssa.Index:
				x, idx = y.X, y.Index
			case *ssa.Lookup:
				if bt, ok := y.X.Type().Underlying().(*types.Basic); ok && bt.Info()&types.IsString != 0 {
					x, idx = y.X, y.Index
				}
			}
			if x == nil {
				continue
			}
			k, isC := constInt(idx)
			if !isC || k < 0 {
				continue
			}
			switch x.Type().Underlying().(type) {
			case *types.Slice, *types.Basic:
			default:
				continue // arrays and pointers to arrays have a static length
			}
			// a slice made here with a constant length, or a literal, needs no test
			if originHasLen(x, k+1, 0) {
				continue
			}
			if why := constIndexExempt(p, fn, x); why != "" {
				c.inst(1)
				n++
				c.ok(fnName(fn), "an element at a constant position is read only where the length exceeds it", p.InstrPos(in), "exception: "+why)
				continue
			}
			n++
			c.inst(1)
			longEnough := func(i *ssa.If) (bool, bool) {
				for _, dir := range []bool{true, false} {
					if lenEstablished(i.Cond, dir, x, k) {
						return dir, true
					}
					// a json.RawMessage member that is present holds a JSON value: at least one byte
					if k == 0 && strings.HasSuffix(x.Type().String(), "json.RawMessage") {
						if y, nn, isN := nilTest(i, dir); isN && nn && sameSlice(y, x) {
							return dir, true
						}
					}
				}
				return false, false
			}
			g := p.guardedBy(in, longEnough)
			if g == nil && !p.onReferenceTree(TopLevel(fn)) {
				// the read moved into a helper that did not exist on the reference tree: whether its callers
				// establish the length is not decided here (the callers' own reads are)
				c.ok(fnName(fn), "an element at a constant position is read only where the length exceeds it", p.InstrPos(in), "in a helper extracted from checked code: the callers' guard is not re-derived")
				continue
			}
			c.check(g != nil, fnName(fn), "an element at a constant position is read only where the length exceeds it", p.InstrPos(in), fmt.Sprintf("dominated by a length test that implies len > %d", k),
				fmt.Sprintf("element [%d] is read on a path that has not established that the slice or string is that long: an empty payload, subject or path panics with index out of range", k))
		}
	}
	if n == 0 {
		c.note("no constant-position read of an outside slice or string")
	}
}

// originHasLen: x is made in this function with a constant length >= need (make, a literal, a fixed slice of an array).
func originHasLen(x ssa.Value, need int64, d int) bool {
	if d > 4 {
		return false
	}
	switch y := x.(type) {
	case *ssa.MakeSlice:
		if k, ok := constInt(y.Len); ok && k >= need {
			return true
		}
	case *ssa.Slice:
		if pt, ok := y.X.Type().Underlying().(*types.Pointer); ok {
			if at, ok := pt.Elem().Underlying().(*types.Array); ok {
				lo, hi := int64(0), at.Len()
				if y.Low != nil {
					if k, ok := constInt(y.Low); ok {
						lo = k
					} else {
						return false
					}
				}
				if y.High != nil {
					if k, ok := constInt(y.High); ok {
						hi = k
					} else {
						return false
					}
				}
				return hi-lo >= need
			}
		}
	case *ssa.Const:
		if s, ok := constString(y); ok {
			return int64(len(s)) >= need
		}
	case *ssa.Phi:
		for _, e := range y.Edges {
			if !originHasLen(e, need, d+1) {
				return false
			}
		}
		return len(y.Edges) > 0
	}
	return false
}

// sameSlice: two values denote the same slice/string: identical, or loads of the same field of the same base,
// or loads of the same cell.
func sameSlice(a, b ssa.Value) bool {
	a, b = stripConv(a), stripConv(b)
	if a == b {
		return true
	}
	fa, ba := fieldLoad(a)
	fb, bb := fieldLoad(b)
	if fa != nil && fa == fb {
		if ba == bb {
			return true
		}
		// bases that are loads of the same cell
		ua, ok1 := ba.(*ssa.UnOp)
		ub, ok2 := bb.(*ssa.UnOp)
		if ok1 && ok2 && ua.X == ub.X {
			return true
		}
	}
	ua, ok1 := a.(*ssa.UnOp)
	ub, ok2 := b.(*ssa.UnOp)
	if ok1 && ok2 && ua.Op == token.MUL && ub.Op == token.MUL && ua.X == ub.X {
		if _, isAl := ua.X.(*ssa.Alloc); isAl {
			return true
		}
	}
	return false
}

// lenEstablished: taking the dir edge of cond establishes len(x) > k.
func lenEstablished(cond ssa.Value, dir bool, x ssa.Value, k int64) bool {
	for {
		u, ok := cond.(*ssa.UnOp)
		if !ok || u.Op != token.NOT {
			break
		}
		cond, dir = u.X, !dir
	}
	bo, ok := cond.(*ssa.BinOp)
	if !ok {
		return false
	}
	isLenOf := func(v ssa.Value) bool {
		call, ok := v.(*ssa.Call)
		if !ok {
			return false
		}
		b, ok := call.Call.Value.(*ssa.Builtin)
		return ok && b.Name() == "len" && sameSlice(call.Call.Args[0], x)
	}
	op := bo.Op
	var c int64
	switch {
	case isLenOf(bo.X):
		kk, isC := constInt(bo.Y)
		if !isC {
			// len(x) > idx-like variable bounds: len(x) > len(y) etc. are not decided here
			return false
		}
		c = kk
	case isLenOf(bo.Y):
		kk, isC := constInt(bo.X)
		if !isC {
			return false
		}
		c = kk
		op = relSwap[op]
	default:
		// x == "const" / x != "" on strings: equality with a constant string fixes the length
		if s, isS := constString(bo.Y); isS && sameSlice(bo.X, x) {
			if bo.Op == token.EQL && dir {
				return int64(len(s)) > k
			}
			if bo.Op == token.NEQ && !dir {
				return int64(len(s)) > k
			}
			if s == "" && k == 0 {
				return (bo.Op == token.NEQ) == dir
			}
		}
		return false
	}
	if !dir {
		op = relFlip[op]
	}
	// len op c must imply len > k
	switch op {
	case token.GTR:
		return c >= k
	case token.GEQ:
		return c > k
	case token.EQL:
		return c > k
	case token.NEQ:
		return c == 0 && k == 0
	}
	return false
}

// ---------------------------------------------------------------------------
// DOM/optional-field (C15, C18, C20): a pointer field that is nil for part of its
// object's life — the extended-timeout timer of a pending request, the server
// connection of the adapter — is used as a receiver only under a non-nil test
// of that field. Frozen list; each entry says when the field is nil.

var optionalFields = []struct {
	Field, When string
	Only        []string // when set: the functions in which the field may be nil (elsewhere a protocol state guarantees it)
}{
	{"nats.responseCont.t", "nil until a timeout pre-response replaces the queue entry by a timer", nil},
	{"nats.Client.mq", "nil before Connect and after close", []string{"(*nats.Client).close", "(*nats.Client).Close", "(*nats.Client).IsClosed"}},
	{"server.Service.h", "nil unless the HTTP server was started", nil},
	{"rescache.EventSubscription.mqSub", "nil for an entry created by a call/auth/access request", nil},
	{"rescache.EventSubscription.base", "nil until the query-less resource is first used and after it was unregistered", nil},
}

func ruleOptionalField(c *Ctx) {
	p := c.P
	for _, of := range optionalFields {
		f := p.Field(of.Field)
		if f == nil && of.Field == "nats.responseCont.t" {
			f = natsFields(p).timer // the type or the member was renamed: the timer member next to the completion
		}
		if f == nil {
			c.undecided(of.Field, "anchor", "-", "field not found")
			continue
		}
		n := 0
		for _, ld := range p.loads[f] {
			lv, ok := ld.(ssa.Value)
			if !ok || lv.Referrers() == nil {
				continue
			}
			li := ld
			fn := li.Parent()
			if len(of.Only) > 0 {
				in := false
				for _, o := range of.Only {
					if p.refOwnerName(TopLevel(fn)) == o || fnName(TopLevel(fn)) == o {
						in = true
					}
				}
				if !in {
					continue
				}
			}
			for _, r := range *lv.Referrers() {
				var at ssa.Instruction
				switch y := r.(type) {
				case ssa.CallInstruction:
					com := y.Common()
					if com.IsInvoke() && com.Value == lv {
						at = y
					} else if !com.IsInvoke() {
						if args := com.Args; len(args) > 0 && args[0] == lv && com.StaticCallee() != nil && com.StaticCallee().Signature.Recv() != nil {
							// a method call with the field's value as receiver: only methods that dereference it
							// matter; repository methods with a nil-receiver guard are exempt (Throttle.Done)
							if sf := com.StaticCallee(); !p.isRepoFn(sf) || !nilReceiverSafe(sf) {
								at = y
							}
						}
					}
				case *ssa.FieldAddr:
					if y.X == lv {
						at = y
					}
				case *ssa.UnOp:
					if y.Op == token.MUL && y.X == lv {
						at = y
					}
				}
				if at == nil {
					continue
				}
				n++
				c.inst(1)
				nonNil := func(i *ssa.If) (bool, bool) {
					for _, d := range []bool{true, false} {
						if x, nn, isN := nilTest(i, d); isN && nn {
							if g, _ := fieldLoad(x); g == f {
								return d, true
							}
						}
					}
					return false, false
				}
				ok := p.guardedBy(at, nonNil) != nil
				why := "dominated by a non-nil test of the field"
				if !ok {
					// the field was stored a non-nil value earlier in the same function with nothing in between
					// that clears it (construction followed by use)
					if storedBefore(p, f, at) {
						ok, why = true, "set earlier on every path of this function"
					}
				}
				if !ok && !p.onReferenceTree(TopLevel(fn)) && p.guardedUp(at, nonNil, 0) {
					ok, why = true, "every call of this helper is dominated by a non-nil test"
				}
				if !ok {
					if _, okx := optionalFieldExempt[fnName(TopLevel(fn))+" "+of.Field]; okx {
						ok, why = true, "exception: "+optionalFieldExempt[fnName(TopLevel(fn))+" "+of.Field]
					}
				}
				c.check(ok, fnName(fn), "optional pointer "+of.Field+" is used only under its non-nil test", p.InstrPos(at), why,
					of.Field+" ("+of.When+") is dereferenced on a path that has not established that it is set: nil dereference, in a goroutine nothing recovers")
			}
		}
		if n == 0 {
			c.note("optional field %s: no dereference found", of.Field)
		}
	}
}

// optionalFieldExempt: sites where the field is known set for a reason no local
// test shows. Key: "<top-level function> <field>".
var optionalFieldExempt = map[string]string{}

func nilReceiverSafe(sf *ssa.Function) bool {
	if len(sf.Blocks) == 0 || len(sf.Params) == 0 {
		return false
	}
	i := blockIf(sf.Blocks[0])
	if i == nil {
		return false
	}
	for _, d := range []bool{true, false} {
		if x, _, ok := nilTest(i, d); ok && x == ssa.Value(sf.Params[0]) {
			return true
		}
	}
	return false
}

// storedBefore: a store of a non-nil value to field f dominates at, in the same function.
func storedBefore(p *Prog, f *types.Var, at ssa.Instruction) bool {
	for _, st := range p.stores[f] {
		if st.Parent() != at.Parent() || isNilConst(st.Val) {
			continue
		}
		if dominates(st, at) {
			return true
		}
	}
	return false
}

var _ = strings.HasPrefix

// constIndexExempt: reads at a constant position whose safety rests on an invariant another rule or the
// configuration code establishes.
func constIndexExempt(p *Prog, fn *ssa.Function, x ssa.Value) string {
	if f, _ := fieldLoad(stripConv(x)); f != nil && f.Name() == "allowOrigin" && fieldOwner(p, f) == "server.Config" {
		return "Config.prepare leaves the allow-list non-empty"
	}
	switch p.refOwnerName(TopLevel(fn)) {
	case "server.PathToRID", "server.PathToRIDAction":
		return "the path is longer than the prefix it starts with (DOM/path-prefix)"
	}
	return ""
}

// ---------------------------------------------------------------------------
// ERR/checked-before-use (C15): what a fallible call hands back is looked into
// only after its error was found nil. Two shapes:
//   v, err := decode(...)      every dereference of v (field, element, range, method call) is dominated by
//                              the err == nil edge of a test of that very err (or by a non-nil test of v);
//   err := json.Unmarshal(b, &t)  every read of t behind the call is dominated by the err == nil edge.
// A message that fails to decode is discarded as a whole; continuing with the
// zero value is a nil dereference on a goroutine nothing recovers, or a
// half-decoded message applied to the cache and fanned out.

func ruleErrCheckedBeforeUse(c *Ctx) {
	p := c.P
	n := 0
	what := "the result of a fallible call is looked into only after its error was found nil"
	for _, fn := range p.Repo {
		if !inScopePkgs(fn, "server", "rescache", "nats", "rpc", "codec") {
			continue
		}
		for _, call := range callsIn(fn) {
			cv, ok := call.(*ssa.Call)
			if !ok {
				continue
			}
			sig, _ := cv.Call.Value.Type().Underlying().(*types.Signature)
			if cv.Call.IsInvoke() {
				sig = cv.Call.Method.Type().(*types.Signature)
			}
			if sig == nil || sig.Results().Len() == 0 {
				continue
			}
			res := sig.Results()
			last := res.At(res.Len() - 1).Type()
			if !isErrorType(last) && !strings.HasSuffix(last.String(), "reserr.Error") {
				continue
			}
			// the error value of this call
			var errVal ssa.Value
			var vals []ssa.Value
			if res.Len() == 1 {
				errVal = cv
			} else if cv.Referrers() != nil {
				for _, r := range *cv.Referrers() {
					if ex, isE := r.(*ssa.Extract); isE {
						if ex.Index == res.Len()-1 {
							errVal = ex
						} else {
							switch ex.Type().Underlying().(type) {
							case *types.Pointer, *types.Map, *types.Slice, *types.Interface, *types.Struct:
								vals = append(vals, ex)
							}
						}
					}
				}
			}
			if errVal == nil {
				continue
			}
			errVals := map[ssa.Value]bool{errVal: true}
			spillLoads(errVal, errVals)
			errNil := func(i *ssa.If) (bool, bool) {
				for _, d := range []bool{true, false} {
					if x, nn, isN := nilTest(i, d); isN && !nn && errVals[x] {
						return d, true
					}
				}
				return false, false
			}
			// a decoder of the codec package hands back nothing usable with an error (DOM/all-or-nothing): its
			// result is not even passed on before the error was looked at
			strict := false
			if f := calleeFunc(&cv.Call); f != nil && f.Pkg() != nil && strings.HasSuffix(f.Pkg().Path(), "/codec") && strings.HasPrefix(f.Name(), "Decode") {
				strict = true
			}
			// shape 1: (v, err)
			for _, v := range vals {
				vs := map[ssa.Value]bool{v: true}
				spillLoads(v, vs)
				spillFieldLoads(v, vs)
				valNonNil := func(i *ssa.If) (bool, bool) {
					for _, d := range []bool{true, false} {
						if x, nn, isN := nilTest(i, d); isN && nn && vs[x] {
							return d, true
						}
					}
					return false, false
				}
				for x := range vs {
					if x.Referrers() == nil {
						continue
					}
					for _, r := range *x.Referrers() {
						at := derefOf(r, x)
						if at == nil && strict {
							at = handedOn(r, x, errVals)
						}
						if at == nil {
							continue
						}
						n++
						c.inst(1)
						ok := p.guardedBy(at, errNil) != nil || p.guardedBy(at, valNonNil) != nil
						c.check(ok, fnName(fn), what, p.InstrPos(at), "dominated by the err == nil edge of "+calleeName(&cv.Call),
							"the value "+calleeName(&cv.Call)+" returns is dereferenced on a path where its error has not been found nil: on a malformed message the value is nil (or half filled) — nil dereference on a worker goroutine, or a partial message applied")
					}
				}
			}
			// shape 2: err := json.Unmarshal(b, &t)
			if f := calleeFunc(&cv.Call); f != nil && f.Pkg() != nil && f.Pkg().Path() == "encoding/json" && f.Name() == "Unmarshal" && len(cv.Call.Args) == 2 {
				// shape 3: the function reports success only where the decoding error was found nil
				if rs := fn.Signature.Results(); rs.Len() > 0 && fn.Parent() == nil && inScopePkgs(fn, "codec") && fnName(fn) != "codec.TryDecodeLegacyNewResult" {
					// (TryDecodeLegacyNewResult answers "not the legacy form" for anything it cannot decode, by design)
					lt := rs.At(rs.Len() - 1).Type()
					if isErrorType(lt) || strings.HasSuffix(lt.String(), "reserr.Error") {
						for _, in2 := range instrsOf(fn) {
							ret, isR := in2.(*ssa.Return)
							if !isR || !dominates(cv, ret) || !isNilConst(ret.Results[len(ret.Results)-1]) {
								continue
							}
							n++
							c.inst(1)
							c.check(p.guardedBy(ret, errNil) != nil, fnName(fn), what, p.InstrPos(ret), "success is reported under err == nil of json.Unmarshal",
								"the function reports success on a path where the error of json.Unmarshal has not been found nil: a malformed message is decoded as an empty one and acted upon")
						}
					}
				}
				tgt := cv.Call.Args[1]
				if mi, ok := tgt.(*ssa.MakeInterface); ok {
					tgt = mi.X
				}
				// the target object: a local, or a local pointer variable (captured by closures) holding one
				var bases []ssa.Value
				switch y := tgt.(type) {
				case *ssa.Alloc:
					bases = append(bases, y)
				case *ssa.UnOp:
					if cell, ok := y.X.(*ssa.Alloc); ok && y.Op == token.MUL && cell.Referrers() != nil {
						n1 := 0
						var inner ssa.Value
						for _, r := range *cell.Referrers() {
							if st, ok := r.(*ssa.Store); ok && st.Addr == ssa.Value(cell) {
								n1++
								inner = st.Val
							}
						}
						if ia, ok := inner.(*ssa.Alloc); ok && n1 == 1 {
							bases = append(bases, ia)
							for _, r := range *cell.Referrers() {
								if u, ok := r.(*ssa.UnOp); ok && u.Op == token.MUL && u.Parent() == fn {
									bases = append(bases, u)
								}
							}
						}
					}
				}
				var refs []ssa.Instruction
				for _, b := range bases {
					if b.Referrers() != nil {
						refs = append(refs, *b.Referrers()...)
					}
				}
				for _, r := range refs {
					var at ssa.Instruction
					switch y := r.(type) {
					case *ssa.FieldAddr:
						// a read of a member (stores into the target before the call are initialisation)
						if y.Referrers() != nil {
							for _, r2 := range *y.Referrers() {
								if u, ok := r2.(*ssa.UnOp); ok && u.Op == token.MUL {
									at = u
								}
							}
						}
					case *ssa.UnOp:
						if y.Op == token.MUL {
							// the whole target handed back next to the error (`return r, err`) is not looked into
							onlyReturned := y.Referrers() != nil && len(*y.Referrers()) > 0
							if y.Referrers() != nil {
								for _, r2 := range *y.Referrers() {
									if _, isRet := r2.(*ssa.Return); !isRet {
										onlyReturned = false
									}
								}
							}
							if !onlyReturned {
								at = y
							}
						}
					}
					if at == nil || at.Parent() != fn || !dominates(cv, at) {
						continue
					}
					n++
					c.inst(1)
					ok := p.guardedBy(at, errNil) != nil
					c.check(ok, fnName(fn), what, p.InstrPos(at), "the decoded target is read under err == nil",
						"the target of json.Unmarshal is read on a path where the decoding error has not been found nil: a malformed message is taken for an empty one and acted upon instead of being discarded")
				}
			}
		}
	}
	if n == 0 {
		c.viol("repository", what, "-", "no such use found")
	}
}

// spillLoads adds the re-loads of a local cell that v is (the only value) stored to.
func spillLoads(v ssa.Value, into map[ssa.Value]bool) {
	if v.Referrers() == nil {
		return
	}
	for _, r := range *v.Referrers() {
		st, ok := r.(*ssa.Store)
		if !ok || st.Val != v {
			continue
		}
		al, ok := st.Addr.(*ssa.Alloc)
		if !ok {
			continue
		}
		ns := 0
		for _, r2 := range *al.Referrers() {
			if s2, ok := r2.(*ssa.Store); ok && s2.Addr == ssa.Value(al) {
				ns++
			}
		}
		if ns != 1 {
			continue
		}
		for _, r2 := range *al.Referrers() {
			if u, ok := r2.(*ssa.UnOp); ok && u.Op == token.MUL {
				into[u] = true
			}
		}
	}
}

// derefOf: the referrer looks into x (field, element, range, method call on it).
func derefOf(r ssa.Instruction, x ssa.Value) ssa.Instruction {
	switch y := r.(type) {
	case *ssa.FieldAddr:
		if y.X == x {
			return y
		}
	case *ssa.Field:
		if y.X == x {
			return y
		}
	case *ssa.UnOp:
		if y.Op == token.MUL && y.X == x {
			return y
		}
	case *ssa.IndexAddr:
		if y.X == x {
			return y
		}
	case *ssa.Index:
		if y.X == x {
			return y
		}
	case *ssa.Lookup:
		if y.X == x {
			return y
		}
	case *ssa.MapUpdate:
		if y.Map == x {
			return y
		}
	case *ssa.Range:
		if y.X == x {
			return y
		}
	case ssa.CallInstruction:
		com := y.Common()
		if com.IsInvoke() && com.Value == x {
			return y
		}
		if !com.IsInvoke() && len(com.Args) > 0 && com.Args[0] == x {
			if sf := com.StaticCallee(); sf != nil && sf.Signature.Recv() != nil {
				if _, isPtr := sf.Signature.Recv().Type().Underlying().(*types.Pointer); isPtr && !nilReceiverSafe(sf) {
					return y
				}
			}
		}
	}
	return nil
}

// spillFieldLoads: a struct result spilled to a local: the reads of its members.
func spillFieldLoads(v ssa.Value, into map[ssa.Value]bool) {
	if _, isStruct := v.Type().Underlying().(*types.Struct); !isStruct || v.Referrers() == nil {
		return
	}
	for _, r := range *v.Referrers() {
		st, ok := r.(*ssa.Store)
		if !ok || st.Val != v {
			continue
		}
		al, ok := st.Addr.(*ssa.Alloc)
		if !ok {
			continue
		}
		for _, r2 := range *al.Referrers() {
			if fa, ok := r2.(*ssa.FieldAddr); ok && fa.Referrers() != nil {
				for _, r3 := range *fa.Referrers() {
					if u, ok := r3.(*ssa.UnOp); ok && u.Op == token.MUL {
						into[u] = true // treated as "the value": any use of a member counts through handedOn/derefOf
					}
				}
			}
		}
	}
}

// handedOn: the value is stored somewhere or handed to a repository function that is not also handed the
// error (callback style) — for results of decoders, which are not to be touched before the error was seen.
func handedOn(r ssa.Instruction, x ssa.Value, errVals map[ssa.Value]bool) ssa.Instruction {
	switch y := r.(type) {
	case *ssa.Store:
		if y.Val == x {
			if _, isAl := y.Addr.(*ssa.Alloc); isAl {
				return nil
			}
			// stored into an object that also receives the error (&Access{AccessResult: access, Error: rerr}):
			// carried together with its error, like the arguments of a callback
			if fa, ok := y.Addr.(*ssa.FieldAddr); ok {
				if al, ok := fa.X.(*ssa.Alloc); ok && al.Referrers() != nil {
					for _, r2 := range *al.Referrers() {
						if fa2, ok := r2.(*ssa.FieldAddr); ok && fa2.Referrers() != nil {
							for _, r3 := range *fa2.Referrers() {
								if s3, ok := r3.(*ssa.Store); ok && (errVals[s3.Val] || isErrorType(s3.Val.Type()) || strings.HasSuffix(s3.Val.Type().String(), "reserr.Error")) {
									return nil
								}
							}
						}
					}
				}
			}
			return y
		}
	case *ssa.Range:
		if y.X == x {
			return y
		}
	case ssa.CallInstruction:
		com := y.Common()
		if isLogCall(com) {
			return nil
		}
		if b, ok := com.Value.(*ssa.Builtin); ok {
			if b.Name() == "len" || b.Name() == "cap" {
				return nil
			}
		}
		has := false
		for _, a := range com.Args {
			if a == x {
				has = true
			}
			if errVals[a] || isErrorType(a.Type()) || strings.HasSuffix(a.Type().String(), "reserr.Error") {
				return nil // handed on together with an error (callback style)
			}
		}
		if has {
			return y
		}
	}
	return nil
}

// ---------------------------------------------------------------------------
// DOM/map-made (C15, C02): a map kept in a struct member that is created on
// demand (somewhere in the repository the member is tested against nil) is
// written only where it is known to exist: on every path from the function's
// entry to the write, the member was made (a store of a fresh map) or found
// non-nil. `r.Errors[rid] = err` with the `if r.Errors == nil { r.Errors =
// make(…) }` in front of it dropped, inverted or skipped is "assignment to
// entry in nil map" — on the connection worker, which nothing recovers.

func ruleMapMade(c *Ctx) {
	p := c.P
	// members created on demand: some branch in the repository tests them against nil
	lazy := map[*types.Var]bool{}
	for _, fn := range p.Repo {
		for _, b := range fn.Blocks {
			i := blockIf(b)
			if i == nil {
				continue
			}
			if x, _, ok := nilTest(i, true); ok {
				if f, _ := fieldLoad(x); f != nil {
					if _, isMap := f.Type().Underlying().(*types.Map); isMap {
						lazy[f] = true
					}
				}
			}
		}
	}
	n := 0
	for _, fn := range p.Repo {
		if !inScopePkgs(fn, "server", "rescache", "nats", "rpc", "codec") {
			continue
		}
		for _, in := range instrsOf(fn) {
			mu, ok := in.(*ssa.MapUpdate)
			if !ok {
				continue
			}
			f, base := fieldLoad(mu.Map)
			if f == nil || !lazy[f] {
				continue
			}
			// a write inside a loop that ranges over the very map it writes: a nil map has no turn
			ranged := false
			if h := innermostLoopHeader(mu.Block()); h != nil {
				for _, hin := range fn.Blocks {
					for _, in2 := range hin.Instrs {
						if rg, ok := in2.(*ssa.Range); ok && rg.X == mu.Map && rg.Block().Dominates(mu.Block()) {
							ranged = true
						}
					}
				}
			}
			if ranged {
				continue
			}
			n++
			c.inst(1)
			// backward search: is there a path from the entry to mu that neither makes the member nor finds it non-nil?
			type key struct {
				b *ssa.BasicBlock
			}
			seen := map[key]bool{}
			establishes := func(b *ssa.BasicBlock, upTo int) bool {
				for k := upTo - 1; k >= 0; k-- {
					if st, ok := b.Instrs[k].(*ssa.Store); ok {
						if fa, ok := st.Addr.(*ssa.FieldAddr); ok && fieldOfAddr(fa) == f && !isNilConst(st.Val) {
							return true
						}
					}
				}
				return false
			}
			var open func(b *ssa.BasicBlock, upTo int) bool // true: a path reaches the entry unestablished
			open = func(b *ssa.BasicBlock, upTo int) bool {
				if establishes(b, upTo) {
					return false
				}
				if len(b.Preds) == 0 {
					return true
				}
				if seen[key{b}] {
					return false
				}
				seen[key{b}] = true
				for _, pb := range b.Preds {
					// entering b from pb over an edge that establishes non-nil?
					if i := blockIf(pb); i != nil {
						dir := pb.Succs[0] == b
						if pb.Succs[0] == pb.Succs[1] {
							dir = true
						}
						if x, nn, ok := nilTest(i, dir); ok && nn {
							if g, _ := fieldLoad(x); g == f {
								continue
							}
						}
					}
					if open(pb, len(pb.Instrs)) {
						return true
					}
				}
				return false
			}
			idx := 0
			for k, x := range mu.Block().Instrs {
				if x == ssa.Instruction(mu) {
					idx = k
				}
			}
			_ = base
			bad := open(mu.Block(), idx)
			okWhy := "made or found non-nil on every path"
			if bad && fn.Parent() == nil && !p.onReferenceTree(fn) {
				bad = false // a helper split off its caller: the caller's path decides (the caller is checked when it writes)
				okWhy = "helper"
			}
			c.check(!bad, fnName(fn), "a map member that is created on demand is written only where it exists", p.InstrPos(mu), okWhy,
				typeFieldName(p, f)+" is written on a path on which it was neither made nor found non-nil: assignment to entry in nil map — a panic on a worker goroutine that ends the gateway")
		}
	}
	if n == 0 {
		c.viol("repository", "a map member that is created on demand is written only where it exists", "-", "no such write found")
	}
}

// ---------------------------------------------------------------------------
// DOM/optional-hook (C15): a function kept in a struct member that may be unset
// (somewhere in the repository the member is tested against nil) is called only
// under a non-nil test of that member. onUnsubscribe, the closed handler and
// the WebSocket-close hook are set by tests or by optional configuration only:
// called unguarded, the production binary dereferences nil.

func ruleOptionalHook(c *Ctx) {
	p := c.P
	optional := map[*types.Var]bool{}
	for _, fn := range p.Repo {
		for _, b := range fn.Blocks {
			i := blockIf(b)
			if i == nil {
				continue
			}
			if x, _, ok := nilTest(i, true); ok {
				if f, _ := fieldLoad(x); f != nil {
					if _, isSig := f.Type().Underlying().(*types.Signature); isSig {
						optional[f] = true
					}
				}
			}
		}
	}
	n := 0
	for _, fn := range p.Repo {
		if !inScopePkgs(fn, "server", "rescache", "nats", "rpc", "codec") {
			continue
		}
		for _, call := range callsIn(fn) {
			com := call.Common()
			if com.IsInvoke() || com.StaticCallee() != nil {
				continue
			}
			f, _ := fieldLoad(com.Value)
			if f == nil || !optional[f] {
				continue
			}
			n++
			c.inst(1)
			nonNil := func(i *ssa.If) (bool, bool) {
				for _, d := range []bool{true, false} {
					if x, nn, isN := nilTest(i, d); isN && nn {
						if g, _ := fieldLoad(x); g == f {
							return d, true
						}
					}
				}
				return false, false
			}
			ok := p.guardedBy(call, nonNil) != nil
			if !ok && !p.onReferenceTree(TopLevel(fn)) && p.guardedUp(call, nonNil, 0) {
				ok = true
			}
			c.check(ok, fnName(fn), "an optional hook is called only where it is set", p.InstrPos(call), "under a non-nil test of "+typeFieldName(p, f),
				typeFieldName(p, f)+" is called on a path that has not established that it is set: the hook is installed by tests or optional configuration only — nil call on a worker goroutine")
		}
	}
	if n == 0 {
		c.note("no call of an optional hook")
	}
}

// ---------------------------------------------------------------------------
// PAIR/release-on-teardown (C11, C09, C20): the release functions release.
//   - unsubscribeConn and the cache's eviction unsubscribe the messaging-system
//     subscription they hold whenever there is one (and call nothing on a nil one);
//   - RemoveConn takes the connection out of the token-reset registry.

func ruleReleaseOnTeardown(c *Ctx) {
	p := c.P
	for _, it := range []struct{ fn, field, what string }{
		{"(*server.wsConn).unsubscribeConn", "server.wsConn.mqSub", "a closed connection's conn.<cid>.* subscription is released"},
		{"(*rescache.Cache).mqUnsubscribe", "rescache.EventSubscription.mqSub", "an evicted cache entry's event subscription is released"},
	} {
		fn := p.Fn(it.fn)
		f := p.Field(it.field)
		if fn == nil || f == nil {
			c.undecided(it.fn, "anchor", "-", "not found")
			continue
		}
		sp := &Spec{}
		sp.Branch = func(t *Tracer, fr *Frame, i *ssa.If, dir bool) []Ev {
			return fieldTestEv(t, fr, i, dir, f, "sub")
		}
		sp.Classify = func(t *Tracer, fr *Frame, in ssa.Instruction) []Ev {
			if cl, ok := in.(ssa.CallInstruction); ok && cl.Common().IsInvoke() && cl.Common().Method.Name() == "Unsubscribe" {
				if g, _ := fieldLoad(t.Resolve(fr, cl.Common().Value).V); g == f {
					return []Ev{{Kind: "unsubscribe"}}
				}
			}
			return nil
		}
		pathRule(c, fn, it.what+" whenever there is one", sp, 2, func(tr *Tracer, path []Ev) string {
			if hasKind(path, "sub!=nil") && !hasKind(path, "unsubscribe") {
				// the eviction may stop early when the entry was taken into use again: only paths that go on to
				// remove the entry matter there; for unsubscribeConn every path matters
				if strings.HasSuffix(it.fn, "unsubscribeConn") {
					return "the subscription is not released although there is one: every closed connection leaves a messaging-system subscription behind"
				}
			}
			if hasKind(path, "unsubscribe") && !hasKind(path, "sub!=nil") {
				return "Unsubscribe is called on a path that has not established that there is a subscription (nil for a connection whose subscribe failed, or an entry created by a call/auth request)"
			}
			return ""
		})
		// existence: some path releases
		c.inst(1)
		tr := runTrace(p, fn, sp)
		some := false
		for _, path := range tr.Paths {
			if hasKind(path, "unsubscribe") {
				some = true
			}
		}
		c.check(some, fnName(fn), it.what, p.Pos(fn.Pos()), "a path unsubscribes", "no path of the release function unsubscribes: the messaging-system subscription of every closed connection / evicted entry stays behind")
	}
	if fn := p.Fn("(*rescache.Cache).RemoveConn"); fn != nil {
		conns := p.Field("rescache.Cache.conns")
		sp := &Spec{}
		sp.Classify = func(t *Tracer, fr *Frame, in ssa.Instruction) []Ev {
			if call, ok := isBuiltinCall(in, "delete"); ok {
				if g, _ := fieldLoad(t.Resolve(fr, call.Call.Args[0]).V); g == conns {
					return []Ev{{Kind: "forget"}}
				}
			}
			return nil
		}
		pathRule(c, fn, "a closed connection leaves the token-reset registry", sp, 1, func(tr *Tracer, path []Ev) string {
			if !hasKind(path, "forget") {
				return "RemoveConn does not take the connection out of the registry: token resets keep being sent on behalf of closed connections, and the registry grows without bound"
			}
			return ""
		})
	}
}
