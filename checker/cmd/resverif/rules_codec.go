package main

import (
	"fmt"
	"go/token"
	"go/types"
	"strings"

	"golang.org/x/tools/go/ssa"
)

// ---------------------------------------------------------------------------
// DOM/all-or-nothing (C15.4): a decoder that reports an error hands out no data

func ruleDecoders(c *Ctx) {
	p := c.P
	for _, fn := range p.Repo {
		if fn.Pkg == nil || fn.Pkg.Pkg.Name() != "codec" || fn.Parent() != nil {
			continue
		}
		if !(strings.HasPrefix(fn.Name(), "Decode") || strings.HasPrefix(fn.Name(), "TryDecode")) {
			continue
		}
		res := fn.Signature.Results()
		ei := -1
		for i := 0; i < res.Len(); i++ {
			if isErrorType(res.At(i).Type()) || res.At(i).Type().String() == "*"+modPath+"/server/reserr.Error" {
				ei = i
			}
		}
		if ei < 0 {
			continue
		}
		c.inst(1)
		sp := &Spec{}
		sp.Classify = func(t *Tracer, fr *Frame, in ssa.Instruction) []Ev {
			r, ok := in.(*ssa.Return)
			if !ok || fr != t.RootFr {
				return nil
			}
			if isNilConst(t.Resolve(fr, r.Results[ei]).V) {
				// the dual: success hands out the decoded object (callers dereference it without a test)
				if _, isPtr := res.At(0).Type().Underlying().(*types.Pointer); isPtr && ei != 0 && !strings.HasSuffix(res.At(0).Type().String(), "codec.Meta") {
					v := t.Resolve(fr, r.Results[0])
					if isNilConst(v.V) {
						return []Ev{{Kind: "return:ok+nil"}}
					}
					if f, _ := fieldLoad(v.V); f != nil {
						return []Ev{{Kind: "return:ok", Note: "field:" + t.valKey(v.Fr, v.V, t.cur)}}
					}
				}
				return []Ev{{Kind: "return:ok"}}
			}
			for i, rv := range r.Results {
				if i == ei {
					continue
				}
				switch res.At(i).Type().Underlying().(type) {
				case *types.Pointer, *types.Map, *types.Slice:
					// *Meta travels with errors by design (canonicalised, C17)
					if strings.HasSuffix(res.At(i).Type().String(), "codec.Meta") {
						continue
					}
					v := t.Resolve(fr, rv).V
					if !isNilConst(v) {
						return []Ev{{Kind: "return:err+data", Note: fmt.Sprintf("result #%d", i)}}
					}
				case *types.Basic:
					v := t.Resolve(fr, rv).V
					if s, ok := constString(v); res.At(i).Type().Underlying().(*types.Basic).Kind() == types.String && !(ok && s == "") {
						return []Ev{{Kind: "return:err+data", Note: fmt.Sprintf("result #%d", i)}}
					}
				}
			}
			return []Ev{{Kind: "return:err"}}
		}
		sp.Branch = func(t *Tracer, fr *Frame, i *ssa.If, dir bool) []Ev {
			if x, nn, ok := nilTest(i, dir); ok && nn {
				if f, _ := fieldLoad(x); f != nil {
					return []Ev{{Kind: "nonnil", Note: "field:" + t.valKey(fr, x, t.cur)}}
				}
			}
			return nil
		}
		tr := runTrace(p, fn, sp)
		bad := ""
		for _, path := range tr.Paths {
			for k, e := range path {
				if e.Kind == "return:ok+nil" {
					bad = "decoder reports success without a decoded object: callers dereference the result of a successful decode without a test (nil pointer panic on the worker goroutine) @" + p.InstrPos(e.Instr)
				}
				if e.Kind == "return:ok" && strings.HasPrefix(e.Note, "field:") {
					tested := false
					for _, e2 := range path[:k] {
						if e2.Kind == "nonnil" && e2.Note == e.Note {
							tested = true
						}
					}
					if !tested {
						bad = "decoder reports success with a decoded pointer that was not tested for presence: callers dereference it without a test @" + p.InstrPos(e.Instr)
					}
				}
				if e.Kind == "return:err+data" {
					bad = "decoder returns data together with an error (" + e.Note + "): callers that log and continue would apply a partially decoded message @" + p.InstrPos(e.Instr)
				}
			}
		}
		if tr.Trunc {
			bad = "path budget exhausted"
		}
		c.check(bad == "", fnName(fn), "an error return carries no decoded data; a successful return carries the decoded object", p.Pos(fn.Pos()), fmt.Sprintf("%d paths", len(tr.Paths)), bad)
	}
}

// ---------------------------------------------------------------------------
// DOM/index-guard + DOM/kind-guard (C15.1, C15.3, C02.3)

func ruleIndexKindGuards(c *Ctx) {
	p := c.P
	fState := p.Field("rescache.ResourceSubscription.state")
	fModel := p.Field("rescache.ResourceSubscription.model")
	fColl := p.Field("rescache.ResourceSubscription.collection")
	fVals := p.Field("rescache.Collection.Values")
	type spec struct {
		fn       string
		idxField string
		strict   bool // need idx < len (element access); else idx <= len
		kind     *types.Var
		exclude  int64 // state that must be excluded (3 = collection, 4 = model)
	}
	for _, s := range []spec{
		{"(*rescache.ResourceSubscription).handleEventAdd", "codec.AddEvent.Idx", false, fColl, 4},
		{"(*rescache.ResourceSubscription).handleEventRemove", "codec.RemoveEvent.Idx", true, fColl, 4},
		{"(*rescache.ResourceSubscription).handleEventChange", "", false, fModel, 3},
	} {
		fn := p.Fn(s.fn)
		if fn == nil {
			c.undecided(s.fn, "anchor", "-", "not found")
			continue
		}
		// kind guard: loads of the content field dominated by the exclusion of the other kind
		for _, ld := range p.loads[s.kind] {
			li := ld.(ssa.Instruction)
			if li.Parent() != fn {
				continue
			}
			c.inst(1)
			g := p.guardedBy(li, fieldCmpGuard(fState, 5, func(v int64) bool { return v != s.exclude }))
			c.check(g != nil, s.fn, "content of the right kind dereferenced ("+s.kind.Name()+")", p.InstrPos(li), "dominated by the exclusion of the other resource kind", "event of the wrong kind for the resource would dereference a nil "+s.kind.Name())
		}
		if s.idxField == "" {
			continue
		}
		fIdx := p.Field(s.idxField)
		// every use of the decoded index as slice bound / element index
		var idxVals []ssa.Value
		for _, ld := range p.loads[fIdx] {
			if ld.(ssa.Instruction).Parent() == fn {
				idxVals = append(idxVals, ld.(ssa.Value))
			}
		}
		derived := map[ssa.Value]bool{}
		for _, v := range idxVals {
			derived[v] = true
		}
		// idx+1 etc.
		for changed := true; changed; {
			changed = false
			allInstrs(fn, func(in ssa.Instruction) {
				if b, ok := in.(*ssa.BinOp); ok && (b.Op == token.ADD || b.Op == token.SUB) {
					if (derived[b.X] || derived[b.Y]) && !derived[b] {
						derived[b] = true
						changed = true
					}
				}
			})
		}
		lower := func(i *ssa.If) (bool, bool) {
			x, op, k, ok := cmpConst(i.Cond)
			if !ok || !derived[x] || k != 0 {
				return false, false
			}
			switch op {
			case token.LSS: // idx < 0 -> false edge
				return false, true
			case token.GEQ:
				return true, true
			}
			return false, false
		}
		upper := func(i *ssa.If) (bool, bool) {
			b, ok := i.Cond.(*ssa.BinOp)
			if !ok || !derived[b.X] {
				return false, false
			}
			// rhs must be len(collection values)
			call, ok := b.Y.(*ssa.Call)
			if !ok {
				return false, false
			}
			if bi, ok := call.Call.Value.(*ssa.Builtin); !ok || bi.Name() != "len" {
				return false, false
			}
			if f, _ := fieldLoad(call.Call.Args[0]); f != fVals {
				return false, false
			}
			switch b.Op {
			case token.GTR: // idx > l false edge: idx <= l
				if !s.strict {
					return false, true
				}
			case token.GEQ: // idx >= l false edge: idx < l
				return false, true
			case token.LSS: // idx < l true edge
				return true, true
			case token.LEQ:
				if !s.strict {
					return true, true
				}
			}
			return false, false
		}
		n := 0
		allInstrs(fn, func(in ssa.Instruction) {
			uses := false
			switch x := in.(type) {
			case *ssa.Slice:
				uses = (x.Low != nil && derived[x.Low]) || (x.High != nil && derived[x.High])
			case *ssa.IndexAddr:
				uses = derived[x.Index]
			case *ssa.Index:
				uses = derived[x.Index]
			}
			if !uses {
				return
			}
			n++
			c.inst(1)
			g1, g2 := p.guardedBy(in, lower), p.guardedBy(in, upper)
			bound := "idx <= len"
			if s.strict {
				bound = "idx < len"
			}
			c.check(g1 != nil && g2 != nil, s.fn, "decoded index used as slice bound or element index only inside [0, len]", p.InstrPos(in),
				"dominated by idx >= 0 and "+bound+" against len(collection.Values)", "service-supplied index reaches a slice operation without both bounds ("+bound+"): out-of-range panic on a malformed event")
		})
		if n == 0 {
			c.viol(s.fn, "decoded index used as slice bound or element index only inside [0, len]", p.Pos(fn.Pos()), "no use of the decoded index found (rule is vacuous)")
		}
	}
}

// ---------------------------------------------------------------------------
// DOM/opt-deref (C15.2): optional decoded pointers dereferenced under a test

func ruleOptDeref(c *Ctx) {
	p := c.P
	for _, q := range []string{"codec.Meta.Status", "rpc.UnsubscribeRequest.Count", "codec.ValueObject.RID", "codec.ValueObject.Action", "rpc.Request.ID"} {
		f := p.Field(q)
		if f == nil {
			c.undecided(q, "anchor", "-", "not found")
			continue
		}
		for _, fn := range p.Repo {
			allInstrs(fn, func(in ssa.Instruction) {
				u, ok := in.(*ssa.UnOp)
				if !ok || u.Op != token.MUL {
					return
				}
				lf, _ := fieldLoad(u.X)
				if lf != f {
					return
				}
				c.inst(1)
				var nonNilD func(depth int) guardPred
				nonNilD = func(depth int) guardPred {
					return func(i *ssa.If) (bool, bool) {
						for _, d := range []bool{true, false} {
							if x, nn, ok := nilTest(i, d); ok && nn {
								if g, _ := fieldLoad(x); g == f {
									return d, true
								}
							}
						}
						// predicate summaries, inferred: a bool function all of whose non-constant results are
						// computed under the non-nil test implies it when it returns true (IsDirectResponseStatus,
						// hasStatus); one whose only other result is the constant true implies it when it returns
						// false (IsValidStatus)
						cond := i.Cond
						neg := false
						if un, ok := cond.(*ssa.UnOp); ok && un.Op == token.NOT {
							cond, neg = un.X, true
						}
						ridx := 0
						if ex, isE := cond.(*ssa.Extract); isE {
							// `s, ok := m.status()`: the bool of a tuple-returning helper
							cond, ridx = ex.Tuple, ex.Index
						}
						if call, ok := cond.(*ssa.Call); ok && depth < 3 {
							if sf := call.Call.StaticCallee(); sf != nil && p.isRepoFn(sf) && len(sf.Blocks) > 0 {
								if impliesGuard(p, sf, ridx, nonNilD(depth+1), false) {
									return !neg, true
								}
								if impliesGuard(p, sf, ridx, nonNilD(depth+1), true) {
									return neg, true
								}
							}
						}
						return false, false
					}
				}
				nonNil := nonNilD(0)
				g := p.guardedBy(in, nonNil)
				if g == nil && !p.onReferenceTree(TopLevel(fn)) && p.guardedUp(in, nonNil, 0) {
					// the dereference moved into a helper (setReference(vo)) that every caller calls under the test
					c.ok(fnName(fn), "optional decoded pointer "+q+" dereferenced only under its nil test", p.InstrPos(in), "every call of the helper is dominated by a non-nil test")
					return
				}
				c.check(g != nil, fnName(fn), "optional decoded pointer "+q+" dereferenced only under its nil test", p.InstrPos(in), "dominated by a non-nil test (or a predicate implying it)", "nil pointer dereference on a message that omits the field")
			})
		}
	}
	// pointer elements of decoded slices must be rejected by the decoder
	fEvents := p.Field("codec.EventQueryResult.Events")
	if fEvents != nil {
		c.inst(1)
		dec := p.Fn("codec.DecodeEventQueryResponse")
		ok := false
		if dec != nil {
			allInstrs(dec, func(in ssa.Instruction) {
				i, isIf := in.(*ssa.If)
				if !isIf {
					return
				}
				for _, d := range []bool{true, false} {
					x, nn, isN := nilTest(i, d)
					if !isN || nn {
						continue
					}
					// x is an element of res.Events
					if u, isU := x.(*ssa.UnOp); isU {
						if ia, isIA := u.X.(*ssa.IndexAddr); isIA {
							if f, _ := fieldLoad(ia.X); f == fEvents {
								// the nil edge must lead to an error return
								succ := i.Block().Succs[0]
								if !d {
									succ = i.Block().Succs[1]
								}
								if r, isR := succ.Instrs[len(succ.Instrs)-1].(*ssa.Return); isR && !isNilConst(r.Results[len(r.Results)-1]) {
									ok = true
								}
							}
						}
					}
				}
			})
		}
		if !ok && dec != nil {
			// the test moved into a predicate helper (`hasNullEvent(events)`): the helper tests an element of
			// its slice parameter against nil, it is handed result.events, and its result guards an error return
			for _, call := range callsIn(dec) {
				sf := call.Common().StaticCallee()
				if sf == nil || !p.isRepoFn(sf) || p.onReferenceTree(sf) || len(sf.Params) == 0 {
					continue
				}
				handed := false
				for _, a := range callArgs(call.Common()) {
					if f, _ := fieldLoad(stripConv(a)); f == fEvents {
						handed = true
					}
				}
				if !handed {
					continue
				}
				tests := false
				allInstrs(sf, func(in ssa.Instruction) {
					i, isIf := in.(*ssa.If)
					if !isIf {
						return
					}
					for _, d := range []bool{true, false} {
						if x, _, isN := nilTest(i, d); isN {
							if u, isU := x.(*ssa.UnOp); isU {
								if ia, isIA := u.X.(*ssa.IndexAddr); isIA {
									if _, isP := ia.X.(*ssa.Parameter); isP {
										tests = true
									}
								}
							}
						}
					}
				})
				if !tests {
					continue
				}
				cv, isV := call.(ssa.Value)
				if !isV || cv.Referrers() == nil {
					continue
				}
				for _, r := range *cv.Referrers() {
					var iff *ssa.If
					switch y := r.(type) {
					case *ssa.If:
						iff = y
					case *ssa.UnOp:
						for _, r2 := range *y.Referrers() {
							if i2, isI := r2.(*ssa.If); isI {
								iff = i2
							}
						}
					}
					if iff == nil {
						continue
					}
					for _, succ := range iff.Block().Succs {
						if len(succ.Instrs) > 0 {
							if rr, isR := succ.Instrs[len(succ.Instrs)-1].(*ssa.Return); isR && len(rr.Results) > 0 && !isNilConst(rr.Results[len(rr.Results)-1]) {
								ok = true
							}
						}
					}
				}
			}
		}
		c.check(ok, "(*rescache.EventSubscription).handleQueryEvent$1$1", "decoded pointer elements are nil-checked", "-", "DecodeEventQueryResponse rejects null elements of result.events", "a null element of a query response's events array is dereferenced by the cache worker")
	}
}

// ---------------------------------------------------------------------------
// census of explicit panics and unchecked type assertions (C15.5, C15.6)

var allowedPanics = map[string]string{
	"(*rescache.Throttle).Done":         "negative running counter: discharged by PAIR/throttle-slot (C19)",
	"(*server.Service).SetLogger":       "API misuse before start",
	"server.RegisterAPIEncoderFactory":  "init-time double registration",
	"server.init#1":                     "init-time marshal of a constant",
	"server.init":                       "init-time marshal of a constant",
	"command-line-arguments.main":       "shutdown timeout in main",
	"main.main":                         "shutdown timeout in main",
	"resgate.main":                      "shutdown timeout in main",
	"github.com/resgateio/resgate.main": "shutdown timeout in main",
}

var allowedAsserts = map[string]string{
	"(*nats.Client).onTimeout":        "timerqueue hands back the *nats.Subscription it was given",
	"(*rescache.Cache).mqUnsubscribe": "timerqueue hands back the *EventSubscription it was given",
}

func rulePanicCensus(c *Ctx) {
	p := c.P
	// functions handed to timerqueue.New as its callback
	timerCallbacks := map[*ssa.Function]bool{}
	for _, f := range p.Repo {
		for _, call := range callsIn(f) {
			cf := calleeFunc(call.Common())
			if cf == nil || cf.Pkg() == nil || !strings.HasSuffix(cf.Pkg().Path(), "timerqueue") || cf.Name() != "New" {
				continue
			}
			for _, a := range call.Common().Args {
				switch v := stripConv(a).(type) {
				case *ssa.Function:
					timerCallbacks[v] = true
				case *ssa.MakeClosure:
					vf := v.Fn.(*ssa.Function)
					timerCallbacks[vf] = true
					if m := boundMethod(vf); m != nil && vf.Synthetic != "" {
						if mf := p.SSA.FuncValue(m); mf != nil {
							timerCallbacks[mf] = true
						}
					}
				}
			}
		}
	}
	for _, fn := range p.Repo {
		allInstrs(fn, func(in ssa.Instruction) {
			switch x := in.(type) {
			case *ssa.Panic:
				if !x.Pos().IsValid() {
					return // synthesised by SSA lowering
				}
				c.inst(1)
				name := fnName(TopLevel(fn))
				if o, owned := p.ownedBy(fn, func(nm string) bool { _, l := allowedPanics[nm]; return l }); owned {
					name = o
				}
				why, ok := allowedPanics[name]
				c.check(ok, name, "explicit panic is a listed one", p.InstrPos(x), why, "explicit panic reachable at run time terminates the gateway (no recover anywhere)")
			case *ssa.TypeAssert:
				if x.CommaOk {
					return
				}
				if types.Identical(x.AssertedType, x.X.Type()) {
					return // the nil check of an interface method value (`s.mq.Close` as a func value): no type is asserted
				}
				c.inst(1)
				name := fnName(TopLevel(fn))
				if _, isPrm := x.X.(*ssa.Parameter); isPrm && timerCallbacks[fn] {
					c.ok(name, "unchecked type assertion is a listed one", p.InstrPos(x), "callback of a timer queue: the queue hands back the value it was given")
					return
				}
				if o, owned := p.ownedBy(fn, func(nm string) bool { _, l := allowedAsserts[nm]; return l }); owned {
					name = o
				}
				why, ok := allowedAsserts[name]
				c.check(ok, name, "unchecked type assertion is a listed one", p.InstrPos(x), why, "unchecked type assertion panics on an unexpected dynamic type")
			}
		})
	}
	// no recover(): containment relies on the absence of panics
}

// ---------------------------------------------------------------------------
// PAIR/enc-path (C16.1, C16.2) and HEAD == GET (C16.5)

func ruleEncoder(c *Ctx) {
	p := c.P
	contains := p.PkgFunc("server.containsString")
	subErr := p.Method("server.Subscription.Error")
	for _, enc := range []string{"encoderJSON", "encoderJSONFlat"} {
		fn := p.Fn("(*server." + enc + ").encodeSubscription")
		if fn == nil {
			c.undecided("(*server."+enc+").encodeSubscription", "anchor", "-", "not found")
			continue
		}
		fPath := p.Field("server." + enc + ".path")
		encVal := p.Method("server." + enc + ".encodeValue")
		c.inst(1)
		sp := &Spec{}
		sp.Classify = func(t *Tracer, fr *Frame, in ssa.Instruction) []Ev {
			if st, ok := isStoreToT(t, fr, in, fPath); ok {
				switch v := st.Val.(type) {
				case *ssa.Call:
					if b, ok := v.Call.Value.(*ssa.Builtin); ok && b.Name() == "append" {
						return []Ev{{Kind: "push"}}
					}
				case *ssa.Slice:
					return []Ev{{Kind: "pop"}}
				}
				return []Ev{{Kind: "path=?"}}
			}
			if _, ok := isCallTo(in, encVal); ok {
				return []Ev{{Kind: "descend", Stop: true}}
			}
			if r, ok := in.(*ssa.Return); ok && fr == t.RootFr {
				if isNilConst(t.Resolve(fr, r.Results[0]).V) {
					return []Ev{{Kind: "return:nil"}}
				}
				return []Ev{{Kind: "return:err"}}
			}
			return nil
		}
		sp.Branch = func(t *Tracer, fr *Frame, i *ssa.If, dir bool) []Ev {
			if call, ok := i.Cond.(*ssa.Call); ok && calleeFunc(&call.Call) == contains {
				if dir {
					return []Ev{{Kind: "cycle"}}
				}
				return []Ev{{Kind: "nocycle"}}
			}
			if x, nn, ok := nilTest(i, dir); ok {
				if call, ok := x.(*ssa.Call); ok && calleeFunc(&call.Call) == subErr {
					if nn {
						return []Ev{{Kind: "errleaf"}}
					}
					return []Ev{{Kind: "noerrleaf"}}
				}
			}
			return nil
		}
		tr := runTrace(p, fn, sp)
		bad := ""
		for _, path := range tr.Paths {
			if hasKind(path, "path=?") {
				bad = "unrecognised update of the expansion path"
			}
			pu, po := countKind(path, "push"), countKind(path, "pop")
			if hasKind(path, "return:nil") && pu != po {
				bad = fmt.Sprintf("successful path pushes %d and pops %d entries of the expansion path: later siblings would be cut as cycles (or cycles missed): %s", pu, po, tr.FmtPath(path))
			}
			pi := indexKind(path, "push")
			if pi >= 0 {
				if ci := indexKind(path, "nocycle"); ci < 0 || ci > pi {
					bad = "own rid pushed before the cycle test: every resource would look like a cycle: " + tr.FmtPath(path)
				}
				if ei := indexKind(path, "noerrleaf"); ei < 0 || ei > pi {
					bad = "own rid pushed before the error-leaf return: " + tr.FmtPath(path)
				}
			}
			if hasKind(path, "descend") {
				di := indexKind(path, "descend")
				if pi < 0 || pi > di || !hasKind(path[:di], "nocycle") {
					bad = "recursive descent not guarded by the cycle test and the push of the own rid: unbounded recursion on cyclic graphs: " + tr.FmtPath(path)
				}
			}
			if hasKind(path, "cycle") && (hasKind(path, "descend") || pu > 0) {
				bad = "a resource already on the expansion path is expanded again: " + tr.FmtPath(path)
			}
		}
		if tr.Trunc {
			bad = "path budget exhausted"
		}
		c.check(bad == "", fnName(fn), "expansion path balanced; cycle and error-leaf tests precede the push; descent guarded", p.Pos(fn.Pos()), fmt.Sprintf("%d paths", len(tr.Paths)), bad)
	}
	// HEAD handled exactly as GET: both comparisons lead to the same block, and nowhere else is HEAD tested
	api := p.Fn("(*server.Service).apiHandler")
	if api == nil {
		c.undecided("(*server.Service).apiHandler", "anchor", "-", "not found")
		return
	}
	c.inst(1)
	target := map[string]*ssa.BasicBlock{}
	nHead := 0
	for _, fn := range p.Repo {
		if fn.Pkg == nil || fn.Pkg.Pkg.Name() != "server" {
			continue
		}
		allInstrs(fn, func(in ssa.Instruction) {
			i, ok := in.(*ssa.If)
			if !ok {
				return
			}
			b, ok := i.Cond.(*ssa.BinOp)
			if !ok || b.Op != token.EQL {
				return
			}
			s, isS := constString(b.Y)
			if !isS || (s != "HEAD" && s != "GET") {
				return
			}
			if s == "HEAD" {
				nHead++
			}
			if fn == api {
				t := i.Block().Succs[0]
				// follow empty fallthrough blocks
				for len(t.Instrs) == 1 {
					if j, ok := t.Instrs[0].(*ssa.Jump); ok {
						_ = j
						t = t.Succs[0]
					} else {
						break
					}
				}
				target[s] = t
			}
		})
	}
	c.check(target["HEAD"] != nil && target["HEAD"] == target["GET"] && nHead == 1, fnName(api), "HEAD is handled exactly as GET", p.Pos(api.Pos()),
		"the HEAD and GET cases lead to the same block and HEAD is tested nowhere else", "HEAD requests take a different path than GET (status or headers may differ)")
}

// impliesGuard: every result of the bool function fn other than the constant
// `trivial` is produced under the guard (so fn() != trivial implies the guard).
func impliesGuard(p *Prog, fn *ssa.Function, ridx int, guard guardPred, trivial bool) bool {
	if ridx >= fn.Signature.Results().Len() {
		return false
	}
	if b, ok := fn.Signature.Results().At(ridx).Type().Underlying().(*types.Basic); !ok || b.Kind() != types.Bool {
		return false
	}
	n := 0
	okAll := true
	var check func(v ssa.Value, at ssa.Instruction, depth int)
	check = func(v ssa.Value, at ssa.Instruction, depth int) {
		if depth > 4 {
			okAll = false
			return
		}
		if c, isC := constBool(v); isC {
			if c != trivial {
				// a non-trivial constant must itself be under the guard
				if p.guardedBy(at, guard) == nil {
					okAll = false
				}
				n++
			}
			return
		}
		if ph, isP := v.(*ssa.Phi); isP {
			for i, e := range ph.Edges {
				pred := ph.Block().Preds[i]
				check(e, pred.Instrs[len(pred.Instrs)-1], depth+1)
			}
			return
		}
		n++
		in, isI := v.(ssa.Instruction)
		if !isI {
			okAll = false
			return
		}
		// the value is the guard's own test (possibly negated): its being != trivial is the guard
		vv, flip := v, false
		if u, isU := v.(*ssa.UnOp); isU && u.Op == token.NOT {
			vv, flip = u.X, true
		}
		if dir, isG := guard(&ssa.If{Cond: vv}); isG && (dir != flip) == !trivial {
			return
		}
		if p.guardedBy(in, guard) == nil && p.guardedBy(at, guard) == nil {
			okAll = false
		}
	}
	for _, in := range instrsOf(fn) {
		if r, ok := in.(*ssa.Return); ok {
			check(r.Results[ridx], r, 0)
		}
	}
	return okAll && n > 0
}
