package main

// Rules and clauses added after seeding round 11.

import (
	"fmt"
	"go/token"
	"go/types"
	"os"
	"strings"

	"golang.org/x/tools/go/ssa"
)

// ---------------------------------------------------------------------------
// TABLE/whole-input (C15): a message is decoded as a whole. json.Unmarshal
// refuses input with anything behind the first value; a streaming
// (*json.Decoder).Decode reads one value and leaves the rest unread, so
// `{"result":{…}}}` or two concatenated objects would be accepted instead of
// being discarded as malformed. Every Decode of a json.Decoder in the
// message-handling packages must be followed, in the same function, by a probe
// for trailing input on the same decoder (More / Token / a second Decode /
// Buffered / InputOffset) that the Decode dominates.

func ruleWholeInput(c *Ctx) {
	p := c.P
	nUnmarshal, nDecode := 0, 0
	isDecoderMethod := func(f *types.Func, names ...string) bool {
		if f == nil || f.Pkg() == nil || f.Pkg().Path() != "encoding/json" {
			return false
		}
		sig, _ := f.Type().(*types.Signature)
		if sig == nil || sig.Recv() == nil || !strings.HasSuffix(sig.Recv().Type().String(), "json.Decoder") {
			return false
		}
		for _, n := range names {
			if f.Name() == n {
				return true
			}
		}
		return false
	}
	for _, fn := range p.Repo {
		top := TopLevel(fn)
		if top.Pkg == nil {
			continue
		}
		switch top.Pkg.Pkg.Name() {
		case "codec", "rescache", "server", "rpc", "nats":
		default:
			continue
		}
		for _, call := range callsIn(fn) {
			f := calleeFunc(call.Common())
			if f == nil || f.Pkg() == nil || f.Pkg().Path() != "encoding/json" {
				continue
			}
			if f.Name() == "Unmarshal" && f.Type().(*types.Signature).Recv() == nil {
				nUnmarshal++
				continue
			}
			if !isDecoderMethod(f, "Decode") {
				continue
			}
			nDecode++
			c.inst(1)
			args := callArgs(call.Common())
			dec := stripConv(args[0])
			probed := false
			for _, c2 := range callsIn(fn) {
				if c2 == call {
					continue
				}
				f2 := calleeFunc(c2.Common())
				if !isDecoderMethod(f2, "More", "Token", "Decode", "Buffered", "InputOffset") {
					continue
				}
				a2 := callArgs(c2.Common())
				if len(a2) == 0 || stripConv(a2[0]) != dec {
					continue
				}
				if dominates(call, c2) {
					probed = true
				}
			}
			c.check(probed, fnName(fn), "a message is decoded as a whole: nothing may follow the value", p.InstrPos(call),
				"the streaming decode is followed by a probe for trailing input on the same decoder",
				"(*json.Decoder).Decode reads one JSON value and leaves the rest of the payload unread, and nothing in this function looks at the rest: a payload made of a well-formed value followed by further bytes is accepted and applied instead of being discarded as malformed (json.Unmarshal refuses it)")
		}
	}
	c.inst(nUnmarshal)
	if nDecode == 0 {
		c.ok("message decoders", "a message is decoded as a whole: nothing may follow the value", "-", fmt.Sprintf("%d json.Unmarshal sites (whole-input by contract), no streaming decoder in the message-handling packages", nUnmarshal))
	}
}

// ---------------------------------------------------------------------------
// TABLE/kind-by-presence (C12, C15): which kind of resource an answer carries
// is decided by which member is present (model / collection != nil), never by
// whether it is empty: `{}` and `[]` are valid resources, and a reset that
// empties a resource must produce the remove / delete-action events. No branch
// of the cache compares len() of a decoded Model / Collection member with a
// constant.

func ruleKindByPresence(c *Ctx) {
	p := c.P
	fields := map[*types.Var]string{}
	for _, q := range []string{"codec.GetResult.Model", "codec.GetResult.Collection", "codec.EventQueryResult.Model", "codec.EventQueryResult.Collection"} {
		if f := p.Field(q); f != nil {
			fields[f] = q
		}
	}
	if len(fields) < 4 {
		c.undecided("codec.GetResult", "anchor", "-", "result members not found")
		return
	}
	nNil := 0
	for _, fn := range p.Repo {
		top := TopLevel(fn)
		if top.Pkg == nil || (top.Pkg.Pkg.Name() != "rescache" && top.Pkg.Pkg.Name() != "codec") {
			continue
		}
		for _, b := range fn.Blocks {
			i := blockIf(b)
			if i == nil {
				continue
			}
			bo, ok := i.Cond.(*ssa.BinOp)
			if !ok {
				continue
			}
			// nil tests: counted (anti-vacuity)
			for _, side := range []ssa.Value{bo.X, bo.Y} {
				if f, _ := fieldLoad(stripConv(side)); f != nil {
					if _, isM := fields[f]; isM && (isNilConst(bo.X) || isNilConst(bo.Y)) {
						nNil++
					}
				}
			}
			// len(member) compared with a constant
			for k, side := range []ssa.Value{bo.X, bo.Y} {
				other := bo.Y
				if k == 1 {
					other = bo.X
				}
				if _, isC := constInt(other); !isC {
					continue
				}
				call, ok := side.(*ssa.Call)
				if !ok {
					continue
				}
				if bi, ok := call.Call.Value.(*ssa.Builtin); !ok || bi.Name() != "len" {
					continue
				}
				f, _ := fieldLoad(stripConv(call.Call.Args[0]))
				q, isM := fields[f]
				if !isM {
					continue
				}
				c.inst(1)
				c.viol(fnName(fn), "the kind of an answer is decided by the member that is present, not by its size", p.InstrPos(i),
					"a branch compares len("+q+") with a constant: an empty model {} or collection [] is a valid resource — treated as 'missing' it is rejected (a reset that empties a resource produces no remove / delete-action events and the cache keeps the stale content) or taken for the other kind")
			}
		}
	}
	c.inst(nNil)
	if nNil == 0 {
		c.viol("rescache", "the kind of an answer is decided by the member that is present, not by its size", "-", "no presence test of a decoded model / collection member found")
		return
	}
	c.ok("rescache, codec", "the kind of an answer is decided by the member that is present, not by its size", "-", fmt.Sprintf("%d presence tests (== nil / != nil) of decoded model / collection members; no branch on their length", nNil))
}

// ---------------------------------------------------------------------------
// DOM/count-integer (C08): the count of an unsubscribe request is an integer as
// it is decoded. A count decoded into a floating-point member and truncated
// accepts 1.5 for a client that holds one subscription (and releases it), where
// the request must be refused. The member the count is decoded into has an
// integer type, and no float→int conversion lies between it and the call of
// UnsubscribeResource.

func ruleCountInteger(c *Ctx) {
	p := c.P
	fCount := p.Field("rpc.UnsubscribeRequest.Count")
	unsub := p.Method("rpc.Requester.UnsubscribeResource")
	if fCount == nil || unsub == nil {
		c.undecided("rpc.UnsubscribeRequest.Count", "anchor", "-", "not found")
		return
	}
	c.inst(1)
	isInt := func(t types.Type) bool {
		if pt, ok := t.Underlying().(*types.Pointer); ok {
			t = pt.Elem()
		}
		b, ok := t.Underlying().(*types.Basic)
		return ok && b.Info()&types.IsInteger != 0
	}
	c.check(isInt(fCount.Type()), "rpc.UnsubscribeRequest.Count", "the unsubscribe count is decoded as an integer", p.Pos(fCount.Pos()),
		"member type "+fCount.Type().String()+": encoding/json refuses a fraction or an out-of-range number",
		"the count is decoded into a member of type "+fCount.Type().String()+": a fractional count (1.5) is accepted and truncated, so a request for more than is held succeeds and changes the count")
	// no narrowing conversion on the way to the handler
	n := 0
	for _, fn := range p.Repo {
		if fn.Pkg == nil || fn.Pkg.Pkg.Name() != "rpc" {
			continue
		}
		for _, call := range callsIn(fn) {
			if _, ok := isCallTo(call, unsub); !ok {
				continue
			}
			n++
			c.inst(1)
			args := callArgs(call.Common())
			bad := ""
			seen := map[ssa.Value]bool{}
			var walk func(v ssa.Value, d int)
			walk = func(v ssa.Value, d int) {
				if v == nil || seen[v] || d > 12 || bad != "" {
					return
				}
				seen[v] = true
				switch x := v.(type) {
				case *ssa.Convert:
					if b, ok := x.X.Type().Underlying().(*types.Basic); ok && b.Info()&types.IsFloat != 0 {
						bad = "the count handed to UnsubscribeResource is a floating-point number cut down to an integer (" + p.InstrPos(x) + "): 1.5 passes for 1"
						return
					}
					walk(x.X, d+1)
				case *ssa.Phi:
					for _, e := range x.Edges {
						walk(e, d+1)
					}
				case *ssa.UnOp:
					walk(x.X, d+1)
					if al, ok := x.X.(*ssa.Alloc); ok {
						for _, r := range *al.Referrers() {
							if st, ok := r.(*ssa.Store); ok && st.Addr == ssa.Value(al) {
								walk(st.Val, d+1)
							}
						}
					}
				case *ssa.BinOp:
					walk(x.X, d+1)
					walk(x.Y, d+1)
				case *ssa.ChangeType:
					walk(x.X, d+1)
				case *ssa.Call:
					if sf := x.Call.StaticCallee(); sf != nil && p.isRepoFn(sf) {
						for _, in := range instrsOf(sf) {
							if r, ok := in.(*ssa.Return); ok {
								for _, rv := range r.Results {
									walk(rv, d+1)
								}
							}
						}
					}
				case *ssa.Extract:
					walk(x.Tuple, d+1)
				}
			}
			if len(args) > 2 {
				walk(args[2], 0)
			}
			c.check(bad == "", fnName(fn), "the unsubscribe count reaches the handler as the integer that was decoded", p.InstrPos(call), "no float-to-integer conversion between the decoded count and the handler", bad)
		}
	}
	if n == 0 {
		c.viol("rpc.HandleRequest", "the unsubscribe count reaches the handler as the integer that was decoded", "-", "no call of UnsubscribeResource found")
	}
}

// ---------------------------------------------------------------------------
// PROV/cid-expand-whole (C10, C14): a subscription addresses the service with
// the client's resource id after the connection id was put in for EVERY {cid}
// tag of it — of the name and of the query. Both parts stored in a new
// Subscription derive from ExpandCID applied to the whole id: a part cut off the
// raw id before the expansion would carry the tag to the service literally, and
// all connections using the same tagged query would share one cached resource.

func ruleCIDExpandWhole(c *Ctx) {
	p := c.P
	fn := p.Fn("server.NewSubscription")
	fName := p.Field("server.Subscription.resourceName")
	fQuery := p.Field("server.Subscription.resourceQuery")
	if fn == nil || fName == nil || fQuery == nil {
		c.undecided("server.NewSubscription", "anchor", "-", "not found")
		return
	}
	var ridParam *ssa.Parameter
	for _, prm := range fn.Params {
		if b, ok := prm.Type().Underlying().(*types.Basic); ok && b.Info()&types.IsString != 0 {
			ridParam = prm
		}
	}
	if ridParam == nil {
		c.undecided("server.NewSubscription", "anchor", "-", "no resource id parameter")
		return
	}
	isExpand := func(cl *ssa.Call) bool {
		f := calleeFunc(&cl.Call)
		return f != nil && f.Name() == "ExpandCID"
	}
	for _, fld := range []*types.Var{fName, fQuery} {
		for _, st := range p.stores[fld] {
			if TopLevel(st.Parent()) != fn {
				continue
			}
			c.inst(1)
			bad := ""
			seen := map[ssa.Value]bool{}
			// walk backwards; raw says no ExpandCID has been passed yet on this chain
			var walk func(v ssa.Value, d int)
			walk = func(v ssa.Value, d int) {
				if v == nil || d > 16 || bad != "" || seen[v] {
					return
				}
				seen[v] = true
				switch x := v.(type) {
				case *ssa.Parameter:
					if x == ridParam {
						bad = "the " + fld.Name() + " of a new subscription is cut off the client's resource id before the connection id is put in: a {cid} tag in that part reaches the service literally, and every connection using it shares one cached resource"
					}
				case *ssa.Call:
					if isExpand(x) {
						// the whole id must go in: its argument is the id parameter itself
						args := callArgs(&x.Call)
						a := stripConv(args[len(args)-1])
						if a != ssa.Value(ridParam) {
							if _, isP := a.(*ssa.Parameter); !isP {
								bad = "ExpandCID is applied to a part of the resource id only (" + p.InstrPos(x) + "): a {cid} tag in the rest of the id is not replaced"
							}
						}
						return
					}
					if _, isB := x.Call.Value.(*ssa.Builtin); isB {
						return
					}
					for _, a := range callArgs(&x.Call) {
						if b, ok := a.Type().Underlying().(*types.Basic); ok && b.Info()&types.IsString != 0 {
							walk(a, d+1)
						}
					}
				case *ssa.Extract:
					walk(x.Tuple, d+1)
				case *ssa.Phi:
					for _, e := range x.Edges {
						walk(e, d+1)
					}
				case *ssa.Slice:
					walk(x.X, d+1)
				case *ssa.BinOp:
					walk(x.X, d+1)
					walk(x.Y, d+1)
				case *ssa.UnOp:
					if al, ok := x.X.(*ssa.Alloc); ok {
						for _, r := range *al.Referrers() {
							if s2, ok := r.(*ssa.Store); ok && s2.Addr == ssa.Value(al) {
								walk(s2.Val, d+1)
							}
						}
					}
				case *ssa.ChangeType:
					walk(x.X, d+1)
				}
			}
			walk(st.Val, 0)
			c.check(bad == "", fnName(fn), "name and query of a subscription both derive from the {cid}-expanded whole resource id ("+fld.Name()+")", p.InstrPos(st), "derived from ExpandCID(rid)", bad)
		}
	}
}

// ---------------------------------------------------------------------------
// DOM/control-line-parts (C18): the length test that refuses a request with
// system.subjectTooLong measures what is put on the control line: the subject
// AND the reply inbox that is actually used. A constant in place of the inbox's
// length lets subjects through that do not fit; the server then drops the
// connection instead of the request being refused.

func ruleControlLineParts(c *Ctx) {
	p := c.P
	fn := p.Fn("(*nats.Client).SendRequest")
	if fn == nil {
		c.undecided("(*nats.Client).SendRequest", "anchor", "-", "not found")
		return
	}
	n := 0
	for _, call := range callsIn(fn) {
		f := calleeFunc(call.Common())
		if f == nil || f.Name() != "PublishRequest" {
			continue
		}
		n++
		c.inst(1)
		// the guard: a comparison with the control-line limit that dominates the publish
		var lens []ssa.Value
		guard := func(i *ssa.If) (bool, bool) {
			x, op, k, ok := cmpConst(i.Cond)
			if !ok || k < 4000 || k > 4096 {
				return false, false
			}
			var got []ssa.Value
			var walk func(v ssa.Value)
			walk = func(v ssa.Value) {
				switch y := v.(type) {
				case *ssa.BinOp:
					walk(y.X)
					walk(y.Y)
				case *ssa.Call:
					if b, ok := y.Call.Value.(*ssa.Builtin); ok && b.Name() == "len" {
						got = append(got, stripConv(y.Call.Args[0]))
					}
				}
			}
			walk(x)
			if len(got) == 0 {
				return false, false
			}
			lens = got
			switch op {
			case token.GTR, token.GEQ:
				return false, true
			case token.LSS, token.LEQ:
				return true, true
			}
			return false, false
		}
		g := p.guardedBy(call, guard)
		if g == nil {
			c.viol(fnName(fn), "the length test covers subject and reply inbox as they are sent", p.InstrPos(call), "no length guard dominates PublishRequest")
			continue
		}
		same := func(a, b ssa.Value) bool {
			a, b = stripConv(a), stripConv(b)
			if a == b {
				return true
			}
			ua, ok1 := a.(*ssa.UnOp)
			ub, ok2 := b.(*ssa.UnOp)
			return ok1 && ok2 && ua.X == ub.X
		}
		bad := ""
		args := callArgs(call.Common())
		for _, a := range args[1:] {
			bt, ok := a.Type().Underlying().(*types.Basic)
			if !ok || bt.Info()&types.IsString == 0 {
				continue
			}
			found := false
			for _, l := range lens {
				if same(l, a) {
					found = true
				}
			}
			if !found {
				bad = "the length test in front of PublishRequest does not measure " + a.Name() + " (a string that goes on the control line next to the subject): with an assumed length in its place, subjects that do not fit are published — the server closes the connection and the request ends with a timeout instead of system.subjectTooLong"
			}
		}
		c.check(bad == "", fnName(fn), "the length test covers subject and reply inbox as they are sent", p.InstrPos(call), fmt.Sprintf("guard measures %d strings, all strings handed to PublishRequest among them", len(lens)), bad)
	}
	if n == 0 {
		c.viol(fnName(fn), "the length test covers subject and reply inbox as they are sent", "-", "no PublishRequest found")
	}
}

// ---------------------------------------------------------------------------
// DOM/null-origin-raw (C17): the origin "null" that bypasses the allow-list is
// the header value as the client sent it. A comparison with "null" after any
// transformation (case folding, trimming) lets "NULL" or "Null" — which
// browsers never send — through without consulting the allow-list.

func ruleNullOriginRaw(c *Ctx) {
	p := c.P
	n := 0
	for _, fn := range p.Repo {
		top := TopLevel(fn)
		if top.Pkg == nil || top.Pkg.Pkg.Name() != "server" {
			continue
		}
		for _, in := range instrsOf(fn) {
			bo, ok := in.(*ssa.BinOp)
			if !ok || (bo.Op != token.EQL && bo.Op != token.NEQ) {
				continue
			}
			var other ssa.Value
			if s, isS := constString(bo.Y); isS && s == "null" {
				other = bo.X
			} else if s, isS := constString(bo.X); isS && s == "null" {
				other = bo.Y
			}
			if other == nil {
				continue
			}
			n++
			c.inst(1)
			bad := ""
			seen := map[ssa.Value]bool{}
			var walk func(v ssa.Value, d int)
			walk = func(v ssa.Value, d int) {
				if v == nil || seen[v] || d > 10 || bad != "" {
					return
				}
				seen[v] = true
				switch x := v.(type) {
				case *ssa.Call:
					if _, isB := x.Call.Value.(*ssa.Builtin); !isB {
						bad = "the value compared with \"null\" is the result of " + calleeName(&x.Call) + " (" + p.InstrPos(x) + "), not the Origin header as received: an origin that only becomes \"null\" after the transformation (\"NULL\") bypasses the allow-list"
					}
				case *ssa.UnOp:
					walk(x.X, d+1)
				case *ssa.IndexAddr:
					walk(x.X, d+1)
				case *ssa.Index:
					walk(x.X, d+1)
				case *ssa.Phi:
					for _, e := range x.Edges {
						walk(e, d+1)
					}
				case *ssa.Slice:
					walk(x.X, d+1)
				case *ssa.Convert:
					walk(x.X, d+1)
				case *ssa.ChangeType:
					walk(x.X, d+1)
				case *ssa.Extract:
					walk(x.Tuple, d+1)
				case *ssa.Alloc:
					for _, r := range *x.Referrers() {
						if s2, ok := r.(*ssa.Store); ok && s2.Addr == ssa.Value(x) {
							walk(s2.Val, d+1)
						}
					}
				case *ssa.FreeVar:
					if mc := p.parent[x.Parent()]; mc != nil {
						for i, fv := range x.Parent().FreeVars {
							if fv == x && i < len(mc.Bindings) {
								walk(mc.Bindings[i], d+1)
							}
						}
					}
				}
			}
			walk(other, 0)
			c.check(bad == "", fnName(fn), "the null origin is recognised on the header value as received", p.InstrPos(bo), "compared untransformed", bad)
		}
	}
	if n == 0 {
		c.viol("server", "the null origin is recognised on the header value as received", "-", "no comparison with the null origin found")
	}
}

// ---------------------------------------------------------------------------
// CONF/query-event-discards (C13): a query event is acted upon — one query
// request per cached query — unless one of the listed reasons discards it:
// nothing is cached under a query, the payload is malformed, the subject is
// missing. A path of handleQueryEvent that returns before locking the event
// queue has taken one of these three edges; any other early return silently
// drops query events (a remembered subject, a rate limit, a state flag).

func ruleQueryEventDiscards(c *Ctx) {
	p := c.P
	fn := p.Fn("(*rescache.EventSubscription).handleQueryEvent")
	lock := p.Method("rescache.EventSubscription.lockEvents")
	fQueries := p.Field("rescache.EventSubscription.queries")
	fSubject := p.Field("codec.QueryEvent.Subject")
	if fn == nil || lock == nil || fQueries == nil || fSubject == nil {
		c.undecided("(*rescache.EventSubscription).handleQueryEvent", "anchor", "-", "not found")
		return
	}
	c.inst(1)
	sp := &Spec{}
	sp.Classify = func(t *Tracer, fr *Frame, in ssa.Instruction) []Ev {
		if _, ok := isCallTo(in, lock); ok {
			return []Ev{{Kind: "lock", Stop: true}}
		}
		return nil
	}
	isLenOfQueries := func(t *Tracer, fr *Frame, v ssa.Value) bool {
		r := t.Resolve(fr, v)
		call, ok := r.V.(*ssa.Call)
		if !ok {
			return false
		}
		if b, ok := call.Call.Value.(*ssa.Builtin); !ok || b.Name() != "len" {
			return false
		}
		f, _ := fieldLoad(t.Resolve(r.Fr, call.Call.Args[0]).V)
		return f == fQueries
	}
	sp.Branch = func(t *Tracer, fr *Frame, i *ssa.If, dir bool) []Ev {
		if hasLockBefore(t) {
			return nil
		}
		// decode error
		if x, nn, ok := nilTest(i, dir); ok && isErrorType(x.Type()) {
			if nn {
				return []Ev{{Kind: "discard:malformed"}}
			}
			return nil
		}
		if bo, ok := i.Cond.(*ssa.BinOp); ok {
			// len(e.queries) == 0
			if x, op, k, isC := cmpConst(i.Cond); isC && isLenOfQueries(t, fr, x) {
				empty, known := false, false
				for _, probe := range []int64{0} {
					v, ok2 := evalIntCmp(op, probe, k)
					if ok2 {
						empty, known = v == dir, true
					}
				}
				if known && empty {
					return []Ev{{Kind: "discard:no-queries"}}
				}
				return nil
			}
			// qe.Subject == ""
			for _, pair := range [][2]ssa.Value{{bo.X, bo.Y}, {bo.Y, bo.X}} {
				if s, isS := constString(pair[1]); isS && s == "" {
					if f, _ := fieldLoad(t.Resolve(fr, pair[0]).V); f == fSubject {
						if (bo.Op == token.EQL) == dir {
							return []Ev{{Kind: "discard:no-subject"}}
						}
						return nil
					}
				}
			}
		}
		return []Ev{{Kind: "decision", Note: p.InstrPos(i)}}
	}
	tr := runTrace(p, fn, sp)
	bad := ""
	nDiscard, nLock := 0, 0
	for _, path := range tr.Paths {
		if hasKind(path, "lock") {
			nLock++
			continue
		}
		listed := false
		for _, e := range path {
			if strings.HasPrefix(e.Kind, "discard:") {
				listed = true
			}
		}
		if listed {
			nDiscard++
			continue
		}
		bad = "a query event is dropped on a path that took none of the listed discards (nothing cached under a query, malformed payload, missing subject): " + tr.FmtPath(path) + " — the cached query resources are not refreshed and stay stale for every subscriber"
	}
	if nLock == 0 {
		bad = "no path reaches lockEvents"
	}
	if tr.Trunc {
		bad = "path budget exhausted"
	}
	c.check(bad == "", fnName(fn), "a query event is dropped only by the listed discards", p.Pos(fn.Pos()), fmt.Sprintf("%d paths: %d lock the queue and go on, %d are listed discards", len(tr.Paths), nLock, nDiscard), bad)
}

// hasLockBefore: the current path already holds a "lock" event.
func hasLockBefore(t *Tracer) bool {
	for e := t.cur.evs; e != nil; e = e.next {
		if e.ev.Kind == "lock" {
			return true
		}
	}
	return false
}

// ---------------------------------------------------------------------------
// TABLE/add-run (C01, C12, C03): the counterpart of TABLE/remove-run for adds.
// Events are applied one after the other; a run of adds emitted by one loop that
// walks its source upwards must move its index along, because every add at one
// fixed index pushes the previous one up: the run arrives reversed.

func ruleAddRun(c *Ctx) {
	p := c.P
	fIdx := p.Field("codec.AddEvent.Idx")
	fVal := p.Field("codec.AddEvent.Value")
	if fIdx == nil || fVal == nil {
		c.undecided("codec.AddEvent.Idx", "anchor", "-", "not found")
		return
	}
	n := 0
	for _, st := range p.stores[fIdx] {
		fn := st.Parent()
		if TopLevel(fn).Pkg == nil || TopLevel(fn).Pkg.Pkg.Name() != "rescache" {
			continue
		}
		n++
		c.inst(1)
		bad := ""
		fa, ok := st.Addr.(*ssa.FieldAddr)
		if !ok {
			c.ok(fnName(fn), "adds emitted by one ascending loop move their index along", p.InstrPos(st), "not a literal")
			continue
		}
		// the Value stored into the same event
		var valSt *ssa.Store
		for _, s2 := range p.stores[fVal] {
			if fa2, ok := s2.Addr.(*ssa.FieldAddr); ok && fa2.X == fa.X {
				valSt = s2
			}
		}
		// ascending induction variables of loops around the store
		dependsOn := func(v ssa.Value, hdr *ssa.BasicBlock) bool {
			seen := map[ssa.Value]bool{}
			var walk func(v ssa.Value, d int) bool
			walk = func(v ssa.Value, d int) bool {
				if v == nil || seen[v] || d > 12 {
					return false
				}
				seen[v] = true
				switch x := v.(type) {
				case *ssa.Phi:
					if x.Block() == hdr {
						return true
					}
					for _, e := range x.Edges {
						if walk(e, d+1) {
							return true
						}
					}
				case *ssa.BinOp:
					return walk(x.X, d+1) || walk(x.Y, d+1)
				case *ssa.UnOp:
					return walk(x.X, d+1)
				case *ssa.Convert:
					return walk(x.X, d+1)
				case *ssa.IndexAddr:
					return walk(x.Index, d+1) || walk(x.X, d+1)
				case *ssa.Index:
					return walk(x.Index, d+1) || walk(x.X, d+1)
				}
				return false
			}
			return walk(v, 0)
		}
		for _, b := range fn.Blocks {
			for _, in := range b.Instrs {
				ph, ok := in.(*ssa.Phi)
				if !ok || !loopBody(ph.Block())[st.Block()] {
					continue
				}
				asc := false
				for _, e := range ph.Edges {
					if bo, isB := e.(*ssa.BinOp); isB && bo.Op == token.ADD && (bo.X == ssa.Value(ph) || bo.Y == ssa.Value(ph)) {
						k, isC := constInt(bo.Y)
						if !isC {
							k, isC = constInt(bo.X)
						}
						if isC && k > 0 {
							asc = true
						}
					}
				}
				if !asc || valSt == nil {
					continue
				}
				// the value is taken at the ascending counter, the index does not move with the loop
				var src ssa.Value
				if u, ok := valSt.Val.(*ssa.UnOp); ok {
					if ia, ok := u.X.(*ssa.IndexAddr); ok {
						src = ia.Index
					}
				}
				if src == nil || !dependsOn(src, ph.Block()) {
					continue
				}
				if !dependsOn(st.Val, ph.Block()) {
					bad = "this loop takes its values in ascending order and emits every add at the same index (" + st.Val.Name() + " does not move with the loop): each add pushes the previous one up, so a run of new values arrives in reverse order — clients and the cache end up with a collection the service never announced"
				}
			}
		}
		c.check(bad == "", fnName(fn), "adds emitted by one ascending loop move their index along", p.InstrPos(st), "index moves with the loop, or the loop is not an ascending run", bad)
	}
	if n == 0 {
		c.note("no add event is built in the cache package")
	}
}

// ---------------------------------------------------------------------------
// PAIR/access-inflight (C07, C06, C04, C19): the bookkeeping of the one access
// request a subscription shares between its waiters, as a path rule over
// loadAccess and the answer task it leads to (both twins, throttled and not):
//   - a request is sent only on a path that has parked the caller and raised
//     the in-flight flag (otherwise every waiter sends its own request);
//   - the answer task lowers the in-flight flag and empties the waiting list
//     before it hands the answer to the first waiter. A flag left raised parks
//     every later check for ever (its request is never answered, a revoked
//     resource is never re-validated); a list left in place is handed the next
//     answer again (duplicate responses).

func ruleAccessInflight(c *Ctx) {
	p := c.P
	fn := p.Fn("(*server.Subscription).loadAccess")
	fSlot := p.Field("server.Subscription.accessCallbacks")
	flags := p.flagFields("server.Subscription.flags")
	var accessMs []*types.Func
	for _, q := range []string{"server.ConnSubscriber.Access", "server.wsConn.Access"} {
		if m := p.Method(q); m != nil {
			accessMs = append(accessMs, m)
		}
	}
	if fn == nil || fSlot == nil || len(flags) == 0 || len(accessMs) == 0 {
		c.undecided("(*server.Subscription).loadAccess", "anchor", "-", "not found")
		return
	}
	isFlag := func(f *types.Var) bool {
		for _, x := range flags {
			if x == f {
				if len(flags) > 1 && !strings.Contains(strings.ToLower(f.Name()), "access") {
					return false
				}
				return true
			}
		}
		return false
	}
	c.inst(1)
	sp := &Spec{}
	sp.Classify = func(t *Tracer, fr *Frame, in ssa.Instruction) []Ev {
		switch x := in.(type) {
		case *ssa.Store:
			fa, ok := x.Addr.(*ssa.FieldAddr)
			if !ok {
				// a method of the member's own type with a pointer receiver (`func (f *subFlag) set(x subFlag) { *f |= x }`):
				// the receiver is the address of the member in the caller
				if prm, isP := x.Addr.(*ssa.Parameter); isP && fr != nil {
					fa, ok = t.Resolve(fr, x.Addr).V.(*ssa.FieldAddr)
					if !ok && fr.ID == -1 {
						// probing the helper for interest: a pointer to the flag member's type may be the member
						if pt, isPt := prm.Type().Underlying().(*types.Pointer); isPt {
							for _, fl := range flags {
								if types.Identical(pt.Elem(), fl.Type()) {
									return []Ev{{Kind: "flag-op"}}
								}
							}
						}
					}
				}
			}
			if !ok {
				return nil
			}
			f := fieldOfAddr(fa)
			if f == fSlot {
				if isNilConst(x.Val) {
					return []Ev{{Kind: "slot-clear"}}
				}
				if isAppendOfSame(x, fSlot) {
					return []Ev{{Kind: "park"}}
				}
				if sl, ok := x.Val.(*ssa.Slice); ok && sl.High != nil {
					if k, isC := constInt(sl.High); isC && k == 0 {
						return []Ev{{Kind: "slot-clear"}}
					}
				}
				return []Ev{{Kind: "slot-store"}}
			}
			if isFlag(f) {
				if b, ok := constBool(x.Val); ok {
					if b {
						return []Ev{{Kind: "flag-set:" + f.Name()}}
					}
					return []Ev{{Kind: "flag-clear:" + f.Name()}}
				}
				if bo, ok := t.Resolve(fr, x.Val).V.(*ssa.BinOp); ok {
					// the bit is named by a constant — also through a helper's parameter (setFlag(flag))
					// the mask: a constant, or ^constant (`s.flags &= ^flag` with flag a helper's parameter)
					mask := func(v ssa.Value) (int64, bool, bool) {
						r := t.Resolve(fr, v)
						if k, ok := constInt(r.V); ok {
							return k, true, false
						}
						if u, ok := r.V.(*ssa.UnOp); ok && u.Op == token.XOR {
							r2 := t.Resolve(r.Fr, u.X)
							if k, ok := constInt(r2.V); ok {
								return ^k, true, false
							}
							if _, isP := r2.V.(*ssa.Parameter); isP {
								return 0, false, true
							}
						}
						if _, isP := r.V.(*ssa.Parameter); isP {
							return 0, false, true
						}
						return 0, false, false
					}
					k, isC, isParam := mask(bo.Y)
					if !isC && !isParam {
						k, isC, isParam = mask(bo.X)
					}
					if !isC && isParam {
						// a flag helper seen on its own (setFlag(flag)): which bit, the caller's frame will tell
						return []Ev{{Kind: "flag-op"}}
					}
					if isC {
						switch bo.Op {
						case token.OR:
							if k != 0 {
								return []Ev{{Kind: fmt.Sprintf("flag-set:%d", k&0xff)}}
							}
						case token.AND:
							return []Ev{{Kind: fmt.Sprintf("flag-clear:%d", (^k)&0xff)}}
						case token.AND_NOT:
							return []Ev{{Kind: fmt.Sprintf("flag-clear:%d", k&0xff)}}
						}
					}
				}
			}
		case *ssa.IndexAddr:
			if f, _ := fieldLoad(t.Resolve(fr, x.X).V); f == fSlot {
				return []Ev{{Kind: "hand-over"}}
			}
		case *ssa.Index:
			if f, _ := fieldLoad(t.Resolve(fr, x.X).V); f == fSlot {
				return []Ev{{Kind: "hand-over"}}
			}
		}
		if _, ok := isCallTo(in, accessMs...); ok {
			return []Ev{{Kind: "send"}}
		}
		return nil
	}
	sp.Branch = func(t *Tracer, fr *Frame, i *ssa.If, dir bool) []Ev {
		// `s.flags&flagAccessCalled != 0` (or a bool member): is a request already outstanding?
		x, op, k, ok := cmpConst(i.Cond)
		v := i.Cond
		neg := false
		if u, isU := v.(*ssa.UnOp); isU && u.Op == token.NOT {
			v, neg = u.X, true
		}
		if f, _ := fieldLoad(t.Resolve(fr, v).V); f != nil && isFlag(f) {
			if dir != neg {
				return []Ev{{Kind: "in-flight"}}
			}
			return []Ev{{Kind: "idle"}}
		}
		if !ok || k != 0 || (op != token.EQL && op != token.NEQ) {
			return nil
		}
		bo, isB := t.Resolve(fr, x).V.(*ssa.BinOp)
		if !isB || bo.Op != token.AND {
			return nil
		}
		f, _ := fieldLoad(t.Resolve(fr, bo.X).V)
		if f == nil {
			f, _ = fieldLoad(t.Resolve(fr, bo.Y).V)
		}
		if f == nil || !isFlag(f) {
			return nil
		}
		if (op == token.NEQ) == dir {
			return []Ev{{Kind: "in-flight"}}
		}
		return []Ev{{Kind: "idle"}}
	}
	sp.EdgeLimit = 1
	tr := runTrace(p, fn, sp)
	if os.Getenv("RV_DEBUG") != "" {
		for _, path := range tr.Paths {
			fmt.Fprintln(os.Stderr, "inflight:", tr.FmtPath(path))
		}
	}
	bad := ""
	nSend, nDrain := 0, 0
	for _, path := range tr.Paths {
		is := indexKind(path, "send")
		raised := map[string]bool{}
		if is >= 0 {
			nSend++
			if j := indexKind(path, "park"); j < 0 || j > is {
				bad = "an access request is sent on a path that has not parked the caller's continuation: " + tr.FmtPath(path)
			}
			for _, e := range path[:is] {
				if strings.HasPrefix(e.Kind, "flag-set:") {
					raised[e.Kind[len("flag-set:"):]] = true
				}
			}
			if j := indexKind(path, "idle"); j < 0 || j > is {
				bad = "an access request is sent on a path that has not established that none is outstanding: every waiter arriving while a request is in flight sends another one (the answers then race, and the throttle no longer bounds what it governs): " + tr.FmtPath(path)
			}
			if len(raised) == 0 {
				bad = "an access request is sent on a path that has not raised the in-flight flag: every further waiter sends a request of its own and is answered by whichever answer comes first: " + tr.FmtPath(path)
			}
		}
		ih := indexKind(path, "hand-over")
		if ih >= 0 {
			nDrain++
			from := is
			if from < 0 {
				from = 0
			}
			lowered := false
			for _, e := range path[from:ih] {
				if strings.HasPrefix(e.Kind, "flag-clear:") && (len(raised) == 0 || raised[e.Kind[len("flag-clear:"):]]) {
					lowered = true
				}
			}
			if !lowered {
				bad = "the answer is handed to the waiters with the in-flight flag still raised: the next check (after a reaccess, a token change or a reset) is parked behind a request that is no longer outstanding and never gets its answer: " + tr.FmtPath(path)
			}
			if j := lastIndexKindBefore(path, "slot-clear", ih); j < 0 || j < is {
				bad = "the answer is handed to the waiters while they stay on the waiting list: the next answer is handed to them again (a request is answered twice): " + tr.FmtPath(path)
			}
		}
	}
	// every place that sends the request has a path on which the answer is handed to the waiters
	sends := map[ssa.Instruction]bool{}
	answered := map[ssa.Instruction]bool{}
	for _, path := range tr.Paths {
		for i, e := range path {
			if e.Kind == "send" {
				sends[e.Instr] = true
				if indexKind(path[i:], "hand-over") >= 0 {
					answered[e.Instr] = true
				}
			}
		}
	}
	for in := range sends {
		if !answered[in] {
			bad = "the access request sent at " + p.InstrPos(in) + " has no path on which its answer is handed to the waiters: every request waiting on it (a re-check after a reset, the subscribe behind it) is never answered"
		}
	}
	if nSend == 0 || nDrain == 0 {
		bad = fmt.Sprintf("shape not recognised: %d paths send a request, %d hand an answer over", nSend, nDrain)
	}
	if tr.Trunc {
		bad = "path budget exhausted"
	}
	c.check(bad == "", fnName(fn), "a shared access request: flag raised and caller parked before the request, flag lowered and list emptied before the answer is handed over", p.Pos(fn.Pos()),
		fmt.Sprintf("%d paths: %d send a request, %d hand an answer to the waiters", len(tr.Paths), nSend, nDrain), bad)
}

func lastIndexKindBefore(path []Ev, k string, before int) int {
	for i := before - 1; i >= 0; i-- {
		if path[i].Kind == k {
			return i
		}
	}
	return -1
}
