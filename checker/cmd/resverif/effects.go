package main

// CONF/effects — effect conformance against the reference tree.
//
// For every tabulated function the trace engine enumerates the full paths
// (the function's CFG continued through the closures it hands to combinators)
// and abstracts each path to
//
//	facts    the decisions taken on it that are about protocol state: a field of a
//	         repository struct, a parameter, the result of a repository function, a
//	         map lookup, compared with a constant / nil / another such term;
//	effects  what the path does to protocol state: stores to fields of repository
//	         structs (by value class), calls of repository functions that existed on
//	         the reference tree (with their constant arguments), calls of the
//	         continuation parameters, lock / channel / goroutine operations, and the
//	         class of the values returned.
//
// The table recorded on the reference tree (golden.json, written by `resverif
// golden`, reviewed, embedded) maps fact sets to effect sets. The check is a
// comparison of decision trees, not of text:
//
//	for every path P of the current tree and every recorded path G whose facts do
//	not contradict P's, the effects of P are among the effect sets recorded for G's
//	fact set; and every recorded path has a compatible current path with its effects.
//
// A guard that was dropped, weakened or moved produces a path that is compatible
// with a recorded path of another effect set; a deleted or added state update
// changes the effect set. Renaming, extraction of helpers (functions that did not
// exist on the reference tree are inlined), reordering of independent statements
// or tests, guard clauses vs nesting, switch vs if-chains leave facts and effects
// as they are. Nothing is executed.

import (
	_ "embed"
	"encoding/json"
	"fmt"
	"go/constant"
	"go/token"
	"go/types"
	"os"
	"sort"
	"strings"

	"golang.org/x/tools/go/ssa"
)

//go:embed golden.json
var goldenJSON []byte

type goldenRow struct {
	Facts   []string `json:"facts"`
	Effects []string `json:"effects"`
}

type goldenFn struct {
	Rows  []goldenRow `json:"rows"`
	Skip  string      `json:"skip,omitempty"`
	Props []string    `json:"props,omitempty"`
}

type goldenFile struct {
	Commit string              `json:"commit"`
	Funcs  []string            `json:"funcs"` // every named repository function of the reference tree
	Tables map[string]goldenFn `json:"tables"`
}

var goldenMemo *goldenFile

func loadGolden() *goldenFile {
	if goldenMemo != nil {
		return goldenMemo
	}
	g := &goldenFile{}
	if len(goldenJSON) > 2 {
		_ = json.Unmarshal(goldenJSON, g)
	}
	if g.Tables == nil {
		g.Tables = map[string]goldenFn{}
	}
	goldenMemo = g
	return g
}

// effectsScope: the packages whose functions are tabulated.
func effectsScope(fn *ssa.Function) bool {
	if fn.Pkg == nil || fn.Parent() != nil || fn.Synthetic != "" {
		return false
	}
	switch fn.Pkg.Pkg.Name() {
	case "server", "rescache", "nats", "rpc":
	default:
		return false
	}
	if fn.Object() == nil {
		return false
	}
	pos := fn.Prog.Fset.Position(fn.Pos())
	for _, skip := range []string{"config.go", "metricsServer.go", "deprecated.go", "metrics.go"} {
		if strings.HasSuffix(pos.Filename, "/"+skip) {
			return false
		}
	}
	switch fn.Name() {
	case "Logf", "Debugf", "Errorf", "Tracef", "Log", "Debug", "Error", "Trace", "IsDebug", "IsTrace", "String", "init", "SetLogger", "Logger":
		return false
	}
	return true
}

type effCtx struct {
	p       *Prog
	known   map[*ssa.Function]string // function object -> its name on the reference tree
	knownTF map[*types.Func]string
	gen     bool // generating the reference table: every present function is known
}

func newEffCtx(p *Prog, gen bool) *effCtx {
	ec := &effCtx{p: p, known: map[*ssa.Function]string{}, knownTF: map[*types.Func]string{}, gen: gen}
	if gen {
		for _, f := range p.Repo {
			if f.Parent() == nil && f.Synthetic == "" {
				ec.known[f] = fnName(f)
				if tf, ok := f.Object().(*types.Func); ok {
					ec.knownTF[tf] = fnName(f)
				}
			}
		}
		return ec
	}
	g := loadGolden()
	for _, n := range g.Funcs {
		if f := p.fnQuiet(n); f != nil {
			if _, taken := ec.known[f]; !taken {
				ec.known[f] = n
				if tf, ok := f.Object().(*types.Func); ok {
					ec.knownTF[tf] = n
				}
			}
		}
	}
	return ec
}

// fnQuiet resolves a reference-tree function name on the current tree without
// recording a fuzzy match (exact name, or the renamed successor).
func (p *Prog) fnQuiet(name string) *ssa.Function {
	if f := p.ByNm[name]; f != nil {
		return f
	}
	n := len(p.fuzzy)
	f := p.fnNoRole(name)
	p.fuzzy = p.fuzzy[:n]
	return f
}

func typeFieldName(p *Prog, f *types.Var) string {
	if f == nil {
		return "?"
	}
	return fieldOwner(p, f) + "." + f.Name()
}

// term names a value as a protocol-state term, or "" when it is none.
func (ec *effCtx) term(t *Tracer, fr *Frame, v ssa.Value, depth int) string {
	if depth > 6 || v == nil {
		return ""
	}
	r := t.Resolve(fr, v)
	switch x := r.V.(type) {
	case *ssa.Const:
		if x.Value == nil {
			return "nil"
		}
		if x.Value.Kind() == constant.String {
			return "s:" + constant.StringVal(x.Value)
		}
		return "k:" + x.Value.ExactString()
	case *ssa.Parameter:
		if r.Fr == t.RootFr || r.Fr == nil {
			for i, prm := range t.Root.Params {
				if prm == x {
					return fmt.Sprintf("p#%d", i)
				}
			}
		}
		// parameter of a continuation closure: named by the combinator and position
		if r.Fr != nil && r.Fr.Via != "" {
			for i, prm := range r.Fr.Fn.Params {
				if prm == x {
					return fmt.Sprintf("%s.arg#%d", r.Fr.Via, i)
				}
			}
		}
		return ""
	case *ssa.Call:
		if b, ok := x.Call.Value.(*ssa.Builtin); ok {
			if b.Name() == "len" || b.Name() == "cap" {
				if a := ec.term(t, r.Fr, x.Call.Args[0], depth+1); a != "" {
					return b.Name() + "(" + a + ")"
				}
			}
			return ""
		}
		if n := ec.calleeKnown(&x.Call); n != "" {
			return n + "()"
		}
		return ""
	case *ssa.Extract:
		switch tu := x.Tuple.(type) {
		case *ssa.Call:
			if n := ec.calleeKnown(&tu.Call); n != "" {
				return fmt.Sprintf("%s()#%d", n, x.Index)
			}
		case *ssa.Lookup:
			if a := ec.term(t, r.Fr, tu.X, depth+1); a != "" {
				if x.Index == 1 {
					return "has(" + a + ")"
				}
				return a + "[·]"
			}
		case *ssa.Next:
			if rg, ok := tu.Iter.(*ssa.Range); ok && x.Index == 0 {
				if a := ec.term(t, r.Fr, rg.X, depth+1); a != "" {
					return "more(" + a + ")"
				}
			}
		case *ssa.TypeAssert:
			return ""
		}
		return ""
	case *ssa.Lookup:
		if a := ec.term(t, r.Fr, x.X, depth+1); a != "" {
			return a + "[·]"
		}
		return ""
	case *ssa.UnOp:
		if x.Op == token.MUL {
			if f, _ := fieldLoad(x); f != nil {
				return typeFieldName(ec.p, f)
			}
			if g, ok := x.X.(*ssa.Global); ok {
				return "g:" + g.Name()
			}
			// *p of a pointer term (optional decoded member)
			if a := ec.term(t, r.Fr, x.X, depth+1); a != "" {
				return "*" + a
			}
		}
		if x.Op == token.NOT {
			if a := ec.term(t, r.Fr, x.X, depth+1); a != "" {
				return "!" + a
			}
		}
		return ""
	case *ssa.Field:
		if st, ok := x.X.Type().Underlying().(*types.Struct); ok {
			return typeFieldName(ec.p, st.Field(x.Field))
		}
		return ""
	case *ssa.Global:
		return "g:" + x.Name()
	case *ssa.BinOp:
		switch x.Op {
		case token.ADD, token.SUB, token.AND, token.OR, token.AND_NOT:
			a, b := ec.term(t, r.Fr, x.X, depth+1), ec.term(t, r.Fr, x.Y, depth+1)
			if a != "" && b != "" {
				ka, oka := constVal(a)
				kb, okb := constVal(b)
				if oka && okb {
					switch x.Op {
					case token.ADD:
						return fmt.Sprintf("k:%d", ka+kb)
					case token.SUB:
						return fmt.Sprintf("k:%d", ka-kb)
					case token.AND:
						return fmt.Sprintf("k:%d", ka&kb)
					case token.OR:
						return fmt.Sprintf("k:%d", ka|kb)
					case token.AND_NOT:
						return fmt.Sprintf("k:%d", ka&^kb)
					}
				}
				return "(" + a + x.Op.String() + b + ")"
			}
		}
		return ""
	}
	return ""
}

func (ec *effCtx) calleeKnown(c *ssa.CallCommon) string {
	if sf := c.StaticCallee(); sf != nil {
		if n, ok := ec.known[sf]; ok {
			return n
		}
		return ""
	}
	if f := calleeFunc(c); f != nil {
		if n, ok := ec.knownTF[f]; ok {
			return n
		}
		if f.Pkg() != nil && strings.HasPrefix(f.Pkg().Path(), modPath) {
			// interface method of the repository
			sig, _ := f.Type().(*types.Signature)
			if sig != nil && sig.Recv() != nil {
				return "(" + shortName(types.TypeString(sig.Recv().Type(), nil)) + ")." + f.Name()
			}
		}
	}
	return ""
}

var relFlip = map[token.Token]token.Token{token.LSS: token.GEQ, token.GEQ: token.LSS, token.GTR: token.LEQ, token.LEQ: token.GTR, token.EQL: token.NEQ, token.NEQ: token.EQL}
var relSwap = map[token.Token]token.Token{token.LSS: token.GTR, token.GTR: token.LSS, token.LEQ: token.GEQ, token.GEQ: token.LEQ, token.EQL: token.EQL, token.NEQ: token.NEQ}

// fact renders the edge (cond, dir) as "lhs REL rhs" with REL one of < <= > >= == !=,
// or "" when the condition is not about protocol state.
func (ec *effCtx) fact(t *Tracer, fr *Frame, cond ssa.Value, dir bool) string {
	for {
		u, ok := cond.(*ssa.UnOp)
		if !ok || u.Op != token.NOT {
			break
		}
		cond, dir = u.X, !dir
	}
	if bo, ok := cond.(*ssa.BinOp); ok {
		if _, isRel := relFlip[bo.Op]; isRel {
			a, b := ec.term(t, fr, bo.X, 0), ec.term(t, fr, bo.Y, 0)
			if a == "" || b == "" {
				return ""
			}
			op := bo.Op
			if !dir {
				op = relFlip[op]
			}
			// constants to the right; otherwise order the operands by name
			aConst := strings.HasPrefix(a, "k:") || strings.HasPrefix(a, "s:") || a == "nil"
			bConst := strings.HasPrefix(b, "k:") || strings.HasPrefix(b, "s:") || b == "nil"
			if aConst && bConst {
				return ""
			}
			if (aConst && !bConst) || (!aConst && !bConst && a > b) {
				a, b, op = b, a, relSwap[op]
			}
			return a + " " + op.String() + " " + b
		}
		return ""
	}
	a := ec.term(t, fr, cond, 0)
	if a == "" {
		return ""
	}
	if strings.HasPrefix(a, "k:") {
		return ""
	}
	if strings.HasPrefix(a, "more(") {
		// the first test of a range over a map or string: the container is (not) empty
		if dir {
			return "len(" + a[5:] + " > k:0"
		}
		return "len(" + a[5:] + " <= k:0"
	}
	if dir {
		return a + " == k:true"
	}
	return a + " == k:false"
}

func (ec *effCtx) valClass(t *Tracer, fr *Frame, v ssa.Value, self *types.Var) string {
	r := t.Resolve(fr, v)
	switch x := r.V.(type) {
	case *ssa.Const:
		if x.Value == nil {
			return "nil"
		}
		return x.Value.ExactString()
	case *ssa.BinOp:
		// x.f = x.f ± k
		lf, _ := fieldLoad(t.Resolve(r.Fr, x.X).V)
		if lf != nil && lf == self {
			b := ec.term(t, r.Fr, x.Y, 0)
			if b == "" {
				b = "_"
			}
			return x.Op.String() + b
		}
		if tm := ec.term(t, r.Fr, r.V, 0); tm != "" {
			return tm
		}
		return "_"
	case *ssa.Call:
		if b, ok := x.Call.Value.(*ssa.Builtin); ok {
			return b.Name()
		}
		if n := ec.calleeKnown(&x.Call); n != "" {
			return n + "()"
		}
		return "_"
	case *ssa.Slice:
		return "reslice"
	case *ssa.MakeMap, *ssa.MakeSlice, *ssa.MakeChan:
		return "make"
	case *ssa.Alloc:
		return "new"
	case *ssa.MakeClosure, *ssa.Function:
		return "func"
	}
	if tm := ec.term(t, fr, v, 0); tm != "" {
		return tm
	}
	return "_"
}

func isZeroClass(c string) bool {
	switch c {
	case "nil", "0", "false", `""`:
		return true
	}
	return false
}

func (ec *effCtx) spec() *Spec {
	p := ec.p
	sp := &Spec{NoHelpers: true, EdgeLimit: 1, MaxPaths: 6000, MaxDepth: 10, MarkAccepted: true}
	sp.Inline = func(t *Tracer, fr *Frame, c ssa.CallInstruction, fn *ssa.Function) bool {
		if fn.Parent() != nil {
			return true // a local closure called directly
		}
		if _, isKnown := ec.known[fn]; isKnown {
			return false
		}
		// a function that did not exist on the reference tree: an extracted helper — its body belongs to the caller
		return !isLogCall(c.Common())
	}
	sp.Branch = func(t *Tracer, fr *Frame, i *ssa.If, dir bool) []Ev {
		if f := ec.fact(t, fr, i.Cond, dir); f != "" {
			return []Ev{{Kind: "F:" + f}}
		}
		return nil
	}
	sp.Classify = func(t *Tracer, fr *Frame, in ssa.Instruction) []Ev {
		switch x := in.(type) {
		case *ssa.Store:
			var f *types.Var
			fresh := false
			switch a := x.Addr.(type) {
			case *ssa.FieldAddr:
				f = fieldOfAddr(a)
				if al, ok := t.Resolve(fr, a.X).V.(*ssa.Alloc); ok && al.Parent() == x.Parent() {
					fresh = true
				}
			}
			if f == nil || f.Pkg() == nil || !strings.HasPrefix(f.Pkg().Path(), modPath) {
				return nil
			}
			cl := ec.valClass(t, fr, x.Val, f)
			if fresh && (isZeroClass(cl) || cl == "_") {
				return nil // construction: zero values and plain copies of arguments are not state updates
			}
			return []Ev{{Kind: "E:" + typeFieldName(p, f) + " = " + cl}}
		case *ssa.Send:
			if tm := ec.term(t, fr, x.Chan, 0); tm != "" {
				return []Ev{{Kind: "E:send " + tm}}
			}
			return []Ev{{Kind: "E:send"}}
		case *ssa.Return:
			if fr != t.RootFr || len(x.Results) == 0 {
				return nil
			}
			var cs []string
			for _, rv := range x.Results {
				c := ec.valClass(t, fr, rv, nil)
				switch {
				case c == "nil" || c == "true" || c == "false":
				case strings.HasPrefix(c, "p#"), strings.HasSuffix(c, "()"):
				default:
					if _, isC := t.Resolve(fr, rv).V.(*ssa.Const); !isC {
						c = "v"
					}
				}
				cs = append(cs, c)
			}
			return []Ev{{Kind: "E:return " + strings.Join(cs, ",")}}
		case ssa.CallInstruction:
			com := x.Common()
			if isLogCall(com) {
				return nil
			}
			prefix := "call "
			if _, isGo := in.(*ssa.Go); isGo {
				prefix = "go "
			}
			if _, isDefer := in.(*ssa.Defer); isDefer {
				return nil // replayed at the function's exits
			}
			if b, ok := com.Value.(*ssa.Builtin); ok {
				switch b.Name() {
				case "delete", "close":
					if tm := ec.term(t, fr, com.Args[0], 0); tm != "" {
						return []Ev{{Kind: "E:" + b.Name() + " " + tm}}
					}
					return []Ev{{Kind: "E:" + b.Name()}}
				}
				return nil
			}
			// a call of a function value: a continuation parameter, a stored hook
			if !com.IsInvoke() && com.StaticCallee() == nil {
				if tm := ec.term(t, fr, com.Value, 0); tm != "" {
					return []Ev{{Kind: "E:invoke " + tm}}
				}
				return nil
			}
			if n := ec.calleeKnown(com); n != "" {
				var as []string
				for _, a := range callArgs(com)[:] {
					if cst, ok := t.Resolve(fr, a).V.(*ssa.Const); ok && cst.Value != nil {
						as = append(as, cst.Value.ExactString())
					} else if isNilConst(t.Resolve(fr, a).V) {
						as = append(as, "nil")
					} else {
						as = append(as, "_")
					}
				}
				// receiver: which object
				return []Ev{{Kind: "E:" + prefix + n + "(" + strings.Join(as, ",") + ")"}}
			}
			// synchronisation and channel primitives of the library
			if f := calleeFunc(com); f != nil && f.Pkg() != nil {
				switch f.Pkg().Path() {
				case "sync":
					args := callArgs(com)
					tm := ""
					if len(args) > 0 {
						if fa, ok := stripConv(args[0]).(*ssa.FieldAddr); ok {
							tm = typeFieldName(p, fieldOfAddr(fa))
						}
					}
					return []Ev{{Kind: "E:" + prefix + "sync." + f.Name() + " " + tm}}
				}
			}
			return nil
		}
		return nil
	}
	return sp
}

type effPath struct {
	facts   []string
	effects []string
}

func (ec *effCtx) paths(fn *ssa.Function) ([]effPath, string) {
	tr := runTrace(ec.p, fn, ec.spec())
	if tr.Trunc {
		return nil, "path budget exhausted"
	}
	seen := map[string]bool{}
	var out []effPath
	for _, path := range tr.Paths {
		fs := map[string]bool{}
		es := map[string]int{}
		subj := map[string]bool{}
		nComb := map[string]int{}
		for _, e := range path {
			switch {
			case strings.HasPrefix(e.Kind, "F:"):
				// a subject tested again further down the path (the exit test of a loop, a re-test after an
				// update): the first test is the decision, later ones are consequences
				pf := parseFact(e.Kind[2:])
				key := pf.lhs + "~" + pf.rhs
				if strings.HasPrefix(pf.rhs, "k:") || strings.HasPrefix(pf.rhs, "s:") || pf.rhs == "nil" {
					key = pf.lhs + "~k"
				}
				if subj[key] && !fs[e.Kind[2:]] {
					continue
				}
				subj[key] = true
				fs[e.Kind[2:]] = true
			case strings.HasPrefix(e.Kind, "E:"):
				es[e.Kind[2:]]++
			case strings.HasPrefix(e.Kind, "drop:"):
				nComb[e.Kind[5:]]++
				fs[fmt.Sprintf("refused(%s#%d) == k:true", e.Kind[5:], nComb[e.Kind[5:]])] = true
			case strings.HasPrefix(e.Kind, "run:"):
				nComb[e.Kind[4:]]++
				fs[fmt.Sprintf("refused(%s#%d) == k:false", e.Kind[4:], nComb[e.Kind[4:]])] = true
			}
		}
		var ep effPath
		for f := range fs {
			ep.facts = append(ep.facts, f)
		}
		for e, n := range es {
			if n > 1 {
				e += " ×2"
			}
			ep.effects = append(ep.effects, e)
		}
		sort.Strings(ep.facts)
		sort.Strings(ep.effects)
		k := strings.Join(ep.facts, "|") + "=>" + strings.Join(ep.effects, "|")
		if !seen[k] {
			seen[k] = true
			out = append(out, ep)
		}
	}
	sort.Slice(out, func(i, j int) bool {
		a, b := strings.Join(out[i].facts, "|"), strings.Join(out[j].facts, "|")
		if a != b {
			return a < b
		}
		return strings.Join(out[i].effects, "|") < strings.Join(out[j].effects, "|")
	})
	return out, ""
}

// ---- facts: contradiction ---------------------------------------------------

type parsedFact struct {
	lhs, op, rhs string
}

func parseFact(s string) parsedFact {
	for _, op := range []string{" == ", " != ", " <= ", " >= ", " < ", " > "} {
		if i := strings.Index(s, op); i > 0 {
			return parsedFact{s[:i], strings.TrimSpace(op), s[i+len(op):]}
		}
	}
	return parsedFact{lhs: s}
}

func relSet(op string) int { // bit 1: <, bit 2: ==, bit 4: >
	switch op {
	case "<":
		return 1
	case "<=":
		return 3
	case "==":
		return 2
	case ">=":
		return 6
	case ">":
		return 4
	case "!=":
		return 5
	}
	return 7
}

func constVal(s string) (int64, bool) {
	if !strings.HasPrefix(s, "k:") {
		return 0, false
	}
	var v int64
	if _, err := fmt.Sscanf(s[2:], "%d", &v); err != nil {
		return 0, false
	}
	return v, true
}

// contradicts: the two facts cannot hold together.
func contradicts(a, b parsedFact) bool {
	if a.lhs != b.lhs || a.op == "" || b.op == "" {
		return false
	}
	if a.rhs == b.rhs {
		return relSet(a.op)&relSet(b.op) == 0
	}
	// same subject, different constants
	ka, oka := constVal(a.rhs)
	kb, okb := constVal(b.rhs)
	if oka && okb {
		// is there an integer x with x a.op ka and x b.op kb ? test the candidates around the two constants
		for _, x := range []int64{ka - 1, ka, ka + 1, kb - 1, kb, kb + 1} {
			if holds(x, a.op, ka) && holds(x, b.op, kb) {
				return false
			}
		}
		return true
	}
	isC := func(s string) bool { return strings.HasPrefix(s, "k:") || strings.HasPrefix(s, "s:") || s == "nil" }
	if isC(a.rhs) && isC(b.rhs) && a.op == "==" && b.op == "==" {
		return true // equal to two different constants
	}
	return false
}

func holds(x int64, op string, k int64) bool {
	switch op {
	case "<":
		return x < k
	case "<=":
		return x <= k
	case "==":
		return x == k
	case ">=":
		return x >= k
	case ">":
		return x > k
	case "!=":
		return x != k
	}
	return true
}

func compatible(a, b []string) bool {
	for _, x := range a {
		px := parseFact(x)
		for _, y := range b {
			if contradicts(px, parseFact(y)) {
				return false
			}
		}
	}
	return true
}

// selfConsistent: no two recorded paths with different fact sets are compatible
// and differ in effects (then unlisted decisions separate them and the table
// cannot serve as a reference).
func tableConflicts(rows []effPath) string {
	byFacts := map[string]map[string]bool{}
	for _, r := range rows {
		k := strings.Join(r.facts, "|")
		if byFacts[k] == nil {
			byFacts[k] = map[string]bool{}
		}
		byFacts[k][strings.Join(r.effects, "|")] = true
	}
	for i := range rows {
		for j := range rows {
			ki, kj := strings.Join(rows[i].facts, "|"), strings.Join(rows[j].facts, "|")
			if ki == kj || !compatible(rows[i].facts, rows[j].facts) {
				continue
			}
			if !byFacts[kj][strings.Join(rows[i].effects, "|")] {
				return fmt.Sprintf("paths [%s] and [%s] are told apart by decisions outside the vocabulary", ki, kj)
			}
		}
	}
	return ""
}

// ---- generation ---------------------------------------------------------------

func cmdGolden(args []string) int {
	repo := "/repo"
	if len(args) > 0 {
		repo = args[0]
	}
	p, err := Load(repo, "")
	if err != nil {
		fmt.Println(err)
		return 2
	}
	ec := newEffCtx(p, true)
	out := goldenFile{Tables: map[string]goldenFn{}}
	for _, f := range p.Repo {
		if f.Parent() == nil && f.Synthetic == "" {
			out.Funcs = append(out.Funcs, fnName(f))
		}
	}
	sort.Strings(out.Funcs)
	nOK, nSkip := 0, 0
	for _, fn := range p.Repo {
		if !effectsScope(fn) {
			continue
		}
		rows, why := ec.paths(fn)
		if why == "" {
			why = tableConflicts(rows)
		}
		if why == "" && len(rows) <= 1 && (len(rows) == 0 || len(rows[0].effects) == 0) {
			why = "no protocol effect"
		}
		if why != "" {
			out.Tables[fnName(fn)] = goldenFn{Skip: why}
			nSkip++
			continue
		}
		g := goldenFn{}
		for _, r := range rows {
			if r.facts == nil {
				r.facts = []string{}
			}
			if r.effects == nil {
				r.effects = []string{}
			}
			g.Rows = append(g.Rows, goldenRow{Facts: r.facts, Effects: r.effects})
		}
		out.Tables[fnName(fn)] = g
		nOK++
	}
	b, _ := json.MarshalIndent(out, "", " ")
	fmt.Println(string(b))
	fmt.Fprintf(osStderr(), "tabulated %d functions, skipped %d\n", nOK, nSkip)
	return 0
}

// ---- the rule -----------------------------------------------------------------

// ruleEffects checks the functions whose table lists one of the given
// properties (all tabulated functions when props is empty).
func ruleEffects(names ...string) func(c *Ctx) {
	want := map[string]bool{}
	for _, n := range names {
		want[n] = true
	}
	return func(c *Ctx) {
		p := c.P
		g := loadGolden()
		ec := newEffCtx(p, false)
		var fns []string
		for n, tb := range g.Tables {
			if tb.Skip != "" {
				continue
			}
			if len(want) > 0 && !want[n] {
				continue
			}
			fns = append(fns, n)
		}
		sort.Strings(fns)
		for _, n := range fns {
			tb := g.Tables[n]
			fn := p.fnQuiet(n)
			what := "performs, under each combination of the recorded decisions, the recorded effects on protocol state"
			if fn == nil {
				// gone: split into a family, or removed. Not decidable here; the named rules cover the anchors.
				c.note("effects: %s is not on this tree (renamed beyond recognition, split or removed): not compared", n)
				continue
			}
			c.inst(1)
			rows, why := ec.paths(fn)
			if why != "" {
				c.undecided(n, what, p.Pos(fn.Pos()), why)
				continue
			}
			byFacts := map[string]map[string]bool{}
			for _, r := range tb.Rows {
				k := strings.Join(r.Facts, "|")
				if byFacts[k] == nil {
					byFacts[k] = map[string]bool{}
				}
				byFacts[k][strings.Join(r.Effects, "|")] = true
			}
			bad := ""
			// 1. every current path agrees with every compatible recorded path
			for _, r := range rows {
				eff := strings.Join(r.effects, "|")
				nComp := 0
				for _, gr := range tb.Rows {
					if !compatible(r.facts, gr.Facts) {
						continue
					}
					nComp++
					if !byFacts[strings.Join(gr.Facts, "|")][eff] {
						bad = describeDiff(r, gr, byFacts[strings.Join(gr.Facts, "|")])
						break
					}
				}
				if bad == "" && nComp == 0 {
					bad = "a path decides [" + strings.Join(r.facts, "; ") + "], a combination the reference tree does not have, and does {" + strings.Join(r.effects, "; ") + "}"
				}
				if bad != "" {
					break
				}
			}
			// 2. every recorded path still exists
			if bad == "" {
				cur := map[string]map[string]bool{}
				for _, r := range rows {
					k := strings.Join(r.facts, "|")
					if cur[k] == nil {
						cur[k] = map[string]bool{}
					}
					cur[k][strings.Join(r.effects, "|")] = true
				}
				for _, gr := range tb.Rows {
					found := false
					for _, r := range rows {
						if compatible(r.facts, gr.Facts) && strings.Join(r.effects, "|") == strings.Join(gr.Effects, "|") {
							found = true
							break
						}
					}
					if !found {
						bad = "no path does what the reference tree does under [" + strings.Join(gr.Facts, "; ") + "]: {" + strings.Join(gr.Effects, "; ") + "}"
						break
					}
				}
			}
			c.check(bad == "", n, what, p.Pos(fn.Pos()), fmt.Sprintf("%d paths agree with the %d recorded ones", len(rows), len(tb.Rows)), bad)
		}
	}
}

func describeDiff(r effPath, gr goldenRow, allowed map[string]bool) string {
	have := map[string]bool{}
	for _, e := range r.effects {
		have[e] = true
	}
	wantSet := map[string]bool{}
	for _, e := range gr.Effects {
		wantSet[e] = true
	}
	var missing, extra []string
	for e := range wantSet {
		if !have[e] {
			missing = append(missing, e)
		}
	}
	for e := range have {
		if !wantSet[e] {
			extra = append(extra, e)
		}
	}
	sort.Strings(missing)
	sort.Strings(extra)
	s := "on a path that decides [" + strings.Join(r.facts, "; ") + "] — not contradicting the reference path [" + strings.Join(gr.Facts, "; ") + "] —"
	if len(missing) > 0 {
		s += " missing: {" + strings.Join(missing, "; ") + "}"
	}
	if len(extra) > 0 {
		s += " not on the reference tree: {" + strings.Join(extra, "; ") + "}"
	}
	if len(allowed) > 1 {
		s += fmt.Sprintf(" (%d effect sets are recorded for that decision set; none equals this path's)", len(allowed))
	}
	return s
}

func osStderr() *os.File { return os.Stderr }
