package main

import (
	"fmt"
	"go/constant"
	"go/token"
	"go/types"
	"strings"

	"golang.org/x/tools/go/ssa"
	"golang.org/x/tools/go/ssa/ssautil"
)

// ---------------------------------------------------------------------------
// Trace engine: enumerates the acyclic "full paths" of a function — a path
// through its CFG continued, at every closure handed to a combinator, by a
// path through that closure — and abstracts each path to the sequence of
// events a rule is interested in (typestate analysis by path enumeration).
// Nothing is executed: branch conditions are never evaluated, only *repeated*
// tests of the same value are kept consistent along one path.
// ---------------------------------------------------------------------------

// Frame is one activation on an abstract path: the root function, an inlined
// static callee, or a closure run by a combinator / called through a value.
type Frame struct {
	ID      int
	Fn      *ssa.Function
	Parent  *Frame              // dynamic parent (the frame containing Site)
	Site    ssa.CallInstruction // call in Parent that led here (nil for root)
	Args    []Ref               // actual arguments bound to Fn.Params (nil entries = unknown)
	Clo     *ssa.MakeClosure    // for closure frames: the creating instruction
	CloFr   *Frame              // frame in which Clo was evaluated
	Via     string              // combinator through which the closure runs ("" = inline call)
	MayDrop bool                // closure was handed to a combinator that may refuse it
	Async   bool                // runs later / on another goroutine (go, Enqueue, SendRequest, …)
	Depth   int
}

// In reports whether the frame is (transitively) inside a frame satisfying f.
func (fr *Frame) In(f func(*Frame) bool) bool {
	for x := fr; x != nil; x = x.Parent {
		if f(x) {
			return true
		}
	}
	return false
}

func (fr *Frame) Chain() string {
	var parts []string
	for x := fr; x != nil; x = x.Parent {
		s := fnName(x.Fn)
		if x.Via != "" {
			s += "[via " + x.Via + "]"
		}
		parts = append([]string{s}, parts...)
	}
	return strings.Join(parts, " > ")
}

// Ref is a value in a frame.
type Ref struct {
	Fr *Frame
	V  ssa.Value
}

func (r Ref) Key() string {
	if r.V == nil {
		return "?"
	}
	if c, ok := r.V.(*ssa.Const); ok {
		return "const:" + c.String()
	}
	if g, ok := r.V.(*ssa.Global); ok {
		return "global:" + g.String()
	}
	if f, ok := r.V.(*ssa.Function); ok {
		return "func:" + f.String()
	}
	id := 0
	if r.Fr != nil {
		id = r.Fr.ID
	}
	return fmt.Sprintf("f%d:%s:%s", id, fnName(r.V.Parent()), r.V.Name())
}

// Ev is one abstract event on a path.
type Ev struct {
	Kind  string
	Fr    *Frame
	Instr ssa.Instruction
	Note  string
	Stop  bool // the call that produced this event is not descended into
}

type evList struct {
	ev   Ev
	next *evList
	n    int
}

type factList struct {
	key  string
	val  bool
	next *factList
}

type edgeList struct {
	fr       *Frame
	from, to int
	next     *edgeList
}

type deferList struct {
	fr   *Frame
	d    *ssa.Defer
	next *deferList
}

// State is the per-path state (persistent lists: forks share prefixes).
type State struct {
	evs    *evList
	facts  *factList
	edges  *edgeList
	defers *deferList
	writes *writeList // possible writes to fields seen so far on the path
	cells  *cellList  // last value stored to local variable cells on the path
	preds  *predList  // block entered from which predecessor (latest first)
	rets   *retList   // values returned by inlined calls (single result)
}

type retList struct {
	fr   *Frame
	call ssa.Value
	vals []Ref
	next *retList
}

func (s State) ret(fr *Frame, call ssa.Value, idx int) (Ref, bool) {
	for r := s.rets; r != nil; r = r.next {
		if r.fr == fr && r.call == call {
			if idx < len(r.vals) && r.vals[idx].V != nil {
				return r.vals[idx], true
			}
			return Ref{}, false
		}
	}
	return Ref{}, false
}

type predList struct {
	fr        *Frame
	blk, from int
	next      *predList
}

func (s State) predOf(fr *Frame, blk int) (int, bool) {
	for p := s.preds; p != nil; p = p.next {
		if p.fr == fr && p.blk == blk {
			return p.from, true
		}
	}
	return 0, false
}

type cellList struct {
	fr   *Frame
	a    *ssa.Alloc
	fld  int // -1: the cell itself; otherwise the field of a struct allocated on the path (parameter object)
	ep   int // field cells: write epoch of the field right after the store (a later possible write makes the cell stale)
	val  Ref
	next *cellList
}

func (s State) cell(fr *Frame, a *ssa.Alloc) (Ref, bool) {
	for c := s.cells; c != nil; c = c.next {
		if c.fr == fr && c.a == a && c.fld < 0 {
			return c.val, true
		}
	}
	return Ref{}, false
}

// fieldCell: the value last stored on the path into field fld of the struct
// allocated by a in frame fr (a request's parameters grouped into an object
// that is handed from phase to phase).
func (s State) fieldCell(fr *Frame, a *ssa.Alloc, fld int, fv *types.Var, initOnly bool) (Ref, bool) {
	for c := s.cells; c != nil; c = c.next {
		if c.fr == fr && c.a == a && c.fld == fld {
			if fv != nil && !initOnly && s.epoch(fv) != c.ep {
				return Ref{}, false
			}
			return c.val, true
		}
	}
	return Ref{}, false
}

type writeList struct {
	f    *types.Var
	n    int
	next *writeList
}

func (s State) epoch(f *types.Var) int {
	for w := s.writes; w != nil; w = w.next {
		if w.f == f {
			return w.n
		}
	}
	return 0
}

func (s State) bump(f *types.Var) State {
	s.writes = &writeList{f: f, n: s.epoch(f) + 1, next: s.writes}
	return s
}

func (s State) emit(e Ev) State {
	n := 1
	if s.evs != nil {
		n = s.evs.n + 1
	}
	s.evs = &evList{ev: e, next: s.evs, n: n}
	return s
}

func (s State) fact(k string) (bool, bool) {
	for f := s.facts; f != nil; f = f.next {
		if f.key == k {
			return f.val, true
		}
	}
	return false, false
}

func (s State) withFact(k string, v bool) State {
	s.facts = &factList{key: k, val: v, next: s.facts}
	return s
}

func (s State) Events() []Ev {
	if s.evs == nil {
		return nil
	}
	out := make([]Ev, s.evs.n)
	i := s.evs.n - 1
	for e := s.evs; e != nil; e = e.next {
		out[i] = e.ev
		i--
	}
	return out
}

// Mode says how a combinator treats a function argument.
type Mode int

const (
	ModeOnce       Mode = iota + 1 // runs the argument exactly once (now or later)
	ModeOnceOrDrop                 // runs it once or refuses it (result bool tells which)
	ModeMulti                      // may run it any number of times (visitor / handler)
	ModeStore                      // stores it as a configuration hook (not a continuation)
)

// Comb describes one combinator parameter.
type Comb struct {
	Mode  Mode
	Async bool // argument runs later / elsewhere (not on the caller's stack)
}

// Spec is a rule's view on the program for the trace engine.
type Spec struct {
	// Classify returns the events an instruction emits on the path.
	Classify func(t *Tracer, fr *Frame, in ssa.Instruction) []Ev
	// Branch returns events for taking the dir edge of an If.
	Branch func(t *Tracer, fr *Frame, i *ssa.If, dir bool) []Ev
	// Inline decides whether a static repository callee is descended into.
	Inline func(t *Tracer, fr *Frame, c ssa.CallInstruction, fn *ssa.Function) bool
	// Combs overrides/extends the shared combinator table (key: types.Func).
	Combs map[*types.Func]map[int]Comb
	// EscapeMatters says whether a closure handed to code outside the table
	// is relevant to the rule (then an "escape" event is emitted).
	EscapeMatters func(t *Tracer, fr *Frame, mc *ssa.MakeClosure) bool
	MaxPaths      int
	MaxDepth      int
	// InlineHelpers descends into unexported functions of the root's package
	// (extracted helpers), unless the call's events say Stop.
	InlineHelpers bool
	// NoHelpers switches the default helper inlining off for a rule.
	NoHelpers bool
	// Eval may decide a branch condition by constant propagation (used by the
	// TABLE rules that fix one input to a constant); known=false leaves both
	// directions open.
	Eval func(t *Tracer, fr *Frame, cond ssa.Value) (val bool, known bool)
	// EdgeLimit is how often one CFG edge may be taken on a path (default 1:
	// loops run 0 or 1 times; 2 lets a rule see the second iteration).
	EdgeLimit int
	// MarkAccepted emits a "run:<combinator>" event on the fork where a combinator that may refuse its
	// argument accepts it (the refusing fork always carries "drop:<combinator>").
	MarkAccepted bool
	// NoCombs: closures handed to combinators are not run as part of the path (rules about what a
	// function does before it returns: lock balance).
	NoCombs bool
}

// Tracer enumerates paths of one root.
type Tracer struct {
	P        *Prog
	Spec     *Spec
	Root     *ssa.Function
	RootFr   *Frame
	nframes  int
	Paths    [][]Ev
	Trunc    bool     // path budget exhausted
	Escapes  []string // closures handed to unknown code
	Init     func(t *Tracer)
	cur      State // state at the instruction being classified (for path-sensitive Resolve)
	cellMemo map[ssa.Value]*cellInfo
	interest map[*ssa.Function]int // 0 unknown, 1 yes, 2 no
	slots    map[*types.Var]string // pending-slot fields: never resolved through field cells
}

type cellInfo struct {
	stores []*ssa.Store
}

// NewTracer prepares a tracer for root.
// thoroughBoost deepens the exploration in the thorough tier: loops are
// unrolled up to two iterations by default and the path budget is larger.
var thoroughBoost bool

func NewTracer(p *Prog, spec *Spec, root *ssa.Function) *Tracer {
	if !spec.NoHelpers {
		spec.InlineHelpers = true
	}
	if thoroughBoost {
		if spec.EdgeLimit == 0 {
			spec.EdgeLimit = 2
		}
		if spec.MaxPaths == 0 {
			spec.MaxPaths = 400000
		}
	}
	if spec.MaxPaths == 0 {
		spec.MaxPaths = 50000
	}
	if spec.MaxDepth == 0 {
		spec.MaxDepth = 12
	}
	return &Tracer{P: p, Spec: spec, Root: root, cellMemo: map[ssa.Value]*cellInfo{}}
}

func (t *Tracer) newFrame(fr Frame) *Frame {
	t.nframes++
	fr.ID = t.nframes
	if fr.Parent != nil {
		fr.Depth = fr.Parent.Depth + 1
	}
	return &fr
}

// Run enumerates all paths from the root's entry to a normal return.
func (t *Tracer) Run() {
	root := t.newFrame(Frame{Fn: t.Root})
	t.RootFr = root
	if t.Init != nil {
		t.Init(t)
	}
	t.execFn(root, State{}, func(st State, _ []Ref) {
		t.addPath(st)
	})
}

// RunClosure enumerates the paths of a closure as a root (free variables
// resolve to nothing outside).
func (t *Tracer) addPath(st State) {
	if len(t.Paths) >= t.Spec.MaxPaths {
		t.Trunc = true
		return
	}
	t.Paths = append(t.Paths, st.Events())
}

func (t *Tracer) execFn(fr *Frame, st State, k func(State, []Ref)) {
	if len(fr.Fn.Blocks) == 0 {
		k(st, nil)
		return
	}
	t.execBlock(fr, fr.Fn.Blocks[0], 0, st, k)
}

func (t *Tracer) execBlock(fr *Frame, b *ssa.BasicBlock, idx int, st State, k func(State, []Ref)) {
	if t.Trunc {
		return
	}
	for i := idx; i < len(b.Instrs); i++ {
		in := b.Instrs[i]
		t.cur = st
		switch x := in.(type) {
		case *ssa.If:
			t.execIf(fr, x, st, k)
			return
		case *ssa.Jump:
			t.follow(fr, b, b.Succs[0], st, k)
			return
		case *ssa.Return:
			var rets []Ref
			for _, r := range x.Results {
				rets = append(rets, t.Resolve(fr, r))
			}
			for _, e := range t.classify(fr, in) {
				st = st.emit(e)
			}
			k(st, rets)
			return
		case *ssa.Panic:
			return // abnormal exit: not a path
		case *ssa.Defer:
			st.defers = &deferList{fr: fr, d: x, next: st.defers}
			continue
		case *ssa.RunDefers:
			// replay this frame's defers, LIFO, then continue
			var ds []*ssa.Defer
			for d := st.defers; d != nil; d = d.next {
				if d.fr == fr {
					ds = append(ds, d.d)
				}
			}
			rest := i + 1
			t.runDefers(fr, ds, st, func(st2 State) {
				t.execBlock(fr, b, rest, st2, k)
			})
			return
		case ssa.CallInstruction: // *ssa.Call, *ssa.Go
			rest := i + 1
			t.execCall(fr, x, st, func(st2 State) {
				t.execBlock(fr, b, rest, st2, k)
			})
			return
		default:
			for _, e := range t.classify(fr, in) {
				st = st.emit(e)
			}
			if sx, ok := in.(*ssa.Store); ok {
				if fa, ok := sx.Addr.(*ssa.FieldAddr); ok {
					if fv := fieldOfAddr(fa); fv != nil {
						st = st.bump(fv)
					}
				}
				if _, isAlloc := sx.Addr.(*ssa.Alloc); !isAlloc {
					st = st.bump(memVar)
				}
				t.cur = st
				if cr := t.Resolve(fr, sx.Addr); cr.V != nil {
					if al, ok := cr.V.(*ssa.Alloc); ok {
						st.cells = &cellList{fr: cr.Fr, a: al, fld: -1, val: t.Resolve(fr, sx.Val), next: st.cells}
					}
				}
				if fa, ok := sx.Addr.(*ssa.FieldAddr); ok {
					if base := t.Resolve(fr, fa.X); base.V != nil {
						if al, ok := base.V.(*ssa.Alloc); ok {
							ep := 0
							if fv := fieldOfAddr(fa); fv != nil {
								ep = st.epoch(fv)
							}
							st.cells = &cellList{fr: base.Fr, a: al, fld: fa.Field, ep: ep, val: t.Resolve(fr, sx.Val), next: st.cells}
						}
					}
				}
			}
		}
	}
}

func (t *Tracer) runDefers(fr *Frame, ds []*ssa.Defer, st State, k func(State)) {
	if len(ds) == 0 {
		k(st)
		return
	}
	t.execCall(fr, ds[0], st, func(st2 State) {
		t.runDefers(fr, ds[1:], st2, k)
	})
}

func (t *Tracer) classify(fr *Frame, in ssa.Instruction) []Ev {
	if t.Spec.Classify == nil {
		return nil
	}
	evs := t.Spec.Classify(t, fr, in)
	for i := range evs {
		if evs[i].Fr == nil {
			evs[i].Fr = fr
		}
		if evs[i].Instr == nil {
			evs[i].Instr = in
		}
	}
	return evs
}

func (t *Tracer) follow(fr *Frame, from, to *ssa.BasicBlock, st State, k func(State, []Ref)) {
	lim := t.Spec.EdgeLimit
	if lim == 0 {
		lim = 1
	}
	n := 0
	for e := st.edges; e != nil; e = e.next {
		if e.fr == fr && e.from == from.Index && e.to == to.Index {
			n++
			if n >= lim {
				return // each CFG edge at most lim times per path: loops run 0..lim times
			}
		}
	}
	st.edges = &edgeList{fr: fr, from: from.Index, to: to.Index, next: st.edges}
	st.preds = &predList{fr: fr, blk: to.Index, from: from.Index, next: st.preds}
	t.execBlock(fr, to, 0, st, k)
}

// condView returns the condition as the rule should see it: when the
// tested value is the result of an inlined predicate helper
// (`if s.isQueueing()`), the helper's returned expression in the helper's
// frame, with flip telling whether the view is negated.
func (t *Tracer) condView(fr *Frame, c ssa.Value) (vfr *Frame, v ssa.Value, flip bool) {
	vfr, v = fr, c
	for depth := 0; depth < 6; depth++ {
		isCallResult := func(x ssa.Value) bool {
			if _, isCall := x.(*ssa.Call); isCall {
				return true
			}
			// one result of a helper returning a tuple (`proceed, err := check(...)`)
			if e, isE := x.(*ssa.Extract); isE {
				_, isCall := e.Tuple.(*ssa.Call)
				return isCall
			}
			return false
		}
		if u, ok := v.(*ssa.UnOp); ok && u.Op == token.NOT {
			if isCallResult(u.X) {
				if r := t.Resolve(vfr, u.X); r.V != u.X {
					vfr, v, flip = r.Fr, r.V, !flip
					continue
				}
			}
			// the negation of a merged value inside a helper the path went through (`a && !(b && c)`): the edge
			// the path came in over decides what is negated
			if _, isPhi := u.X.(*ssa.Phi); isPhi && vfr != fr {
				if r := t.Resolve(vfr, u.X); r.V != u.X && r.V != nil {
					vfr, v, flip = r.Fr, r.V, !flip
					continue
				}
			}
			return
		}
		if ph, isPhi := v.(*ssa.Phi); isPhi && vfr != fr {
			if r := t.Resolve(vfr, ph); r.V != v && r.V != nil {
				vfr, v = r.Fr, r.V
				continue
			}
		}
		if isCallResult(v) {
			if r := t.Resolve(vfr, v); r.V != v && r.V != nil {
				if _, isConst := r.V.(*ssa.Const); isConst {
					return
				}
				vfr, v = r.Fr, r.V
				continue
			}
		}
		return
	}
	return
}

func (t *Tracer) execIf(fr *Frame, i *ssa.If, st State, k func(State, []Ref)) {
	t.cur = st
	vfr, vcond, vflip := t.condView(fr, i.Cond)
	key, neg, lhs, cst := t.condKey(vfr, vcond, st)
	if vflip {
		neg = !neg
	}
	dirs := []bool{true, false}
	if c, ok := constBool(i.Cond); ok {
		dirs = []bool{c}
	} else if c, ok := constBool(t.Resolve(fr, i.Cond).V); ok {
		dirs = []bool{c}
	} else if c, ok := constBool(vcond); ok && vcond != i.Cond {
		dirs = []bool{c != vflip}
	} else if v, ok := t.foldCompare(vfr, vcond); ok {
		dirs = []bool{v != vflip}
	} else if v, ok := t.evalCond(fr, i.Cond); ok {
		dirs = []bool{v}
	} else if v, ok := t.evalCond(vfr, vcond); ok && vcond != i.Cond {
		dirs = []bool{v != vflip}
	} else if key != "" {
		if v, ok := st.fact(key); ok {
			dirs = []bool{v != neg}
		} else if lhs != "" {
			// x == c2 is false once x == c1 (c1 != c2) is known on this path
			for f := st.facts; f != nil; f = f.next {
				if f.val && strings.HasPrefix(f.key, "eq("+lhs+",const:") && f.key != key {
					dirs = []bool{neg}
					break
				}
			}
		}
	}
	_ = cst
	b := i.Block()
	for _, d := range dirs {
		st2 := st
		if key != "" {
			st2 = st2.withFact(key, d != neg)
		}
		if t.Spec.Branch != nil {
			t.cur = st2
			evs := t.Spec.Branch(t, fr, i, d)
			if fr.Parent != nil && fr.Site != nil && fr.Clo == nil {
				// a test on the helper's parameters is a test on the caller's arguments
				if sub, _ := substParams(fr.Fn, fr.Site.Common().Args, i.Cond, 0); sub != i.Cond {
					evs = append(evs, t.Spec.Branch(t, fr.Parent, &ssa.If{Cond: sub}, d)...)
				}
			}
			if vcond != i.Cond {
				// the same decision seen through the predicate helper's own expression
				fake := &ssa.If{Cond: vcond}
				if vfr == nil {
					vfr = fr // the view resolved to a frame-less value (a constant, a global)
				}
				evs = append(evs, t.Spec.Branch(t, vfr, fake, d != vflip)...)
				// ... and, for a predicate over its parameters only, in the caller's own terms
				// (through every level of nested predicates: isQueueing() → queueFlag.any() → q != 0)
				cur, f := vcond, vfr
				for lvl := 0; lvl < 4 && f != nil && f != fr && f.Site != nil && f.Clo == nil; lvl++ {
					sub, pure := substParams(f.Fn, f.Site.Common().Args, cur, 0)
					if !pure || sub == cur {
						break
					}
					cur, f = sub, f.Parent
					evs = append(evs, t.Spec.Branch(t, f, &ssa.If{Cond: cur}, d != vflip)...)
				}
			}
			for _, e := range evs {
				if e.Fr == nil {
					e.Fr = fr
				}
				if e.Instr == nil {
					e.Instr = i
				}
				st2 = st2.emit(e)
			}
		}
		succ := b.Succs[0]
		if !d {
			succ = b.Succs[1]
		}
		t.follow(fr, b, succ, st2, k)
	}
}

// memVar is the pseudo-field whose epoch counts possible writes to memory
// reached through pointers (stores not to a local cell, calls).
var memVar = types.NewVar(token.NoPos, nil, "<mem>", types.Typ[types.Int])

// foldCompare decides x == y / x != y when both sides resolve, across frames,
// to constants, or one to nil and the other to a freshly made value (a helper
// called with a literal nil, a merged twin testing its mode parameter).
func (t *Tracer) foldCompare(fr *Frame, c ssa.Value) (bool, bool) {
	if u, ok := c.(*ssa.UnOp); ok && u.Op == token.NOT {
		v, ok := t.foldCompare(fr, u.X)
		return !v, ok
	}
	b, ok := c.(*ssa.BinOp)
	if !ok {
		return false, false
	}
	switch b.Op {
	case token.LSS, token.GTR, token.LEQ, token.GEQ, token.EQL, token.NEQ:
		if _, isInt := b.X.Type().Underlying().(*types.Basic); isInt {
			kx, okx := t.foldInt(fr, b.X)
			ky, oky := t.foldInt(fr, b.Y)
			if okx && oky {
				switch b.Op {
				case token.LSS:
					return kx < ky, true
				case token.GTR:
					return kx > ky, true
				case token.LEQ:
					return kx <= ky, true
				case token.GEQ:
					return kx >= ky, true
				case token.EQL:
					return kx == ky, true
				case token.NEQ:
					return kx != ky, true
				}
			}
		}
	}
	if b.Op != token.EQL && b.Op != token.NEQ {
		return false, false
	}
	x, y := t.Resolve(fr, b.X), t.Resolve(fr, b.Y)
	cx, okx := x.V.(*ssa.Const)
	cy, oky := y.V.(*ssa.Const)
	fresh := func(v ssa.Value) bool {
		switch x := v.(type) {
		case *ssa.Alloc, *ssa.MakeClosure, *ssa.Function, *ssa.MakeMap, *ssa.MakeSlice, *ssa.MakeChan, *ssa.MakeInterface, *ssa.Global:
			return true
		case *ssa.UnOp:
			// a package-level error value (`errMissingResult = &reserr.Error{…}`): set once, to an allocation
			if g, ok := x.X.(*ssa.Global); ok && x.Op == token.MUL {
				return t.P.globalAlwaysSet(g)
			}
		}
		return false
	}
	eq, known := false, false
	switch {
	case okx && oky && cx.IsNil() && cy.IsNil():
		eq, known = true, true
	case okx && oky && cx.Value != nil && cy.Value != nil:
		eq, known = constant.Compare(cx.Value, token.EQL, cy.Value), true
	case okx && cx.IsNil() && fresh(y.V), oky && cy.IsNil() && fresh(x.V):
		eq, known = false, true
	}
	if !known {
		return false, false
	}
	return eq == (b.Op == token.EQL), true
}

// condKey canonicalises a branch condition so that repeated tests of the same
// thing agree along a path. The returned key names a proposition; neg says
// the condition is its negation.
func (t *Tracer) condKey(fr *Frame, c ssa.Value, st State) (key string, neg bool, lhs string, isConst bool) {
	switch x := c.(type) {
	case *ssa.UnOp:
		if x.Op == token.NOT {
			k, n, l, cc := t.condKey(fr, x.X, st)
			return k, !n, l, cc
		}
	case *ssa.Extract:
		// first `ok` of a range over a map: the map is non-empty
		if nx, ok := x.Tuple.(*ssa.Next); ok && x.Index == 0 && !nx.IsString {
			if rg, ok := nx.Iter.(*ssa.Range); ok && t.entries(fr, nx.Block(), st) <= 1 {
				return "nonempty(" + t.valKey(fr, rg.X, st) + ")", false, "", false
			}
		}
	case *ssa.BinOp:
		// first test `0 < len(S)` of a range over a slice: the slice is non-empty
		if x.Op == token.LSS {
			if k, ok := t.foldInt(fr, x.X); ok && k == 0 {
				if call, ok := x.Y.(*ssa.Call); ok {
					if b, ok := call.Call.Value.(*ssa.Builtin); ok && b.Name() == "len" {
						return "nonempty(" + t.valKey(fr, call.Call.Args[0], st) + ")", false, "", false
					}
				}
			}
		}
		if x.Op == token.EQL || x.Op == token.NEQ {
			lk, rk := t.valKey(fr, x.X, st), t.valKey(fr, x.Y, st)
			if !strings.HasPrefix(rk, "const:") && strings.HasPrefix(lk, "const:") {
				lk, rk = rk, lk
			}
			if strings.HasPrefix(rk, "const:") {
				return "eq(" + lk + "," + rk + ")", x.Op == token.NEQ, lk, true
			}
			return "eq(" + lk + "," + rk + ")", x.Op == token.NEQ, "", false
		}
	}
	return "v(" + t.valKey(fr, c, st) + ")", false, "", false
}

// valKey names a value for correlation: a load of a field is named by its
// base, the field and the number of possible writes to that field seen so
// far on the path, so that two loads with nothing in between agree.
func (t *Tracer) valKey(fr *Frame, v ssa.Value, st State) string {
	r := t.Resolve(fr, v)
	if f, base := fieldLoad(r.V); f != nil {
		ep := st.epoch(f)
		if t.P.initOnlyField(f) {
			ep = 0 // written only while its object is under construction: no later write can reach an existing object
		}
		return fmt.Sprintf("fld(%s.%s#%d)", t.valKey(r.Fr, base, st), f.Name(), ep)
	}
	// a load of a captured variable whose closure is analysed on its own
	if u, ok := r.V.(*ssa.UnOp); ok && u.Op == token.MUL {
		if fv, ok := u.X.(*ssa.FreeVar); ok {
			return "cellof:" + fnName(fv.Parent()) + ":" + fv.Name()
		}
		// a load through a pointer value (*ur.Count): the same pointer, nothing possibly written in between
		switch u.X.(type) {
		case *ssa.Alloc, *ssa.Global, *ssa.FieldAddr, *ssa.IndexAddr:
		default:
			if _, isPtr := u.X.Type().Underlying().(*types.Pointer); isPtr {
				return fmt.Sprintf("deref(%s#%d)", t.valKey(r.Fr, u.X, st), st.epoch(memVar))
			}
		}
	}
	// a value computed inside a loop is a new value on every iteration
	if in, ok := r.V.(ssa.Instruction); ok && in.Block() != nil {
		n := 0
		for e := st.edges; e != nil; e = e.next {
			if e.fr == r.Fr && e.to == in.Block().Index {
				n++
			}
		}
		if n > 1 {
			return fmt.Sprintf("%s@%d", r.Key(), n)
		}
	}
	return r.Key()
}

// ---------------------------------------------------------------------------
// value resolution across frames (parameters, free variables, single-store
// cells)

// Resolve follows a value to its origin across inlined calls and closures.
func (t *Tracer) Resolve(fr *Frame, v ssa.Value) Ref {
	for depth := 0; depth < 64; depth++ {
		switch x := v.(type) {
		case *ssa.Const, *ssa.Global, *ssa.Function, *ssa.Builtin:
			return Ref{nil, v}
		case *ssa.Parameter:
			if fr == nil || fr.Args == nil {
				return Ref{fr, v}
			}
			idx := -1
			for i, p := range fr.Fn.Params {
				if p == x {
					idx = i
				}
			}
			if idx < 0 || idx >= len(fr.Args) || fr.Args[idx].V == nil {
				return Ref{fr, v}
			}
			a := fr.Args[idx]
			fr, v = a.Fr, a.V
			continue
		case *ssa.FreeVar:
			if fr == nil || fr.Clo == nil {
				return Ref{fr, v}
			}
			idx := -1
			for i, f := range fr.Fn.FreeVars {
				if f == x {
					idx = i
				}
			}
			if idx < 0 {
				return Ref{fr, v}
			}
			fr, v = fr.CloFr, fr.Clo.Bindings[idx]
			continue
		case *ssa.UnOp:
			if x.Op == token.MUL {
				if fa, isFA := x.X.(*ssa.FieldAddr); isFA {
					// field of an object allocated on this path: the value last stored there on the path
					// (not for pending slots: what is parked there is consumed by the store, and the later call
					// through the slot is the drain)
					if t.slots == nil {
						t.slots = t.P.slotSet()
					}
					if _, isSlot := t.slots[fieldOfAddr(fa)]; isSlot {
						return Ref{fr, v}
					}
					if base := t.Resolve(fr, fa.X); base.V != nil {
						if al, ok := base.V.(*ssa.Alloc); ok {
							if cv, ok := t.cur.fieldCell(base.Fr, al, fa.Field, fieldOfAddr(fa), t.P.initOnlyField(fieldOfAddr(fa))); ok && cv.V != nil {
								if cu, self := cv.V.(*ssa.UnOp); !self || cu != x {
									fr, v = cv.Fr, cv.V
									continue
								}
							}
						}
					}
					return Ref{fr, v}
				}
				cell := t.Resolve(fr, x.X)
				if a, ok := cell.V.(*ssa.Alloc); ok {
					if cv, ok := t.cur.cell(cell.Fr, a); ok && cv.V != nil {
						if _, self := cv.V.(*ssa.UnOp); !self {
							fr, v = cv.Fr, cv.V
							continue
						}
					}
					if st := t.singleStore(a); st != nil {
						// the store is in the alloc's own function: same frame
						if st.Parent() == a.Parent() {
							fr, v = cell.Fr, st.Val
							continue
						}
					}
				}
				return Ref{fr, v}
			}
			return Ref{fr, v}
		case *ssa.ChangeType:
			v = x.X
			continue
		case *ssa.ChangeInterface:
			v = x.X
			continue
		case *ssa.MakeInterface:
			v = x.X
			continue
		case *ssa.Call:
			if rv, ok := t.cur.ret(fr, x, 0); ok && rv.V != nil && x.Type() != nil {
				if _, isTuple := x.Type().(*types.Tuple); !isTuple {
					fr, v = rv.Fr, rv.V
					continue
				}
			}
			return Ref{fr, v}
		case *ssa.Extract:
			if call, ok := x.Tuple.(*ssa.Call); ok {
				if rv, ok := t.cur.ret(fr, call, x.Index); ok {
					fr, v = rv.Fr, rv.V
					continue
				}
			}
			return Ref{fr, v}
		case *ssa.Phi:
			// path-sensitive: the edge the current path came in over
			if from, ok := t.cur.predOf(fr, x.Block().Index); ok {
				for i, pb := range x.Block().Preds {
					if pb.Index == from && i < len(x.Edges) {
						v = x.Edges[i]
						goto next
					}
				}
			}
			return Ref{fr, v}
		default:
			return Ref{fr, v}
		}
	next:
	}
	return Ref{fr, v}
}

// singleStore returns the only store to the cell a across its function and
// all closures capturing it, or nil when there are none or several.
func (t *Tracer) singleStore(a *ssa.Alloc) *ssa.Store {
	ci := t.cellMemo[a]
	if ci == nil {
		ci = &cellInfo{}
		seen := map[ssa.Value]bool{}
		var visit func(v ssa.Value)
		visit = func(v ssa.Value) {
			if seen[v] {
				return
			}
			seen[v] = true
			rs := v.Referrers()
			if rs == nil {
				return
			}
			for _, r := range *rs {
				switch y := r.(type) {
				case *ssa.Store:
					if y.Addr == v {
						ci.stores = append(ci.stores, y)
					}
				case *ssa.MakeClosure:
					fn := y.Fn.(*ssa.Function)
					for i, b := range y.Bindings {
						if b == v && i < len(fn.FreeVars) {
							visit(fn.FreeVars[i])
						}
					}
				}
			}
		}
		visit(a)
		t.cellMemo[a] = ci
	}
	if len(ci.stores) == 1 {
		return ci.stores[0]
	}
	return nil
}

// ---------------------------------------------------------------------------
// calls

func (t *Tracer) execCall(fr *Frame, c ssa.CallInstruction, st State, k func(State)) {
	com := c.Common()
	_, isGo := c.(*ssa.Go)
	t.cur = st
	stop := false
	for _, e := range t.classify(fr, c) {
		st = st.emit(e)
		if e.Stop {
			stop = true
		}
	}
	if _, isB := com.Value.(*ssa.Builtin); !isB {
		st = st.bump(memVar) // anything behind a pointer may have been written
	}
	if stop || fr.Depth >= t.Spec.MaxDepth {
		for _, f := range t.P.MayWrite(c) {
			st = st.bump(f)
		}
		k(st)
		return
	}

	// 1. call of a function value that resolves to a closure: run it here
	if !com.IsInvoke() && com.StaticCallee() == nil {
		if _, isB := com.Value.(*ssa.Builtin); !isB {
			tgt := t.Resolve(fr, com.Value)
			if mc, ok := tgt.V.(*ssa.MakeClosure); ok {
				fn := mc.Fn.(*ssa.Function)
				if !t.onStack(fr, fn) {
					nf := t.newFrame(Frame{Fn: fn, Parent: fr, Site: c, Clo: mc, CloFr: tgt.Fr, Args: t.resolveArgs(fr, com.Args), Async: isGo})
					t.execFn(nf, st, func(st2 State, rets []Ref) { k(t.withRet(st2, fr, c, rets)) })
					return
				}
			}
			if f, ok := tgt.V.(*ssa.Function); ok && t.isRepo(f) && t.inline(fr, c, f) && !t.onStack(fr, f) {
				nf := t.newFrame(Frame{Fn: f, Parent: fr, Site: c, Args: t.resolveArgs(fr, com.Args), Async: isGo})
				t.execFn(nf, st, func(st2 State, rets []Ref) { k(t.withRet(st2, fr, c, rets)) })
				return
			}
		}
		k(st)
		return
	}

	// 2. combinators: run closure arguments according to the table
	callee := calleeFunc(com)
	args := callArgs(com)
	if callee != nil {
		if tbl := t.combs(callee); tbl != nil && !t.Spec.NoCombs {
			for _, f := range t.P.MayWrite(c) {
				st = st.bump(f)
			}
			t.runCombArgs(fr, c, callee, tbl, args, 0, st, k)
			return
		}
	}

	// 3. static repository callee worth descending into
	if f := com.StaticCallee(); f != nil && t.isRepo(f) && len(f.Blocks) > 0 {
		if t.inline(fr, c, f) && !t.onStack(fr, f) {
			var ra []Ref
			if f.Synthetic != "" && strings.HasSuffix(f.Name(), "$bound") {
				ra = nil
			} else {
				ra = t.resolveArgs(fr, com.Args)
			}
			nf := t.newFrame(Frame{Fn: f, Parent: fr, Site: c, Args: ra, Async: isGo})
			if mc, ok := com.Value.(*ssa.MakeClosure); ok { // direct call of a literal closure
				nf.Clo, nf.CloFr = mc, fr
			}
			t.execFn(nf, st, func(st2 State, rets []Ref) { k(t.withRet(st2, fr, c, rets)) })
			return
		}
	}

	// 4. anything else: the callee may write fields (invalidates correlated loads)
	for _, f := range t.P.MayWrite(c) {
		st = st.bump(f)
	}
	for _, a := range args {
		r := t.Resolve(fr, a)
		if mc, ok := r.V.(*ssa.MakeClosure); ok {
			if fn := mc.Fn.(*ssa.Function); t.isRepo(fn) && t.Spec.EscapeMatters != nil && t.Spec.EscapeMatters(t, r.Fr, mc) {
				t.Escapes = append(t.Escapes, fmt.Sprintf("%s passes closure %s to %s", fnName(fr.Fn), fnName(fn), calleeName(com)))
				st = st.emit(Ev{Kind: "escape", Fr: fr, Instr: c, Note: fnName(fn) + " -> " + calleeName(com)})
			}
		}
	}
	k(st)
}

func (t *Tracer) runCombArgs(fr *Frame, c ssa.CallInstruction, callee *types.Func, tbl map[int]Comb, args []ssa.Value, i int, st State, k func(State)) {
	if i >= len(args) {
		k(st)
		return
	}
	cb, ok := tbl[i]
	if !ok {
		t.runCombArgs(fr, c, callee, tbl, args, i+1, st, k)
		return
	}
	r := t.Resolve(fr, args[i])
	var fn *ssa.Function
	var mc *ssa.MakeClosure
	switch x := r.V.(type) {
	case *ssa.MakeClosure:
		mc = x
		fn = x.Fn.(*ssa.Function)
	case *ssa.Function:
		fn = x
	}
	if fn == nil || !t.isRepo(fn) || cb.Mode == ModeMulti || cb.Mode == ModeStore || t.onStack(fr, fn) {
		t.runCombArgs(fr, c, callee, tbl, args, i+1, st, k)
		return
	}
	via := callee.Name()
	_, isGo := c.(*ssa.Go)
	run := func(st State) {
		nf := t.newFrame(Frame{Fn: fn, Parent: fr, Site: c, Clo: mc, CloFr: r.Fr, Via: via,
			MayDrop: cb.Mode == ModeOnceOrDrop, Async: cb.Async || isGo})
		t.execFn(nf, st, func(st2 State, _ []Ref) {
			t.runCombArgs(fr, c, callee, tbl, args, i+1, st2, k)
		})
	}
	if cb.Mode == ModeOnceOrDrop {
		// fork: accepted (result true) / refused (result false)
		var resKey string
		if v, ok := c.(ssa.Value); ok {
			resKey = "v(" + (Ref{fr, v}).Key() + ")"
		}
		stRun, stDrop := st, st.emit(Ev{Kind: "drop:" + via, Fr: fr, Instr: c, Note: fnName(fn)})
		if t.Spec.MarkAccepted {
			stRun = st.emit(Ev{Kind: "run:" + via, Fr: fr, Instr: c, Note: fnName(fn)})
		}
		if resKey != "" {
			stRun = stRun.withFact(resKey, true)
			stDrop = stDrop.withFact(resKey, false)
		}
		run(stRun)
		t.runCombArgs(fr, c, callee, tbl, args, i+1, stDrop, k)
		return
	}
	run(st)
}

func (t *Tracer) resolveArgs(fr *Frame, args []ssa.Value) []Ref {
	out := make([]Ref, len(args))
	for i, a := range args {
		out[i] = t.Resolve(fr, a)
	}
	return out
}

func (t *Tracer) onStack(fr *Frame, fn *ssa.Function) bool {
	for x := fr; x != nil; x = x.Parent {
		if x.Fn == fn {
			return true
		}
	}
	return false
}

func (t *Tracer) isRepo(f *ssa.Function) bool {
	_, ok := t.P.ByNm[fnName(f)]
	return ok
}

func (t *Tracer) inline(fr *Frame, c ssa.CallInstruction, f *ssa.Function) bool {
	if t.Spec.Inline != nil && t.Spec.Inline(t, fr, c, f) {
		return true
	}
	if _, isGo := c.(*ssa.Go); isGo {
		return false // a new goroutine is not part of this path
	}
	if t.Spec.InlineHelpers {
		if f.Parent() != nil {
			return true
		}
		top := TopLevel(t.Root)
		if f.Pkg != nil && top.Pkg != nil && f.Pkg == top.Pkg && f.Object() != nil && (!f.Object().Exported() || isSmallPredicate(f)) && fr.Depth < 8 {
			if t.Spec.Branch != nil && (isParamPredicate(f) || isParamDecision(f)) {
				return true // what it decides is a fact about the caller's arguments; cheap
			}
			return !isLogCall(c.Common()) && t.interesting(f, 0)
		}
	}
	return false
}

// DecidedInHelper reports that the branch condition is the result of a
// repository helper the engine descends into (or views as a predicate): the
// decisions that matter were classified inside the helper, so the branch on
// its result is not an unlisted decision of the caller.
func (t *Tracer) DecidedInHelper(i *ssa.If) bool {
	v := i.Cond
	if u, ok := v.(*ssa.UnOp); ok && u.Op == token.NOT {
		v = u.X
	}
	call, ok := v.(*ssa.Call)
	if !ok {
		return false
	}
	sf := call.Call.StaticCallee()
	if sf == nil || !t.isRepo(sf) || sf.Object() == nil {
		return false
	}
	if sf.Object().Exported() && !isSmallPredicate(sf) {
		return false // not descended into: its decision is the caller's
	}
	return t.interesting(sf, 0) || isParamPredicate(sf) || isParamDecision(sf)
}

// isSmallPredicate: a bool function without calls and with at most three
// blocks (IsSent, IsValidStatus): viewed like an unexported predicate helper.
func isSmallPredicate(f *ssa.Function) bool {
	res := f.Signature.Results()
	if res.Len() != 1 || len(f.Blocks) == 0 || len(f.Blocks) > 3 {
		return false
	}
	if b, ok := res.At(0).Type().Underlying().(*types.Basic); !ok || b.Kind() != types.Bool {
		return false
	}
	// no calls — or only calls of predicates over their parameters (`return s.state.isReady()`)
	for _, c := range callsIn(f) {
		g := c.Common().StaticCallee()
		if g == nil || g == f || len(g.Blocks) == 0 || !(isParamDecision(g) || isParamPredicate(g)) {
			return false
		}
	}
	return true
}

// isParamDecision: a bool function without calls whose every branch tests
// its parameters against constants (`switch s { case a, b: return true }`).
func isParamDecision(g *ssa.Function) bool {
	// (whatever it returns — a bool, an error chosen from its arguments: `responseError(rerr, hasResult)`)
	if len(g.Blocks) < 2 || len(g.Blocks) > 16 || len(callsIn(g)) > 0 {
		return false
	}
	var self []ssa.Value
	for _, prm := range g.Params {
		self = append(self, prm)
	}
	for _, in := range instrsOf(g) {
		if i, ok := in.(*ssa.If); ok {
			if _, pure := substParams(g, self, i.Cond, 0); !pure {
				return false
			}
		}
	}
	return true
}

// isParamPredicate: a one-block function returning a boolean expression over
// its parameters and constants only (`func (s state) isLoaded() bool`).
func isParamPredicate(g *ssa.Function) bool {
	if len(g.Blocks) != 1 {
		return false
	}
	r, ok := g.Blocks[0].Instrs[len(g.Blocks[0].Instrs)-1].(*ssa.Return)
	if !ok || len(r.Results) != 1 {
		return false
	}
	switch r.Results[0].(type) {
	case *ssa.BinOp, *ssa.UnOp:
	default:
		return false
	}
	var self []ssa.Value
	for _, prm := range g.Params {
		self = append(self, prm)
	}
	_, pure := substParams(g, self, r.Results[0], 0)
	return pure
}

func (t *Tracer) combs(callee *types.Func) map[int]Comb {
	if t.Spec.Combs != nil {
		if m, ok := t.Spec.Combs[callee]; ok {
			return m
		}
	}
	return t.P.Combinators()[callee]
}

// FmtPath renders a path compactly for reports.
func (t *Tracer) FmtPath(evs []Ev) string {
	var parts []string
	for _, e := range evs {
		s := e.Kind
		if e.Instr != nil {
			s += "@" + t.P.InstrPos(e.Instr)
		}
		parts = append(parts, s)
	}
	return strings.Join(parts, " → ")
}

func (t *Tracer) evalCond(fr *Frame, c ssa.Value) (bool, bool) {
	if t.Spec.Eval == nil {
		return false, false
	}
	return t.Spec.Eval(t, fr, c)
}

// entries counts how often block b of frame fr was entered on the path.
func (t *Tracer) entries(fr *Frame, b *ssa.BasicBlock, st State) int {
	n := 0
	for e := st.edges; e != nil; e = e.next {
		if e.fr == fr && e.to == b.Index {
			n++
		}
	}
	return n
}

// foldInt constant-folds small integer expressions along the current path
// (phis resolve to the edge the path came in over).
func (t *Tracer) foldInt(fr *Frame, v ssa.Value) (int64, bool) {
	return t.foldIntD(fr, v, 0)
}

func (t *Tracer) foldIntD(fr *Frame, v ssa.Value, depth int) (int64, bool) {
	if depth > 4 {
		return 0, false
	}
	// an induction variable (range index, `for i := k0; ...; i += step`): its value is fixed by how often
	// the loop header was entered over the back edge since it was last entered from outside
	if ph, ok := v.(*ssa.Phi); ok && len(ph.Edges) == 2 {
		for i := 0; i < 2; i++ {
			k0, isC := constInt(ph.Edges[i])
			b, isB := ph.Edges[1-i].(*ssa.BinOp)
			if !isC || !isB || b.Op != token.ADD || b.X != ssa.Value(ph) {
				continue
			}
			step, isS := constInt(b.Y)
			if !isS {
				continue
			}
			initPred, backPred := ph.Block().Preds[i].Index, ph.Block().Preds[1-i].Index
			n := int64(0)
			found := false
			for e := t.cur.edges; e != nil; e = e.next {
				if e.fr != fr || e.to != ph.Block().Index {
					continue
				}
				if e.from == backPred {
					n++
					continue
				}
				if e.from == initPred {
					found = true
				}
				break
			}
			if found {
				return k0 + step*n, true
			}
		}
	}
	r := t.Resolve(fr, v)
	if k, ok := constInt(r.V); ok {
		return k, true
	}
	if b, ok := r.V.(*ssa.BinOp); ok && (b.Op == token.ADD || b.Op == token.SUB) {
		x, okx := t.foldIntD(r.Fr, b.X, depth+1)
		y, oky := t.foldIntD(r.Fr, b.Y, depth+1)
		if okx && oky {
			if b.Op == token.ADD {
				return x + y, true
			}
			return x - y, true
		}
	}
	return 0, false
}

// initOnlyField: every store to the field, anywhere in the program, writes an
// object that the storing function has just allocated itself (a composite
// literal or the lines right after `new`): a write some callee may do is a
// write to another, fresh object, never to one that already exists.
func (p *Prog) initOnlyField(f *types.Var) bool {
	if f == nil {
		return false
	}
	if p.initOnly == nil {
		p.initOnly = map[*types.Var]bool{}
	}
	if v, ok := p.initOnly[f]; ok {
		return v
	}
	res := len(p.stores[f]) > 0
	for _, st := range p.stores[f] {
		fa, ok := st.Addr.(*ssa.FieldAddr)
		if !ok {
			res = false
			break
		}
		al, ok := fa.X.(*ssa.Alloc)
		if !ok || al.Parent() != st.Parent() {
			res = false
			break
		}
	}
	p.initOnly[f] = res
	return res
}

// StoresIntoPathObject reports that the store writes a field of a struct that
// was allocated on this very path (a parameter object built by the function
// under analysis): the engine keeps the value as a field cell and a later load
// of that field through the same object resolves to it again.
func (t *Tracer) StoresIntoPathObject(fr *Frame, st *ssa.Store) bool {
	fa, ok := st.Addr.(*ssa.FieldAddr)
	if !ok {
		return false
	}
	base := t.Resolve(fr, fa.X)
	al, ok := base.V.(*ssa.Alloc)
	if !ok {
		return false
	}
	// the object's own type is a struct of the repository
	pt, ok := al.Type().Underlying().(*types.Pointer)
	if !ok {
		return false
	}
	if _, isStruct := pt.Elem().Underlying().(*types.Struct); !isStruct {
		return false
	}
	return true
}

// withRet records the (single) value an inlined call returned on this path.
func (t *Tracer) withRet(st State, fr *Frame, c ssa.CallInstruction, rets []Ref) State {
	v, ok := c.(ssa.Value)
	if !ok || len(rets) == 0 {
		return st
	}
	st.rets = &retList{fr: fr, call: v, vals: rets, next: st.rets}
	return st
}

// interesting reports whether f, its closures or (transitively) the
// unexported helpers of its package it calls contain an instruction the
// rule classifies as an event: only such helpers are worth descending into.
func (t *Tracer) interesting(f *ssa.Function, depth int) (res bool) {
	if t.interest == nil {
		t.interest = map[*ssa.Function]int{}
	}
	switch t.interest[f] {
	case 1:
		return true
	case 2:
		return false
	}
	t.interest[f] = 2 // cycles: assume no until shown otherwise
	defer func() {
		if res {
			t.interest[f] = 1
		}
	}()
	probe := func(g *ssa.Function) (hit bool) {
		defer func() {
			if recover() != nil {
				hit = true // be conservative: descend
			}
		}()
		fr := &Frame{Fn: g, ID: -1}
		for _, b := range g.Blocks {
			for _, in := range b.Instrs {
				if t.Spec.Classify != nil && len(t.Spec.Classify(t, fr, in)) > 0 {
					return true
				}
				if _, ok := in.(*ssa.If); ok && t.Spec.Eval != nil {
					return true // constant propagation may decide branches inside the helper
				}
				// a function value handed to the helper is called here (`done()` for a `done func()` parameter):
				// what that value is — the caller knows — can be an event of the rule
				if cl, ok := in.(ssa.CallInstruction); ok && t.Spec.Classify != nil && !cl.Common().IsInvoke() && cl.Common().StaticCallee() == nil {
					v := cl.Common().Value
					if u, isU := v.(*ssa.UnOp); isU && u.Op == token.MUL {
						v = u.X
					}
					switch y := v.(type) {
					case *ssa.FieldAddr:
						// a function value kept in a field of an object the helper was handed (`hc.cb(…)` with hc a
						// parameter object built by the caller): what it is, the caller's path knows
						switch b := y.X.(type) {
						case *ssa.Parameter:
							return true
						case *ssa.FreeVar:
							return true
						case *ssa.UnOp:
							if _, isFV := b.X.(*ssa.FreeVar); isFV && b.Op == token.MUL {
								return true
							}
						}
					case *ssa.Parameter:
						if y.Parent() == f {
							return true
						}
					case *ssa.FreeVar:
						// captured from f: a parameter of f stored into the closure's cell
						if mc := t.P.parent[g]; mc != nil {
							for bi, fv := range g.FreeVars {
								if fv == y && bi < len(mc.Bindings) {
									switch b := mc.Bindings[bi].(type) {
									case *ssa.Parameter:
										if b.Parent() == f {
											return true
										}
									case *ssa.Alloc:
										for _, r := range *b.Referrers() {
											if st, isS := r.(*ssa.Store); isS && st.Addr == ssa.Value(b) {
												if pp, isP := st.Val.(*ssa.Parameter); isP && pp.Parent() == f {
													return true
												}
											}
										}
									}
								}
							}
						}
					}
				}
				// a predicate helper: its returned expression is a decision of the caller
				if r, ok := in.(*ssa.Return); ok && len(r.Results) == 1 && t.Spec.Branch != nil {
					switch r.Results[0].(type) {
					case *ssa.BinOp, *ssa.UnOp, *ssa.Call, *ssa.Extract:
						fake := &ssa.If{Cond: r.Results[0]}
						if len(t.Spec.Branch(t, fr, fake, true)) > 0 || len(t.Spec.Branch(t, fr, fake, false)) > 0 {
							return true
						}
						// the answer of a further predicate over a value read here (`return s.queueFlag.any()`)
						if view, _ := t.P.predicateView(fake); view != nil {
							if len(t.Spec.Branch(t, fr, view, true)) > 0 || len(t.Spec.Branch(t, fr, view, false)) > 0 {
								return true
							}
						}
						if t.Spec.Eval != nil {
							return true
						}
					}
				}
				if i, ok := in.(*ssa.If); ok && t.Spec.Branch != nil {
					if len(t.Spec.Branch(t, fr, i, true)) > 0 || len(t.Spec.Branch(t, fr, i, false)) > 0 {
						return true
					}
				}
			}
		}
		return false
	}
	for _, g := range WithClosures(f) {
		if probe(g) {
			return true
		}
	}
	if depth > 4 {
		return false
	}
	for _, g := range WithClosures(f) {
		for _, call := range callsIn(g) {
			sf := call.Common().StaticCallee()
			if sf == nil || sf.Pkg != f.Pkg || sf.Object() == nil || sf.Object().Exported() || sf == f {
				continue
			}
			if t.interesting(sf, depth+1) {
				return true
			}
		}
	}
	return false
}

// globalAlwaysSet: every store to the package-level variable g, anywhere in
// the program, stores a freshly allocated value (its initialiser): a load of
// it is never nil.
func (p *Prog) globalAlwaysSet(g *ssa.Global) bool {
	if p.globalSet == nil {
		p.globalSet = map[*ssa.Global]int{}
		for fn := range ssautil.AllFunctions(p.SSA) {
			for _, b := range fn.Blocks {
				for _, in := range b.Instrs {
					st, ok := in.(*ssa.Store)
					if !ok {
						continue
					}
					gg, ok := st.Addr.(*ssa.Global)
					if !ok {
						continue
					}
					good := false
					switch v := st.Val.(type) {
					case *ssa.Alloc, *ssa.MakeInterface, *ssa.MakeMap, *ssa.MakeSlice, *ssa.MakeClosure, *ssa.Function:
						good = true
					case *ssa.Const:
						good = !v.IsNil()
					case *ssa.Call:
						// a constructor all of whose returns are allocations (reserr.InternalError(...))
						if sf := v.Call.StaticCallee(); sf != nil && len(sf.Blocks) > 0 {
							good = true
							for _, b2 := range sf.Blocks {
								if r, isR := b2.Instrs[len(b2.Instrs)-1].(*ssa.Return); isR {
									if len(r.Results) != 1 {
										good = false
									} else if _, isAl := r.Results[0].(*ssa.Alloc); !isAl {
										good = false
									}
								}
							}
						}
					}
					if good && p.globalSet[gg] != 2 {
						p.globalSet[gg] = 1
					} else {
						p.globalSet[gg] = 2
					}
				}
			}
		}
	}
	return p.globalSet[g] == 1
}
