package main

import (
	"fmt"
	"go/token"
	"go/types"
	"sort"
	"strings"

	"golang.org/x/tools/go/ssa"
)

// ---------------------------------------------------------------------------
// PROV: demand-driven backward provenance of string values over SSA def-use
// chains, interprocedural through the VTA call graph, field-based for the
// heap. Imprecision is one-sided: it can only add sources.
// ---------------------------------------------------------------------------

// Leaf is one origin of a traced value.
type Leaf struct {
	Kind string // const | validated | trusted | config | client | service | external | unknown | query
	Desc string
	Pos  string
	Via  string // hop chain from the sink (for diagnosis)
}

type provCtx struct {
	p        *Prog
	seen     map[provKey]bool
	leaves   map[string]Leaf
	valid    []*types.Func // validators
	maxNodes int
	nodes    int
	chain    []string
	sliced   int // > 0 while walking the operand of a slice expression
	// sanitize says whether a (value, use) hop is validated; nil = default validators
	trustField func(f *types.Var) (Leaf, bool)
}

type provKey struct {
	v    ssa.Value
	part string
}

// Trace returns the leaves of v as used by instruction use. part is ""
// (whole value), "name" or "query" (halves of parseRID).
func (p *Prog) Trace(v ssa.Value, use ssa.Instruction, trustField func(f *types.Var) (Leaf, bool)) []Leaf {
	pc := &provCtx{p: p, seen: map[provKey]bool{}, leaves: map[string]Leaf{}, maxNodes: 20000, trustField: trustField}
	pc.valid = []*types.Func{p.PkgFunc("codec.IsValidRID"), p.PkgFunc("codec.IsValidRIDPart")}
	pc.walk(v, use, "", 0)
	var out []Leaf
	for _, l := range pc.leaves {
		out = append(out, l)
	}
	sort.Slice(out, func(i, j int) bool { return out[i].Kind+out[i].Desc < out[j].Kind+out[j].Desc })
	return out
}

func (pc *provCtx) leaf(kind, desc string, pos token.Pos) {
	k := kind + "|" + desc
	if _, ok := pc.leaves[k]; !ok {
		l := Leaf{Kind: kind, Desc: desc, Pos: pc.p.Pos(pos)}
		switch kind {
		case "const", "validated", "trusted":
		default:
			ch := pc.chain
			if len(ch) > 14 {
				ch = ch[len(ch)-14:]
			}
			l.Via = strings.Join(ch, " <- ")
		}
		pc.leaves[k] = l
	}
}

func (pc *provCtx) walk(v ssa.Value, use ssa.Instruction, part string, depth int) {
	if v == nil {
		return
	}
	pc.nodes++
	if pc.nodes > pc.maxNodes || depth > 60 {
		pc.leaf("unknown", "search budget exhausted", token.NoPos)
		return
	}
	// is this value validated where it is used? (depends on the use: not memoised)
	if use != nil && pc.validatedAt(v, use) {
		pc.leaf("validated", "checked by IsValidRID/IsValidRIDPart in "+fnName(use.Parent()), use.Pos())
		return
	}
	key := provKey{v, part}
	if pc.seen[key] {
		return
	}
	pc.seen[key] = true
	hop := v.Name()
	if v.Parent() != nil {
		hop = fnName(v.Parent()) + ":" + v.Name()
	}
	pc.chain = append(pc.chain, hop)
	defer func() { pc.chain = pc.chain[:len(pc.chain)-1] }()

	switch x := v.(type) {
	case *ssa.Const:
		pc.leaf("const", x.String(), token.NoPos)
	case *ssa.Global:
		pc.leaf("const", "global "+x.Name(), x.Pos())
	case *ssa.Phi:
		for i, e := range x.Edges {
			// the value flows in over predecessor i: validation must dominate that edge
			var u ssa.Instruction = x
			if i < len(x.Block().Preds) {
				pb := x.Block().Preds[i]
				if len(pb.Instrs) > 0 {
					u = pb.Instrs[len(pb.Instrs)-1]
				}
			}
			pc.walk(e, u, part, depth+1)
		}
	case *ssa.BinOp:
		if x.Op == token.ADD {
			pc.walk(x.X, x, part, depth+1)
			pc.walk(x.Y, x, part, depth+1)
		} else {
			pc.leaf("unknown", "binop "+x.Op.String(), x.Pos())
		}
	case *ssa.Slice:
		// a piece of a string: only a validator that checks every character (no query part) covers it
		pc.sliced++
		pc.walk(x.X, x, part, depth+1)
		pc.sliced--
	case *ssa.ChangeType:
		pc.walk(x.X, x, part, depth+1)
	case *ssa.Convert:
		pc.walk(x.X, x, part, depth+1)
	case *ssa.MakeInterface:
		pc.walk(x.X, x, part, depth+1)
	case *ssa.ChangeInterface:
		pc.walk(x.X, x, part, depth+1)
	case *ssa.TypeAssert:
		pc.walk(x.X, x, part, depth+1)
	case *ssa.Extract:
		pc.walkTuple(x.Tuple, x.Index, x, part, depth+1)
	case *ssa.Parameter:
		pc.walkParam(x, part, depth+1)
	case *ssa.FreeVar:
		fn := x.Parent()
		mc := pc.p.parent[fn]
		if mc == nil {
			pc.leaf("unknown", "free variable of "+fnName(fn), x.Pos())
			return
		}
		for i, fv := range fn.FreeVars {
			if fv == x {
				pc.walk(mc.Bindings[i], mc, part, depth+1)
			}
		}
	case *ssa.Alloc:
		// a cell: every store to it (in its function and capturing closures)
		pc.walkCellStores(x, part, depth+1)
	case *ssa.UnOp:
		if x.Op == token.MUL {
			pc.walkLoad(x, part, depth+1)
		} else {
			pc.leaf("unknown", "unop", x.Pos())
		}
	case *ssa.Field:
		if st, ok := x.X.Type().Underlying().(*types.Struct); ok {
			pc.walkField(st.Field(x.Field), x, part, depth+1)
		}
	case *ssa.Lookup:
		// element of a map / byte of a string: provenance of the container
		pc.walk(x.X, x, part, depth+1)
	case *ssa.Index:
		pc.walk(x.X, x, part, depth+1)
	case *ssa.Call:
		pc.walkCall(x, 0, part, depth+1)
	case *ssa.Next:
		pc.walk(x.Iter, x, part, depth+1)
	case *ssa.Range:
		pc.walk(x.X, x, part, depth+1)
	case *ssa.MakeSlice, *ssa.MakeMap:
		// container created here: its elements are stored through IndexAddr/MapUpdate
		pc.walkContainerStores(v, part, depth+1)
	case *ssa.MakeClosure, *ssa.Function:
		pc.leaf("const", "function value", token.NoPos)
	default:
		pc.leaf("unknown", fmt.Sprintf("%T", v), v.Pos())
	}
}

func (pc *provCtx) walkTuple(t ssa.Value, idx int, use ssa.Instruction, part string, depth int) {
	switch x := t.(type) {
	case *ssa.Call:
		pc.walkCall(x, idx, part, depth)
	case *ssa.Lookup: // v, ok := m[k]
		if idx == 0 {
			pc.walk(x.X, x, part, depth)
		}
	case *ssa.TypeAssert:
		if idx == 0 {
			pc.walk(x.X, x, part, depth)
		}
	case *ssa.Next:
		pc.walk(x.Iter, x, part, depth)
	case *ssa.UnOp: // <-ch
		pc.leaf("unknown", "channel receive", x.Pos())
	default:
		pc.leaf("unknown", fmt.Sprintf("tuple %T", t), t.Pos())
	}
}

func (pc *provCtx) walkParam(prm *ssa.Parameter, part string, depth int) {
	fn := prm.Parent()
	idx := -1
	for i, q := range fn.Params {
		if q == prm {
			idx = i
		}
	}
	n := pc.p.CG.Nodes[fn]
	if n == nil || len(n.In) == 0 {
		pc.leaf("unknown", "parameter "+prm.Name()+" of uncalled "+fnName(fn), prm.Pos())
		return
	}
	for _, e := range n.In {
		if e.Site == nil {
			continue
		}
		args := e.Site.Common().Args
		if e.Site.Common().IsInvoke() {
			args = append([]ssa.Value{e.Site.Common().Value}, args...)
		}
		caller := e.Caller.Func
		// bound-method / thunk wrappers: shift handled by their own params
		if idx < len(args) && len(args) == len(fn.Params) {
			pc.walk(args[idx], e.Site, part, depth)
		} else if caller != nil && !strings.HasPrefix(fnName(caller), "(") && !pc.p.isRepoFn(caller) {
			pc.leaf("external", "argument from library caller "+caller.String()+" to "+fnName(fn)+"."+prm.Name(), prm.Pos())
		} else if idx < len(args) {
			pc.walk(args[idx], e.Site, part, depth)
		} else {
			pc.leaf("unknown", "arity mismatch at call of "+fnName(fn), e.Site.Pos())
		}
	}
}

func (p *Prog) isRepoFn(f *ssa.Function) bool {
	_, ok := p.ByNm[fnName(f)]
	return ok
}

func (pc *provCtx) walkCellStores(a *ssa.Alloc, part string, depth int) {
	seen := map[ssa.Value]bool{}
	var visit func(v ssa.Value)
	found := false
	visit = func(v ssa.Value) {
		if seen[v] || v.Referrers() == nil {
			return
		}
		seen[v] = true
		for _, r := range *v.Referrers() {
			switch y := r.(type) {
			case *ssa.Store:
				if y.Addr == v {
					found = true
					pc.walk(y.Val, y, part, depth)
				}
			case *ssa.MakeClosure:
				fn := y.Fn.(*ssa.Function)
				for i, b := range y.Bindings {
					if b == v && i < len(fn.FreeVars) {
						visit(fn.FreeVars[i])
					}
				}
			case *ssa.Call:
				// address passed to a callee (json.Unmarshal(data, &x)): external data
				for _, arg := range y.Call.Args {
					if arg == v {
						found = true
						pc.leafForDecoded(a.Type(), y, part)
					}
				}
			case *ssa.MakeInterface:
				// &x boxed into interface{} and handed to a decoder
				if y.Referrers() != nil {
					for _, r2 := range *y.Referrers() {
						if c2, ok := r2.(*ssa.Call); ok {
							found = true
							pc.leafForDecoded(a.Type(), c2, part)
						}
					}
				}
			case *ssa.FieldAddr, *ssa.IndexAddr:
				// composite: stores through field addresses are handled by field loads
			}
		}
	}
	visit(a)
	if !found {
		pc.leaf("const", "zero value of "+a.Comment, a.Pos())
	}
}

func (pc *provCtx) leafForDecoded(t types.Type, call *ssa.Call, part string) {
	name := calleeName(&call.Call)
	pc.leaf("external", "decoded by "+name+" into "+shortName(t.String()), call.Pos())
}

func (pc *provCtx) walkLoad(u *ssa.UnOp, part string, depth int) {
	switch a := u.X.(type) {
	case *ssa.FieldAddr:
		if f := fieldOfAddr(a); f != nil {
			pc.walkField(f, u, part, depth)
		}
	case *ssa.Alloc:
		pc.walkCellStores(a, part, depth)
	case *ssa.FreeVar:
		// cell captured by reference
		fn := a.Parent()
		mc := pc.p.parent[fn]
		if mc == nil {
			pc.leaf("unknown", "captured cell of "+fnName(fn), a.Pos())
			return
		}
		for i, fv := range fn.FreeVars {
			if fv == a {
				// validated at the closure creation point?
				if al, ok := mc.Bindings[i].(*ssa.Alloc); ok && pc.cellValidatedAt(al, mc) {
					pc.leaf("validated", "captured variable checked before the closure is created in "+fnName(mc.Parent()), mc.Pos())
					return
				}
				pc.walk(mc.Bindings[i], mc, part, depth)
			}
		}
	case *ssa.IndexAddr:
		pc.walk(a.X, u, part, depth)
	case *ssa.Global:
		pc.walkGlobal(a, part, depth)
	case *ssa.Parameter, *ssa.Call, *ssa.Extract, *ssa.Phi, *ssa.UnOp:
		// load through a pointer value (e.g. *mvo.RID, *m): provenance of the pointer's target
		pc.walkPointee(a, u, part, depth)
	default:
		pc.leaf("unknown", fmt.Sprintf("load through %T", u.X), u.Pos())
	}
}

func (pc *provCtx) walkPointee(ptr ssa.Value, use ssa.Instruction, part string, depth int) {
	// pointer obtained from a field load (`*cfg.PUTMethod`, `*mvo.RID`): the field decides
	if f, _ := fieldLoad(ptr); f != nil {
		pc.walkField(f, use, part, depth)
		return
	}
	pc.walk(ptr, use, part, depth)
}

func (pc *provCtx) walkGlobal(g *ssa.Global, part string, depth int) {
	found := false
	for _, fn := range pc.p.Repo {
		allInstrs(fn, func(in ssa.Instruction) {
			if st, ok := in.(*ssa.Store); ok && st.Addr == ssa.Value(g) {
				found = true
				pc.walk(st.Val, st, part, depth)
			}
		})
	}
	if !found {
		pc.leaf("const", "global "+g.Name(), g.Pos())
	}
}

func (pc *provCtx) walkField(f *types.Var, use ssa.Instruction, part string, depth int) {
	if pc.trustField != nil {
		if l, ok := pc.trustField(f); ok {
			pc.leaves[l.Kind+"|"+l.Desc] = l
			return
		}
	}
	// fields of types declared outside the module are external leaves
	if f.Pkg() == nil || !strings.HasPrefix(f.Pkg().Path(), modPath) {
		kind := "external"
		if f.Pkg() != nil && (f.Pkg().Path() == "net/http" || f.Pkg().Path() == "net/url") {
			kind = "client"
		}
		pc.leaf(kind, "field "+f.Pkg().Name()+"."+f.Name(), use.Pos())
		return
	}
	stores := pc.p.stores[f]
	if len(stores) == 0 {
		// never stored by the program: filled by a decoder (reflection) or zero
		pc.leaf(pc.decodedKind(f), "decoded field "+fieldOwner(pc.p, f)+"."+f.Name(), f.Pos())
		return
	}
	for _, st := range stores {
		if pc.storeValidated(st, f) {
			pc.leaf("validated", "field "+f.Name()+" checked after being set in "+fnName(st.Parent()), st.Pos())
			continue
		}
		pc.walk(st.Val, st, part, depth)
	}
	if isDecodedStruct(pc.p, f) {
		pc.leaf(pc.decodedKind(f), "decoded field "+fieldOwner(pc.p, f)+"."+f.Name(), f.Pos())
	}
}

func fieldOwner(p *Prog, f *types.Var) string {
	var pks []*types.Package
	if f.Pkg() != nil {
		pks = append(pks, f.Pkg())
	}
	for _, pk := range p.Typs {
		if pk != f.Pkg() {
			pks = append(pks, pk)
		}
	}
	for _, pk := range pks {
		for _, n := range pk.Scope().Names() {
			if tn, ok := pk.Scope().Lookup(n).(*types.TypeName); ok {
				if st, ok := tn.Type().Underlying().(*types.Struct); ok {
					for i := 0; i < st.NumFields(); i++ {
						if st.Field(i) == f {
							return pk.Name() + "." + n
						}
					}
				}
			}
		}
	}
	return "?"
}

// isDecodedStruct: exported field with a json tag in rpc/codec: may also be
// filled by json.Unmarshal in addition to explicit stores.
func isDecodedStruct(p *Prog, f *types.Var) bool {
	if !f.Exported() || f.Pkg() == nil {
		return false
	}
	n := f.Pkg().Name()
	if n != "codec" && n != "rpc" {
		return false
	}
	own := fieldOwner(p, f)
	if own == "?" {
		return false
	}
	// a type with its own UnmarshalJSON is never filled by reflection
	if n := p.Named(own); n != nil {
		if o, _, _ := types.LookupFieldOrMethod(types.NewPointer(n), true, n.Obj().Pkg(), "UnmarshalJSON"); o != nil {
			return false
		}
	}
	return true
}

func (pc *provCtx) decodedKind(f *types.Var) string {
	if f.Pkg() != nil {
		switch f.Pkg().Name() {
		case "rpc":
			return "client"
		case "codec":
			return "service"
		case "server":
			if fieldOwner(pc.p, f) == "server.Config" {
				return "config"
			}
		}
	}
	return "external"
}

func (pc *provCtx) walkContainerStores(c ssa.Value, part string, depth int) {
	if c.Referrers() == nil {
		return
	}
	for _, r := range *c.Referrers() {
		switch y := r.(type) {
		case *ssa.IndexAddr:
			for _, r2 := range *y.Referrers() {
				if st, ok := r2.(*ssa.Store); ok && st.Addr == ssa.Value(y) {
					pc.walk(st.Val, st, part, depth)
				}
			}
		case *ssa.MapUpdate:
			pc.walk(y.Value, y, part, depth)
		}
	}
}

func (pc *provCtx) walkCall(call *ssa.Call, idx int, part string, depth int) {
	com := &call.Call
	name := calleeName(com)
	args := callArgs(com)
	// transparent library helpers
	switch {
	case name == "strings.Replace", name == "strings.ReplaceAll":
		pc.walk(args[0], call, part, depth)
		pc.walk(args[2], call, part, depth)
		return
	case name == "strings.Join":
		pc.walk(args[0], call, part, depth)
		pc.walk(args[1], call, part, depth)
		return
	case name == "strings.Split", name == "strings.TrimSpace", name == "strings.ToLower", name == "net/url.PathUnescape", name == "net/url.PathEscape", name == "builtin.append":
		for _, a := range args {
			pc.walk(a, call, part, depth)
		}
		return
	case strings.HasSuffix(name, "xid.New"), strings.HasSuffix(name, ".ID).String"), strings.Contains(name, "rs/xid"):
		pc.leaf("trusted", "xid", call.Pos())
		return
	case strings.HasSuffix(name, ".parseRID"):
		if idx == 0 {
			pc.walk(args[0], call, "name", depth)
		} else {
			pc.leaf("query", "query part of a resource id (parseRID #1)", call.Pos())
		}
		return
	case name == "fmt.Sprintf":
		for _, a := range args {
			pc.walk(a, call, part, depth)
		}
		return
	}
	// repository callee(s): their return operands
	var callees []*ssa.Function
	if f := com.StaticCallee(); f != nil {
		callees = append(callees, f)
	} else if n := pc.p.CG.Nodes[call.Parent()]; n != nil {
		for _, e := range n.Out {
			if e.Site == ssa.CallInstruction(call) && e.Callee.Func != nil {
				callees = append(callees, e.Callee.Func)
			}
		}
	}
	if len(callees) == 0 {
		pc.leaf("unknown", "result of unresolved call "+name, call.Pos())
		return
	}
	for _, f := range callees {
		if !pc.p.isRepoFn(f) || len(f.Blocks) == 0 {
			// library function: derived from its arguments
			pc.leaf("external", "result of "+shortName(f.String()), call.Pos())
			continue
		}
		allInstrs(f, func(in ssa.Instruction) {
			if r, ok := in.(*ssa.Return); ok && idx < len(r.Results) {
				pc.walk(r.Results[idx], r, part, depth)
			}
		})
	}
}

// ---------------------------------------------------------------------------
// validation facts

// validatorCallOn returns validator calls in fn whose argument is v (same
// SSA value) or, when v is a load of a cell, a load of the same cell.
func (pc *provCtx) validatorCalls(fn *ssa.Function) []*ssa.Call {
	var out []*ssa.Call
	for _, c := range callsIn(fn) {
		if cc, ok := c.(*ssa.Call); ok {
			if f := calleeFunc(&cc.Call); f != nil {
				for _, v := range pc.valid {
					if v != nil && f == v {
						out = append(out, cc)
					}
				}
			}
		}
	}
	return out
}

// passEdgeDominates: the validator call's result is tested and the edge on
// which it is true dominates target.
func passEdgeDominates(vc *ssa.Call, target *ssa.BasicBlock) bool {
	fn := vc.Parent()
	for _, b := range fn.Blocks {
		i := blockIf(b)
		if i == nil {
			continue
		}
		dirs := condTruthOf(i.Cond, vc)
		for _, d := range dirs {
			succ := b.Succs[0]
			if !d {
				succ = b.Succs[1]
			}
			if edgeDominates(b, succ, target) {
				return true
			}
		}
	}
	return false
}

// condTruthOf: directions of `cond` on which validator call vc is known true.
// Handles `vc`, `!vc`, and short-circuit chains lowered to phis of constants.
func condTruthOf(cond ssa.Value, vc *ssa.Call) []bool {
	switch x := cond.(type) {
	case *ssa.Call:
		if x == vc {
			return []bool{true}
		}
	case *ssa.UnOp:
		if x.Op == token.NOT {
			var out []bool
			for _, d := range condTruthOf(x.X, vc) {
				out = append(out, !d)
			}
			return out
		}
	case *ssa.Phi:
		// `a && b` / `!a || !b` lower to phi [const, other]; vc true is known on the
		// direction that can only be reached with every validator having passed.
		// Recognise `!v1 || !v2` (true: some failed; false: all passed) and `v1 && v2`.
		allNeg, allPos := true, true
		has := false
		for _, e := range x.Edges {
			if c, ok := constBool(e); ok {
				if c {
					allPos = false
				} else {
					allNeg = false
				}
				continue
			}
			ds := condTruthOf(e, vc)
			if len(ds) == 1 {
				has = true
				if ds[0] {
					allNeg = false
				} else {
					allPos = false
				}
			}
		}
		_ = has
		// phi is true-const on short-circuit and otherwise = last operand
		if !allPos && allNeg {
			return []bool{false} // `!a || !b`: false means all passed
		}
		if allPos && !allNeg {
			return []bool{true} // `a && b`
		}
	}
	return nil
}

// validatedAt: value v, consumed by instruction use, has passed a validator
// on every path to use.
func (pc *provCtx) validatedAt(v ssa.Value, use ssa.Instruction) bool {
	if _, ok := v.Type().Underlying().(*types.Basic); !ok {
		return false
	}
	fn := use.Parent()
	if fn == nil {
		return false
	}
	for _, vc := range pc.validatorCalls(fn) {
		arg := vc.Call.Args[0]
		if pc.sliced > 0 && len(vc.Call.Args) == 2 {
			if b, isC := constBool(vc.Call.Args[1]); !isC || b {
				continue // IsValidRID(x, true) stops at '?': says nothing about a slice of x
			}
		}
		same := arg == v
		if !same {
			// both loads of the same cell with no store in between (cells assigned before the check)
			if la, ok := arg.(*ssa.UnOp); ok && la.Op == token.MUL {
				if lv, ok := v.(*ssa.UnOp); ok && lv.Op == token.MUL && la.X == lv.X {
					if al, ok := la.X.(*ssa.Alloc); ok {
						same = !storeBetween(al, vc, use)
					}
				}
			}
		}
		if !same {
			// two loads of the same field of the same object with no store to that field in the function
			f1, b1 := fieldLoad(arg)
			f2, b2 := fieldLoad(v)
			if f1 != nil && f1 == f2 && b1 == b2 {
				stored := false
				for _, st := range pc.p.stores[f1] {
					if st.Parent() == fn {
						stored = true
					}
				}
				same = !stored
			}
		}
		if !same {
			continue
		}
		if passEdgeDominates(vc, use.Block()) {
			return true
		}
	}
	return false
}

// cellValidatedAt: a validator was applied to a load of cell al and its pass
// edge dominates at, with no store to the cell in between.
func (pc *provCtx) cellValidatedAt(al *ssa.Alloc, at ssa.Instruction) bool {
	for _, vc := range pc.validatorCalls(at.Parent()) {
		la, ok := vc.Call.Args[0].(*ssa.UnOp)
		if !ok || la.Op != token.MUL || la.X != ssa.Value(al) {
			continue
		}
		if passEdgeDominates(vc, at.Block()) && !storeBetween(al, vc, at) {
			return true
		}
	}
	return false
}

func storeBetween(al *ssa.Alloc, from, to ssa.Instruction) bool {
	found := false
	reachesWithout(from, to, func(in ssa.Instruction) bool {
		if st, ok := in.(*ssa.Store); ok && st.Addr == ssa.Value(al) {
			found = true
		}
		return false
	})
	if found {
		// a store is reachable after the check; is it before `to` on some path?
		return reachesWithoutStoreCheck(al, from, to)
	}
	return false
}

// reachesWithoutStoreCheck: is there a path from->to that passes a store to al?
func reachesWithoutStoreCheck(al *ssa.Alloc, from, to ssa.Instruction) bool {
	for _, r := range *al.Referrers() {
		st, ok := r.(*ssa.Store)
		if !ok || st.Addr != ssa.Value(al) {
			continue
		}
		if reachesWithout(from, st, func(ssa.Instruction) bool { return false }) &&
			reachesWithout(st, to, func(ssa.Instruction) bool { return false }) {
			return true
		}
	}
	return false
}

// storeValidated: after `base.f = x` a validator is applied to base.f and
// every successful return of the function lies behind its pass edge.
func (pc *provCtx) storeValidated(st *ssa.Store, f *types.Var) bool {
	fn := st.Parent()
	for _, vc := range pc.validatorCalls(fn) {
		lf, _ := fieldLoad(vc.Call.Args[0])
		// the validator looks at the field just stored, or at the very value that was stored into it
		if (lf != f && vc.Call.Args[0] != st.Val) || !dominates(st, vc) {
			continue
		}
		if !reachesSuccessWithoutPass(st, vc) {
			return true
		}
	}
	return false
}

// reachesSuccessWithoutPass: is there a path from the store to a successful
// return (last result a nil error, or no error result) that does not take
// the pass edge of validator call vc?
func reachesSuccessWithoutPass(st *ssa.Store, vc *ssa.Call) bool {
	type key struct {
		b *ssa.BasicBlock
	}
	seen := map[*ssa.BasicBlock]bool{}
	var walk func(b *ssa.BasicBlock, from int) bool
	walk = func(b *ssa.BasicBlock, from int) bool {
		for i := from; i < len(b.Instrs); i++ {
			switch x := b.Instrs[i].(type) {
			case *ssa.Return:
				if len(x.Results) == 0 {
					return true
				}
				last := x.Results[len(x.Results)-1]
				if isErrorType(last.Type()) && !isNilConst(last) {
					return false
				}
				// `(value, ok bool)`: a false ok is the failure return
				if b, isC := constBool(last); isC && !b && len(x.Results) > 1 {
					return false
				}
				return true
			case *ssa.If:
				dirs := condTruthOf(x.Cond, vc)
				for si, s := range b.Succs {
					isPass := false
					for _, d := range dirs {
						if (si == 0) == d {
							isPass = true
						}
					}
					if isPass {
						continue // behind the pass edge everything is validated
					}
					if !seen[s] {
						seen[s] = true
						if walk(s, 0) {
							return true
						}
					}
				}
				return false
			case *ssa.Jump:
				s := b.Succs[0]
				if !seen[s] {
					seen[s] = true
					return walk(s, 0)
				}
				return false
			case *ssa.Panic:
				return false
			}
		}
		return false
	}
	return walk(st.Block(), instrIndex(st)+1)
}
