package main

// Property definitions: which rules decide (clauses of) which property.
// Explanations name the decided and the undecided clauses; they are copied
// into every evidence file.

var subStateNames = map[int64]string{0: "stateDisposed", 1: "stateLoading", 2: "stateLoaded", 3: "stateReady", 4: "stateToSend", 5: "stateSent", 6: "stateDeleted"}

var baseAssumptions = []string{
	"go/types and go/ssa (golang.org/x/tools v0.29.0) represent the program faithfully; the VTA call graph resolves the interface calls rpc.Requester, rescache.Subscriber, rescache.Conn, mq.Client and ConnSubscriber",
	"the frozen combinator table (combs.go) states where and how often a function argument runs; every repository entry is proved by LIN/continuations, the others (mq.Client.SendRequest, library callbacks) are assumptions",
	"library semantics: encoding/json, nats.go, timerqueue, gorilla/websocket, net/http, sync",
}

func w(pairs ...string) map[string]string {
	m := map[string]string{}
	for i := 0; i+1 < len(pairs); i += 2 {
		m[pairs[i]] = pairs[i+1]
	}
	return m
}

var allQueues = []string{"server.Subscription.eventQueue", "server.wsConn.queue", "rescache.EventSubscription.queue", "rescache.EventSubscription.locks", "rescache.Throttle.queue"}

func init() {
	linAll := ruleLIN(nil)

	register(&Property{
		ID: "C01", Title: "Subscribed resources converge to the state announced by the service",
		Explanation: "Decides structural necessary conditions of convergence, on every path and for every schedule: (1) in the cache, content, version and the event's update flag change together, and an initial load stores content, version 0 and the loaded state only under the not-loaded test of that same entry (PAIR/version-bump); every event is stamped with the pre-update version, applied by its handler, fanned out inside the unlock window and dropped only by the listed discards (CONF/handle-event); (2) cache content and version are written only by cache tasks under the entry's mutex and read under it (CTX/guarded-by); (3) the subscriber applies an event only when it targets its version and advances by one per update (DOM/version-filter); (4) events are processed only with the event gate known open, discarded before load, and reaccess dispatched first (DOM/event-gate); (5) queues are updated in order-preserving forms (FIFO); (6) all mutable subscription state is touched on the connection worker only (CTX/conn); (7) a resource made sendable again must carry a current snapshot (PAIR/snapshot-current: known finding F13); cached model and collection values are never written in place: every container write in the repository is traced to its origin and none originates from Collection.Values / Model.Values (DOM/copy-on-write); a fanned-out ResourceEvent is read-only, no field of it — also one added later — is stored by subscriber-side code (WHO/event-immutable). Not decided: end-to-end equality of the client copy with the service state, Value.Equal, the reset diff (C12), the collector (C02), JSON encodings, legacy-encoding selection. Added after seeding round 7: an entry handed out for subscribing has its messaging-system event subscription on every path (PAIR/cache-count) — without it no event arrives and nothing converges; the cached encodings Model.data/Collection.data are read only by MarshalJSON (WHO/state readers). Added after seeding round 8: a removed cache entry is cleared from every index, the base pointer included (DOM/unregister). Added after seeding round 9: events held back for a resource are let through only after the frame that delivers it (PAIR/rpc-resources). Added after seeding round 10: no test of a field contradicts a store of the same object that dominates it (CONTRA/stale-test). Added after seeding round 11: a run of adds derived from a re-fetch or query answer by one ascending loop moves its index along, so the run does not arrive reversed (TABLE/add-run). Added after seeding round 12: a release with the collect flag set reaches the collector on every path (DOM/gc-after-release); the pass of the reset model diff that marks missing keys deleted runs for every re-fetched model (DOM/diff-unconditional); a resource event is applied to the resource it names (DOM/event-target). Added after the mutation sweep: the encoding a client gets follows its negotiated protocol version in one way at every site — `version < 1.2.1` selects the legacy encoders, which are used nowhere else; the 1.2.0 marshalers convert exactly when a value is a soft reference or a data value (TABLE/legacy-select). This was the clause 'legacy-encoding selection' listed as not decided until round 12. Added after the mutation sweep: DOM/gc-unsend (see C02). DOM/proper-values: see C15.",
		Assumptions: append([]string{"at most one cache worker runs a resource queue at a time (FIFO/CHAN rules) and one output worker per connection (CTX/conn)"}, baseAssumptions...),
		Rules: []Rule{
			{Name: "DOM/proper-values", Min: 5, Run: ruleProperValues, Doc: "improper values never enter the cached state"},
			{Name: "DOM/gc-unsend", Min: 1, Run: ruleGCUnsend, Doc: "the collector un-sends a kept node exactly when the root was sent and no sent reference to the node remains"},
			{Name: "TABLE/legacy-select", Min: 8, Run: ruleLegacySelect, Doc: "clients below protocol 1.2.1 get the legacy encoding, 1.2.1 and later the current one — everywhere the version is consulted; 1.2.0 marshalers convert exactly for soft references and data values"},
			{Name: "DOM/event-target", Min: 1, Run: ruleEventTarget, Doc: "a resource event is applied to the resource it names"},
			{Name: "DOM/diff-unconditional", Min: 1, Run: ruleDiffUnconditional, Doc: "every cached key missing from a re-fetched model is marked deleted"},
			{Name: "DOM/gc-after-release", Min: 1, Run: ruleGCAfterRelease, Doc: "a released reference reaches the collector on every path: a reference cycle the client dropped is not left marked sent (and then left out of the next resource set that references it)"},
			{Name: "TABLE/add-run", Min: 0, Run: ruleAddRun, Doc: "derived adds of one ascending loop move their index along: a re-fetch or query answer that inserts a run of values yields them in the announced order"},
			{Name: "CONTRA/stale-test", Min: 1, Run: ruleStaleTest, Doc: "no test of a state field contradicts a store of the same object that dominates it (the collector looks at the child it means, not at the receiver it has just reset)"},
			{Name: "PAIR/rpc-resources", Min: 2, Run: ruleRPCResources, Doc: "events held back for a resource are let through only after the frame that delivers the resource: the client's copy starts from the delivered state"},
			{Name: "DOM/unregister", Min: 1, Run: ruleUnregister, Doc: "a removed cache entry is cleared from every index: no later subscriber is attached to an orphaned entry that no event or reset refreshes"},
			{Name: "PAIR/cache-count", Min: 1, Run: rulePairCacheCount, Doc: "an entry handed out for subscribing has its event subscription (no events, no convergence)"},
			{Name: "LIN/queue-detach", Min: 1, Run: ruleQueueDetach, Doc: "queued events taken off the subscription are processed or re-queued on every path"},
			{Name: "WHO/event-immutable", Min: 5, Run: ruleEventImmutable, Doc: "a fanned-out event is read-only: no subscriber-side store into the shared ResourceEvent"},
			{Name: "PAIR/version-bump", Min: 2, Run: ruleVersionBump, Doc: "content, version and update flag change together; initial load guarded"},
			{Name: "CONF/handle-event", Min: 1, Run: ruleHandleEvent, Doc: "handleEvent conformance: stamp, apply, fan out; listed discards only"},
			{Name: "WHO/handler-callers", Min: 3, Run: ruleHandlerCallers, Doc: "state-changing handlers reached only through handleEvent; full answers only for the matching kind"},
			{Name: "CTX/guarded-by", Min: 30, Run: ruleGuardedBy, Doc: "cache state written by cache tasks under e.mu, read under it"},
			{Name: "DOM/version-filter", Min: 1, Run: ruleVersionFilter, Doc: "version filter on delivery"},
			{Name: "DOM/event-gate", Min: 1, Run: ruleEventGate, Doc: "processEvent only with the gate open; not-loaded discard; reaccess first"},
			{Name: "FIFO/queues", Min: 7, Run: ruleFIFO(allQueues...), Doc: "queue update forms"},
			{Name: "CTX/conn", Min: 25, Run: ruleConfinement, Doc: "subscription state confined to the connection worker"},
			{Name: "PAIR/snapshot-current", Min: 1, Run: ruleSnapshotCurrent, Doc: "re-sendable resource has a current snapshot"},
			{Name: "DOM/reset-protocol", Min: 1, Run: ruleResetProtocol, Doc: "the reset window closes on every outcome of the re-fetch (state events are dropped while it is open)"},
			{Name: "DOM/copy-on-write", Min: 1, Run: ruleCopyOnWrite, Doc: "cached model/collection values are never written in place"},
			{Name: "WHO/state", Min: 5, Run: ruleWho([]whoEntry{
				{Field: "server.Subscription.version", Writers: w("(*server.Subscription).processEvent", "version+1 per update", "(*server.Subscription).setModel", "snapshot", "(*server.Subscription).setCollection", "snapshot")},
				{Field: "server.Subscription.queueFlag", Writers: w("server.NewSubscription", "initial loading gate", "(*server.Subscription).queueEvents", "close", "(*server.Subscription).unqueueEvents", "open")},
				{Field: "rescache.ResourceSubscription.model", Writers: w("(*rescache.ResourceSubscription).handleEventChange", "copy-on-write update", "(*rescache.ResourceSubscription).processGetResponse", "initial load")},
				{Field: "rescache.ResourceSubscription.collection", Writers: w("(*rescache.ResourceSubscription).handleEventAdd", "copy-on-write", "(*rescache.ResourceSubscription).handleEventRemove", "copy-on-write", "(*rescache.ResourceSubscription).processGetResponse", "initial load")},
				{Field: "rescache.Model.data", Writers: w("(*rescache.Model).MarshalJSON", "encoding of the latest protocol, cached once"), Readers: w("(*rescache.Model).MarshalJSON", "the cached bytes are the latest protocol's encoding: legacy encoders must not hand them out")},
				{Field: "rescache.Collection.data", Writers: w("(*rescache.Collection).MarshalJSON", "encoding of the latest protocol, cached once"), Readers: w("(*rescache.Collection).MarshalJSON", "the cached bytes are the latest protocol's encoding: legacy encoders must not hand them out")},
				{Field: "rescache.ResourceSubscription.version", Writers: w("(*rescache.ResourceSubscription).handleEventAdd", "bump", "(*rescache.ResourceSubscription).handleEventRemove", "bump", "(*rescache.ResourceSubscription).handleEventChange", "bump", "(*rescache.ResourceSubscription).processGetResponse", "initial 0")},
			}), Doc: "who may write version / gate / cache content"},
		},
	})

	register(&Property{
		ID: "C02", Title: "Every message is applicable: no dangling references or stray events",
		Explanation: "Decides: the typestate table of Subscription.state (who may move a subscription into which state); populate → hand the frame over → release on every path (PAIR/rpc-resources); the shapes the collector relies on: ReleaseRPCResources marks sent, descends into every reference and then opens the loading gate; populateResources* count an edge once, skip sent resources and mark ToSend before descending; removeCount's counter effects follow its direct/sent/tryDelete arguments; every disposed subscription leaves the connection's table (DOM/ref-shapes); references are released with the parent's sent-ness as it was while the edge was counted (PROV/sent-flag: known finding F6); the sent-count is raised once per created edge (PAIR/edge-sent-once: known finding F8); a re-sendable resource has a current snapshot and a closed gate (PAIR/snapshot-current: known finding F13); no change on a collection, no add/remove on a model, decoded indexes inside [0,len] (DOM/index-kind-guard); no event before the hand-over (DOM/event-gate); recursion census. NOT decided — and this is the core of the property: correctness of the two-pass reference-count collector tryDelete/Unsend and of the indirectsent arithmetic on arbitrary reference graphs. Added after seeding round 7: the encoding cached for the latest protocol is read by MarshalJSON only, so a legacy connection is never handed bytes in the wrong dialect (WHO/encoding-cache). Added after seeding round 8: collection snapshots held by still-loading subscriptions are never written in place (DOM/copy-on-write). Added after seeding round 9: marshalers put text into a frame only through json.Marshal, so every frame is well-formed (PROV/json-text). Added after seeding round 10: CONTRA/stale-test (see C01) for the collector's sent-count bookkeeping. Added after seeding round 11: the unsubscribe event releases every direct subscription (DOM/revoke), so no later event targets a resource the client dropped. Added after seeding round 12: the already-handed-over quick exit of populateResources* is taken for exactly the states to-send and sent, by constant propagation over the seven states (TABLE/populate-skip); a release with the collect flag set reaches the collector on every path (DOM/gc-after-release). Added after the mutation sweep: the continuation of an add/change event that waited for referenced resources sends only under state != disposed, tested after the wait (DOM/ready-continuation-live); a map member created on demand is written only where it exists (DOM/map-made). Added after seeding round 13: the count-down in Unsend depends on the child being sent and counted only (DOM/unsend-countdown). DOM/queue-flag-whole: see C06. Added after the mutation sweep: the legacy twin of populateResources agrees with it on every abstract path — decisions and effects — apart from the encoding (TWIN/agree); the suite runs the legacy twin only a few times. Added after the mutation sweep: the sent-ness decisions of the collector (DOM/gc-unsend). PAIR/edge-sent-counted: see C08. Added after the mutation sweep: a container created on first use inside the loop that fills it is created only behind its own == nil test (DOM/lazy-init).",
		Assumptions: baseAssumptions,
		Rules: []Rule{
			{Name: "DOM/lazy-init", Min: 1, Run: ruleLazyInit, Doc: "the list of references a change event introduces is created once and only grows: every new reference is waited for and delivered with the event"},
			{Name: "PAIR/edge-sent-counted", Min: 1, Run: ruleEdgeSentCounted, Doc: "a new reference to an already sent resource is counted as sent before the event goes out"},
			{Name: "DOM/gc-unsend", Min: 1, Run: ruleGCUnsend, Doc: "the collector un-sends a kept node exactly when the root was sent and no sent reference to the node remains; the mark phase starts only for a root that goes or is un-sent"},
			{Name: "TWIN/agree", Min: 0, Run: ruleTwinAgree, Doc: "populateResources and its legacy twin take the same decisions and have the same effects on every path, apart from the encoding they place"},
			{Name: "DOM/queue-flag-whole", Min: 5, Run: ruleQueueFlagWhole, Doc: "every decision on the hold-back reasons of a subscription (queueFlag) compares the whole set with zero"},
			{Name: "DOM/unsend-countdown", Min: 2, Run: ruleUnsendCountdown, Doc: "un-sending counts each child's sent references down whenever the child is sent and counted, whatever else holds it"},
			{Name: "REC/gc-terminates", Min: 3, Run: ruleGCTerminates, Doc: "the collector revisits a node marked for deletion only to upgrade it to kept, and stops at kept nodes"},
			{Name: "DOM/map-made", Min: 4, Run: ruleMapMade, Doc: "the errors / models / collections maps of a resource set are made before they are written: a failed reference is reported as an error entry, not as a crash"},
			{Name: "DOM/ready-continuation-live", Min: 2, Run: ruleReadyContinuationLive, Doc: "an event that waited for its references is sent only if its subscription is still alive: no event for a resource the client dropped"},
			{Name: "TABLE/legacy-select", Min: 8, Run: ruleLegacySelect, Doc: "every message is in the dialect of the protocol version the client negotiated"},
			{Name: "DOM/gc-after-release", Min: 1, Run: ruleGCAfterRelease, Doc: "a released reference reaches the collector on every path: a dropped reference cycle does not stay marked sent"},
			{Name: "TABLE/populate-skip", Min: 2, Run: rulePopulateSkip, Doc: "only resources that are part of a resource set already (to-send, sent) are skipped when a set is built: a deleted resource the client has dropped is delivered again with the set that references it"},
			{Name: "DOM/revoke", Min: 1, Run: ruleRevoke, Doc: "an unsubscribe event tells the client to drop the resource: every direct subscription is released with it, so no event is sent for a resource the client no longer holds"},
			{Name: "CONTRA/stale-test", Min: 1, Run: ruleStaleTest, Doc: "no test of a state field contradicts a store of the same object that dominates it"},
			{Name: "PROV/json-text", Min: 4, Run: ruleJSONText, Doc: "marshalers put text into a frame only through json.Marshal (every frame is well-formed)"},
			{Name: "DOM/copy-on-write", Min: 1, Run: ruleCopyOnWrite, Doc: "snapshots held by still-loading subscriptions are never written in place: no reference appears that is neither subscribed nor sent"},
			{Name: "WHO/encoding-cache", Min: 2, Run: ruleWho([]whoEntry{
				{Field: "rescache.Model.data", Writers: w("(*rescache.Model).MarshalJSON", "encoding of the latest protocol, cached once"), Readers: w("(*rescache.Model).MarshalJSON", "legacy clients get soft references rewritten: the cached latest-protocol bytes are not theirs")},
				{Field: "rescache.Collection.data", Writers: w("(*rescache.Collection).MarshalJSON", "encoding of the latest protocol, cached once"), Readers: w("(*rescache.Collection).MarshalJSON", "legacy clients get soft references rewritten: the cached latest-protocol bytes are not theirs")},
			}), Doc: "the cached encoding of a resource is written and read by the latest-protocol encoder only"},
			{Name: "PAIR/version-bump", Min: 2, Run: ruleVersionBump, Doc: "a shared cache entry is not re-initialised (version reset) by a second query that normalises to it: subscribers would apply later add/remove events to a stale collection"},
			{Name: "PAIR/sent-with-frame", Min: 2, Run: ruleSentWithFrame, Doc: "an edge is counted as sent in the task that writes its frame, not before a wait"},
			{Name: "TYPESTATE/sub-state", Min: 5, Run: ruleStateTable("server.Subscription.state", subStateNames, subStateTable), Doc: "who may move a subscription into which state"},
			{Name: "PAIR/rpc-resources", Min: 2, Run: ruleRPCResources, Doc: "populate, send, release"},
			{Name: "DOM/ref-shapes", Min: 2, Run: ruleRefShapes, Doc: "ReleaseRPCResources / populateResources / removeCount / tryDelete shapes"},
			{Name: "PAIR/gc-countdown", Min: 1, Run: ruleGCCountdown, Doc: "collector count-down discounts indirect and indirectsent together"},
			{Name: "PROV/sent-flag", Min: 1, Run: ruleSentFlag, Doc: "sent-ness read before the state is overwritten"},
			{Name: "PAIR/edge-sent-once", Min: 1, Run: ruleEdgeSentOnce, Doc: "indirectsent raised once per created edge"},
			{Name: "PAIR/snapshot-current", Min: 1, Run: ruleSnapshotCurrent, Doc: "re-sendable resource has a current snapshot and a closed gate"},
			{Name: "DOM/index-kind-guard", Min: 4, Run: ruleIndexKindGuards, Doc: "no stray kind / index"},
			{Name: "DOM/event-gate", Min: 1, Run: ruleEventGate, Doc: "no event before hand-over"},
			{Name: "REC/census", Min: 4, Run: ruleRec, Doc: "recursion census with termination guards"},
			{Name: "WHO/counters", Min: 4, Run: ruleWho([]whoEntry{
				{Field: "server.Subscription.indirect", Writers: w("(*server.wsConn).addCount", "edge created", "(*server.wsConn).removeCount", "edge removed")},
				{Field: "server.Subscription.indirectsent", Writers: w("(*server.Subscription).populateResources", "edge handed out", "(*server.Subscription).populateResourcesLegacy", "edge handed out", "(*server.Subscription).processCollectionEvent", "already-sent child", "(*server.Subscription).processModelEvent", "already-sent children", "(*server.wsConn).removeCount", "sent edge removed", "(*server.Subscription).Unsend", "collector")},
				{Field: "server.Subscription.refs", Writers: w("(*server.Subscription).addReference", "first edge", "(*server.Subscription).subscribeRef", "abort", "(*server.Subscription).unsubscribeRefs", "dispose")},
			}), Doc: "who may write the reference counters"},
		},
	})

	register(&Property{
		ID: "C03", Title: "Per-resource event delivery is ordered, gap-free and duplicate-free",
		Explanation: "Decides: the five queues are updated only in order-preserving forms, including the re-queue of not-yet-processed events before newer ones (FIFO/queues); a worker is woken only on the empty→non-empty transition of a resource queue and never while locks are set (DOM/inch-send), so one worker at a time runs a queue; handleEvent stamps, applies and fans out inside one unlock window with no go statement (CONF/handle-event); Subscriber.Event only enqueues and the continuation of every handler runs on the connection worker (CTX/conn); an applied update advances cache and subscriber versions by exactly one and a stamped event is applied only at its version, hence at most once (PAIR/version-bump, DOM/version-filter); nothing is processed before the hand-over or while the gate is closed, with the in-loop re-test (DOM/event-gate); the bookkeeping of a callback slot (in-flight flag, cached verdict, the slot itself) is finished before the slot's continuations run, so a re-access started from inside a callback is not lost (DOM/drain-reentrancy). Not decided: the capacity countdown of the lock list, delivery by the socket, the 'equivalent derived sequence' exception (C12). Added after seeding round 7: the held-back events of a frame's resources are let through only after the frame that first hands the resources over (PAIR/rpc-resources). Added after seeding round 8: in the edit-script back-tracking, branches that compare the same two LCS-table cells cover every ordering, so the derived sequence is not cut short on a tie (TABLE/lcs-exhaustive; decides the present formulation of the algorithm only). Added after seeding round 9: a query event takes one event lock per query request and each is released once, so later events do not overtake pending answers (PAIR/query-lock). Added after seeding round 10: message handlers take messages in synchronously, in arrival order (FIFO/handler-sync); the loading gate of an already sent resource is not opened again (DOM/ref-shapes). Added after seeding round 11: TABLE/add-run (see C01). Added after the mutation sweep: every early return of unqueueEvents lies on the true edge of queueFlag != 0 (DOM/queue-flag-whole). DOM/lock-gate: see C13. Added after the mutation sweep: stateRequested is stored before the get request on every path (PAIR/requested-once). DOM/resetting-gate: see C12. Added after the mutation sweep: every unqueueEvents(R) in a continuation is matched by a dominating queueEvents(R) where the continuation is created (PAIR/queue-reason). Added after the mutation sweep: no path of processCollectionEvent / processModelEvent (or of one of their continuations) sends the incoming event twice (PAIR/one-event-out).",
		Assumptions: baseAssumptions,
		Rules: []Rule{
			{Name: "PAIR/one-event-out", Min: 2, Run: ruleOneEventOut, Doc: "a resource event is passed on to the client at most once on every path of the subscription's event handlers"},
			{Name: "PAIR/queue-reason", Min: 1, Run: ruleQueueReason, Doc: "a continuation that lifts a hold-back reason was created behind the queueEvents that set it: later events do not overtake the event being prepared"},
			{Name: "DOM/resetting-gate", Min: 3, Run: ruleResettingGate, Doc: "state events are not applied while a re-fetch is outstanding"},
			{Name: "PAIR/requested-once", Min: 1, Run: ruleRequestedOnce, Doc: "the get request of a cache entry goes out only after the entry is marked requested: one request per load, one initialisation"},
			{Name: "DOM/lock-gate", Min: 1, Run: ruleLockGate, Doc: "tasks queued behind a query event run only after all its answers"},
			{Name: "DOM/queue-flag-whole", Min: 5, Run: ruleQueueFlagWhole, Doc: "the drain of held-back events stops early only while a hold-back reason is set, so queued events are delivered, in order, once the gate opens"},
			{Name: "DOM/event-target", Min: 1, Run: ruleEventTarget, Doc: "a resource event is applied to the resource it names"},
			{Name: "TABLE/add-run", Min: 0, Run: ruleAddRun, Doc: "derived adds of one ascending loop move their index along"},
			{Name: "DOM/ref-shapes", Min: 1, Run: ruleRefShapes, Doc: "the loading gate of a resource is opened by the release that first hands it over, not again for an already sent one (held-back events stay behind the event that delivers what they need)"},
			{Name: "FIFO/handler-sync", Min: 2, Run: ruleHandlerSync, Doc: "message handlers take messages in synchronously (no go statement before the hand-over to a queue): arrival order is kept"},
			{Name: "PAIR/query-lock", Min: 1, Run: ruleQueryLock, Doc: "one event lock per query request of a query event, released once: later events do not overtake the pending answers"},
			{Name: "TABLE/remove-run", Min: 0, Run: ruleRemoveRun, Doc: "derived removes of one loop do not use the loop's ascending counter as index (each remove shifts the rest)"},
			{Name: "TABLE/lcs-exhaustive", Min: 0, Run: ruleLCSExhaustive, Doc: "the edit-script back-tracking leaves no ordering of two table cells to neither branch (derived sequences are not cut short)"},
			{Name: "PAIR/rpc-resources", Min: 2, Run: ruleRPCResources, Doc: "the resources of a frame are released (their held-back events let through) only after the frame that first hands them to the client"},
			{Name: "LIN/queue-detach", Min: 1, Run: ruleQueueDetach, Doc: "queued events taken off the subscription are processed or re-queued on every path"},
			{Name: "WHO/event-immutable", Min: 5, Run: ruleEventImmutable, Doc: "a per-subscriber frame cached in the shared event delivers one subscriber's event to another (duplicate plus gap)"},
			{Name: "DOM/drain-reentrancy", Min: 2, Run: ruleDrainReentrancy, Doc: "slot bookkeeping finished before the slot's continuations run (they may re-enter)"},
			{Name: "FIFO/queues", Min: 7, Run: ruleFIFO(allQueues...), Doc: "queue update forms"},
			{Name: "DOM/inch-send", Min: 1, Run: ruleInChSend, Doc: "worker woken only on the empty→non-empty transition"},
			{Name: "CONF/worker-loop", Min: 2, Run: ruleWorkerLoops, Doc: "worker loops run every accepted task"},
			{Name: "CONF/handle-event", Min: 1, Run: ruleHandleEvent, Doc: "handleEvent conformance"},
			{Name: "CTX/conn", Min: 25, Run: ruleConfinement, Doc: "hand-off chain stays on the connection worker"},
			{Name: "PAIR/version-bump", Min: 2, Run: ruleVersionBump, Doc: "version bump"},
			{Name: "DOM/version-filter", Min: 1, Run: ruleVersionFilter, Doc: "version filter on delivery"},
			{Name: "DOM/event-gate", Min: 1, Run: ruleEventGate, Doc: "event gate"},
			{Name: "DOM/reset-protocol", Min: 1, Run: ruleResetProtocol, Doc: "the reset window, during which state events are dropped, closes on every outcome of the re-fetch"},
		},
	})

	register(&Property{
		ID: "C04", Title: "Read access gating: no resource data without a valid get grant",
		Explanation: "Decides: every data hand-out (GetRPCResources(false), a loaded subscription handed to the HTTP encoder) lies on a continuation path behind a get grant and not behind a direct-response meta status (DOM/gates); Access.CanGet grants only for no error ∧ get == true and tests the error first (TABLE/access); Cache.Access turns request and decode errors into Access.Error (LIN on its body); a denied request releases its direct subscription (PAIR/direct-count); the verdict is cached only for a result or system.accessDenied, by a live subscription (DOM/verdict-store) and cleared on every trigger before it can be reused (DOM/invalidate); the access request carries the token as the connection holds it when the request is sent (PROV/token-cid) and a reaccess event always reaches the subscribers (CONF/handle-event). Not decided: whether an access answer that was in flight when a trigger arrived is still valid (a runtime relation). Added after seeding round 7: a direct subscription that is kept lies behind a get grant on every continuation (PAIR/direct-count). Added after seeding round 10: an access answer carrying an error is an error, whatever else it carries (DOM/error-wins). Added after seeding round 11: the list of requests waiting on one access check is drained to its end — no waiter is skipped because an earlier one disposed the subscription (LIN/drain).",
		Assumptions: baseAssumptions,
		Rules: []Rule{
			{Name: "TABLE/match-literal", Min: 1, Run: ruleMatchLiteral, Doc: "a system reset with a wildcard access pattern invalidates the grant of every matching resource"},
			{Name: "PAIR/access-inflight", Min: 1, Run: ruleAccessInflight, Doc: "every waiter of a shared access request is parked before the request goes out and handed its answer exactly once"},
			{Name: "LIN/drain", Min: 1, Run: ruleDrainOf("server.Subscription.accessCallbacks"), Doc: "every request waiting on a shared access check is handed the answer (the error, when access is denied): the drain of the waiting list runs to its end"},
			{Name: "DOM/error-wins", Min: 3, Run: ruleErrorWins, Doc: "a service answer carrying an error member is decoded as that error, whatever else it carries (an access error never grants)"},
			{Name: "DOM/reset-protocol", Min: 1, Run: ruleResetProtocol, Doc: "a system reset with a matching access pattern reaches every subscriber, whatever the state of the resource"},
			{Name: "PROV/token-cid", Min: 5, Run: ruleTokenCID, Doc: "the access request carries the connection's token as it is when the request is sent"},
			{Name: "CONF/handle-event", Min: 1, Run: ruleHandleEvent, Doc: "a reaccess event always reaches the subscribers (it invalidates the grant)"},
			{Name: "DOM/gates", Min: 2, Run: ruleGates, Doc: "data hand-out only after the get grant on the same path"},
			{Name: "TABLE/access", Min: 1, Run: ruleAccessTables, Doc: "decision lists of CanGet/CanCall"},
			{Name: "DOM/verdict-store", Min: 1, Run: ruleVerdictStore, Doc: "verdict cached only for result or accessDenied"},
			{Name: "DOM/invalidate", Min: 1, Run: ruleInvalidate, Doc: "cached verdict invalidated on every trigger"},
			{Name: "DOM/token-fanout", Min: 1, Run: ruleTokenFanout, Doc: "every token event on a connection that had a token re-checks every subscription"},
			{Name: "PAIR/direct-count", Min: 2, Run: rulePairDirect, Doc: "denied request leaves no direct subscription"},
			{Name: "WHO/access", Min: 1, Run: ruleWho([]whoEntry{
				{Field: "server.Subscription.access", Writers: w("(*server.Subscription).handleReaccess", "clear", "(*server.Subscription).reaccess", "clear", "(*server.Subscription).loadAccess", "answer task")},
			}), Doc: "who may write the cached verdict"},
		},
	})

	register(&Property{
		ID: "C05", Title: "Call gating and token currency",
		Explanation: "Decides: both sites of Cache.Call lie behind a call grant on the same continuation path, for the very action value that was checked, and not behind a direct-response status (DOM/gates); CanCall grants only through call == \"*\" or an exact list entry, error first, never for an empty list (TABLE/access); at all 8 request sites the token argument is the connection's token read in the requesting task and the requester is that same connection; the payload builders use the requester's CID() and the given token (PROV/token-cid); token/tid are written only by setToken and every token change re-checks every subscription of the connection, unconditionally (DOM/token-fanout); the cached verdict is cleared on every trigger and before loadAccess can short-circuit on it (DOM/invalidate); the token is read on the connection worker only (CTX/conn: known finding F11 — the throttled re-access reads it on a fresh goroutine); a reaccess event always reaches the subscribers of the resource, also while it is being reset (CONF/handle-event). Not decided: the CanCall list scanner for all strings; validity of an access answer in flight at trigger time. Added after seeding round 7: a token event stores the new token before the subscriptions are re-accessed (DOM/token-fanout). Added after seeding round 8: an invalid pattern in a reset's list is skipped and does not end the scan (DOM/valid-patterns). Added after seeding round 9: every re-access trigger is carried out or recorded — none is dropped because a re-check is already pending (DOM/invalidate). Added after seeding round 10: an access answer carrying an error is an error, whatever else it carries (DOM/error-wins). Added after seeding round 12: every path of ResourcePattern.Match that returns the comparison of the name with the pattern text has established that the pattern has no wildcard (TABLE/match-literal; one shape condition of the matcher, not its correctness). Added after seeding round 13: the method of a call/auth request reaches the entry points only behind IsValidRIDPart of that very value, on both transports (DOM/method-token).",
		Assumptions: baseAssumptions,
		Rules: []Rule{
			{Name: "DOM/method-token", Min: 1, Run: ruleMethodToken, Doc: "the method name of a call/auth request is validated as one subject token (IsValidRIDPart) on every path to the connection's call/auth entry points"},
			{Name: "TABLE/match-literal", Min: 1, Run: ruleMatchLiteral, Doc: "a system reset with a wildcard access pattern reaches every matching resource: a wildcard pattern is never matched by comparing texts"},
			{Name: "DOM/error-wins", Min: 3, Run: ruleErrorWins, Doc: "a service answer carrying an error member is decoded as that error, whatever else it carries (an access error never grants)"},
			{Name: "DOM/valid-patterns", Min: 1, Run: ruleValidPatterns, Doc: "a system reset re-validates the cached access of every resource matching a valid pattern of its list: an invalid pattern is skipped, it does not end the scan"},
			{Name: "DOM/reset-protocol", Min: 1, Run: ruleResetProtocol, Doc: "a system reset with a matching access pattern reaches every subscriber, whatever the state of the resource"},
			{Name: "CONF/handle-event", Min: 1, Run: ruleHandleEvent, Doc: "a reaccess event always reaches the subscribers (it invalidates the grant)"},
			{Name: "DOM/gates", Min: 2, Run: ruleGates, Doc: "call forwarded only after the matching grant, with the checked action"},
			{Name: "TABLE/access", Min: 1, Run: ruleAccessTables, Doc: "decision list of CanCall"},
			{Name: "DOM/invalidate", Min: 1, Run: ruleInvalidate, Doc: "verdict invalidated on every trigger"},
			{Name: "PROV/token-cid", Min: 5, Run: ruleTokenCID, Doc: "requests carry the connection's own id and current token"},
			{Name: "DOM/token-fanout", Min: 1, Run: ruleTokenFanout, Doc: "a token change invalidates the verdict of every subscription of the connection, also indirectly held ones"},
			{Name: "CTX/conn", Min: 25, Run: ruleConfinement, Doc: "token read on the connection worker only"},
			{Name: "WHO/token", Min: 1, Run: ruleWho([]whoEntry{
				{Field: "server.wsConn.token", Writers: w("(*server.wsConn).setToken", "token event")},
				{Field: "server.wsConn.tid", Writers: w("(*server.wsConn).setToken", "token event")},
			}), Doc: "who may write token / tid"},
		},
	})

	register(&Property{
		ID: "C06", Title: "Access revocation on token change, reaccess event and system reset",
		Explanation: "Decides: every store of a new token on a connection that had one is followed by a reaccess of every subscription, unconditionally per subscription (DOM/token-fanout); reaccess events bypass the not-loaded filters in the cache and in the subscription (CONF/handle-event, DOM/event-gate); the verdict is cleared and the event gate closed before the access request, the continuation validates access and reopens the gate exactly once (DOM/invalidate); denial removes all direct subscriptions and sends the unsubscribe event (DOM/revoke); system reset access patterns reach every subscriber of the base and of every cached query (DOM/reset-protocol); a reset access pattern re-checks every subscriber of a matching resource whatever the resource's state (DOM/reset-protocol, resource level); slot bookkeeping before continuations (DOM/drain-reentrancy). Not decided: timing; pattern matching (C12). Added after seeding round 8: an invalid pattern in a reset's list is skipped and does not end the scan (DOM/valid-patterns). Added after seeding round 10: the system event handler starts no goroutine: a reset and the events behind it keep their order (FIFO/handler-sync). Added after seeding round 11: the access request of a re-check reads the connection's token in the task that sends it, so a check that waited for a throttle slot carries the current token (PROV/token-cid). Added after the mutation sweep of round 11: the in-flight flag of the shared access request is lowered with every answer, in both twins (PAIR/access-inflight). Added after seeding round 13: every decision on queueFlag asks whether any hold-back reason is set, so a re-access triggered while events are queued for another reason waits behind them (DOM/queue-flag-whole).",
		Assumptions: baseAssumptions,
		Rules: []Rule{
			{Name: "DOM/queue-flag-whole", Min: 5, Run: ruleQueueFlagWhole, Doc: "every decision on the hold-back reasons of a subscription (queueFlag) compares the whole set with zero; a masked value is only ever stored back"},
			{Name: "TABLE/match-literal", Min: 1, Run: ruleMatchLiteral, Doc: "a wildcard access pattern of a system reset is never matched by comparing texts"},
			{Name: "PAIR/access-inflight", Min: 1, Run: ruleAccessInflight, Doc: "a re-check after a revocation trigger is not parked behind a request that is no longer outstanding (the in-flight flag is lowered with every answer)"},
			{Name: "PROV/token-cid", Min: 5, Run: ruleTokenCID, Doc: "a re-check carries the token the connection holds when the request is sent, not one captured when the check was queued behind a throttle"},
			{Name: "FIFO/handler-sync", Min: 2, Run: ruleHandlerSync, Doc: "message handlers take messages in synchronously (no go statement before the hand-over to a queue): arrival order is kept"},
			{Name: "DOM/valid-patterns", Min: 1, Run: ruleValidPatterns, Doc: "a system reset re-validates the access of every resource matching a valid pattern of its list: an invalid pattern is skipped, it does not end the scan"},
			{Name: "DOM/drain-reentrancy", Min: 2, Run: ruleDrainReentrancy, Doc: "slot bookkeeping finished before the slot's continuations run (they may re-enter)"},
			{Name: "DOM/token-fanout", Min: 1, Run: ruleTokenFanout, Doc: "token change re-checks every subscription"},
			{Name: "DOM/invalidate", Min: 1, Run: ruleInvalidate, Doc: "cached verdict invalidated; gate closed before request, reopened after"},
			{Name: "DOM/event-gate", Min: 1, Run: ruleEventGate, Doc: "reaccess dispatched before the not-loaded discard; gate"},
			{Name: "CONF/handle-event", Min: 1, Run: ruleHandleEvent, Doc: "reaccess bypasses the not-loaded filter in the cache"},
			{Name: "DOM/revoke", Min: 1, Run: ruleRevoke, Doc: "denial unsubscribes all direct subscriptions with the reason"},
			{Name: "DOM/reset-protocol", Min: 1, Run: ruleResetProtocol, Doc: "reset access fan-out over base and queries"},
			{Name: "PAIR/throttle-slot", Min: 1, Run: rulePairThrottle, Doc: "throttled re-access checks queued behind an answered one are released"},
		},
	})

	register(&Property{
		ID: "C07", Title: "Exactly one response per client request",
		Explanation: "Decides, for every path and schedule: rpc.HandleRequest performs exactly one Reply per dispatched request, directly or inside a handler continuation, and Reply is called from nowhere else (LIN/reply); every continuation parameter of the handlers and combinators is consumed exactly once on every full path — called, delegated to another linear function, or parked in a pending slot (LIN/continuations); pending callback slots are cleared only after draining, or when the connection itself goes away (LIN/drain: known finding F9 — Dispose drops ready callbacks on a live connection); an answered throttled request always frees its slot, so the access checks queued behind it — and the client requests waiting for them — are not stranded (PAIR/throttle-slot); continuations run on the connection worker (CTX/conn); every outcome of a get response collects the subscribers waiting on it (DOM/answer-waiting); slot bookkeeping is finished before continuations run (DOM/drain-reentrancy). Not decided: liveness (that a parked continuation is eventually run), the readyCallback.loading countdown arithmetic. Added after seeding round 7: a subscription gives its count on a ready callback back only after descending into its references, so the count cannot reach zero twice (PAIR/ready-count). Added after seeding round 9: marshalers put text into a frame only through json.Marshal: a frame that fails to encode answers nothing (PROV/json-text). Added after seeding round 10: OnReady runs its callback at once only for a ready subscription (DOM/onready-inline).  Added after the mutation sweep of round 11: the bookkeeping of a shared access request — flag raised and caller parked before the request, flag lowered and list emptied before the hand-over — holds on every path of both twins (PAIR/access-inflight). Added after seeding round 12: PAIR/gc-countdown serves this property too. Added after the mutation sweep: every path of Cache.Subscribe hands the subscriber over or answers it (PAIR/subscribe-answered). Added after the mutation sweep: every path from the worker's drain loop back to it stores the queue (PAIR/worker-queue-reset). Added after the mutation sweep: every Requester call of the dispatcher lies behind Request.ID != nil, and success/error replies follow the outcome handed to the continuation (DOM/rpc-dispatch).",
		Assumptions: append([]string{"mq.Client.SendRequest completes exactly once (C18)", "a continuation refused by wsConn.Enqueue because the connection is disposing is an accepted drop"}, baseAssumptions...),
		Rules: []Rule{
			{Name: "DOM/rpc-dispatch", Min: 10, Run: ruleRPCDispatch, Doc: "no dispatch and no reply for a frame without an id; in every continuation the success reply lies behind success, the error reply behind failure"},
			{Name: "PAIR/worker-queue-reset", Min: 1, Run: ruleWorkerQueueReset, Doc: "the connection worker empties the task queue after running it on every path: no request is processed and answered twice"},
			{Name: "PAIR/subscribe-answered", Min: 1, Run: ruleSubscribeAnswered, Doc: "Cache.Subscribe hands the subscriber to the entry or answers it with the error, exactly once, on every path"},
			{Name: "LOCK/balance", Min: 20, Run: ruleLockBalance, Doc: "no path leaves a mutex held: a later request on the resource or connection would block and never be answered"},
			{Name: "PAIR/gc-countdown", Min: 1, Run: ruleGCCountdown, Doc: "the collector's count-down works on the counts as they are: a subscription is not made ready (and its pending get answer then discarded as a repeat) while a request still waits on it"},
			{Name: "PAIR/access-inflight", Min: 1, Run: ruleAccessInflight, Doc: "the waiting list of a shared access request is emptied and its in-flight flag lowered before the answer is handed over: no request is answered twice, none is parked for ever"},
			{Name: "DOM/onready-inline", Min: 1, Run: ruleOnReadyInline, Doc: "OnReady runs its callback at once only for a ready subscription (everything below it loaded)"},
			{Name: "PROV/json-text", Min: 4, Run: ruleJSONText, Doc: "marshalers put text into a frame only through json.Marshal (a frame that fails to encode answers nothing)"},
			{Name: "PAIR/ready-count", Min: 1, Run: ruleReadyCount, Doc: "a subscription gives its ready count back only after descending into its references (no double answer)"},
			{Name: "WHO/handler-callers", Min: 3, Run: ruleHandlerCallers, Doc: "a derived delete goes through handleEvent, which discards it while the initial get is outstanding (the waiting subscribers stay registered and are answered)"},
			{Name: "DOM/answer-waiting", Min: 1, Run: ruleAnswerWaiting, Doc: "every outcome of a get response collects the subscribers waiting on it"},
			{Name: "DOM/drain-reentrancy", Min: 2, Run: ruleDrainReentrancy, Doc: "slot bookkeeping finished before the slot's continuations run (they may re-enter)"},
			{Name: "LIN/reply", Min: 1, Run: ruleReply, Doc: "HandleRequest: exactly one Reply per dispatched request; Reply called from nowhere else"},
			{Name: "LIN/continuations", Min: 12, Run: linAll, Doc: "every linear continuation parameter is consumed exactly once on every full path"},
			{Name: "LIN/drain", Min: 2, Run: ruleDrain, Doc: "pending callback slots cleared only after draining, or when the connection is gone"},
			{Name: "PAIR/throttle-slot", Min: 1, Run: rulePairThrottle, Doc: "a governed request that is answered frees its throttle slot: requests waiting behind it (and the client requests depending on them) are not stranded"},
			{Name: "PAIR/query-lock", Min: 1, Run: ruleQueryLock, Doc: "a failed query request releases its lock: requests queued behind it are answered"},
			{Name: "CONF/worker-loop", Min: 2, Run: ruleWorkerLoops, Doc: "every accepted task (and the reply it carries) is run"},
			{Name: "DOM/loopvar", Min: 1, Run: ruleLoopVar("server", "rpc"), Doc: "a queued request task does not capture the read loop's shared frame variable"},
			{Name: "CTX/conn", Min: 25, Run: ruleConfinement, Doc: "continuations and replies on the connection worker"},
		},
	})

	register(&Property{
		ID: "C08", Title: "Direct subscription accounting; failed requests leave nothing behind",
		Explanation: "Decides: on every continuation path of every function that takes a direct subscription the count is released exactly once on every failure and on every outcome of get-type handlers, kept exactly on the success of subscribe-type handlers, and never released when Subscribe itself failed (PAIR/direct-count); an unsubscribe removes counts only behind the test direct >= count with the same count (DOM/unsub-precond); the count parameter is validated as positive (DOM/count-param); direct++ only below the limit (DOM/sub-limit); revocation and delete remove all direct subscriptions (DOM/revoke); direct is written by addCount/removeCount only; params that carry no count unsubscribe once: a decoded-params path reaches UnsubscribeResource with the default 1 (DOM/unsub-precond). Not decided: numeric equality of the counter with the response history (it is the sum of the per-path facts). Added after seeding round 7: a connection registers a Subscription object under a resource id only on the not-found edge of the lookup of that id (DOM/one-sub-per-rid); the collector's mark pass keeps every node that is held or reached from a kept node (DOM/gc-mark). Added after seeding round 9: a request answered with success before any failure keeps its direct subscription (PAIR/direct-count). Added after seeding round 11: the unsubscribe count is decoded as an integer and reaches the handler unconverted, so a fractional count cannot pass the 'no more than held' test by truncation (DOM/count-integer). Added after the mutation sweep: removeCount lowers counts only behind the any-holder test (DOM/remove-count-held); the direct count is lowered by the count asked for when that many are held — statically dead edges of the clamp do not count (DOM/unsub-precond). Added after the mutation sweep: the immediate send of an add/change event that references an already delivered resource is preceded by the count-up of that resource's indirectsent (PAIR/edge-sent-counted). DOM/rpc-dispatch: see C07.",
		Assumptions: append([]string{"LIN (C07): every handler replies exactly once", "a task refused by a disposing connection needs no release (dispose releases everything)"}, baseAssumptions...),
		Rules: []Rule{
			{Name: "DOM/rpc-dispatch", Min: 10, Run: ruleRPCDispatch, Doc: "an unsubscribe that succeeded is answered with success, one that was refused with the error"},
			{Name: "PAIR/edge-sent-counted", Min: 1, Run: ruleEdgeSentCounted, Doc: "the quick exits of the add/change handlers count a new reference to an already sent resource in its indirectsent before the event goes out"},
			{Name: "DOM/remove-count-held", Min: 1, Run: ruleRemoveCountHeld, Doc: "removeCount lowers a count only while the subscription has a holder (direct+indirect+indirectsent != 0)"},
			{Name: "DOM/gc-after-release", Min: 1, Run: ruleGCAfterRelease, Doc: "a released reference reaches the collector on every path: nothing is left behind on a reference cycle"},
			{Name: "DOM/count-integer", Min: 2, Run: ruleCountInteger, Doc: "the unsubscribe count is an integer as decoded: a fractional count is refused, not truncated"},
			{Name: "DOM/gc-mark", Min: 1, Run: ruleGCMark, Doc: "the collector marks a held node, or one reached from a kept node, kept — also over an earlier deletion mark: a subscription shared with a kept parent is not disposed"},
			{Name: "DOM/one-sub-per-rid", Min: 1, Run: ruleOneSubPerRID, Doc: "a connection registers a new Subscription object for a resource ID only where the lookup of that ID found none"},
			{Name: "PAIR/loaded-handover", Min: 1, Run: rulePairLoaded, Doc: "a get answer arriving after the failed request was released gives its cache use back"},
			{Name: "PAIR/direct-count", Min: 2, Run: rulePairDirect, Doc: "acquire/release of the direct count along every continuation path"},
			{Name: "DOM/unsub-precond", Min: 1, Run: ruleUnsubPrecond, Doc: "unsubscribe precondition, count validation, limit"},
			{Name: "DOM/revoke", Min: 1, Run: ruleRevoke, Doc: "revocation / delete remove all direct subscriptions"},
			{Name: "PAIR/gc-countdown", Min: 1, Run: ruleGCCountdown, Doc: "a subscription whose last count is released is collected also when it lies on a reference cycle: nothing is left behind"},
			{Name: "WHO/direct", Min: 1, Run: ruleWho([]whoEntry{
				{Field: "server.Subscription.direct", Writers: w("(*server.wsConn).addCount", "subscribe", "(*server.wsConn).removeCount", "unsubscribe")},
			}), Doc: "who may write the direct count"},
		},
	})

	register(&Property{
		ID: "C09", Title: "Cache entry lifecycle: subscribed before fetch, kept while used, then freed",
		Explanation: "Decides: getSubscription counts one use on every successful return and none on an error return, errors only when an mq subscription was requested, and with subscribe=true returns only after the entry's mq subscription exists (PAIR/cache-count); callers release the use or hand it to addSubscriber exactly once; a count is released iff a membership was removed and bulk releases equal the set dropped (PAIR/membership); a late or repeated Loaded owns or releases the resource exactly once (PAIR/loaded-handover); eviction re-checks the count under the locks, addCount cancels a pending eviction, removeCount queues the entry exactly at zero, gauges follow the count (DOM/evict); get requests are issued only from addSubscriber / reset (DOM/sub-before-get); a removed entry is cleared from every index it is findable through — base (also for the empty alias), queries, links (DOM/unregister). Not decided: the eviction delay and timers, gauges reading zero at a particular moment. Added after seeding round 7: the connection-side collector marks a held node, or one reached from a kept node, kept — also over an earlier deletion mark — so a shared subscription's cache use is not given back under a live client subscription (DOM/gc-mark). Added after seeding round 8: an entry registered in the cache's index is counted on that very path, because the eviction queue is entered only by releasing a count (PAIR/cache-count). Added after seeding round 9: the use count of a cache entry is touched under the entry's mutex by takers and releasers alike (CTX/guarded-by). Added after seeding round 10: a failed get — denied access included — leaves no connection-level subscription behind (PAIR/direct-count). Added after seeding round 11: an event discarded by the cache is not fanned out either (CONF/handle-event): subscribers that dispose themselves on a delete the cache did not apply would leave their use counts behind. Added after seeding round 12: the reference throttle's queue is only appended to and popped (FIFO/queues). Added after seeding round 13: DOM/unsend-countdown (see C02). Added after seeding round 13: PAIR/query-lock also serves this property — a query variant skipped without giving back its event lock blocks the entry's queue, and with it every later release of the entry. PAIR/requested-once: see C03. DOM/unregister-empty: see C13.",
		Assumptions: baseAssumptions,
		Rules: []Rule{
			{Name: "DOM/unregister-empty", Min: 1, Run: ruleUnregisterEmpty, Doc: "an unsubscribe unregisters a query variant only when its last subscriber is gone"},
			{Name: "PAIR/requested-once", Min: 1, Run: ruleRequestedOnce, Doc: "one get request per load of a cache entry"},
			{Name: "PAIR/query-lock", Min: 1, Run: ruleQueryLock, Doc: "every lock a query event places on the entry's event queue is released: the entry's queued releases and evictions are not stranded behind it"},
			{Name: "DOM/unsend-countdown", Min: 2, Run: ruleUnsendCountdown, Doc: "un-sending counts each child's sent references down whenever the child is sent and counted"},
			{Name: "PAIR/release-on-teardown", Min: 4, Run: ruleReleaseOnTeardown, Doc: "an evicted cache entry's event subscription is released"},
			{Name: "FIFO/queues", Min: 1, Run: ruleFIFO("rescache.Throttle.queue"), Doc: "a disposed subscription drops no get request waiting in the shared reference throttle: the cache entries those requests belong to already count the subscriber and would never be released"},
			{Name: "PAIR/alias-recorded", Min: 1, Run: ruleAliasRecorded, Doc: "every alias of a cache resource is on its alias list, so unregister clears it"},
			{Name: "CONF/handle-event", Min: 1, Run: ruleHandleEvent, Doc: "an event the cache drops is dropped for the subscribers too: a delete passed on without being applied makes them leave while the cache keeps their use counts"},
			{Name: "PAIR/direct-count", Min: 2, Run: rulePairDirect, Doc: "a get that fails (denied access included) leaves no connection-level subscription behind, so the cache entry loses its last user"},
			{Name: "CTX/guarded-by", Min: 30, Run: ruleGuardedBy, Doc: "the use count of a cache entry is touched under the entry's mutex by both sides (takes by subscribers, releases by cache tasks): no update is lost"},
			{Name: "DOM/gc-mark", Min: 1, Run: ruleGCMark, Doc: "the collector marks a held node, or one reached from a kept node, kept — also over an earlier deletion mark: a subscription shared with a kept parent is not disposed"},
			{Name: "DOM/unregister", Min: 1, Run: ruleUnregister, Doc: "a removed cache entry is cleared from every index (base, queries, links)"},
			{Name: "PAIR/cache-count", Min: 1, Run: rulePairCacheCount, Doc: "getSubscription / sendRequest / Subscribe use count pairing"},
			{Name: "PAIR/membership", Min: 1, Run: rulePairMembership, Doc: "count released iff a membership was removed"},
			{Name: "PAIR/loaded-handover", Min: 1, Run: rulePairLoaded, Doc: "late / repeated Loaded"},
			{Name: "DOM/evict", Min: 2, Run: ruleEvict, Doc: "eviction protocol, gauges, get only from a subscribed entry"},
			{Name: "WHO/count", Min: 2, Run: ruleWho([]whoEntry{
				{Field: "rescache.EventSubscription.count", Writers: w("(*rescache.Cache).getSubscription", "new entry", "(*rescache.EventSubscription).addCount", "use", "(*rescache.EventSubscription).removeCount", "release", "(*rescache.EventSubscription).addSubscriber", "error-state branch (unreachable today)"), Shape: []string{"init"}},
				{Field: "rescache.EventSubscription.mqSub", Writers: w("(*rescache.Cache).getSubscription", "established under Cache.mu"), Shape: []string{"from:mq.Client.Subscribe"}},
			}), Doc: "who may write the use count"},
		},
	})

	register(&Property{
		ID: "C10", Title: "Connection isolation: ids, tokens and events never cross connections",
		Explanation: "Decides: every request site sends the requesting connection's own id and its current token (PROV/token-cid); no value derived from the connection id, the {cid}-expanded resource name/query or the cache's resource name reaches a client-facing sink — event names, resource-set keys, resource-response rids, hrefs (PROV/cid-taint, backward provenance over the whole program); ExpandCID is called on the service-facing side only and expands every tag; token resets re-authenticate only connections whose own tid is listed; events are fanned out to the subscriber set of the resource being handled (DOM/fanout-set); no subscriber-side store into the shared ResourceEvent, whatever the field (WHO/event-immutable). Not decided: what services put into payloads. Added after seeding round 7: the collector rules (PAIR/gc-countdown, DOM/gc-mark) serve this property too: a connection that released a resource on a reference cycle keeps no subscription to it and receives none of its events. Added after seeding round 10: request payloads are fresh encodings owned by their request, never the contents of a reused buffer (PROV/payload-fresh). Added after seeding round 11: the name and the query a subscription addresses the service with both derive from ExpandCID applied to the whole resource id (PROV/cid-expand-whole). Added after seeding round 12: in the message handler a resource event is applied to the entry's base resource only (DOM/event-target).",
		Assumptions: baseAssumptions,
		Rules: []Rule{
			{Name: "DOM/event-target", Min: 1, Run: ruleEventTarget, Doc: "a resource event reaches the subscribers of the resource it names only — not those of its query variants"},
			{Name: "PROV/cid-expand-whole", Min: 2, Run: ruleCIDExpandWhole, Doc: "name and query of a subscription both derive from the {cid}-expanded whole resource id: no tag reaches the service literally, no two connections share a tagged query"},
			{Name: "PROV/payload-fresh", Min: 3, Run: rulePayloadFresh, Doc: "request payloads are fresh encodings owned by their request, never the contents of a reused buffer (no cross-connection id/token)"},
			{Name: "DOM/gc-mark", Min: 1, Run: ruleGCMark, Doc: "the collector neither keeps released nor disposes still-held subscriptions of a connection"},
			{Name: "PAIR/gc-countdown", Min: 1, Run: ruleGCCountdown, Doc: "a connection that released a resource lying on a reference cycle keeps no subscription to it (and so receives none of its events later)"},
			{Name: "WHO/event-immutable", Min: 5, Run: ruleEventImmutable, Doc: "a fanned-out event is read-only: no subscriber-side store into the shared ResourceEvent"},
			{Name: "PROV/token-cid", Min: 5, Run: ruleTokenCID, Doc: "requests carry the connection's own id and current token"},
			{Name: "PROV/cid-taint", Min: 7, Run: ruleCIDTaint, Doc: "expanded names never reach client-facing sinks; ExpandCID callers; tid filter"},
			{Name: "DOM/fanout-set", Min: 2, Run: ruleFanoutSet, Doc: "events go to the subscriber set of that resource"},
			{Name: "DOM/token-fanout", Min: 1, Run: ruleTokenFanout, Doc: "a token event replaces the token id with the token: token resets address only holders of that token"},
			{Name: "CTX/conn", Min: 25, Run: ruleConfinement, Doc: "token read on the connection worker only"},
		},
	})

	register(&Property{
		ID: "C11", Title: "Disconnect cleanup at any moment",
		Explanation: "Decides: wsConn.dispose sets the flag and closes the worker channel in one critical section, removes the connection from the cache and from token-reset fan-out, unsubscribes the connection events, disposes every subscription, and leaves the registry (DOM/dispose); Subscription.Dispose releases references and exactly one cache use; Enqueue/Subscribe/Unsubscribe refuse a disposing connection; a late Loaded releases the cache use (PAIR/loaded-handover); late access answers are absorbed (DOM/verdict-store); no call/auth request is issued by a continuation of a disposed connection (CTX/post-dispose); a refused task never strands a throttle slot of other connections (PAIR/throttle-slot); temporary HTTP connections are disposed exactly once on every exit (LIN/temp-conn); sends on the worker channel cannot hit the close (CHAN); teardown takes the connection and cache mutexes in an order that cannot deadlock against the token-reset fan-out (LOCK/order). Not decided: 'no effect on other connections' as a runtime fact beyond the pairing rules of C09. Added after seeding round 7: every service request reads the connection's token and is therefore confined to the connection's worker (CTX/conn), whose queue refuses tasks after the close; a named function that sends a call/auth request hands the dispose test to each closure calling it (CTX/post-dispose). Added after seeding round 8: no function run with the event subscription's mutex held (the tasks of its worker) calls something that takes that mutex again (LOCK/order with held-on-entry states). Added after seeding round 9: a re-access trigger on a disposed subscription starts no access request (DOM/invalidate). Added after seeding round 11: the disposing test that keeps a continuation from sending a call/auth request lies in the continuation itself — a test in front of the creation of the continuation says nothing about the time it runs (CTX/post-dispose). Added after seeding round 12: PAIR/membership serves this property too. Added after the mutation sweep: unsubscribeConn releases the connection's messaging-system subscription whenever there is one, RemoveConn takes the connection out of the token-reset registry, the cache's eviction releases the entry's event subscription (PAIR/release-on-teardown). Added after seeding round 13: DOM/ref-shapes also serves this property — ReleaseRPCResources returns at once for a disposed subscription, so a frame released after the disconnect neither re-opens the event gate nor processes queued events. Added after the mutation sweep: every use of the loaded resource in Subscription.Loaded lies behind err == nil (DOM/loaded-either).",
		Assumptions: baseAssumptions,
		Rules: []Rule{
			{Name: "DOM/loaded-either", Min: 1, Run: ruleLoadedEither, Doc: "Subscription.Loaded touches the resource only behind err == nil, also on the path where the closing connection refused the task"},
			{Name: "DOM/ref-shapes", Min: 1, Run: ruleRefShapes, Doc: "a release that arrives for a disposed subscription returns before it touches state or event queue"},
			{Name: "PAIR/release-on-teardown", Min: 4, Run: ruleReleaseOnTeardown, Doc: "a closed connection's messaging-system subscription is released and the connection leaves the token-reset registry"},
			{Name: "DOM/ready-continuation-live", Min: 2, Run: ruleReadyContinuationLive, Doc: "nothing is sent, and no reference counted as sent, for a subscription disposed while an event waited for its references"},
			{Name: "LOCK/guarded-fields", Min: 40, Run: ruleGuardedFields, Doc: "the connection's queue and the cache's connection registry are touched under their mutexes while a connection goes away"},
			{Name: "LOCK/balance", Min: 20, Run: ruleLockBalance, Doc: "teardown paths leave every mutex as they found it"},
			{Name: "PAIR/membership", Min: 1, Run: rulePairMembership, Doc: "a repeated clean-up for a connection that is gone releases nothing twice: other connections' shared resources keep their counts"},
			{Name: "DOM/invalidate", Min: 1, Run: ruleInvalidate, Doc: "a re-access trigger on a disposed subscription starts no access request"},
			{Name: "CTX/conn", Min: 25, Run: ruleConfinement, Doc: "every service request on a connection's behalf reads its token and is therefore issued from that connection's worker (whose queue refuses tasks after the close) — never straight from a service-answer callback"},
			{Name: "FIFO/queues", Min: 1, Run: ruleFIFO("rescache.Throttle.queue"), Doc: "a disposed subscription drops no request waiting in the shared throttle (the cache entry it already counted a use on would never be released)"},
			{Name: "LOCK/order", Min: 2, Run: ruleLockOrder, Doc: "teardown cannot deadlock against the token-reset fan-out: lock order acyclic"},
			{Name: "DOM/dispose", Min: 3, Run: ruleDispose, Doc: "dispose set; refusal after close; Subscription.Dispose"},
			{Name: "CTX/post-dispose", Min: 1, Run: rulePostDispose, Doc: "no request from a continuation of a disposed connection"},
			{Name: "LIN/temp-conn", Min: 1, Run: ruleTempConn, Doc: "temporary HTTP connections disposed exactly once"},
			{Name: "PAIR/loaded-handover", Min: 1, Run: rulePairLoaded, Doc: "late Loaded releases the cache use"},
			{Name: "DOM/verdict-store", Min: 1, Run: ruleVerdictStore, Doc: "late access answers absorbed"},
			{Name: "PAIR/throttle-slot", Min: 1, Run: rulePairThrottle, Doc: "a refused task does not strand a throttle slot"},
			{Name: "CHAN/close-send", Min: 2, Run: ruleChanFor("server.wsConn.work"), Doc: "no send on the closed worker channel"},
			{Name: "CONF/worker-loop", Min: 2, Run: ruleWorkerLoops, Doc: "tasks accepted before the close (late Loaded, releases) are still run"},
		},
	})

	register(&Property{
		ID: "C12", Title: "System reset re-fetches exactly the matching resources with a correct diff",
		Explanation: "Decides the plumbing and protocol clauses only: a matching entry is re-fetched once, with get.<name> and its normalised query, unless a reset is already outstanding; the resetting flag is set before the request and cleared before the answer is processed, in both the throttled and the unthrottled twin; the base resource (unless it is a link) and every cached query variant are visited exactly once, for resources and for access (DOM/reset-protocol); derived events go through handleEvent, state events are dropped only while resetting (CONF/handle-event); invalid patterns match nothing at the recogniser level (TABLE/reject-set); only valid patterns are matched (DOM/valid-patterns); content is replaced copy-on-write (DOM/copy-on-write). NOT decided — the heart of the property: wildcard matching semantics for all names, that the model diff and the LCS edit script transform old into new with indexes in range, that unchanged content yields no event. Added after seeding round 8: TABLE/lcs-exhaustive (see C03) for the derived add/remove sequence of a re-fetched collection. Added after seeding round 11: the kind of an answer is decided by which member is present, never by its size, so a reset that empties a resource produces its remove / delete-action events (TABLE/kind-by-presence); a run of adds emitted by one ascending loop moves its index along (TABLE/add-run).  Added after seeding round 12: every path of ResourcePattern.Match that returns the comparison of the name with the pattern text has established that the pattern has no wildcard (TABLE/match-literal; one shape condition of the matcher, not its correctness). Added after seeding round 12: the marking of missing keys runs for every re-fetched model (DOM/diff-unconditional). Added after seeding round 13: DOM/invalidate (see C05/C06) also serves this property — a reset access pattern re-requests access with the cached verdict cleared. Added after the mutation sweep: handleResetAccess agrees with handleResetResource on every abstract path (TWIN/agree). Added after the mutation sweep: the model diff drops equal properties and only those; an empty diff builds no event (DOM/diff-drops-equal; Value.Equal itself is not decided). Added after the mutation sweep: the appliers of state events and the start of a re-fetch lie behind resetting == false (DOM/resetting-gate).",
		Assumptions: baseAssumptions,
		Rules: []Rule{
			{Name: "DOM/resetting-gate", Min: 3, Run: ruleResettingGate, Doc: "while a re-fetch is outstanding no state event is applied to the cached copy and no second re-fetch is started"},
			{Name: "DOM/diff-drops-equal", Min: 2, Run: ruleDiffDropsEqual, Doc: "the model diff of a re-fetch drops a property exactly behind the lookup's ok and Value.Equal, and builds no event for an empty diff"},
			{Name: "TWIN/agree", Min: 0, Run: ruleTwinAgree, Doc: "the resource and the access variant of a reset visit the same subscriptions of an entry: base unless it is a link, every query variant once"},
			{Name: "DOM/invalidate", Min: 1, Run: ruleInvalidate, Doc: "the access re-check a reset asks for clears the cached verdict before it asks again"},
			{Name: "DOM/diff-unconditional", Min: 1, Run: ruleDiffUnconditional, Doc: "every cached key missing from a re-fetched model is marked deleted, whatever the sizes of the two models"},
			{Name: "TABLE/match-literal", Min: 1, Run: ruleMatchLiteral, Doc: "a wildcard pattern is never matched by comparing texts"},
			{Name: "TABLE/add-run", Min: 0, Run: ruleAddRun, Doc: "derived adds of one ascending loop move their index along (adds at one fixed index arrive reversed)"},
			{Name: "TABLE/kind-by-presence", Min: 3, Run: ruleKindByPresence, Doc: "a re-fetched resource that is empty ({} / []) is a valid answer of its kind: the kind is decided by the member that is present, never by its size"},
			{Name: "TABLE/remove-run", Min: 0, Run: ruleRemoveRun, Doc: "derived removes of one loop do not use the loop's ascending counter as index (each remove shifts the rest)"},
			{Name: "TABLE/lcs-exhaustive", Min: 0, Run: ruleLCSExhaustive, Doc: "the edit-script back-tracking leaves no ordering of two table cells to neither branch (derived sequences are not cut short)"},
			{Name: "PAIR/query-lock", Min: 1, Run: ruleQueryLock, Doc: "a failed query request releases its lock: a later system reset on the resource is processed"},
			{Name: "DOM/reset-protocol", Min: 1, Run: ruleResetProtocol, Doc: "re-fetch once per matching entry with its normalised query; flag protocol; visit base and queries"},
			{Name: "DOM/copy-on-write", Min: 1, Run: ruleCopyOnWrite, Doc: "cached model/collection values are never written in place"},
			{Name: "CONF/handle-event", Min: 1, Run: ruleHandleEvent, Doc: "derived events go through handleEvent; state events dropped only while resetting"},
			{Name: "WHO/handler-callers", Min: 3, Run: ruleHandlerCallers, Doc: "derived events (also delete on notFound) go through handleEvent; full answers only for the matching kind"},
			{Name: "TABLE/reject-set", Min: 1, Run: ruleRejectSet(rejectSpecs()[2:]), Doc: "ParseResourcePattern rejects excluded characters"},
			{Name: "DOM/valid-patterns", Min: 1, Run: ruleValidPatterns, Doc: "only valid patterns are matched; reset fields routed to their visitors"},
			{Name: "PAIR/throttle-slot", Min: 1, Run: rulePairThrottle, Doc: "throttled re-fetch frees its slot"},
		},
	})

	register(&Property{
		ID: "C13", Title: "Query resources: shared normalised queries, atomic query-event handling",
		Explanation: "Decides: the queue is locked with len(queries) of the map that is iterated unmodified, each iteration releases exactly one lock on every outcome of its request (all early returns are inside the unlock task), nothing returns between locking and the end of the iteration, locks are installed only for a positive count; the request goes to the event's subject with the range key as query; answers are applied through per-iteration values, full model/collection answers only behind the matching kind test (PAIR/query-lock); no deferred closure captures a shared loop variable (DOM/loopvar); an initial load re-initialises an entry only under the not-loaded test of that same entry, so an alias arriving later cannot reset a shared resource (PAIR/version-bump); a repeated Loaded is ignored (LIN/loaded-once); Enqueue wakes no worker while locks are set (DOM/inch-send); unregister clears base / queries / links including the empty alias (DOM/unregister); every outcome of a get response collects the waiting subscribers (DOM/answer-waiting). Not decided: the capacity countdown arithmetic of the lock list; two aliasing gets in flight beyond the loaded-once guard. Added after seeding round 8: a query request that got no answer changes nothing — every path of its completion that applies something has established that the request error is nil (DOM/query-request-error). Added after seeding round 10: a deleted query resource drops its subscribers (PAIR/membership). Added after seeding round 11: a query event is dropped only by the listed discards — nothing cached under a query, malformed payload, missing subject (CONF/query-event-discards). Added after seeding round 12: PAIR/alias-recorded (see C15); events are fanned out to the subscriber set as it is (DOM/fanout-set). Added after seeding round 13: whether a query variant is asked depends on its load state only — not on a reset under way (DOM/query-event-all). Added after the mutation sweep: every path of processQueue that runs a queued task has found the lock set absent or used up (DOM/lock-gate). Added after the mutation sweep: unregister in Unsubscribe lies behind len(subs) == 0 (DOM/unregister-empty).",
		Assumptions: baseAssumptions,
		Rules: []Rule{
			{Name: "DOM/unregister-empty", Min: 1, Run: ruleUnregisterEmpty, Doc: "an unsubscribe unregisters a query variant only when its last subscriber is gone"},
			{Name: "DOM/lock-gate", Min: 1, Run: ruleLockGate, Doc: "the worker runs an entry's queued tasks only with no event lock outstanding: events behind a query event do not overtake its answers"},
			{Name: "DOM/query-event-all", Min: 1, Run: ruleQueryEventAll, Doc: "a query event is put to every loaded query variant: the skip decision reads the variant's load state only"},
			{Name: "DOM/fanout-set", Min: 2, Run: ruleFanoutSet, Doc: "events derived from a query answer reach every subscriber of the shared resource, also one aliased onto it after it was warm"},
			{Name: "PAIR/alias-recorded", Min: 1, Run: ruleAliasRecorded, Doc: "every alias of a normalised query resource is on its alias list"},
			{Name: "CONF/query-event-discards", Min: 1, Run: ruleQueryEventDiscards, Doc: "a query event is dropped only by the listed discards (nothing cached under a query, malformed payload, missing subject): otherwise one request per cached query goes out"},
			{Name: "PAIR/membership", Min: 1, Run: rulePairMembership, Doc: "a deleted query resource drops its subscribers: a later unsubscribe on it cannot evict the resource newly cached under the same query"},
			{Name: "DOM/query-request-error", Min: 1, Run: ruleQueryRequestError, Doc: "a failed query request (no answer) changes nothing and is not read as system.notFound"},
			{Name: "CONF/worker-loop", Min: 2, Run: ruleWorkerLoops, Doc: "every unlock task appended while another runs is run: the lock loop re-reads the queue length"},
			{Name: "CTX/async-completion", Min: 1, Run: ruleAsyncCompletion, Doc: "the completion of a request never runs on the sender's stack (senders hold their own mutex)"},
			{Name: "DOM/unregister", Min: 1, Run: ruleUnregister, Doc: "a removed cache entry is cleared from every index (base, queries, links)"},
			{Name: "DOM/answer-waiting", Min: 1, Run: ruleAnswerWaiting, Doc: "every outcome of a get response collects the subscribers waiting on it"},
			{Name: "PAIR/query-lock", Min: 1, Run: ruleQueryLock, Doc: "one lock per cached query released exactly once"},
			{Name: "DOM/loopvar", Min: 1, Run: ruleLoopVar("rescache", "server", "nats"), Doc: "deferred closures capture no shared loop variable"},
			{Name: "PAIR/version-bump", Min: 2, Run: ruleVersionBump, Doc: "initial load guarded by the not-loaded test of the same entry"},
			{Name: "PAIR/loaded-handover", Min: 1, Run: rulePairLoaded, Doc: "repeated Loaded ignored"},
			{Name: "DOM/inch-send", Min: 1, Run: ruleInChSend, Doc: "no worker woken while locks are set"},
		},
	})

	register(&Property{
		ID: "C14", Title: "Subject hygiene and request validation",
		Explanation: "Decides: at all 10 publish/subscribe sites the subject is assembled only from literal prefixes and values whose every provenance leaf (backward over the whole program: parameters through the call graph, fields through all their stores, decoders) is validated by IsValidRID/IsValidRIDPart on the path to its use, trusted (xid, constants) or one of the two service-addressed subjects; the query part of a resource id never reaches a subject (PROV/subject); the recognisers reject control characters, space, DEL, non-ASCII, '*', '>' (and '.', '?' for parts) on every path of a scan step (TABLE/reject-set, constant propagation per character); every subject is validated hence invalid input reaches no service request. Not decided: the recognisers on whole strings (token structure), PathToRID decoding of every byte string. Added after seeding round 7: the resource id is cut into name and query at its first '?', the position up to which the validator checks (TABLE/rid-split). Added after seeding round 8: an HTTP path is cut at '/' before its segments are percent-decoded (TABLE/path-split). Added after seeding round 9: an invalid HTTP resource id is rejected before the temporary connection — and with it header-auth traffic — exists (DOM/validate-before-conn). Added after seeding round 11: PROV/cid-expand-whole (see C10).",
		Assumptions: baseAssumptions,
		Rules: []Rule{
			{Name: "TABLE/dots-after-prefix", Min: 2, Run: ruleDotsAfterPrefix, Doc: "the dot test of the HTTP path readers looks at the part behind the api prefix"},
			{Name: "PROV/cid-expand-whole", Min: 2, Run: ruleCIDExpandWhole, Doc: "every {cid} tag of the resource id — name and query — is expanded before the id is cut into the parts that address the service"},
			{Name: "DOM/validate-before-conn", Min: 2, Run: ruleValidateBeforeConn, Doc: "an invalid HTTP resource id is rejected before the temporary connection (header auth, conn subscription) exists"},
			{Name: "TABLE/path-split", Min: 4, Run: rulePathSplit, Doc: "an HTTP path is cut at '/' before its segments are percent-decoded (a decoded %2F stays inside its token)"},
			{Name: "TABLE/rid-split", Min: 1, Run: ruleRIDSplit, Doc: "the id is cut into name and query at its first '?', where the validator stops checking"},
			{Name: "PROV/cid-taint", Min: 7, Run: ruleCIDTaint, Doc: "every {cid} tag of the resource name is expanded before it reaches a subject"},
			{Name: "PROV/subject", Min: 5, Run: ruleSubjectProv, Doc: "subjects built from validated parts"},
			{Name: "TABLE/reject-set", Min: 1, Run: ruleRejectSet(rejectSpecs()), Doc: "recognisers reject the excluded characters"},
			{Name: "DOM/path-prefix", Min: 2, Run: rulePathPrefix, Doc: "HTTP path cut by the api prefix only after the prefix test"},
		},
	})

	register(&Property{
		ID: "C15", Title: "Crash freedom and containment of malformed input",
		Explanation: "Decides the panic classes that have a crisp rule: decoders return no data with an error, so log-and-continue callers cannot apply a partial message, and return the decoded object whenever they report success, so callers that dereference it cannot hit nil (DOM/all-or-nothing); decoded indexes reach slice operations only inside [0,len] with the exact bound for element access vs slicing, content is dereferenced only for the right kind (DOM/index-kind-guard); optional decoded pointers are dereferenced under their nil test or a predicate implying it, null elements of decoded pointer slices are rejected (DOM/opt-deref); explicit panics and unchecked type assertions are the listed ones (CENSUS/panic); no send on a channel that may have been closed (CHAN: known finding F5 for Cache.inCh); recursive cycles are the listed ones with checked guards (REC/census); the mutex acquisition graph is acyclic (LOCK/order); one Done per throttle slot, so the 'negative running counter' panic is unreachable (PAIR/throttle-slot); a failed or malformed re-fetch closes the reset window, so later valid messages are processed normally (DOM/reset-protocol). Not decided: index safety of lcs, ResourcePattern.Match, byte scans in UnmarshalJSON, encoder buffers; JSON library behaviour; memory exhaustion. Added after seeding round 8: a failed query request releases the event lock, so later messages are still processed (PAIR/query-lock). Added after seeding round 10: a value object naming two of rid, action and data is refused (TABLE/value-object); an answer carrying an error is an error (DOM/error-wins). Added after seeding round 11: every message is decoded as a whole — json.Unmarshal, or a streaming decode followed by a probe for trailing input (TABLE/whole-input); the kind of an answer is decided by the member that is present (TABLE/kind-by-presence).  Added after seeding round 12: an alias of a normalised query resource — base pointer or links entry — is recorded in the resource's alias list on the same path (PAIR/alias-recorded). Added after the mutation sweep (generic crash-freedom rules, each over every site of its kind in the repository): values of comma-ok lookups are dereferenced only where found (DOM/lookup-ok); elements at constant positions are read only under a length test (DOM/const-index); pointer members that are nil for part of their object's life are used only under their nil test (DOM/optional-field); results of fallible calls are looked into only after the error was found nil, and decoders report success only under err == nil of json.Unmarshal (ERR/checked-before-use); map members created on demand are written only where they exist (DOM/map-made); every function leaves each mutex as it found it (LOCK/balance) and touches the fields a mutex guards only with it held (LOCK/guarded-fields); the collector's graph walks terminate on cycles (REC/gc-terminates). Added after seeding round 13: an element read at the position of a loop counter lies behind some test of the counter, so a scan cannot run off the end of an input made of skipped bytes only (DOM/loop-index; decides that a test exists, not that it is the right one). DOM/loaded-either: see C11. Added after the mutation sweep: for every (decoder, content member) pair a live IsProper test on that member's values decides the outcome (DOM/proper-values). Added after the mutation sweep: for each pair of alternative content members an error return lies behind both being present; ValueTypeDelete is stored only behind the comparison with the action name (DOM/exclusive-members). Added after the mutation sweep: a lazily created map member is handed to a writing function only where it exists (DOM/map-arg-made).",
		Assumptions: baseAssumptions,
		Rules: []Rule{
			{Name: "DOM/map-arg-made", Min: 1, Run: ruleMapArgMade, Doc: "a member map handed to a function that assigns into it is non-nil (or made) on that path"},
			{Name: "DOM/exclusive-members", Min: 4, Run: ruleExclusiveMembers, Doc: "an answer with two alternative content members is refused; only the known action name makes a delete action"},
			{Name: "DOM/proper-values", Min: 5, Run: ruleProperValues, Doc: "each decoder of service content tests every value of each content member with IsProper before it accepts the message"},
			{Name: "DOM/loaded-either", Min: 1, Run: ruleLoadedEither, Doc: "no nil dereference of the resource of a failed load"},
			{Name: "DOM/loop-index", Min: 0, Run: ruleLoopIndex, Doc: "an element read at the position of a counting loop variable lies behind a test of that variable"},
			{Name: "DOM/optional-hook", Min: 3, Run: ruleOptionalHook, Doc: "a hook that may be unset is called only under its non-nil test"},
			{Name: "REC/gc-terminates", Min: 3, Run: ruleGCTerminates, Doc: "the collector's walks over the reference graph end on every graph, cycles included (no stack overflow on the connection worker)"},
			{Name: "DOM/map-made", Min: 4, Run: ruleMapMade, Doc: "a map member that is created on demand is written only where it is known to exist"},
			{Name: "ERR/checked-before-use", Min: 20, Run: ruleErrCheckedBeforeUse, Doc: "what a fallible call hands back is looked into only after its error was found nil: a message that fails to decode is discarded as a whole"},
			{Name: "DOM/lookup-ok", Min: 3, Run: ruleLookupOK, Doc: "the pointer a comma-ok map lookup returns is dereferenced only where the lookup found it"},
			{Name: "DOM/const-index", Min: 3, Run: ruleConstIndex, Doc: "an element at a constant position of a payload, subject or path is read only where the length exceeds it"},
			{Name: "DOM/optional-field", Min: 10, Run: ruleOptionalField, Doc: "pointer fields that are nil for part of their object's life are used only under their non-nil test"},
			{Name: "LOCK/guarded-fields", Min: 40, Run: ruleGuardedFields, Doc: "the maps, queues and flags each mutex guards are touched with it held: no unsynchronised map access (fatal) and no check of stale state"},
			{Name: "LOCK/balance", Min: 20, Run: ruleLockBalance, Doc: "every function leaves each mutex as it found it on every path to a return: no path blocks the resource, connection or service for ever, none unlocks an unlocked mutex (fatal)"},
			{Name: "PAIR/alias-recorded", Min: 1, Run: ruleAliasRecorded, Doc: "an alias installed for a normalised query is recorded in the resource's alias list: no alias outlives its resource (a subscriber attached to a dead resource writes to a nil map on a cache worker)"},
			{Name: "TABLE/kind-by-presence", Min: 3, Run: ruleKindByPresence, Doc: "an empty model or collection is a valid resource, not a missing one"},
			{Name: "TABLE/whole-input", Min: 10, Run: ruleWholeInput, Doc: "a message is decoded as a whole: a payload with anything behind its first JSON value is malformed and discarded"},
			{Name: "TABLE/value-object", Min: 1, Run: ruleValueObject, Doc: "a value object naming two of rid, action and data is refused, not taken for one of them"},
			{Name: "DOM/error-wins", Min: 3, Run: ruleErrorWins, Doc: "a service answer carrying an error member is decoded as that error, whatever else it carries (an access error never grants)"},
			{Name: "PAIR/query-lock", Min: 1, Run: ruleQueryLock, Doc: "a failed query request releases its lock: later messages for the resource are still processed"},
			{Name: "CONF/handle-event", Min: 1, Run: ruleHandleEvent, Doc: "every event, also delete, passes the validation and the listed discards before it is applied"},
			{Name: "DOM/reset-protocol", Min: 1, Run: ruleResetProtocol, Doc: "a failed or malformed re-fetch closes the reset window: later valid messages are processed normally"},
			{Name: "DOM/all-or-nothing", Min: 5, Run: ruleDecoders, Doc: "decoders return no data with an error"},
			{Name: "DOM/index-kind-guard", Min: 4, Run: ruleIndexKindGuards, Doc: "decoded indexes bounded; content of the right kind"},
			{Name: "WHO/handler-callers", Min: 3, Run: ruleHandlerCallers, Doc: "no handler or full answer applied to an unloaded / wrong-kind resource"},
			{Name: "DOM/opt-deref", Min: 4, Run: ruleOptDeref, Doc: "optional decoded pointers dereferenced under their test"},
			{Name: "CENSUS/panic", Min: 3, Run: rulePanicCensus, Doc: "explicit panics and unchecked assertions are the listed ones"},
			{Name: "CHAN/close-send", Min: 3, Run: ruleChan, Doc: "no send on a closed channel"},
			{Name: "REC/census", Min: 4, Run: ruleRec, Doc: "recursion census"},
			{Name: "LOCK/order", Min: 2, Run: ruleLockOrder, Doc: "lock order acyclic"},
			{Name: "PAIR/throttle-slot", Min: 1, Run: rulePairThrottle, Doc: "Done never called without a slot"},
		},
	})

	register(&Property{
		ID: "C16", Title: "HTTP resources are a faithful, finite rendering of the resource graph",
		Explanation: "Decides: in both encoders the expansion path is pushed and popped on every successful path, the cycle test and the error-leaf return precede the push, the recursive descent is guarded by the cycle test and the push, so the expansion terminates on cyclic graphs and later siblings are not cut (PAIR/enc-path); the subscription is handed to the renderer before its resources are released, so the rendering is of the graph as cached at response time and not of one that queued events have already changed (PAIR/rpc-resources); HEAD and GET take the same path and HEAD is tested nowhere else; the two encoders agree on the value kinds (TWIN/encode-value); resource responses set Location from the unexpanded rid (PROV/cid-taint clause of C10); every successful path of both encoders, for collections and models of 0, 1 and 2 elements, emits exactly one well-formed JSON value skeleton, and every non-literal write is JSON by construction — json.Marshal, a json.RawMessage from the decoder, an encoded error (PAIR/emit). Not decided — the core: equality of the rendering with the recursive expansion for every graph; JSON well-formedness beyond the guarded structure; RIDToPath/PathToRID as inverse maps. Added after seeding round 7: cached model/collection values already handed to subscriptions are never written in place, so a pending GET renders a state the cache actually had (DOM/copy-on-write). Added after seeding round 8: no error rewrite distinguishes HEAD from GET (TABLE/method-rewrite). Added after seeding round 9: the path reader refuses dots, so the href writer leaves none (TABLE/href-dots). Added after seeding round 10: OnReady runs its callback at once only for a ready subscription, so a GET is rendered only when everything below the resource is loaded (DOM/onready-inline). Added after seeding round 12: the dot test of the path readers is applied behind the prefix cut (TABLE/dots-after-prefix). Added after seeding round 13: the method taken from the HTTP path is one valid subject token (DOM/method-token). Added after seeding round 13: the path handed to PathToRID / PathToRIDAction comes from the escaped request path, so parts are split before they are unescaped (DOM/raw-path). PAIR/respond-once: see C17. Added after the mutation sweep: the comparisons that sort a meta status into redirect / error / no-direct-response flip at the class borders, evaluated over 0..699 (TABLE/status-classes).",
		Assumptions: baseAssumptions,
		Rules: []Rule{
			{Name: "TABLE/status-classes", Min: 4, Run: ruleStatusClasses, Doc: "every ordered comparison of a meta status with a constant flips exactly at a class border (300, 400, 500, 600)"},
			{Name: "PAIR/respond-once", Min: 3, Run: ruleRespondOnce, Doc: "an HTTP exchange is answered at most once"},
			{Name: "DOM/raw-path", Min: 1, Run: ruleRawPath, Doc: "the request path split into resource-id parts is the escaped one (URL.RawPath / EscapedPath)"},
			{Name: "DOM/method-token", Min: 1, Run: ruleMethodToken, Doc: "the method name taken from an HTTP path is validated as one subject token before the call"},
			{Name: "TABLE/dots-after-prefix", Min: 2, Run: ruleDotsAfterPrefix, Doc: "the dot test of the HTTP path readers looks at the part behind the api prefix, so every configured prefix works"},
			{Name: "DOM/onready-inline", Min: 1, Run: ruleOnReadyInline, Doc: "OnReady runs its callback at once only for a ready subscription (everything below it loaded)"},
			{Name: "TABLE/href-dots", Min: 1, Run: ruleHrefDots, Doc: "the path reader refuses dots, so the href writer leaves none: every id-derived piece passes the . to / replacement"},
			{Name: "TABLE/method-rewrite", Min: 2, Run: ruleMethodRewrite, Doc: "HEAD is answered exactly as GET: no error rewrite applies to one and not the other"},
			{Name: "DOM/copy-on-write", Min: 1, Run: ruleCopyOnWrite, Doc: "the content a pending GET renders is the cached state of some moment: cached model/collection values already handed to subscriptions are never written in place"},
			{Name: "PAIR/loaded-handover", Min: 1, Run: rulePairLoaded, Doc: "a repeated Loaded does not re-read the resource after its ready-callbacks were consumed (a reference still loading would be rendered)"},
			{Name: "PAIR/enc-path", Min: 1, Run: ruleEncoder, Doc: "expansion path balance, cycle guard, HEAD==GET"},
			{Name: "TWIN/encode-value", Min: 1, Run: ruleEncodeValueTwin, Doc: "value kind dispatch of both encoders"},
			{Name: "REC/census", Min: 4, Run: ruleRec, Doc: "encoder recursion is a listed cycle"},
			{Name: "PAIR/rpc-resources", Min: 2, Run: ruleRPCResources, Doc: "the graph is rendered while its snapshot is held: hand-over before release"},
			{Name: "PAIR/emit", Min: 2, Run: ruleEmit, Doc: "every successful encoder path emits one well-formed JSON value skeleton"},
		},
	})

	register(&Property{
		ID: "C17", Title: "HTTP status mapping, service meta limits and CORS allow-list",
		Explanation: "Decides completely the finite tables: errorStatus maps each code of the property's table (and five other codes) to the stated status, by constant propagation with the code fixed (TABLE/errorStatus); IsDirectResponseStatus and IsValidStatus are true exactly within 300..599, with the nil cases (TABLE/status-interval); MergeHeader never copies the five protected keys, each canonical, appends Set-Cookie and replaces other keys (TABLE/protected); every meta a decoder hands out was canonicalised (DOM/canonicalize); on a direct-response status no further service request is issued and no data is handed out (DOM/gates); the origin check precedes header auth and every service request (DOM/origin); the error-to-status table is closed: every code errorStatus tells apart, and any other, maps to the listed status or 400 (TABLE/errorStatus). Not decided: matchesOrigins for all strings, net/http and gorilla behaviour. Added after seeding round 7: an error is replaced by methodNotAllowed only on paths that excluded GET, HEAD and POST, so methodNotFound keeps its 404 there (TABLE/method-rewrite). Added after seeding round 8: merging two service metas takes the later status on every path (DOM/meta-merge). Added after seeding round 9: the header-auth answer's meta is kept whenever the request goes on, so its cookies accumulate with the later ones (DOM/auth-meta-kept). Added after seeding round 10: the upgrader's origin test is set only where the service's upgrader is built (DOM/origin). Added after seeding round 11: the origin \"null\" is recognised on the header value as received (DOM/null-origin-raw). Added after the mutation sweep: no path of a handler or response continuation answers twice (PAIR/respond-once). Added after the mutation sweep: a direct-response meta status of the access answer ends an HTTP request before its grants are looked at (DOM/direct-status-first). TABLE/status-classes: see C16.",
		Assumptions: baseAssumptions,
		Rules: []Rule{
			{Name: "TABLE/status-classes", Min: 4, Run: ruleStatusClasses, Doc: "a meta status is sorted into its class at the class borders"},
			{Name: "DOM/direct-status-first", Min: 1, Run: ruleDirectStatusFirst, Doc: "in the continuations of HTTP access requests CanGet/CanCall are evaluated only behind IsDirectResponseStatus() == false"},
			{Name: "PAIR/respond-once", Min: 3, Run: ruleRespondOnce, Doc: "every path of every function holding the ResponseWriter produces at most one response (helper, upgrade, or own status/body)"},
			{Name: "DOM/null-origin-raw", Min: 2, Run: ruleNullOriginRaw, Doc: "the null origin that bypasses the allow-list is recognised on the header value as received, not after case folding"},
			{Name: "DOM/auth-meta-kept", Min: 1, Run: ruleAuthMetaKept, Doc: "the header-auth answer's meta (headers, cookies) is kept whenever the request goes on"},
			{Name: "DOM/meta-merge", Min: 1, Run: ruleMetaMerge, Doc: "merging two service metas hands the later status over on every path"},
			{Name: "TABLE/method-rewrite", Min: 2, Run: ruleMethodRewrite, Doc: "an error is replaced by methodNotAllowed only for request methods other than GET, HEAD, POST (methodNotFound keeps its 404 there)"},
			{Name: "TABLE/errorStatus", Min: 7, Run: ruleErrorStatus, Doc: "error code to status table"},
			{Name: "TABLE/status-interval", Min: 1, Run: ruleStatusInterval, Doc: "meta status window 300..599"},
			{Name: "TABLE/protected", Min: 3, Run: ruleProtectedHeaders, Doc: "protected headers, Set-Cookie accumulation"},
			{Name: "DOM/canonicalize", Min: 1, Run: ruleCanonicalize, Doc: "decoders canonicalise every meta they return"},
			{Name: "DOM/gates", Min: 2, Run: ruleGates, Doc: "direct-response status ends the request"},
			{Name: "DOM/origin", Min: 1, Run: ruleOrigin, Doc: "origin check before header auth and service requests"},
			{Name: "DOM/ascii-fold", Min: 1, Run: ruleASCIIFold, Doc: "allow-list comparison folds ASCII case only"},
		},
	})

	register(&Property{
		ID: "C18", Title: "Messaging adapter contract: one completion per request, ordered events",
		Explanation: "Decides for nats/nats.go: every path of SendRequest consumes the completion exactly once (three immediate-error goroutines or the pending entry) (LIN/sendrequest); every invocation of a request completion is preceded by the removal of its pending entry in the critical section of the lookup, a pre-response removes and completes nothing, event callbacks are invoked synchronously in publish order (PATHS/remove-before-invoke); the subject length is checked against the control-line limit before ChanSubscribe/PublishRequest; NoReconnect and the closed handler are installed, one listener goroutine; no deferred closure captures the listener's loop variable (DOM/loopvar); the only method called on a nats.go subscription is Unsubscribe — no delivery limit that a pre-response could use up (DOM/nats-plumbing). Not decided: timing of timeouts and their restart, disconnect detection by nats.go. Added after seeding round 7: whoever removes a found pending request from the map completes it on every path (PATHS/remove-before-invoke). Added after seeding round 9: the closed handler is registered with the connection unconditionally (DOM/nats-plumbing). Added after seeding round 10: completions are invoked with the adapter's mutex released (PATHS/remove-before-invoke). Added after seeding round 11: the length test that refuses a request with system.subjectTooLong measures the subject and the very inbox string that is sent (DOM/control-line-parts). Added after seeding round 12: the listener takes a message for a pre-response exactly when its first byte is an ASCII letter, decided for all 256 values by constant propagation (TABLE/meta-first-byte). Added after the mutation sweep (the repository's suite never executes nats/nats.go): per message at most one callback, the no-responders completion exactly for an empty 503 message on a request inbox, only request inboxes are forgotten (CONF/nats-listener); failures are reported with an error that is set and success never comes empty-handed (DOM/result-or-error); a valid timeout pre-response stops the running timeout once and, if that succeeded, arms a timer that runs onTimeout (CONF/nats-premeta); Connect/close/Close/onError set up and tear down the adapter's state completely (CONF/nats-lifecycle); looked-up pending entries, first bytes and optional timers are touched only under their guards (DOM/lookup-ok, DOM/const-index, DOM/optional-field); every function leaves the adapter's mutex as it found it and touches the pending map only under it (LOCK/balance, LOCK/guarded-fields). DOM/loop-index: see C15. Added after seeding round 13: only Close and the slow-consumer branch of the error handler reach the shutdown that discards the pending requests (WHO/nats-discard).",
		Assumptions: append([]string{"nats.go delivers at most what was published; timerqueue fires each entry at most once"}, baseAssumptions...),
		Rules: []Rule{
			{Name: "WHO/nats-discard", Min: 2, Run: ruleNatsDiscard, Doc: "the pending map and the timeout queue of the NATS adapter are discarded only through the owner's Close and the slow-consumer shutdown, never by a connection event"},
			{Name: "DOM/loop-index", Min: 0, Run: ruleLoopIndex, Doc: "an element read at the position of a counting loop variable lies behind a test of that variable"},
			{Name: "LOCK/guarded-fields", Min: 40, Run: ruleGuardedFields, Doc: "the pending map, the connection and the timeout queue are touched under the adapter's mutex"},
			{Name: "LOCK/balance", Min: 20, Run: ruleLockBalance, Doc: "every function of the adapter leaves its mutex as it found it"},
			{Name: "DOM/optional-field", Min: 10, Run: ruleOptionalField, Doc: "the extended-timeout timer of a request is stopped only where it exists"},
			{Name: "DOM/const-index", Min: 3, Run: ruleConstIndex, Doc: "the first byte of a message is read only where the message is not empty (the no-responders status message is)"},
			{Name: "DOM/lookup-ok", Min: 3, Run: ruleLookupOK, Doc: "a pending entry looked up for a message or a timeout is dereferenced only where it was found"},
			{Name: "CONF/nats-lifecycle", Min: 4, Run: ruleNatsLifecycle, Doc: "Connect sets up connection, channel, pending map, timeout queue and listener; the closed handler is kept"},
			{Name: "CONF/nats-premeta", Min: 1, Run: ruleNatsPreMeta, Doc: "a valid timeout pre-response stops the running timeout once and, if that succeeded, arms a new one that runs onTimeout"},
			{Name: "DOM/result-or-error", Min: 2, Run: ruleResultOrError, Doc: "SendRequest / Subscribe report failure with an error that is set; success never comes empty-handed"},
			{Name: "CONF/nats-listener", Min: 1, Run: ruleNatsListener, Doc: "one message: at most one callback; the no-responders completion exactly for an empty 503 on a request inbox; only request inboxes are forgotten"},
			{Name: "TABLE/meta-first-byte", Min: 1, Run: ruleMetaFirstByte, Doc: "a message on a request inbox is a pre-response exactly when it starts with an ASCII letter (all 256 first bytes decided)"},
			{Name: "DOM/control-line-parts", Min: 1, Run: ruleControlLineParts, Doc: "the length test in front of a request measures the subject and the reply inbox actually used"},
			{Name: "CTX/async-completion", Min: 1, Run: ruleAsyncCompletion, Doc: "the completion of a request never runs on the sender's stack (senders hold their own mutex)"},
			{Name: "LIN/sendrequest", Min: 1, Run: ruleLIN(func(t linTarget) bool { return t.name == "nats.Client.SendRequest" }), Doc: "every path of SendRequest consumes the completion exactly once"},
			{Name: "PATHS/remove-before-invoke", Min: 1, Run: ruleNatsRemoveBeforeInvoke, Doc: "pending entry removed under the lookup's lock before the completion runs"},
			{Name: "DOM/nats-plumbing", Min: 2, Run: ruleNatsPlumbing, Doc: "control-line guards, one listener, closed handler"},
			{Name: "DOM/loopvar", Min: 0, Run: ruleLoopVar("nats"), Doc: "deferred closures capture no shared loop variable"},
			{Name: "WHO/mqreqs", Min: 1, Run: ruleWho([]whoEntry{
				{Field: "nats.Client.mqReqs", Writers: w("(*nats.Client).Connect", "fresh map", "(*nats.Client).close", "fresh map")},
			}), Doc: "pending map replaced only on connect/close"},
		},
	})

	register(&Property{
		ID: "C19", Title: "Throttles bound outstanding requests and never stall",
		Explanation: "Decides: running++ only below the limit under the throttle mutex, Done on every non-panic path either decrements or hands the slot to the head of the queue, FIFO (DOM/throttle, FIFO/queues) — so running <= limit is inductive and no slot is lost; each governed closure calls Done exactly once on every continuation path and outside any task the connection may refuse (PAIR/throttle-slot); no zero-limit throttle is created (DOM/limit-positive); throttled and unthrottled twins agree (covered by the same path rules on both); a subscription keeps the throttle of the tree it was loaded in until it is disposed or its loading failed (WHO/throttle). Not decided: the number of outstanding requests as a runtime quantity; global progress under arbitrary answer orders beyond 'every completion frees or hands over exactly one slot'. Added after seeding round 7: every combinator between Throttle.Add and the Done of a governed request invokes its continuation on every path — also for a disposing connection (PAIR/throttle-slot, strict hops). Added after seeding round 8: with a positive limit the throttle is created on every path — no estimate of the fan-out lets governed requests out unthrottled (DOM/throttle). Added after seeding round 10: the throttle's capacity decision and its consequence (queue the closure / take the slot) lie in one critical section (DOM/throttle). Added after seeding round 13: the throttle handed down the subscribe / reset call chains is the one received, on every path (PROV/throttle-through).",
		Assumptions: append([]string{"C18: each governed request completes"}, baseAssumptions...),
		Rules: []Rule{
			{Name: "PROV/throttle-through", Min: 5, Run: ruleThrottleThrough, Doc: "a function that is given a throttle hands on that throttle — never nil on some path — to every callee that takes one"},
			{Name: "LOCK/guarded-fields", Min: 40, Run: ruleGuardedFields, Doc: "the throttle's counter and queue are touched under its mutex only"},
			{Name: "PAIR/access-inflight", Min: 1, Run: ruleAccessInflight, Doc: "one access request per subscription is outstanding at a time (the in-flight flag is raised before the request is sent), so the throttle governs what it is meant to govern"},
			{Name: "DOM/drain-reentrancy", Min: 2, Run: ruleDrainReentrancy, Doc: "a deferred check released from inside an access callback finds the in-flight flag cleared and is sent"},
			{Name: "DOM/invalidate", Min: 1, Run: ruleInvalidate, Doc: "a check deferred because the subscription was busy sends its own request: the verdict is cleared before loadAccess can answer from it"},
			{Name: "PAIR/throttle-slot", Min: 1, Run: rulePairThrottle, Doc: "exactly one Done per governed request"},
			{Name: "DOM/throttle", Min: 1, Run: ruleThrottle, Doc: "Add/Done invariant; positive limit at both creation sites"},
			{Name: "FIFO/queues", Min: 1, Run: ruleFIFO("rescache.Throttle.queue"), Doc: "waiting closures started in order"},
			{Name: "WHO/throttle", Min: 1, Run: ruleWho([]whoEntry{
				{Field: "rescache.Throttle.running", Writers: w("(*rescache.Throttle).Add", "slot taken", "(*rescache.Throttle).Done", "slot freed")},
				{Field: "rescache.Throttle.limit", Writers: w("rescache.NewThrottle", "constructor")},
				{Field: "server.Subscription.throttle", Writers: w("server.NewSubscription", "the throttle of the subscription tree it is loaded in", "(*server.Subscription).doneLoading", "dropped when loading failed", "(*server.Subscription).Dispose", "dropped with the subscription")},
			}), Doc: "who may write running / limit"},
		},
	})

	register(&Property{
		ID: "C20", Title: "Fail-stop on messaging loss or Stop, with all clients disconnected",
		Explanation: "Decides: Stop runs metrics, sockets, HTTP, messaging in this order on the one path that is not a repeated Stop, sets stopping under the mutex first and reports the cause on the stop channel last; the messaging client is closed with a bounded wait before the cache stops; Cache.Stop closes the worker channel, clears pending evictions and resets started; no connection is created or registered once stopped or stopping; loss of the messaging connection stops the service with the cause (DOM/stop); sends on inCh cannot hit the close (CHAN: known finding F5); a connection reports itself done to Stop (wg.Done) only after it released its cache and messaging resources (DOM/dispose). Not decided: that sockets are closed within the timeouts, net/http shutdown, 'never serves from a stale cache' as a runtime fact. Added after seeding round 7: no mutex is re-acquired while held, directly or by a task the holder waits for (LOCK/order with synchronous hand-offs): Stop cannot deadlock on its own lock. Added after seeding round 9: the cause is put on the stop channel inside the critical section that returns the service to not-running, so Start/Stop can be repeated (DOM/stop). Added after seeding round 10: close stops the listener and clears the pending timeouts whenever the adapter was connected, also when the connection is already closed (DOM/nats-plumbing). Added after seeding round 12: the HTTP server object is created by startHTTPServer and cleared by stopHTTPServer only — a server that was shut down is never started again (WHO/stop). Added after the mutation sweep: close tears the adapter down completely whenever it was connected and does nothing otherwise, Close waits for the listener, a slow-consumer error closes the connection, the closed handler is kept (CONF/nats-lifecycle); mutexes are balanced on every path and the service's, cache's and adapter's guarded state is touched under its mutex (LOCK/balance, LOCK/guarded-fields); optional pointers are used under their nil test (DOM/optional-field). Added after the mutation sweep: Stop goes ahead only for a running, not-stopping service; a failed Start is cleaned up by Stop; startMQClient succeeds only connected, with the cache started and the closed handler installed; the done signal of stopMQClient follows the Close; the cache is started/torn down exactly with its flag; a started HTTP server is recorded, shut down and forgotten; the wait for connections runs on its own goroutine; a refused connection is not used (CONF/service-lifecycle).",
		Assumptions: baseAssumptions,
		Rules: []Rule{
			{Name: "CONF/service-lifecycle", Min: 8, Run: ruleServiceLifecycle, Doc: "Stop's guard, clean-up after a failed Start, the messaging client's start and stop, the cache's and the HTTP server's start/stop pairing, the wait for connections raced against its timeout, refused connections not used"},
			{Name: "DOM/optional-field", Min: 10, Run: ruleOptionalField, Doc: "a Stop without (or after) a Start dereferences no nil connection or server"},
			{Name: "LOCK/guarded-fields", Min: 40, Run: ruleGuardedFields, Doc: "the stopping flag, the stop channel, the connection registry and the HTTP server are touched under the service mutex: a connection is not admitted by a test of stale state while Stop runs"},
			{Name: "LOCK/balance", Min: 20, Run: ruleLockBalance, Doc: "Stop, Start and the teardown helpers leave every mutex as they found it: no path of the shutdown blocks for ever"},
			{Name: "CONF/nats-lifecycle", Min: 4, Run: ruleNatsLifecycle, Doc: "close tears everything down whenever the adapter was connected; Close waits for the listener; a slow consumer closes the connection (fail-stop); the closed handler is kept"},
			{Name: "LOCK/order", Min: 2, Run: ruleLockOrder, Doc: "Stop completes: no lock is re-acquired, directly or by a task it waits for, while it is held (mutex acquisition graph acyclic, synchronous hand-offs included)"},
			{Name: "DOM/nats-plumbing", Min: 2, Run: ruleNatsPlumbing, Doc: "every loss of the server connection reaches the closed handler (which stops the service)"},
			{Name: "DOM/dispose", Min: 3, Run: ruleDispose, Doc: "a connection reports itself done to Stop only after it released everything it holds in the cache and the messaging client"},
			{Name: "DOM/stop", Min: 3, Run: ruleStop, Doc: "ordered shutdown, cache clean-up, refusal of new connections, closed-handler plumbing"},
			{Name: "CHAN/close-send", Min: 3, Run: ruleChan, Doc: "no send on a closed channel at shutdown"},
			{Name: "WHO/stop", Min: 2, Run: ruleWho([]whoEntry{
				{Field: "server.Service.stopping", Writers: w("(*server.Service).Stop", "shutdown flag")},
				{Field: "server.Service.stop", Writers: w("(*server.Service).Stop", "cleared", "(*server.Service).start", "re-created")},
				{Field: "rescache.Cache.started", Writers: w("(*rescache.Cache).Start", "set", "(*rescache.Cache).Stop", "cleared")},
				{Field: "rescache.Cache.inCh", Writers: w("(*rescache.Cache).Start", "re-created per start")},
				{Field: "rescache.Cache.eventSubs", Writers: w("(*rescache.Cache).Start", "the cache index is re-created per start: nothing cached survives a stop")},
				{Field: "rescache.Cache.unsubQueue", Writers: w("(*rescache.Cache).Start", "re-created per start")},
				{Field: "server.Service.h", Writers: w("(*server.Service).startHTTPServer", "a fresh http.Server per start: one that was shut down cannot serve again", "(*server.Service).stopHTTPServer", "cleared")},
			}), Doc: "who may write the lifecycle flags"},
		},
	})
}
