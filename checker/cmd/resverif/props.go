package main

func init() {
	register(&Property{
		ID:    "C07",
		Title: "Exactly one response per client request",
		Explanation: "Decides (all paths, all schedules): rpc.HandleRequest performs exactly one Reply on every dispatched path, directly or through a handler continuation; every continuation parameter of the handlers and combinators (table in combs.go) is consumed exactly once on every full path (call, delegation to another linear function, or parked in a pending slot); pending slots are cleared only after draining. Does not decide: liveness (that a parked continuation is eventually run), the readyCallback.loading countdown arithmetic.",
		Assumptions: []string{"mq.Client.SendRequest completes exactly once (C18)", "a continuation refused by wsConn.Enqueue because the connection is disposing is an accepted drop"},
		Rules: []Rule{
			{Name: "LIN/reply", Min: 1, Run: ruleReply, Doc: "HandleRequest: exactly one Reply per dispatched request; Reply called from nowhere else"},
			{Name: "LIN/continuations", Min: 25, Run: ruleLIN(nil), Doc: "every linear continuation parameter is consumed exactly once on every full path"},
			{Name: "LIN/drain", Min: 4, Run: ruleDrain, Doc: "pending callback slots are cleared only after draining, or when the connection is gone"},
		},
	})
}

func init() {
	register(&Property{
		ID:    "C08",
		Title: "Direct subscription accounting; failed requests leave nothing behind",
		Explanation: "Decides: on every continuation path of every function that takes a direct subscription (c.Subscribe(rid, true, _)), the count is released exactly once on every failure, on every outcome of get-type handlers, and kept exactly on the success of subscribe-type handlers; a subscription whose Subscribe failed is never released. Does not decide: numeric equality of the counter with the response history.",
		Assumptions: []string{"LIN (C07): every handler replies exactly once", "a task refused by a disposing connection needs no release (dispose releases everything)"},
		Rules: []Rule{
			{Name: "PAIR/direct-count", Min: 4, Run: rulePairDirect, Doc: "acquire/release of the direct count along every continuation path"},
		},
	})
	register(&Property{
		ID:    "C09",
		Title: "Cache entry lifecycle",
		Explanation: "Decides: use-count pairing (getSubscription counts one use on success and none on error; callers release or hand over exactly once; a count is released iff a membership was removed; bulk releases equal the set dropped). Does not decide: eviction delay, gauges at quiescence.",
		Rules: []Rule{
			{Name: "PAIR/cache-count", Min: 3, Run: rulePairCacheCount, Doc: "getSubscription / sendRequest / Subscribe use count pairing"},
			{Name: "PAIR/membership", Min: 3, Run: rulePairMembership, Doc: "count released iff a membership was removed"},
			{Name: "PAIR/loaded-handover", Min: 1, Run: rulePairLoaded, Doc: "late Loaded releases the cache use"},
		},
	})
	register(&Property{
		ID:    "C19",
		Title: "Throttles bound outstanding requests and never stall",
		Explanation: "Decides: one Done per governed request on every path, outside refusable tasks.",
		Rules: []Rule{
			{Name: "PAIR/throttle-slot", Min: 3, Run: rulePairThrottle, Doc: "exactly one Done per governed request"},
		},
	})
}

var subStateNames = map[int64]string{0: "stateDisposed", 1: "stateLoading", 2: "stateLoaded", 3: "stateReady", 4: "stateToSend", 5: "stateSent", 6: "stateDeleted"}

func init() {
	register(&Property{
		ID: "C04", Title: "Read access gating",
		Explanation: "tbd",
		Rules: []Rule{
			{Name: "DOM/gates", Min: 5, Run: ruleGates, Doc: "data hand-out / call only after the matching grant on the same path"},
			{Name: "TABLE/access", Min: 2, Run: ruleAccessTables, Doc: "decision lists of CanGet/CanCall"},
			{Name: "DOM/verdict-store", Min: 2, Run: ruleVerdictStore, Doc: "verdict cached only for result or accessDenied"},
			{Name: "DOM/invalidate", Min: 2, Run: ruleInvalidate, Doc: "cached verdict invalidated on every trigger"},
		},
	})
	register(&Property{
		ID: "C06", Title: "Access revocation",
		Explanation: "tbd",
		Rules: []Rule{
			{Name: "DOM/token-fanout", Min: 1, Run: ruleTokenFanout, Doc: "token change re-checks every subscription"},
			{Name: "DOM/invalidate", Min: 2, Run: ruleInvalidate, Doc: "cached verdict invalidated; gate closed before request"},
			{Name: "DOM/event-gate", Min: 2, Run: ruleEventGate, Doc: "event gate"},
		},
	})
	register(&Property{
		ID: "C01", Title: "Convergence",
		Explanation: "tbd",
		Rules: []Rule{
			{Name: "DOM/version-filter", Min: 3, Run: ruleVersionFilter, Doc: "version filter on delivery"},
			{Name: "DOM/event-gate", Min: 2, Run: ruleEventGate, Doc: "event gate"},
		},
	})
}

func init() {
	register(&Property{
		ID: "C12", Title: "System reset",
		Explanation: "tbd",
		Rules: []Rule{
			{Name: "DOM/reset-protocol", Min: 3, Run: ruleResetProtocol, Doc: "re-fetch once per matching entry with its normalised query; flag protocol"},
			{Name: "CONF/handle-event", Min: 1, Run: ruleHandleEvent, Doc: "derived events go through handleEvent; state events dropped only while resetting"},
		},
	})
	register(&Property{
		ID: "C13", Title: "Query resources",
		Explanation: "tbd",
		Rules: []Rule{
			{Name: "PAIR/query-lock", Min: 2, Run: ruleQueryLock, Doc: "one lock per cached query released exactly once"},
			{Name: "DOM/loopvar", Min: 1, Run: ruleLoopVar("rescache", "server", "nats"), Doc: "deferred closures capture no shared loop variable"},
			{Name: "PAIR/version-bump", Min: 4, Run: ruleVersionBump, Doc: "initial load guarded by the not-loaded test of the same entry"},
			{Name: "PAIR/loaded-handover", Min: 1, Run: rulePairLoaded, Doc: "repeated Loaded ignored"},
		},
	})
	register(&Property{
		ID: "C03", Title: "Ordered delivery",
		Explanation: "tbd",
		Rules: []Rule{
			{Name: "CONF/handle-event", Min: 1, Run: ruleHandleEvent, Doc: "handleEvent conformance"},
			{Name: "PAIR/version-bump", Min: 4, Run: ruleVersionBump, Doc: "version bump"},
			{Name: "DOM/version-filter", Min: 3, Run: ruleVersionFilter, Doc: "version filter on delivery"},
			{Name: "DOM/event-gate", Min: 2, Run: ruleEventGate, Doc: "event gate"},
		},
	})
}

func init() {
	register(&Property{
		ID: "C14", Title: "Subject hygiene",
		Explanation: "tbd",
		Rules: []Rule{
			{Name: "PROV/subject", Min: 10, Run: ruleSubjectProv, Doc: "subjects built from validated parts"},
			{Name: "TABLE/reject-set", Min: 3, Run: ruleRejectSet(rejectSpecs()), Doc: "recognisers reject the excluded characters (constant propagation per character)"},
		},
	})
}

func init() {
	register(&Property{
		ID: "C17", Title: "HTTP status mapping, meta limits, CORS",
		Explanation: "tbd",
		Rules: []Rule{
			{Name: "TABLE/errorStatus", Min: 15, Run: ruleErrorStatus, Doc: "error code to status table, by constant propagation per code"},
			{Name: "TABLE/status-interval", Min: 2, Run: ruleStatusInterval, Doc: "meta status window 300..599"},
			{Name: "TABLE/protected", Min: 7, Run: ruleProtectedHeaders, Doc: "protected headers, Set-Cookie accumulation"},
			{Name: "DOM/canonicalize", Min: 2, Run: ruleCanonicalize, Doc: "decoders canonicalise every meta they return"},
		},
	})
}

func init() {
	register(&Property{
		ID: "C15", Title: "Crash freedom and containment of malformed input",
		Explanation: "tbd",
		Rules: []Rule{
			{Name: "DOM/all-or-nothing", Min: 10, Run: ruleDecoders, Doc: "decoders return no data with an error"},
			{Name: "DOM/index-kind-guard", Min: 8, Run: ruleIndexKindGuards, Doc: "decoded indexes bounded; content of the right kind"},
			{Name: "DOM/opt-deref", Min: 8, Run: ruleOptDeref, Doc: "optional decoded pointers dereferenced under their test"},
			{Name: "CENSUS/panic", Min: 6, Run: rulePanicCensus, Doc: "explicit panics and unchecked assertions are the listed ones"},
		},
	})
	register(&Property{
		ID: "C16", Title: "HTTP resources are a faithful, finite rendering",
		Explanation: "tbd",
		Rules: []Rule{
			{Name: "PAIR/enc-path", Min: 3, Run: ruleEncoder, Doc: "expansion path balance, cycle guard, HEAD==GET"},
		},
	})
}

func init() {
	register(&Property{
		ID: "C18", Title: "Messaging adapter contract",
		Explanation: "tbd",
		Rules: []Rule{
			{Name: "LIN/sendrequest", Min: 1, Run: ruleLIN(func(t linTarget) bool { return t.name == "nats.Client.SendRequest" }), Doc: "every path of SendRequest consumes the completion exactly once"},
			{Name: "PATHS/remove-before-invoke", Min: 2, Run: ruleNatsRemoveBeforeInvoke, Doc: "pending entry removed under the lookup's lock before the completion runs"},
			{Name: "DOM/nats-plumbing", Min: 5, Run: ruleNatsPlumbing, Doc: "control-line guards, one listener, closed handler"},
			{Name: "DOM/loopvar", Min: 0, Run: ruleLoopVar("nats"), Doc: "deferred closures capture no shared loop variable"},
		},
	})
	register(&Property{
		ID: "C20", Title: "Fail-stop on messaging loss or Stop",
		Explanation: "tbd",
		Rules: []Rule{
			{Name: "DOM/stop", Min: 6, Run: ruleStop, Doc: "ordered shutdown, cache clean-up, refusal of new connections, closed-handler plumbing"},
		},
	})
	register(&Property{
		ID: "C11", Title: "Disconnect cleanup at any moment",
		Explanation: "tbd",
		Rules: []Rule{
			{Name: "DOM/dispose", Min: 6, Run: ruleDispose, Doc: "dispose set; refusal after close; Subscription.Dispose"},
			{Name: "CTX/post-dispose", Min: 3, Run: rulePostDispose, Doc: "no request from a continuation of a disposed connection"},
			{Name: "LIN/temp-conn", Min: 1, Run: ruleTempConn, Doc: "temporary HTTP connections disposed exactly once"},
			{Name: "PAIR/loaded-handover", Min: 1, Run: rulePairLoaded, Doc: "late Loaded releases the cache use"},
			{Name: "DOM/verdict-store", Min: 2, Run: ruleVerdictStore, Doc: "late access answers absorbed"},
			{Name: "PAIR/throttle-slot", Min: 3, Run: rulePairThrottle, Doc: "a refused task does not strand a throttle slot"},
		},
	})
}

func init() {
	register(&Property{
		ID: "C02", Title: "Every message is applicable",
		Explanation: "tbd",
		Rules: []Rule{
			{Name: "TYPESTATE/sub-state", Min: 10, Run: ruleStateTable("server.Subscription.state", subStateNames, subStateTable), Doc: "who may move a subscription into which state"},
			{Name: "PAIR/rpc-resources", Min: 5, Run: ruleRPCResources, Doc: "populate, send, release"},
			{Name: "DOM/ref-shapes", Min: 5, Run: ruleRefShapes, Doc: "ReleaseRPCResources / populateResources / removeCount / tryDelete shapes"},
			{Name: "PROV/sent-flag", Min: 2, Run: ruleSentFlag, Doc: "sent-ness read before the state is overwritten"},
			{Name: "PAIR/edge-sent-once", Min: 3, Run: ruleEdgeSentOnce, Doc: "indirectsent raised once per created edge"},
			{Name: "PAIR/snapshot-current", Min: 1, Run: ruleSnapshotCurrent, Doc: "re-sendable resource has a current snapshot and a closed gate"},
			{Name: "DOM/index-kind-guard", Min: 8, Run: ruleIndexKindGuards, Doc: "no stray kind / index"},
			{Name: "DOM/event-gate", Min: 2, Run: ruleEventGate, Doc: "no event before hand-over"},
		},
	})
}

func init() {
	register(&Property{
		ID: "C05", Title: "Call gating and token currency",
		Explanation: "tbd",
		Rules: []Rule{
			{Name: "DOM/gates", Min: 5, Run: ruleGates, Doc: "call forwarded only after the matching grant, with the checked action"},
			{Name: "TABLE/access", Min: 2, Run: ruleAccessTables, Doc: "decision list of CanCall"},
			{Name: "DOM/invalidate", Min: 2, Run: ruleInvalidate, Doc: "verdict invalidated on every trigger"},
			{Name: "PROV/token-cid", Min: 10, Run: ruleTokenCID, Doc: "requests carry the connection's own id and current token"},
		},
	})
	register(&Property{
		ID: "C10", Title: "Connection isolation",
		Explanation: "tbd",
		Rules: []Rule{
			{Name: "PROV/token-cid", Min: 10, Run: ruleTokenCID, Doc: "requests carry the connection's own id and current token"},
			{Name: "PROV/cid-taint", Min: 15, Run: ruleCIDTaint, Doc: "expanded names never reach client-facing sinks"},
		},
	})
}

func init() {
	register(&Property{
		ID: "CTX", Title: "scratch: context rules",
		Rules: []Rule{
			{Name: "CTX/conn", Min: 1, Run: ruleConfinement},
			{Name: "CTX/guarded-by", Min: 1, Run: ruleGuardedBy},
		},
	})
}

func init() {
	register(&Property{
		ID: "MISC", Title: "scratch: misc rules",
		Rules: []Rule{
			{Name: "CHAN/close-send", Min: 1, Run: ruleChan},
			{Name: "FIFO/queues", Min: 1, Run: ruleFIFO("server.Subscription.eventQueue", "server.wsConn.queue", "rescache.EventSubscription.queue", "rescache.EventSubscription.locks", "rescache.Throttle.queue")},
			{Name: "REC/census", Min: 1, Run: ruleRec},
			{Name: "LOCK/order", Min: 1, Run: ruleLockOrder},
		},
	})
}
