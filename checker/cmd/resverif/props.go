package main

func init() {
	register(&Property{
		ID:    "C07",
		Title: "Exactly one response per client request",
		Explanation: "Decides (all paths, all schedules): rpc.HandleRequest performs exactly one Reply on every dispatched path, directly or through a handler continuation; every continuation parameter of the handlers and combinators (table in combs.go) is consumed exactly once on every full path (call, delegation to another linear function, or parked in a pending slot); pending slots are cleared only after draining. Does not decide: liveness (that a parked continuation is eventually run), the readyCallback.loading countdown arithmetic.",
		Assumptions: []string{"mq.Client.SendRequest completes exactly once (C18)", "a continuation refused by wsConn.Enqueue because the connection is disposing is an accepted drop"},
		Rules: []Rule{
			{Name: "LIN/reply", Min: 1, Run: ruleReply, Doc: "HandleRequest: exactly one Reply per dispatched request; Reply called from nowhere else"},
			{Name: "LIN/continuations", Min: 25, Run: ruleLIN(nil), Doc: "every linear continuation parameter is consumed exactly once on every full path"},
			{Name: "LIN/drain", Min: 4, Run: ruleDrain, Doc: "pending callback slots are cleared only after draining, or when the connection is gone"},
		},
	})
}
