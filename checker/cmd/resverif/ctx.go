package main

import (
	"fmt"
	"go/types"
	"sort"
	"strings"
	"sync"

	"golang.org/x/tools/go/ssa"
)

// ---------------------------------------------------------------------------
// CTX: execution-context analysis. Every repository function gets the set of
// contexts (goroutine kinds) it may run in; contexts enter at the roots and
// at closures handed to combinators, and flow along static calls and
// resolved interface calls — never through the dispatch of queued closures.
// ---------------------------------------------------------------------------

type ctxSet uint16

const (
	ctxCONN  ctxSet = 1 << iota // connection worker task
	ctxCACHE                    // cache worker task (EventSubscription.mu held)
	ctxMQ                       // messaging goroutines (completions, event handlers, closed handler)
	ctxHTTP                     // net/http handler goroutines
	ctxGO                       // fresh goroutine started with `go`
	ctxTIMER                    // timerqueue / time.AfterFunc callback
	ctxAPI                      // exported entry points, main, init
)

func (s ctxSet) String() string {
	var out []string
	for i, n := range []string{"CONN", "CACHE", "MQ", "HTTP", "GO", "TIMER", "API"} {
		if s&(1<<uint(i)) != 0 {
			out = append(out, n)
		}
	}
	if len(out) == 0 {
		return "unreached"
	}
	return strings.Join(out, "|")
}

// how a closure passed at (callee, arg) runs: fixed contexts, plus optionally
// the caller's contexts (when it may run inline).
type ctxRule struct {
	Fn     string
	Arg    int
	Ctx    ctxSet
	Inline bool // also runs in the caller's context
}

var ctxRules = []ctxRule{
	{"server.wsConn.Enqueue", 1, ctxCONN, false},
	{"server.ConnSubscriber.Enqueue", 1, ctxCONN, false},
	{"server.wsConn.enqueue", 1, ctxCONN, false},
	{"rescache.EventSubscription.Enqueue", 1, ctxCACHE, false},
	{"rescache.EventSubscription.enqueueUnlock", 1, ctxCACHE, false},
	{"server.Subscription.OnReady", 1, ctxCONN, true},
	{"server.Subscription.CanGet", 1, ctxCONN, true},
	{"server.Subscription.CanCall", 2, ctxCONN, true},
	{"server.Subscription.loadAccess", 1, ctxCONN, true},
	{"server.wsConn.Access", 2, ctxCACHE, false},
	{"server.ConnSubscriber.Access", 2, ctxCACHE, false},
	{"rescache.Cache.Access", 4, ctxCACHE, false},
	{"rescache.Cache.Call", 8, ctxCACHE, false},
	{"rescache.Cache.Auth", 8, ctxCACHE, false},
	{"rescache.Cache.CustomAuth", 6, ctxMQ, false},
	{"rescache.Cache.sendRequest", 4, ctxCACHE, false},
	{"mq.Client.SendRequest", 3, ctxMQ, false},
	{"nats.Client.SendRequest", 3, ctxMQ | ctxGO, false},
	{"mq.Client.Subscribe", 2, ctxMQ, false},
	{"nats.Client.Subscribe", 2, ctxMQ, false},
	{"rescache.Throttle.Add", 1, ctxGO, true},
	{"server.Service.temporaryConn", 3, ctxCONN, false},
	{"mq.Client.SetClosedHandler", 1, ctxMQ, false},
	{"nats.Client.SetClosedHandler", 1, ctxMQ, false},
	{"server.Service.SetOnWSClose", 1, ctxHTTP, false},
	{"server.Service.SetOnUnsubscribe", 1, ctxTIMER, false},
	{"rescache.Cache.SetOnUnsubscribe", 1, ctxTIMER, false},
	{"server.RegisterAPIEncoderFactory", 1, ctxAPI, false},
	// handlers: the continuation runs where the handler's combinators run it (CONN), or inline
	{"rpc.Requester.GetResource", 2, ctxCONN, true},
	{"rpc.Requester.SubscribeResource", 2, ctxCONN, true},
	{"rpc.Requester.UnsubscribeResource", 3, 0, true},
	{"rpc.Requester.CallResource", 4, ctxCONN, true},
	{"rpc.Requester.AuthResource", 4, ctxCONN, true},
	{"rpc.Requester.NewResource", 3, ctxCONN, true},
	{"server.wsConn.GetResource", 2, ctxCONN, true},
	{"server.wsConn.SubscribeResource", 2, ctxCONN, true},
	{"server.wsConn.UnsubscribeResource", 3, 0, true},
	{"server.wsConn.CallResource", 4, ctxCONN, true},
	{"server.wsConn.AuthResource", 4, ctxCONN, false},
	{"server.wsConn.NewResource", 3, ctxCONN, true},
	{"server.wsConn.call", 4, ctxCONN, true},
	{"server.wsConn.handleCallAuthResponse", 4, ctxCONN, true},
	{"server.wsConn.handleResourceResult", 2, ctxCONN, true},
	{"server.wsConn.GetHTTPSubscription", 2, ctxCONN, true},
	{"server.wsConn.CallHTTPResource", 4, ctxCONN, false},
	{"server.wsConn.AuthResourceNoResult", 4, ctxCONN, false},
	{"server.Subscription.traverse", 2, 0, true},
	{"rescache.Cache.forEachMatch", 2, 0, true},
}

type ctxInfo struct {
	ctx     map[*ssa.Function]ctxSet
	why     map[*ssa.Function]string
	missing []string
}

// contexts computes the context sets (cached on the Prog).
func (p *Prog) contexts() *ctxInfo {
	if p.ctxCache != nil {
		return p.ctxCache
	}
	ci := &ctxInfo{ctx: map[*ssa.Function]ctxSet{}, why: map[*ssa.Function]string{}}
	p.ctxCache = ci
	rules := map[*types.Func]map[int]ctxRule{}
	for _, r := range ctxRules {
		f := p.lookupFunc(r.Fn)
		if f == nil {
			// a rule that only says "runs in its caller's context" states the default for a function the
			// call graph sees through: losing it (the visitor was replaced by another construction) loses nothing
			if !(r.Ctx == 0 && r.Inline) {
				ci.missing = append(ci.missing, r.Fn)
			}
			continue
		}
		if rules[f] == nil {
			rules[f] = map[int]ctxRule{}
		}
		rules[f][fixArg(f, r.Arg)] = r
	}
	add := func(f *ssa.Function, c ctxSet, why string) bool {
		if f == nil || c == 0 {
			return false
		}
		old := ci.ctx[f]
		if old|c == old {
			return false
		}
		ci.ctx[f] = old | c
		if ci.why[f] == "" || old&c != c {
			ci.why[f] += fmt.Sprintf("[%s via %s] ", c&^old, why)
		}
		return true
	}
	// roots
	for _, f := range p.Repo {
		if f.Parent() != nil {
			continue
		}
		name := fnName(f)
		switch {
		case name == "(*server.Service).ServeHTTP" || name == "(*server.Service).wsHandler" || name == "(*server.Service).apiHandler" || name == "(*server.Service).metricsHandler":
			add(f, ctxHTTP, "http root")
		case strings.HasSuffix(name, ".main") || strings.HasSuffix(name, ".init") || strings.Contains(name, ".init#"):
			add(f, ctxAPI, "program entry")
		case name == "(*server.Service).Start" || name == "(*server.Service).Stop" || name == "server.NewService" || name == "(*server.Service).SetLogger" ||
			name == "(*server.Service).StopChannel" || name == "(*server.Service).GetWSHandlerFunc" || name == "(*server.Service).SetOnWSClose" || name == "(*server.Service).SetOnUnsubscribe":
			add(f, ctxAPI, "exported entry point")
		case name == "(*nats.Client).onClose" || name == "(*nats.Client).onError":
			add(f, ctxMQ, "nats.go callback")
		}
	}
	// worker loops and their dispatch define contexts but carry none themselves
	special := map[string]ctxSet{
		"(*server.wsConn).outputWorker":   ctxCONN,
		"(*rescache.Cache).startWorker":   ctxCACHE,
		"(*nats.Client).listener":         ctxMQ,
		"(*nats.Client).onTimeout":        ctxTIMER,
		"(*rescache.Cache).mqUnsubscribe": ctxTIMER,
	}
	specialFn := map[*ssa.Function]bool{}
	for n, c := range special {
		add(p.Fn(n), c, "worker/timer root")
		if f := p.Fn(n); f != nil {
			specialFn[f] = true
		}
	}
	// closure -> context by the combinator it is handed to
	closureArg := func(v ssa.Value) *ssa.Function {
		switch x := stripConv(v).(type) {
		case *ssa.MakeClosure:
			return x.Fn.(*ssa.Function)
		case *ssa.Function:
			return x
		}
		return nil
	}
	closuresOf := func(v ssa.Value, depth int) []*ssa.Function { return p.closuresHeld(v, depth) }
	for changed := true; changed; {
		changed = false
		for _, f := range p.Repo {
			cur := ci.ctx[f]
			for _, in := range instrsOf(f) {
				call, ok := in.(ssa.CallInstruction)
				if !ok {
					continue
				}
				com := call.Common()
				_, isGo := in.(*ssa.Go)
				_, isDefer := in.(*ssa.Defer)
				_ = isDefer
				callee := calleeFunc(com)
				args := callArgs(com)
				// closures handed to combinators
				if callee != nil {
					if rs, ok := rules[callee]; ok {
						for i, a := range args {
							r, has := rs[i]
							if !has {
								continue
							}
							if cf := closureArg(a); cf != nil && p.isRepoFn(cf) {
								c := r.Ctx
								if r.Inline {
									c |= cur
								}
								if add(cf, c, "passed to "+callee.Name()+" in "+fnName(f)) {
									changed = true
								}
							}
						}
					}
				}
				// closures handed to a repository function that is not in the table: they run wherever that
				// function (or a closure inside it) invokes the parameter
				if sf := com.StaticCallee(); sf != nil && p.isRepoFn(sf) && (callee == nil || rules[callee] == nil) {
					for ai, a := range com.Args {
						cf := closureArg(a)
						if cf == nil || !p.isRepoFn(cf) || ai >= len(sf.Params) {
							continue
						}
						for _, g := range invokers(sf, sf.Params[ai]) {
							if add(cf, ci.ctx[g], "passed to "+fnName(sf)+" which invokes it in "+fnName(g)) {
								changed = true
							}
						}
					}
				}
				// go statement: target runs on a fresh goroutine (worker roots keep their own context)
				if isGo {
					if tf := com.StaticCallee(); tf != nil && p.isRepoFn(tf) {
						if !specialFn[tf] {
							if add(tf, ctxGO, "go statement in "+fnName(f)) {
								changed = true
							}
						}
					} else if cf := closureArg(com.Value); cf != nil {
						if add(cf, ctxGO, "go statement in "+fnName(f)) {
							changed = true
						}
					} else if com.StaticCallee() == nil && !com.IsInvoke() {
						// go cb(): whatever closures flow here become GO — handled by the Throttle.Add rule
					}
					continue
				}
				if cur == 0 {
					continue
				}
				// library callbacks
				if callee != nil && callee.Pkg() != nil {
					switch {
					case callee.Pkg().Path() == "time" && callee.Name() == "AfterFunc":
						if cf := closureArg(args[1]); cf != nil {
							if add(cf, ctxTIMER, "time.AfterFunc in "+fnName(f)) {
								changed = true
							}
						}
					case strings.HasSuffix(callee.Pkg().Path(), "timerqueue") && callee.Name() == "New":
						if cf := closureArg(args[0]); cf != nil {
							if add(cf, ctxTIMER, "timerqueue.New in "+fnName(f)) {
								changed = true
							}
						}
					case callee.Pkg().Path() == "net/http" && callee.Name() == "HandlerFunc":
					}
				}
				// static / invoke edges
				if sf := com.StaticCallee(); sf != nil {
					if p.isRepoFn(sf) {
						if !specialFn[sf] {
							if add(sf, cur, "called from "+fnName(f)) {
								changed = true
							}
						}
					}
				} else if com.IsInvoke() {
					if n := p.CG.Nodes[f]; n != nil {
						for _, e := range n.Out {
							if e.Site == call && e.Callee.Func != nil && p.isRepoFn(e.Callee.Func) {
								if add(e.Callee.Func, cur, "invoked from "+fnName(f)) {
									changed = true
								}
							}
						}
					}
				} else if cf := closureArg(com.Value); cf != nil {
					// a closure literal / bound method called on the spot
					if add(cf, cur, "called in "+fnName(f)) {
						changed = true
					}
				} else {
					// call of a local closure variable (helper closures, possibly captured by an inner closure)
					for _, cf := range closuresOf(com.Value, 0) {
						if p.isRepoFn(cf) && add(cf, cur, "local closure called in "+fnName(f)) {
							changed = true
						}
					}
				}
				// closures passed as plain arguments to dynamic calls (cb(c, rs)): run where the callee runs
				if com.StaticCallee() == nil && !com.IsInvoke() {
					for _, a := range com.Args {
						if cf := closureArg(a); cf != nil {
							// temporaryConn's response writer: runs on the temporary connection's worker
							if add(cf, ctxCONN, "response writer handed to a connection callback in "+fnName(f)) {
								changed = true
							}
						}
						// a captured closure variable (rs) passed on
						if u, ok := a.(*ssa.UnOp); ok {
							if al, ok := u.X.(*ssa.Alloc); ok {
								for _, r := range *al.Referrers() {
									if st, ok := r.(*ssa.Store); ok {
										if cf := closureArg(st.Val); cf != nil {
											if add(cf, ctxCONN, "closure variable handed to a connection callback in "+fnName(f)) {
												changed = true
											}
										}
									}
								}
							}
						}
					}
				}
				// bound methods used as values (http.HandlerFunc(s.wsHandler), c.onClose)
				for _, a := range args {
					if mc, ok := stripConv(a).(*ssa.MakeClosure); ok {
						if bf := mc.Fn.(*ssa.Function); bf.Synthetic != "" && strings.HasSuffix(bf.Name(), "$bound") {
							if m := boundMethod(bf); m != nil {
								if tf := p.SSA.FuncValue(m); tf != nil && p.isRepoFn(tf) && ci.ctx[bf] != 0 {
									if add(tf, ci.ctx[bf], "bound method value") {
										changed = true
									}
								}
							}
						}
					}
				}
			}
		}
	}
	return ci
}

// instrsOf: the instructions of f that can execute. A block that is entered
// only over the untaken edge of a test with a constant condition
// (`if false && …`, `if debug {…}` with a constant) is statically dead: its
// code is treated like deleted code, not like guarded code.
func instrsOf(f *ssa.Function) []ssa.Instruction {
	var out []ssa.Instruction
	live := liveBlocks(f)
	for _, b := range f.Blocks {
		if live != nil && !live[b] {
			continue
		}
		out = append(out, b.Instrs...)
	}
	return out
}

var (
	liveMu   sync.Mutex
	liveMemo = map[*ssa.Function]map[*ssa.BasicBlock]bool{}
)

// liveBlocks returns the blocks reachable from the entry when constant tests
// take their only possible edge; nil when every block is (no constant tests).
func liveBlocks(f *ssa.Function) map[*ssa.BasicBlock]bool {
	if len(f.Blocks) == 0 {
		return nil
	}
	liveMu.Lock()
	defer liveMu.Unlock()
	if m, ok := liveMemo[f]; ok {
		return m
	}
	hasConst := false
	for _, b := range f.Blocks {
		if i := blockIf(b); i != nil {
			if _, ok := constBool(i.Cond); ok {
				hasConst = true
			}
		}
	}
	if !hasConst {
		liveMemo[f] = nil
		return nil
	}
	live := map[*ssa.BasicBlock]bool{}
	work := []*ssa.BasicBlock{f.Blocks[0]}
	if f.Recover != nil {
		work = append(work, f.Recover)
	}
	for len(work) > 0 {
		b := work[len(work)-1]
		work = work[:len(work)-1]
		if live[b] {
			continue
		}
		live[b] = true
		succs := b.Succs
		if i := blockIf(b); i != nil && len(b.Succs) == 2 {
			if v, ok := constBool(i.Cond); ok {
				if v {
					succs = b.Succs[:1]
				} else {
					succs = b.Succs[1:]
				}
			}
		}
		work = append(work, succs...)
	}
	liveMemo[f] = live
	return live
}

// ---------------------------------------------------------------------------
// CTX/conn: thread confinement of per-connection state

var confinedConn = []string{
	"server.Subscription.state", "server.Subscription.readyCallbacks", "server.Subscription.resourceSub", "server.Subscription.typ",
	"server.Subscription.model", "server.Subscription.collection", "server.Subscription.version", "server.Subscription.refs",
	"server.Subscription.err", "server.Subscription.queueFlag", "server.Subscription.eventQueue", "server.Subscription.access",
	"server.Subscription.accessCallbacks", "server.Subscription.flags", "server.Subscription.throttle",
	"server.Subscription.direct", "server.Subscription.indirect", "server.Subscription.indirectsent",
	"server.wsConn.subs", "server.wsConn.token", "server.wsConn.tid", "server.wsConn.protocolVer",
}

var ctxConstructors = map[string]bool{"server.NewSubscription": true, "(*server.Service).newWSConn": true}

func ruleConfinement(c *Ctx) {
	p := c.P
	ci := p.contexts()
	for _, m := range ci.missing {
		c.undecided(m, "anchor", "-", "context rule does not resolve")
	}
	type acc struct {
		fn  *ssa.Function
		in  ssa.Instruction
		fld string
	}
	byFn := map[*ssa.Function][]acc{}
	for _, q := range confinedConn {
		fs := []*types.Var{p.Field(q)}
		if fs[0] == nil && strings.HasSuffix(q, ".flags") {
			fs = p.flagFields(q)
		}
		if len(fs) == 0 || fs[0] == nil {
			c.undecided(q, "anchor", "-", "field not found")
			continue
		}
		for _, f := range fs {
			for _, fa := range p.faddrs[f] {
				byFn[fa.Parent()] = append(byFn[fa.Parent()], acc{fa.Parent(), fa, q})
			}
		}
	}
	var fns []*ssa.Function
	for f := range byFn {
		fns = append(fns, f)
	}
	sort.Slice(fns, func(i, j int) bool { return fnName(fns[i]) < fnName(fns[j]) })
	unreached := 0
	for _, f := range fns {
		name := fnName(f)
		if ctxConstructors[fnName(TopLevel(f))] && f.Parent() == nil {
			continue
		}
		cs := ci.ctx[f]
		if cs == 0 {
			unreached++
			c.note("confined state touched by %s, which no root reaches (not analysed)", name)
			continue
		}
		c.inst(1)
		flds := map[string]bool{}
		for _, a := range byFn[f] {
			flds[a.fld[strings.LastIndex(a.fld, ".")+1:]] = true
		}
		what := "per-connection state touched on the connection worker only"
		pos := p.InstrPos(byFn[f][0].in)
		if cs&^ctxCONN == 0 {
			c.ok(name, what, pos, fmt.Sprintf("context %s; fields %s", cs, strings.Join(sortedKeys(flds), ",")))
		} else {
			c.viol(name, what, pos, fmt.Sprintf("runs in context %s and touches %s: outside the connection worker this races with it and breaks the single-threaded reasoning of the subscription state machine. Reached: %s", cs, strings.Join(sortedKeys(flds), ","), ci.why[f]))
		}
	}
	// the continuation summaries: a parameter declared to run on the connection worker is only invoked there
	for _, r := range ctxRules {
		if r.Ctx != ctxCONN {
			continue
		}
		tf := p.lookupFunc(r.Fn)
		if tf == nil {
			continue
		}
		fn := p.SSA.FuncValue(tf)
		argIdx := fixArg(tf, r.Arg)
		if fn == nil || len(fn.Blocks) == 0 || argIdx >= len(fn.Params) {
			continue
		}
		prm := fn.Params[argIdx]
		// the parameter's cell and every free variable bound to it
		holders := map[ssa.Value]bool{prm: true}
		for changed := true; changed; {
			changed = false
			for _, g := range WithClosures(fn) {
				for _, in := range instrsOf(g) {
					switch x := in.(type) {
					case *ssa.Store:
						if holders[x.Val] && !holders[x.Addr] {
							if _, ok := x.Addr.(*ssa.Alloc); ok {
								holders[x.Addr] = true
								changed = true
							}
						}
					case *ssa.MakeClosure:
						cf := x.Fn.(*ssa.Function)
						for i, b := range x.Bindings {
							if holders[b] && i < len(cf.FreeVars) && !holders[cf.FreeVars[i]] {
								holders[cf.FreeVars[i]] = true
								changed = true
							}
						}
					}
				}
			}
		}
		for _, g := range WithClosures(fn) {
			for _, call := range callsIn(g) {
				v := call.Common().Value
				if call.Common().IsInvoke() || call.Common().StaticCallee() != nil {
					continue
				}
				isParam := holders[v]
				if u, ok := v.(*ssa.UnOp); ok && holders[u.X] {
					isParam = true
				}
				if !isParam {
					continue
				}
				c.inst(1)
				cs := ci.ctx[g]
				_, isGo := call.(*ssa.Go)
				c.check(cs != 0 && cs&^ctxCONN == 0 && !isGo, fnName(fn), "continuation "+prm.Name()+" is invoked on the connection worker only", p.InstrPos(call), "invoked in "+fnName(g)+" (context "+cs.String()+")",
					"continuation "+prm.Name()+" is invoked in "+fnName(g)+" which runs in context "+cs.String()+": responses and subscription state would be handled off the connection worker (responses can overtake events, counters race)")
			}
		}
	}
	// one worker per connection
	n := 0
	worker := p.Fn("(*server.wsConn).outputWorker")
	ctor := p.Fn("(*server.Service).newWSConn")
	for _, f := range p.Repo {
		for _, in := range instrsOf(f) {
			if g, ok := in.(*ssa.Go); ok {
				if tf := g.Common().StaticCallee(); tf != nil && worker != nil && tf == worker {
					n++
					c.inst(1)
					_, owned := p.ownedBy(f, func(nm string) bool { return ctor != nil && nm == fnName(ctor) })
					c.check(owned, fnName(f), "one output worker per connection", p.InstrPos(in), "started in newWSConn", "a second worker for a connection is started")
				}
			}
		}
	}
	if n != 1 {
		c.viol("(*server.wsConn).outputWorker", "one output worker per connection", "-", fmt.Sprintf("%d go statements start the worker", n))
	}
	// replies and events are written on the connection worker only
	for _, nm := range []string{"(*server.wsConn).Send", "(*server.wsConn).Reply"} {
		if f := p.Fn(nm); f != nil {
			c.inst(1)
			cs := ci.ctx[f]
			c.check(cs != 0 && cs&^ctxCONN == 0, nm, "socket writes happen on the connection worker", p.Pos(f.Pos()), "context "+cs.String(), "socket written from context "+cs.String()+": frames of one connection may interleave or reorder. "+ci.why[f])
		}
	}
}

// ---------------------------------------------------------------------------
// CTX/guarded-by: cache state written only by cache tasks under e.mu

var guardedCache = []string{
	"rescache.ResourceSubscription.model", "rescache.ResourceSubscription.collection", "rescache.ResourceSubscription.version",
	"rescache.ResourceSubscription.state", "rescache.ResourceSubscription.err",
}

var cacheOnly = []string{
	"rescache.ResourceSubscription.subs", "rescache.ResourceSubscription.resetting", "rescache.ResourceSubscription.links",
	"rescache.EventSubscription.base", "rescache.EventSubscription.queries", "rescache.EventSubscription.links",
}

var lockedOnly = []string{"rescache.EventSubscription.count"}

// lockStates computes, per instruction of f, whether the mutex field mu is
// held (1), not held (0) or unknown (2), given the entry state.
func lockStates(f *ssa.Function, mu *types.Var, entry int) map[ssa.Instruction]int {
	in := map[*ssa.BasicBlock]int{}
	out := map[ssa.Instruction]int{}
	for _, b := range f.Blocks {
		in[b] = -1
	}
	if len(f.Blocks) == 0 {
		return out
	}
	in[f.Blocks[0]] = entry
	work := []*ssa.BasicBlock{f.Blocks[0]}
	meet := func(a, b int) int {
		if a == -1 {
			return b
		}
		if a == b {
			return a
		}
		return 2
	}
	for len(work) > 0 {
		b := work[0]
		work = work[1:]
		st := in[b]
		for _, ins := range b.Instrs {
			out[ins] = st
			if call, ok := ins.(*ssa.Call); ok {
				if cf := calleeFunc(&call.Call); cf != nil && cf.Pkg() != nil && cf.Pkg().Path() == "sync" {
					if fa, ok := call.Call.Args[0].(*ssa.FieldAddr); ok && fieldOfAddr(fa) == mu {
						switch cf.Name() {
						case "Lock":
							st = 1
						case "Unlock":
							st = 0
						}
					}
				}
			}
		}
		for _, s := range b.Succs {
			n := meet(in[s], st)
			if n != in[s] {
				in[s] = n
				work = append(work, s)
			}
		}
	}
	return out
}

// esLockStates: for every function of the cache package, whether the event
// subscription's mutex is held (1), free (0) or either (2) at each instruction.
// Tasks handed to Enqueue / enqueueUnlock start with the lock held; the others
// get the meet over their call sites.
func (p *Prog) esLockStates(mu *types.Var) map[*ssa.Function]map[ssa.Instruction]int {
	if p.esStates != nil {
		return p.esStates
	}
	// entry lock state per function: cache tasks start locked; others: meet over call sites
	entry := map[*ssa.Function]int{}
	var rescFns []*ssa.Function
	for _, f := range p.Repo {
		top := TopLevel(f)
		if top.Pkg != nil && top.Pkg.Pkg.Name() == "rescache" {
			rescFns = append(rescFns, f)
			entry[f] = -1
		}
	}
	enq := []*types.Func{p.Method("rescache.EventSubscription.Enqueue"), p.Method("rescache.EventSubscription.enqueueUnlock")}
	for _, f := range p.Repo {
		for _, call := range callsIn(f) {
			if _, ok := isCallTo(call, enq...); ok {
				if mc, ok := stripConv(callArgs(call.Common())[1]).(*ssa.MakeClosure); ok {
					entry[mc.Fn.(*ssa.Function)] = 1
				}
			}
		}
	}
	hasPkgCaller := map[*ssa.Function]bool{}
	for _, f := range rescFns {
		for _, call := range callsIn(f) {
			if _, isGo := call.(*ssa.Go); isGo {
				continue
			}
			if sf := call.Common().StaticCallee(); sf != nil && sf != f {
				if _, ok := entry[sf]; ok {
					hasPkgCaller[sf] = true
				}
			}
		}
	}
	states := map[*ssa.Function]map[ssa.Instruction]int{}
	for iter := 0; iter < 200; iter++ {
		changed := false
		for _, f := range rescFns {
			e := entry[f]
			if e == -1 {
				continue
			}
			states[f] = lockStates(f, mu, e)
		}
		for _, f := range rescFns {
			st := states[f]
			if st == nil {
				continue
			}
			for _, call := range callsIn(f) {
				var tgt *ssa.Function
				if sf := call.Common().StaticCallee(); sf != nil {
					tgt = sf
				} else if mc, ok := call.Common().Value.(*ssa.MakeClosure); ok {
					tgt = mc.Fn.(*ssa.Function)
				}
				if tgt == nil {
					continue
				}
				if _, ok := entry[tgt]; !ok {
					continue
				}
				if _, isGo := call.(*ssa.Go); isGo {
					continue
				}
				s := st[call]
				old := entry[tgt]
				n := old
				switch {
				case old == -1:
					n = s
				case old != s:
					n = 2
				}
				// closures passed to Enqueue keep their "locked" entry
				if n != old {
					entry[tgt] = n
					changed = true
				}
			}
		}
		if !changed {
			// propagation is stable: entry points nobody in the package calls start unlocked — first the
			// functions without a caller inside the package (their callees then get the state of the call
			// site), and only when that settles nothing more, whatever is left (call cycles)
			for _, f := range rescFns {
				if entry[f] == -1 && f.Parent() == nil && !hasPkgCaller[f] {
					entry[f] = 0
					changed = true
				}
			}
			if !changed {
				for _, f := range rescFns {
					if entry[f] == -1 && f.Parent() == nil {
						entry[f] = 0
						changed = true
						break
					}
				}
			}
			if !changed {
				break
			}
		}
	}
	for _, f := range rescFns {
		if states[f] == nil && entry[f] != -1 {
			states[f] = lockStates(f, mu, entry[f])
		}
	}
	p.esStates = states
	return states
}

func ruleGuardedBy(c *Ctx) {
	p := c.P
	ci := p.contexts()
	mu := p.Field("rescache.EventSubscription.mu")
	if mu == nil {
		c.undecided("rescache.EventSubscription.mu", "anchor", "-", "not found")
		return
	}
	states := p.esLockStates(mu)
	check := func(q string, writesOnly bool) {
		fld := p.Field(q)
		if fld == nil {
			c.undecided(q, "anchor", "-", "field not found")
			return
		}
		for _, fa := range p.faddrs[fld] {
			f := fa.Parent()
			if _, isAlloc := fa.X.(*ssa.Alloc); isAlloc {
				continue // construction
			}
			isWrite := false
			for _, r := range *fa.Referrers() {
				if st, ok := r.(*ssa.Store); ok && st.Addr == ssa.Value(fa) {
					isWrite = true
				}
			}
			c.inst(1)
			name := fnName(f)
			pos := p.InstrPos(fa)
			cs := ci.ctx[f]
			ls := 2
			if st := states[f]; st != nil {
				ls = st[fa]
			}
			cacheTask := cs != 0 && cs&^ctxCACHE == 0
			kind := "read"
			if isWrite {
				kind = "write"
			}
			what := kind + " of " + q[strings.LastIndex(q, ".")+1:] + " is guarded"
			switch {
			case writesOnly:
				// queue-confined fields: touched by cache tasks only
				c.check(cacheTask, name, "queue-confined "+q[strings.LastIndex(q, ".")+1:]+" touched by cache tasks only", pos, "context "+cs.String(), "touched in context "+cs.String()+" "+ci.why[f])
			case isWrite:
				c.check(cacheTask && ls == 1, name, what, pos, "cache task with e.mu held", fmt.Sprintf("context %s, lock state %s: a subscriber reading the snapshot could see content and version of different updates", cs, lockName(ls)))
			default:
				c.check(ls == 1 || cacheTask, name, what, pos, "under e.mu, or by the single writer (cache task)", fmt.Sprintf("context %s, lock state %s: unsynchronised read of cache state", cs, lockName(ls)))
			}
		}
	}
	for _, q := range guardedCache {
		check(q, false)
	}
	for _, q := range cacheOnly {
		check(q, true)
	}
	// the use count of a cache entry is taken by connection goroutines and given back by cache tasks: both
	// sides touch it with the entry's mutex held, or takes and releases are lost against each other (an entry
	// evicted under a live subscription, or never evicted)
	for _, q := range lockedOnly {
		fld := p.Field(q)
		if fld == nil {
			c.undecided(q, "anchor", "-", "field not found")
			continue
		}
		for _, fa := range p.faddrs[fld] {
			f := fa.Parent()
			base := fa.X
			for {
				inner, isFA := base.(*ssa.FieldAddr)
				if !isFA {
					break
				}
				base = inner.X // the counter wrapped in a nested struct of the new entry
			}
			if _, isAlloc := base.(*ssa.Alloc); isAlloc {
				continue // construction
			}
			c.inst(1)
			ls := 2
			if st := states[f]; st != nil {
				ls = st[fa]
			}
			c.check(ls == 1, fnName(f), "access to "+q[strings.LastIndex(q, ".")+1:]+" is under the entry's mutex", p.InstrPos(fa), "e.mu held", fmt.Sprintf("lock state %s: the count is touched without the entry's mutex while the other side (subscribers taking, cache tasks releasing a use) holds it — updates are lost", lockName(ls)))
		}
	}
}

func lockName(s int) string {
	switch s {
	case 0:
		return "not held"
	case 1:
		return "held"
	}
	return "unknown"
}

// invokers returns the functions (fn or closures nested in it) that call the
// function-typed parameter prm of fn, following captures.
func invokers(fn *ssa.Function, prm *ssa.Parameter) []*ssa.Function {
	holders := map[ssa.Value]bool{prm: true}
	for changed := true; changed; {
		changed = false
		for _, g := range WithClosures(fn) {
			for _, in := range instrsOf(g) {
				switch x := in.(type) {
				case *ssa.Store:
					if holders[x.Val] && !holders[x.Addr] {
						if _, ok := x.Addr.(*ssa.Alloc); ok {
							holders[x.Addr] = true
							changed = true
						}
					}
				case *ssa.MakeClosure:
					cf := x.Fn.(*ssa.Function)
					for i, b := range x.Bindings {
						if holders[b] && i < len(cf.FreeVars) && !holders[cf.FreeVars[i]] {
							holders[cf.FreeVars[i]] = true
							changed = true
						}
					}
				}
			}
		}
	}
	var out []*ssa.Function
	for _, g := range WithClosures(fn) {
		for _, call := range callsIn(g) {
			v := call.Common().Value
			if call.Common().IsInvoke() || call.Common().StaticCallee() != nil {
				continue
			}
			hit := holders[v]
			if u, ok := v.(*ssa.UnOp); ok && holders[u.X] {
				hit = true
			}
			if hit {
				out = append(out, g)
			}
		}
	}
	return out
}

// closuresHeld returns the closures (or functions) a value may hold,
// following loads of local cells and of cells captured by nested closures.
func (p *Prog) closuresHeld(v ssa.Value, depth int) []*ssa.Function {
	if depth > 6 {
		return nil
	}
	switch x := stripConv(v).(type) {
	case *ssa.MakeClosure:
		return []*ssa.Function{x.Fn.(*ssa.Function)}
	case *ssa.Function:
		return []*ssa.Function{x}
	}
	var out []*ssa.Function
	fromCell := func(cell ssa.Value) {
		switch a := cell.(type) {
		case *ssa.Alloc:
			for _, r := range *a.Referrers() {
				if st, ok := r.(*ssa.Store); ok && st.Addr == ssa.Value(a) {
					out = append(out, p.closuresHeld(st.Val, depth+1)...)
				}
			}
		case *ssa.FreeVar:
			if mc := p.parent[a.Parent()]; mc != nil {
				for i, fv := range a.Parent().FreeVars {
					if fv == a {
						out = append(out, p.closuresHeld(mc.Bindings[i], depth+1)...)
					}
				}
			}
		}
	}
	switch x := stripConv(v).(type) {
	case *ssa.UnOp:
		fromCell(x.X)
	case *ssa.Alloc, *ssa.FreeVar:
		fromCell(x)
	}
	return out
}
