package main

import (
	"fmt"
	"go/types"
	"sort"
	"strings"

	"golang.org/x/tools/go/ssa"
)

// writersOf returns, per top-level function, the stores to a field
// (composite literals included: they are stores through a FieldAddr of a
// fresh Alloc).
func (p *Prog) writersOf(f *types.Var) map[string][]*ssa.Store {
	out := map[string][]*ssa.Store{}
	for _, st := range p.stores[f] {
		out[fnName(TopLevel(st.Parent()))] = append(out[fnName(TopLevel(st.Parent()))], st)
	}
	return out
}

// ownerChain returns the names a write in fn may be attributed to: fn's
// top-level function and, while that function has exactly one static caller
// (an extracted helper), that caller, up to four levels.
func (p *Prog) ownerChain(fn *ssa.Function) []string {
	top := TopLevel(fn)
	out := []string{fnName(top)}
	cur := top
	for i := 0; i < 4; i++ {
		n := p.CG.Nodes[cur]
		if n == nil {
			break
		}
		callers := map[*ssa.Function]bool{}
		for _, e := range n.In {
			if e.Caller.Func != nil && e.Site != nil && e.Site.Common().StaticCallee() == cur {
				callers[TopLevel(e.Caller.Func)] = true
			}
		}
		if len(callers) != 1 || cur.Object() == nil || cur.Object().Exported() {
			break
		}
		for c := range callers {
			cur = c
		}
		out = append(out, fnName(cur))
	}
	return out
}

// ownedBy reports whether code in fn can be attributed to one of the allowed
// owners: fn's top-level function is allowed, or it is an unexported helper
// all of whose static callers are (recursively) attributable. It returns the
// owner found first.
func (p *Prog) ownedBy(fn *ssa.Function, allowed func(name string) bool) (string, bool) {
	seen := map[*ssa.Function]bool{}
	var child *ssa.Function // the function whose callers are being looked at
	var rec func(f *ssa.Function, depth int) (string, bool)
	rec = func(f *ssa.Function, depth int) (string, bool) {
		top := TopLevel(f)
		if allowed(fnName(top)) {
			return fnName(top), true
		}
		// a function of the reference tree that used to reach the code through an allowed function (it called the
		// allowed wrapper there) and now calls the helper the wrapper was reduced to: the wrapper still exists and
		// calls that helper itself
		if depth > 0 && p.onReferenceTree(top) && child != nil && !p.onReferenceTree(child) {
			for _, callee := range refCallees(fnName(top)) {
				if allowed(callee) && p.callsStatically(callee, child) {
					return callee, true
				}
			}
		}
		if depth > 5 {
			return "", false
		}
		if seen[top] {
			return "", true // mutual recursion inside the helper cluster: decided by the other callers
		}
		seen[top] = true
		// a method used as a value (s.c.Access(s, s.enqueueAccessResult)): owned by where the value is made
		if top.Synthetic != "" && strings.HasSuffix(top.Name(), "$bound") {
			owner := ""
			for _, mc := range p.boundMakers[top] {
				o, ok := rec(mc.Parent(), depth+1)
				if !ok {
					return "", false
				}
				if o != "" {
					owner = o
				}
			}
			return owner, owner != ""
		}
		if top.Object() == nil || top.Object().Exported() {
			return "", false
		}
		n := p.CG.Nodes[top]
		if n == nil {
			return "", false
		}
		owner := ""
		cnt := 0
		for _, e := range n.In {
			if e.Caller.Func == nil || e.Site == nil || e.Site.Common().StaticCallee() != top {
				continue
			}
			if TopLevel(e.Caller.Func) == top {
				continue // self recursion does not change who owns the code
			}
			// the thunk of a method expression: accounted for by the functions that hand the method on (below)
			if cf := e.Caller.Func; cf.Synthetic != "" && strings.HasSuffix(cf.Name(), "$thunk") {
				continue
			}
			// a promoted-method wrapper nobody calls (made for the method set of the embedding type) is no caller
			if cf := e.Caller.Func; cf.Synthetic != "" && !strings.HasSuffix(cf.Name(), "$bound") {
				if cn := p.CG.Nodes[cf]; cn == nil || len(cn.In) == 0 {
					continue
				}
			}
			cnt++
			saved := child
			child = top
			o, ok := rec(e.Caller.Func, depth+1)
			child = saved
			if !ok {
				return "", false
			}
			if o != "" {
				owner = o
			}
		}
		// a method handed on as a function value (`s.eachRef((*Subscription).countDownSent)`): owned by where the
		// value is handed on
		for _, u := range p.funcValueUsers(top) {
			if TopLevel(u) == top {
				continue
			}
			cnt++
			saved := child
			child = top
			o, ok := rec(u, depth+1)
			child = saved
			if !ok {
				return "", false
			}
			if o != "" {
				owner = o
			}
		}
		if cnt == 0 || owner == "" {
			return "", false
		}
		return owner, true
	}
	return rec(fn, 0)
}

// funcValueUsers: the repository functions that hand fn on as a function value (an argument of a call).
func (p *Prog) funcValueUsers(fn *ssa.Function) []*ssa.Function {
	if p.fvUsers == nil {
		p.fvUsers = map[*ssa.Function][]*ssa.Function{}
		for _, g := range p.Repo {
			for _, call := range callsIn(g) {
				for _, a := range call.Common().Args {
					f, ok := stripConv(a).(*ssa.Function)
					if ok && f.Synthetic != "" {
						if m := boundMethod(f); m != nil {
							if mf := p.SSA.FuncValue(m); mf != nil {
								f = mf
							}
						}
					}
					if ok && p.isRepoFn(f) {
						p.fvUsers[f] = append(p.fvUsers[f], g)
					}
				}
			}
		}
	}
	return p.fvUsers[fn]
}

// whoRule: the frozen who-may-write table. Each entry names the functions
// (top-level, closures are attributed to their enclosing function) that may
// store to a field, with the reason. A store anywhere else is a violation:
// the typestate / accounting rules are proved for these writers only.
type whoEntry struct {
	Field   string
	Writers map[string]string
	// Shape lists value shapes a store may have in ANY function: "init" (field of an object allocated in
	// the same function: initialisation, not mutation), "from:<pkg.Type.Method>" (the value returned by
	// that call, e.g. the mq subscription handle). Set only where the shape, not the writer, carries the rule.
	Shape []string
	// Readers, when set, lists the only functions that may load the field (a cache of a derived value that is
	// valid for one consumer only: the encoding of the latest protocol).
	Readers map[string]string
}

func ruleWho(entries []whoEntry) func(c *Ctx) {
	return func(c *Ctx) {
		for _, e := range entries {
			f := c.P.Field(e.Field)
			if f == nil {
				c.undecided(e.Field, "anchor", "-", "field not found")
				continue
			}
			// who may read
			if len(e.Readers) > 0 {
				readers := map[string]string{}
				for nm, why := range e.Readers {
					readers[c.P.FnNameOf(nm)] = why
				}
				byFn := map[*ssa.Function]ssa.Instruction{}
				for _, ld := range c.P.loads[f] {
					if li, ok := ld.(ssa.Instruction); ok && byFn[li.Parent()] == nil {
						byFn[li.Parent()] = li
					}
				}
				var fns []*ssa.Function
				for g := range byFn {
					fns = append(fns, g)
				}
				sort.Slice(fns, func(i, j int) bool { return fnName(fns[i]) < fnName(fns[j]) })
				for _, g := range fns {
					c.inst(1)
					owner, ok := c.P.ownedBy(g, func(nm string) bool { _, has := readers[nm]; return has })
					if ok {
						c.ok(e.Field, "read by "+owner, c.P.InstrPos(byFn[g]), readers[owner])
					} else {
						c.viol(e.Field, "read by "+fnName(g), c.P.InstrPos(byFn[g]), fmt.Sprintf("%s is not a listed reader of %s (listed: %s): the cached value is only valid for the listed consumer", fnName(g), e.Field, strings.Join(sortedKeys(boolMap(readers)), ", ")))
					}
				}
			}
			if len(e.Readers) > 0 {
				readers := map[string]string{}
				for nm, why := range e.Readers {
					readers[c.P.FnNameOf(nm)] = why
				}
				for _, aa := range c.P.addrArgs[f] {
					if !aa.Reads {
						continue
					}
					c.inst(1)
					g := aa.Call.Parent()
					owner, ok := c.P.ownedBy(g, func(nm string) bool { _, has := readers[nm]; return has })
					if ok {
						c.ok(e.Field, "read by "+owner, c.P.InstrPos(aa.Call), readers[owner]+" (through its address handed to "+calleeName(aa.Call.Common())+")")
					} else {
						c.viol(e.Field, "read by "+fnName(g), c.P.InstrPos(aa.Call), fmt.Sprintf("%s hands the address of %s to %s, which reads it, and is not a listed reader", fnName(g), e.Field, calleeName(aa.Call.Common())))
					}
				}
			}
			// the table names functions as they were; a renamed writer keeps its entry
			resolved := map[string]string{}
			for nm, why := range e.Writers {
				fam := c.P.FnFamily(nm)
				if len(fam) > 1 {
					for _, f := range fam {
						resolved[fnName(f)] = why
					}
					continue
				}
				resolved[c.P.FnNameOf(nm)] = why
			}
			e.Writers = resolved
			for _, aa := range c.P.addrArgs[f] {
				if !aa.Writes {
					continue
				}
				c.inst(1)
				g := aa.Call.Parent()
				owner, ok := c.P.ownedBy(g, func(nm string) bool { _, has := e.Writers[nm]; return has })
				if ok {
					c.ok(e.Field, "written by "+owner, c.P.InstrPos(aa.Call), e.Writers[owner]+" (through its address handed to "+calleeName(aa.Call.Common())+")")
				} else {
					c.viol(e.Field, "written by "+fnName(g), c.P.InstrPos(aa.Call), fmt.Sprintf("%s hands the address of %s to %s, which writes it, and is not a listed writer (listed: %s)", fnName(g), e.Field, calleeName(aa.Call.Common()), strings.Join(sortedKeys(boolMap(e.Writers)), ", ")))
				}
			}
			ws := c.P.writersOf(f)
			var names []string
			for n := range ws {
				names = append(names, n)
			}
			sort.Strings(names)
			for _, n := range names {
				c.inst(1)
				pos := c.P.InstrPos(ws[n][0])
				owner, ok := c.P.ownedBy(ws[n][0].Parent(), func(nm string) bool { _, has := e.Writers[nm]; return has })
				reason := e.Writers[owner]
				if !ok {
					owner = n
					all := len(e.Shape) > 0
					sh := ""
					for _, st := range ws[n] {
						if s1 := c.P.storeShape(st, e.Shape); s1 != "" {
							sh = s1
						} else {
							all = false
						}
					}
					if all {
						ok, reason = true, "not a listed writer, but every store has a listed shape: "+sh
					}
				}
				if ok {
					if owner != n {
						reason += " (in helper " + n + ", whose only caller chain leads to " + owner + ")"
					}
					c.ok(e.Field, "written by "+owner, pos, reason)
				} else {
					c.viol(e.Field, "written by "+n, pos, fmt.Sprintf("%s is not a listed writer of %s (listed: %s); the accounting and typestate rules are established for the listed writers only", n, e.Field, strings.Join(sortedKeys(boolMap(e.Writers)), ", ")))
				}
			}
		}
	}
}

func boolMap(m map[string]string) map[string]bool {
	o := map[string]bool{}
	for k := range m {
		o[k] = true
	}
	return o
}

// stateWriters: who may store which constant into Subscription.state
// (typestate transition table, C02/C01/C11).
type stateWrite struct {
	Fn    string
	Value int64
	Why   string
}

func ruleStateTable(field string, names map[int64]string, table []stateWrite) func(c *Ctx) {
	return func(c *Ctx) {
		f := c.P.Field(field)
		if f == nil {
			c.undecided(field, "anchor", "-", "field not found")
			return
		}
		allowed := map[string]string{}
		for _, t := range table {
			allowed[fmt.Sprintf("%s=%d", c.P.FnNameOf(t.Fn), t.Value)] = t.Why
		}
		for _, st := range c.P.stores[f] {
			c.inst(1)
			top := fnName(TopLevel(st.Parent()))
			pos := c.P.InstrPos(st)
			k, isC := constInt(st.Val)
			if !isC {
				c.viol(field, "transition in "+top, pos, "non-constant store to the state field")
				continue
			}
			key := fmt.Sprintf("%s=%d", top, k)
			if o, ok := c.P.ownedBy(st.Parent(), func(nm string) bool { _, has := allowed[fmt.Sprintf("%s=%d", nm, k)]; return has }); ok {
				top = o
				key = fmt.Sprintf("%s=%d", o, k)
			}
			nm := names[k]
			if why, ok := allowed[key]; ok {
				c.ok(field, fmt.Sprintf("%s sets %s", top, nm), pos, why)
			} else {
				c.viol(field, fmt.Sprintf("%s sets %s", top, nm), pos, "transition not in the typestate table: "+key)
			}
		}
	}
}

// ownedByOutside is ownedBy for a member of a recursive cluster: callers
// inside the cluster are ignored, every caller outside must be attributable.
func (p *Prog) ownedByOutside(fn *ssa.Function, cluster []*ssa.Function, allowed func(string) bool) (string, bool) {
	in := map[*ssa.Function]bool{}
	for _, f := range cluster {
		in[f] = true
	}
	n := p.CG.Nodes[TopLevel(fn)]
	if n == nil {
		return "", false
	}
	owner := ""
	cnt := 0
	for _, e := range n.In {
		if e.Caller.Func == nil || e.Site == nil || e.Site.Common().StaticCallee() != TopLevel(fn) {
			continue
		}
		cf := TopLevel(e.Caller.Func)
		if in[cf] {
			continue
		}
		cnt++
		if allowed(fnName(cf)) {
			owner = fnName(cf)
			continue
		}
		if p.onReferenceTree(cf) && !p.onReferenceTree(TopLevel(fn)) {
			viaRef := ""
			for _, callee := range refCallees(fnName(cf)) {
				if allowed(callee) && p.callsStatically(callee, TopLevel(fn)) {
					viaRef = callee
				}
			}
			if viaRef != "" {
				owner = viaRef
				continue
			}
		}
		o, ok := p.ownedBy(cf, allowed)
		if !ok {
			return "", false
		}
		owner = o
	}
	return owner, cnt > 0 || len(cluster) > 1
}

// storeShape returns the first listed shape the store has, or "".
func (p *Prog) storeShape(st *ssa.Store, shapes []string) string {
	for _, sh := range shapes {
		switch {
		case sh == "init":
			if fa, ok := st.Addr.(*ssa.FieldAddr); ok {
				if _, fresh := fa.X.(*ssa.Alloc); fresh {
					return "initialisation of an object allocated here"
				}
			}
		case strings.HasPrefix(sh, "from:"):
			m := p.lookupFunc(sh[5:])
			v := st.Val
			if e, ok := v.(*ssa.Extract); ok {
				v = e.Tuple
			}
			if call, ok := v.(*ssa.Call); ok && m != nil && calleeFunc(&call.Call) == m {
				return "value returned by " + sh[5:]
			}
		}
	}
	return ""
}

// WHO/event-immutable (C10, C01): one ResourceEvent is handed to every
// subscriber of the resource, on as many connection workers. After the cache
// has stamped and applied it, it is read-only: a field of ResourceEvent —
// any field, also one added later — is stored only while the event is being
// built (a freshly allocated event) or by the cache's event handlers before
// the fan-out. A subscriber-side store (a per-subscriber value cached in the
// shared event) leaks one connection's data to the others.
func ruleEventImmutable(c *Ctx) {
	p := c.P
	n := p.Named("rescache.ResourceEvent")
	if n == nil {
		c.undecided("rescache.ResourceEvent", "anchor", "-", "type not found")
		return
	}
	st, ok := n.Underlying().(*types.Struct)
	if !ok {
		c.undecided("rescache.ResourceEvent", "anchor", "-", "not a struct")
		return
	}
	allowed := map[string]bool{}
	for _, nm := range []string{"(*rescache.ResourceSubscription).handleEvent", "(*rescache.ResourceSubscription).handleEventAdd", "(*rescache.ResourceSubscription).handleEventRemove", "(*rescache.ResourceSubscription).handleEventChange"} {
		allowed[p.FnNameOf(nm)] = true
	}
	for k := 0; k < st.NumFields(); k++ {
		f := st.Field(k)
		for _, s := range p.stores[f] {
			c.inst(1)
			fn := s.Parent()
			what := "field " + f.Name() + " of the shared event written only while it is built or by the cache's handlers"
			if fa, ok := s.Addr.(*ssa.FieldAddr); ok {
				if _, fresh := fa.X.(*ssa.Alloc); fresh {
					c.ok(fnName(fn), what, p.InstrPos(s), "initialisation of an event allocated here")
					continue
				}
			}
			if o, ok := p.ownedBy(fn, func(nm string) bool { return allowed[nm] }); ok {
				c.ok(fnName(fn), what, p.InstrPos(s), "cache handler "+o+", before the fan-out")
				continue
			}
			c.viol(fnName(fn), what, p.InstrPos(s), "a ResourceEvent is shared by all subscribers of the resource (other connections, other goroutines): storing into it after the fan-out makes one subscriber's value visible to the others")
		}
	}
}

// refCallees: the repository functions a function called on the reference tree (from the recorded effect table).
func refCallees(name string) []string {
	g := loadGolden()
	t, ok := g.Tables[name]
	if !ok {
		return nil
	}
	seen := map[string]bool{}
	var out []string
	for _, r := range t.Rows {
		for _, e := range r.Effects {
			if !strings.HasPrefix(e, "call ") {
				continue
			}
			c := e[len("call "):]
			// "(*pkg.T).m(_,_)" -> "(*pkg.T).m"
			if i := strings.LastIndex(c, "("); i > 0 {
				c = c[:i]
			}
			if !seen[c] {
				seen[c] = true
				out = append(out, c)
			}
		}
	}
	return out
}

// callsStatically: the repository function named name calls target (directly, also from one of its closures).
func (p *Prog) callsStatically(name string, target *ssa.Function) bool {
	f := p.ByNm[name]
	if f == nil || target == nil {
		return false
	}
	for _, g := range WithClosures(f) {
		for _, call := range callsIn(g) {
			if call.Common().StaticCallee() == target {
				return true
			}
		}
	}
	return false
}
