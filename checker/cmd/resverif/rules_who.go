package main

import (
	"fmt"
	"go/types"
	"sort"
	"strings"

	"golang.org/x/tools/go/ssa"
)

// writersOf returns, per top-level function, the stores to a field
// (composite literals included: they are stores through a FieldAddr of a
// fresh Alloc).
func (p *Prog) writersOf(f *types.Var) map[string][]*ssa.Store {
	out := map[string][]*ssa.Store{}
	for _, st := range p.stores[f] {
		out[fnName(TopLevel(st.Parent()))] = append(out[fnName(TopLevel(st.Parent()))], st)
	}
	return out
}

// ownerChain returns the names a write in fn may be attributed to: fn's
// top-level function and, while that function has exactly one static caller
// (an extracted helper), that caller, up to four levels.
func (p *Prog) ownerChain(fn *ssa.Function) []string {
	top := TopLevel(fn)
	out := []string{fnName(top)}
	cur := top
	for i := 0; i < 4; i++ {
		n := p.CG.Nodes[cur]
		if n == nil {
			break
		}
		callers := map[*ssa.Function]bool{}
		for _, e := range n.In {
			if e.Caller.Func != nil && e.Site != nil && e.Site.Common().StaticCallee() == cur {
				callers[TopLevel(e.Caller.Func)] = true
			}
		}
		if len(callers) != 1 || cur.Object() == nil || cur.Object().Exported() {
			break
		}
		for c := range callers {
			cur = c
		}
		out = append(out, fnName(cur))
	}
	return out
}

// ownedBy reports whether code in fn can be attributed to one of the allowed
// owners: fn's top-level function is allowed, or it is an unexported helper
// all of whose static callers are (recursively) attributable. It returns the
// owner found first.
func (p *Prog) ownedBy(fn *ssa.Function, allowed func(name string) bool) (string, bool) {
	seen := map[*ssa.Function]bool{}
	var rec func(f *ssa.Function, depth int) (string, bool)
	rec = func(f *ssa.Function, depth int) (string, bool) {
		top := TopLevel(f)
		if allowed(fnName(top)) {
			return fnName(top), true
		}
		if depth > 5 {
			return "", false
		}
		if seen[top] {
			return "", true // mutual recursion inside the helper cluster: decided by the other callers
		}
		seen[top] = true
		if top.Object() == nil || top.Object().Exported() {
			return "", false
		}
		n := p.CG.Nodes[top]
		if n == nil {
			return "", false
		}
		owner := ""
		cnt := 0
		for _, e := range n.In {
			if e.Caller.Func == nil || e.Site == nil || e.Site.Common().StaticCallee() != top {
				continue
			}
			if TopLevel(e.Caller.Func) == top {
				continue // self recursion does not change who owns the code
			}
			cnt++
			o, ok := rec(e.Caller.Func, depth+1)
			if !ok {
				return "", false
			}
			if o != "" {
				owner = o
			}
		}
		if cnt == 0 || owner == "" {
			return "", false
		}
		return owner, true
	}
	return rec(fn, 0)
}

// whoRule: the frozen who-may-write table. Each entry names the functions
// (top-level, closures are attributed to their enclosing function) that may
// store to a field, with the reason. A store anywhere else is a violation:
// the typestate / accounting rules are proved for these writers only.
type whoEntry struct {
	Field   string
	Writers map[string]string
}

func ruleWho(entries []whoEntry) func(c *Ctx) {
	return func(c *Ctx) {
		for _, e := range entries {
			f := c.P.Field(e.Field)
			if f == nil {
				c.undecided(e.Field, "anchor", "-", "field not found")
				continue
			}
			ws := c.P.writersOf(f)
			var names []string
			for n := range ws {
				names = append(names, n)
			}
			sort.Strings(names)
			for _, n := range names {
				c.inst(1)
				pos := c.P.InstrPos(ws[n][0])
				owner, ok := c.P.ownedBy(ws[n][0].Parent(), func(nm string) bool { _, has := e.Writers[nm]; return has })
				reason := e.Writers[owner]
				if !ok {
					owner = n
				}
				if ok {
					if owner != n {
						reason += " (in helper " + n + ", whose only caller chain leads to " + owner + ")"
					}
					c.ok(e.Field, "written by "+owner, pos, reason)
				} else {
					c.viol(e.Field, "written by "+n, pos, fmt.Sprintf("%s is not a listed writer of %s (listed: %s); the accounting and typestate rules are established for the listed writers only", n, e.Field, strings.Join(sortedKeys(boolMap(e.Writers)), ", ")))
				}
			}
		}
	}
}

func boolMap(m map[string]string) map[string]bool {
	o := map[string]bool{}
	for k := range m {
		o[k] = true
	}
	return o
}

// stateWriters: who may store which constant into Subscription.state
// (typestate transition table, C02/C01/C11).
type stateWrite struct {
	Fn    string
	Value int64
	Why   string
}

func ruleStateTable(field string, names map[int64]string, table []stateWrite) func(c *Ctx) {
	return func(c *Ctx) {
		f := c.P.Field(field)
		if f == nil {
			c.undecided(field, "anchor", "-", "field not found")
			return
		}
		allowed := map[string]string{}
		for _, t := range table {
			allowed[fmt.Sprintf("%s=%d", t.Fn, t.Value)] = t.Why
		}
		for _, st := range c.P.stores[f] {
			c.inst(1)
			top := fnName(TopLevel(st.Parent()))
			pos := c.P.InstrPos(st)
			k, isC := constInt(st.Val)
			if !isC {
				c.viol(field, "transition in "+top, pos, "non-constant store to the state field")
				continue
			}
			key := fmt.Sprintf("%s=%d", top, k)
			if o, ok := c.P.ownedBy(st.Parent(), func(nm string) bool { _, has := allowed[fmt.Sprintf("%s=%d", nm, k)]; return has }); ok {
				top = o
				key = fmt.Sprintf("%s=%d", o, k)
			}
			nm := names[k]
			if why, ok := allowed[key]; ok {
				c.ok(field, fmt.Sprintf("%s sets %s", top, nm), pos, why)
			} else {
				c.viol(field, fmt.Sprintf("%s sets %s", top, nm), pos, "transition not in the typestate table: "+key)
			}
		}
	}
}

// ownedByOutside is ownedBy for a member of a recursive cluster: callers
// inside the cluster are ignored, every caller outside must be attributable.
func (p *Prog) ownedByOutside(fn *ssa.Function, cluster []*ssa.Function, allowed func(string) bool) (string, bool) {
	in := map[*ssa.Function]bool{}
	for _, f := range cluster {
		in[f] = true
	}
	n := p.CG.Nodes[TopLevel(fn)]
	if n == nil {
		return "", false
	}
	owner := ""
	cnt := 0
	for _, e := range n.In {
		if e.Caller.Func == nil || e.Site == nil || e.Site.Common().StaticCallee() != TopLevel(fn) {
			continue
		}
		cf := TopLevel(e.Caller.Func)
		if in[cf] {
			continue
		}
		cnt++
		if allowed(fnName(cf)) {
			owner = fnName(cf)
			continue
		}
		o, ok := p.ownedBy(cf, allowed)
		if !ok {
			return "", false
		}
		owner = o
	}
	return owner, cnt > 0 || len(cluster) > 1
}
