package main

import (
	"fmt"
	"go/types"
	"sort"
	"strings"

	"golang.org/x/tools/go/ssa"
)

// writersOf returns, per top-level function, the stores to a field
// (composite literals included: they are stores through a FieldAddr of a
// fresh Alloc).
func (p *Prog) writersOf(f *types.Var) map[string][]*ssa.Store {
	out := map[string][]*ssa.Store{}
	for _, st := range p.stores[f] {
		out[fnName(TopLevel(st.Parent()))] = append(out[fnName(TopLevel(st.Parent()))], st)
	}
	return out
}

// whoRule: the frozen who-may-write table. Each entry names the functions
// (top-level, closures are attributed to their enclosing function) that may
// store to a field, with the reason. A store anywhere else is a violation:
// the typestate / accounting rules are proved for these writers only.
type whoEntry struct {
	Field   string
	Writers map[string]string
}

func ruleWho(entries []whoEntry) func(c *Ctx) {
	return func(c *Ctx) {
		for _, e := range entries {
			f := c.P.Field(e.Field)
			if f == nil {
				c.undecided(e.Field, "anchor", "-", "field not found")
				continue
			}
			ws := c.P.writersOf(f)
			var names []string
			for n := range ws {
				names = append(names, n)
			}
			sort.Strings(names)
			for _, n := range names {
				c.inst(1)
				pos := c.P.InstrPos(ws[n][0])
				if reason, ok := e.Writers[n]; ok {
					c.ok(e.Field, "written by "+n, pos, reason)
				} else {
					c.viol(e.Field, "written by "+n, pos, fmt.Sprintf("%s is not a listed writer of %s (listed: %s); the accounting and typestate rules are established for the listed writers only", n, e.Field, strings.Join(sortedKeys(boolMap(e.Writers)), ", ")))
				}
			}
		}
	}
}

func boolMap(m map[string]string) map[string]bool {
	o := map[string]bool{}
	for k := range m {
		o[k] = true
	}
	return o
}

// stateWriters: who may store which constant into Subscription.state
// (typestate transition table, C02/C01/C11).
type stateWrite struct {
	Fn    string
	Value int64
	Why   string
}

func ruleStateTable(field string, names map[int64]string, table []stateWrite) func(c *Ctx) {
	return func(c *Ctx) {
		f := c.P.Field(field)
		if f == nil {
			c.undecided(field, "anchor", "-", "field not found")
			return
		}
		allowed := map[string]string{}
		for _, t := range table {
			allowed[fmt.Sprintf("%s=%d", t.Fn, t.Value)] = t.Why
		}
		for _, st := range c.P.stores[f] {
			c.inst(1)
			top := fnName(TopLevel(st.Parent()))
			pos := c.P.InstrPos(st)
			k, isC := constInt(st.Val)
			if !isC {
				c.viol(field, "transition in "+top, pos, "non-constant store to the state field")
				continue
			}
			key := fmt.Sprintf("%s=%d", top, k)
			nm := names[k]
			if why, ok := allowed[key]; ok {
				c.ok(field, fmt.Sprintf("%s sets %s", top, nm), pos, why)
			} else {
				c.viol(field, fmt.Sprintf("%s sets %s", top, nm), pos, "transition not in the typestate table: "+key)
			}
		}
	}
}
