package main

import (
	"fmt"
	"os"
	"strings"

	"golang.org/x/tools/go/ssa"
)

// cmdPaths prints the abstract paths of a function with a generic spec
// (every call and every branch is an event). Debugging aid for rule authors.
func cmdPaths(args []string) int {
	repo := "/repo"
	if len(args) > 1 {
		repo = args[1]
	}
	p, err := Load(repo, "")
	if err != nil {
		fmt.Fprintln(os.Stderr, err)
		return 2
	}
	fn := p.Fn(args[0])
	if fn == nil {
		fmt.Fprintln(os.Stderr, "no such function; candidates:")
		for _, f := range p.Repo {
			fmt.Fprintln(os.Stderr, "  ", fnName(f))
		}
		return 2
	}
	sp := &Spec{}
	sp.Classify = func(t *Tracer, fr *Frame, in ssa.Instruction) []Ev {
		if c, ok := in.(ssa.CallInstruction); ok {
			if isLogCall(c.Common()) {
				return nil
			}
			return []Ev{{Kind: "call " + calleeName(c.Common())}}
		}
		return nil
	}
	sp.Branch = func(t *Tracer, fr *Frame, i *ssa.If, dir bool) []Ev {
		return []Ev{{Kind: fmt.Sprintf("if %s=%v", i.Cond.Name(), dir)}}
	}
	sp.Inline = func(t *Tracer, fr *Frame, c ssa.CallInstruction, f *ssa.Function) bool { return f.Parent() != nil }
	tr := NewTracer(p, sp, fn)
	tr.Run()
	for i, path := range tr.Paths {
		fmt.Printf("path %d: %s\n", i, tr.FmtPath(path))
	}
	fmt.Printf("%d paths trunc=%v\n", len(tr.Paths), tr.Trunc)
	return 0
}

// cmdWriters prints the who-may-write sets of fields (table authoring aid).
func cmdWriters(args []string) int {
	p, err := Load("/repo", "")
	if err != nil {
		fmt.Fprintln(os.Stderr, err)
		return 2
	}
	for _, q := range args {
		f := p.Field(q)
		if f == nil {
			fmt.Println(q, ": not found")
			continue
		}
		fmt.Printf("%s: %v\n", q, sortedKeys(boolKeys(p.writersOf(f))))
	}
	return 0
}

func boolKeys(m map[string][]*ssa.Store) map[string]bool {
	o := map[string]bool{}
	for k := range m {
		o[k] = true
	}
	return o
}

// cmdCtx prints the execution contexts computed for functions whose name
// contains one of the given substrings: resverif ctx [-repo dir] <substr>...
func cmdCtx(args []string) int {
	repo := "/repo"
	if len(args) > 1 && args[0] == "-repo" {
		repo = args[1]
		args = args[2:]
	}
	p, err := Load(repo, "")
	if err != nil {
		fmt.Println(err)
		return 2
	}
	ci := p.contexts()
	for _, f := range p.Repo {
		for _, a := range args {
			if strings.Contains(fnName(f), a) {
				fmt.Printf("%-60s %v  %s\n", fnName(f), ci.ctx[f], ci.why[f])
			}
		}
	}
	return 0
}

// cmdLinPaths prints the paths the LIN rule sees for one continuation parameter:
// linpaths <function> <param index> [repo]. Debugging aid for rule authors.
func cmdLinPaths(args []string) int {
	repo := "/repo"
	if len(args) > 2 {
		repo = args[2]
	}
	p, err := Load(repo, "")
	if err != nil {
		fmt.Fprintln(os.Stderr, err)
		return 2
	}
	fn := p.Fn(args[0])
	if fn == nil {
		fmt.Fprintln(os.Stderr, "no such function")
		return 2
	}
	idx := 0
	fmt.Sscanf(args[1], "%d", &idx)
	sp := linSpec(p, idx)
	tr := NewTracer(p, sp, fn)
	tr.Run()
	for i, path := range tr.Paths {
		fmt.Printf("path %d: %s\n", i, tr.FmtPath(path))
	}
	fmt.Printf("%d paths trunc=%v escapes=%v\n", len(tr.Paths), tr.Trunc, tr.Escapes)
	return 0
}

// cmdResolve prints how an anchor name resolves on a tree: resolve <name> [repo].
func cmdResolve(args []string) int {
	repo := "/repo"
	if len(args) > 1 {
		repo = args[1]
	}
	p, err := Load(repo, "")
	if err != nil {
		fmt.Fprintln(os.Stderr, err)
		return 2
	}
	if f := p.Fn(args[0]); f != nil {
		fmt.Println("Fn ->", fnName(f))
	} else {
		fmt.Println("Fn -> nil")
	}
	if strings.HasPrefix(args[0], "(") {
		end := strings.Index(args[0], ").")
		recv := strings.TrimPrefix(args[0][1:end], "*")
		m := p.Method(recv + "." + args[0][end+2:])
		fmt.Println("Method ->", m)
	} else if f := p.Field(args[0]); f != nil {
		fmt.Println("Field ->", f)
	}
	fmt.Println("fuzzy:", p.fuzzy)
	return 0
}
