package main

import (
	"fmt"
	"go/token"
	"go/types"

	"golang.org/x/tools/go/ssa"
)

// ---------------------------------------------------------------------------
// DOM/method-token (C05, C16): the method of a call or auth request is ONE
// token of a subject. Every site that hands a method name coming from the
// client to the connection's call/auth entry points lies behind
// codec.IsValidRIDPart(<that very value>). A method with a dot in it
// ("b.c" on resource "a") passes the access check of resource "a" and is
// forwarded as call.a.b.c — method c of resource a.b, which was never checked.
func ruleMethodToken(c *Ctx) {
	p := c.P
	valid := p.PkgFunc("codec.IsValidRIDPart")
	if valid == nil {
		c.undecided("codec.IsValidRIDPart", "anchor", "-", "not found")
		return
	}
	type entry struct {
		m   *types.Func
		arg int // index in callArgs (receiver first)
	}
	var entries []entry
	for _, n := range []string{"server.wsConn.CallResource", "server.wsConn.AuthResource", "server.wsConn.CallHTTPResource", "rpc.Requester.CallResource", "rpc.Requester.AuthResource"} {
		if m := p.Method(n); m != nil {
			entries = append(entries, entry{m, 2})
		}
	}
	if len(entries) == 0 {
		c.undecided("(*server.wsConn).CallResource", "anchor", "-", "no call entry point found")
		return
	}
	// canon: the value a variable read stands for — a captured or spilled variable that is assigned once
	// stands for the value assigned
	var canon func(v ssa.Value, depth int) ssa.Value
	canon = func(v ssa.Value, depth int) ssa.Value {
		v = stripConv(v)
		if depth > 6 {
			return v
		}
		ld, ok := v.(*ssa.UnOp)
		if !ok || ld.Op != token.MUL {
			return v
		}
		cell := ld.X
		if fv, ok := cell.(*ssa.FreeVar); ok {
			fn := fv.Parent()
			mc := p.parent[fn]
			if mc == nil {
				return v
			}
			for i, f2 := range fn.FreeVars {
				if f2 == fv {
					cell = mc.Bindings[i]
				}
			}
			if fv2, ok := cell.(*ssa.FreeVar); ok {
				return canon(&ssa.UnOp{Op: token.MUL, X: fv2}, depth+1)
			}
		}
		al, ok := cell.(*ssa.Alloc)
		if !ok || al.Referrers() == nil {
			return v
		}
		var only ssa.Value
		n := 0
		for _, r := range *al.Referrers() {
			if st, ok := r.(*ssa.Store); ok && st.Addr == ssa.Value(al) {
				n++
				only = st.Val
			}
		}
		if n == 1 {
			return canon(only, depth+1)
		}
		return al
	}
	// is value v validated when control is at instruction `at`?
	var validated func(v ssa.Value, at ssa.Instruction, depth int) (bool, string)
	validated = func(v ssa.Value, at ssa.Instruction, depth int) (bool, string) {
		if depth > 6 {
			return false, "depth"
		}
		cv := canon(v, 0)
		if _, ok := cv.(*ssa.Const); ok {
			return true, ""
		}
		g := p.guardedBy(at, func(i *ssa.If) (bool, bool) {
			x, neg := ssa.Value(i.Cond), false
			if u, ok := x.(*ssa.UnOp); ok && u.Op == token.NOT {
				x, neg = u.X, true
			}
			cl, ok := x.(*ssa.Call)
			if !ok || calleeFunc(&cl.Call) != valid || len(cl.Call.Args) != 1 {
				return false, false
			}
			if canon(cl.Call.Args[0], 0) == cv {
				return !neg, true
			}
			return false, false
		})
		if g != nil {
			return true, ""
		}
		switch x := cv.(type) {
		case *ssa.Phi:
			for i, e := range x.Edges {
				pred := x.Block().Preds[i]
				if ok, why := validated(e, pred.Instrs[len(pred.Instrs)-1], depth+1); !ok {
					return false, why
				}
			}
			return true, ""
		case *ssa.Alloc:
			n := 0
			for _, r := range *x.Referrers() {
				if st, ok := r.(*ssa.Store); ok && st.Addr == ssa.Value(x) {
					n++
					if ok, why := validated(st.Val, st, depth+1); !ok {
						return false, why
					}
				}
			}
			return n > 0, "variable never assigned"
		case *ssa.UnOp:
			// configuration values are validated when the configuration is prepared
			if f, _ := fieldLoad(x); f != nil {
				return true, ""
			}
			if x.Op == token.MUL {
				if f, _ := fieldLoad(x.X); f != nil {
					return true, ""
				}
			}
		case *ssa.Parameter:
			fn := x.Parent()
			idx := -1
			for i, prm := range fn.Params {
				if prm == x {
					idx = i
				}
			}
			n := p.CG.Nodes[fn]
			if idx < 0 || n == nil || len(n.In) == 0 {
				return false, "parameter of a function without known callers"
			}
			for _, e := range n.In {
				if e.Site == nil {
					return false, "called from an unknown site"
				}
				args := callArgs(e.Site.Common())
				if e.Site.Common().StaticCallee() != fn || idx >= len(args) {
					return false, "called indirectly"
				}
				if ok, why := validated(args[idx], e.Site, depth+1); !ok {
					return false, why
				}
			}
			return true, ""
		}
		return false, "the method name is not checked by IsValidRIDPart"
	}
	for _, fn := range p.Repo {
		top := TopLevel(fn)
		if top.Pkg == nil || (top.Pkg.Pkg.Name() != "server" && top.Pkg.Pkg.Name() != "rpc") {
			continue
		}
		for _, call := range callsIn(fn) {
			m := calleeFunc(call.Common())
			if m == nil {
				continue
			}
			for _, e := range entries {
				if m != e.m {
					continue
				}
				args := callArgs(call.Common())
				if e.arg >= len(args) {
					continue
				}
				c.inst(1)
				ok, why := validated(args[e.arg], call, 0)
				c.check(ok, fnName(fn), "the method of a call/auth request is a single valid subject token ("+m.Name()+")", p.InstrPos(call),
					"method value checked by IsValidRIDPart on every path to the entry point",
					"a method name reaches the call/auth entry point unchecked ("+why+"): a method containing a dot is access-checked on one resource and forwarded as a call on another")
			}
		}
	}
}

// ---------------------------------------------------------------------------
// DOM/unsend-countdown (C02, C09): when the collector un-sends a subscription
// (the client dropped it, a loading parent still needs it) the sent count of
// each child goes down by one exactly when the child is sent and counted —
// whatever else holds the child. A child that is also held directly keeps an
// indirectsent one too high otherwise, and is never re-sent/never collected
// when its direct holder goes.
func ruleUnsendCountdown(c *Ctx) {
	p := c.P
	fn := p.Fn("(*server.Subscription).Unsend")
	fSent := p.Field("server.Subscription.indirectsent")
	fState := p.Field("server.Subscription.state")
	if fn == nil || fSent == nil || fState == nil {
		c.undecided("(*server.Subscription).Unsend", "anchor", "-", "not found")
		return
	}
	subT := p.Named("server.Subscription")
	fns := p.withNewHelpers(fn)
	// the decrement exists
	dec := 0
	for _, g := range fns {
		for _, in := range instrsOf(g) {
			st, ok := in.(*ssa.Store)
			if !ok {
				continue
			}
			fa, ok := st.Addr.(*ssa.FieldAddr)
			if !ok || fieldOfAddr(fa) != fSent {
				continue
			}
			if b, ok := st.Val.(*ssa.BinOp); ok && (b.Op == token.SUB || b.Op == token.ADD) {
				dec++
			}
		}
	}
	c.inst(1)
	c.check(dec > 0, fnName(fn), "un-sending counts the sent references of the children down", p.Pos(fn.Pos()), "decrement of the child's indirectsent present", "no count-down of the children's sent counts")
	fieldsOf := func(v ssa.Value, depth int, out map[*types.Var]bool) { condFields(p, v, depth, out) }
	for _, g := range fns {
		for _, in := range instrsOf(g) {
			i, ok := in.(*ssa.If)
			if !ok {
				continue
			}
			fs := map[*types.Var]bool{}
			fieldsOf(i.Cond, 0, fs)
			if len(fs) == 0 {
				continue
			}
			c.inst(1)
			bad := ""
			for f := range fs {
				if f == fSent || f == fState {
					continue
				}
				if subT != nil && fieldOwner(p, f) == subT.Obj().Pkg().Name()+"."+subT.Obj().Name() {
					bad = f.Name()
				}
			}
			c.check(bad == "", fnName(g), "whether a child's sent count goes down depends on its being sent and counted only", p.InstrPos(i),
				"decision reads state / indirectsent only",
				"the count-down of a child depends on Subscription."+bad+": a child with another holder keeps a sent count one too high, it is later taken for sent (not delivered again) or never collected")
		}
	}
}

// ---------------------------------------------------------------------------
// DOM/queue-flag-whole (C06, C02): Subscription.queueFlag is a set of reasons
// for holding events back (loading, re-access pending, ...). Every decision
// taken on it asks whether ANY reason is set: the whole value is compared with
// zero. A test of a single reason bit lets events (or a deferred re-access)
// through while another reason still holds the gate.
func ruleQueueFlagWhole(c *Ctx) {
	p := c.P
	f := p.Field("server.Subscription.queueFlag")
	if f == nil {
		c.undecided("server.Subscription.queueFlag", "anchor", "-", "not found")
		return
	}
	isLoad := func(v ssa.Value) bool {
		g, _ := fieldLoad(stripConv(v))
		return g == f
	}
	for _, fn := range p.Repo {
		top := TopLevel(fn)
		if top.Pkg == nil || top.Pkg.Pkg.Name() != "server" {
			continue
		}
		for _, in := range instrsOf(fn) {
			b, ok := in.(*ssa.BinOp)
			if !ok {
				continue
			}
			switch b.Op {
			case token.EQL, token.NEQ, token.GTR, token.LSS, token.GEQ, token.LEQ:
				if isLoad(b.X) || isLoad(b.Y) {
					c.inst(1)
					k, isK := constInt(b.Y)
					if !isK {
						k, isK = constInt(b.X)
					}
					c.check(isK && k == 0, fnName(fn), "a decision on the hold-back reasons asks whether any reason is set", p.InstrPos(b), "queueFlag compared with 0", "queueFlag compared with something other than 0")
				}
			case token.AND, token.AND_NOT:
				if !isLoad(b.X) && !isLoad(b.Y) {
					continue
				}
				// a masked value: fine when it becomes the new queueFlag (a reason is cleared), not when it is tested
				stored, tested := false, false
				if b.Referrers() != nil {
					for _, r := range *b.Referrers() {
						switch x := r.(type) {
						case *ssa.Store:
							if fa, ok := x.Addr.(*ssa.FieldAddr); ok && fieldOfAddr(fa) == f && x.Val == ssa.Value(b) {
								stored = true
							}
						case *ssa.BinOp:
							switch x.Op {
							case token.EQL, token.NEQ, token.GTR, token.LSS, token.GEQ, token.LEQ:
								tested = true
							}
						case *ssa.If:
							tested = true
						}
					}
				}
				c.inst(1)
				c.check(stored || !tested, fnName(fn), "a decision on the hold-back reasons asks whether any reason is set", p.InstrPos(b), "masked value is the new queueFlag",
					"a single reason bit of queueFlag is tested: events (or a deferred re-access) pass while another reason still holds the gate")
			}
		}
	}
}

// condFields collects the struct fields a condition reads, looking through
// arithmetic, phis and predicate helpers of the repository.
func condFields(p *Prog, v ssa.Value, depth int, out map[*types.Var]bool) {
	if depth > 6 || v == nil {
		return
	}
	if f, _ := fieldLoad(v); f != nil {
		out[f] = true
		return
	}
	switch x := v.(type) {
	case *ssa.BinOp:
		condFields(p, x.X, depth+1, out)
		condFields(p, x.Y, depth+1, out)
	case *ssa.UnOp:
		condFields(p, x.X, depth+1, out)
	case *ssa.Phi:
		for _, e := range x.Edges {
			condFields(p, e, depth+1, out)
		}
	case *ssa.Call:
		if sf := x.Call.StaticCallee(); sf != nil && p.isRepoFn(sf) && len(sf.Blocks) > 0 {
			for _, in := range instrsOf(sf) {
				if i, ok := in.(*ssa.If); ok {
					condFields(p, i.Cond, depth+1, out)
				}
				if r, ok := in.(*ssa.Return); ok {
					for _, rv := range r.Results {
						condFields(p, rv, depth+1, out)
					}
				}
			}
		}
	}
}

// DOM/query-event-all (C13): a query event is put to every cached query
// variant that has been loaded: whether a variant is skipped depends on its
// load state only (not on a reset being under way, its subscriber count, ...).
// A skipped variant never learns of the change the event announces.
func ruleQueryEventAll(c *Ctx) {
	p := c.P
	fn := p.Fn("(*rescache.EventSubscription).handleQueryEvent")
	fState := p.Field("rescache.ResourceSubscription.state")
	rsT := p.Named("rescache.ResourceSubscription")
	if fn == nil || fState == nil || rsT == nil {
		c.undecided("(*rescache.EventSubscription).handleQueryEvent", "anchor", "-", "not found")
		return
	}
	owner := rsT.Obj().Pkg().Name() + "." + rsT.Obj().Name()
	n := 0
	for _, g := range p.withNewHelpers(fn) {
		if g.Parent() != nil {
			continue // the answer handlers decide on the answer, not on whether to ask
		}
		for _, in := range instrsOf(g) {
			i, ok := in.(*ssa.If)
			if !ok {
				continue
			}
			fs := map[*types.Var]bool{}
			condFields(p, i.Cond, 0, fs)
			bad, reads := "", false
			for f := range fs {
				if fieldOwner(p, f) != owner {
					continue
				}
				reads = true
				if f != fState {
					bad = f.Name()
				}
			}
			if !reads {
				continue
			}
			n++
			c.inst(1)
			c.check(bad == "", fnName(g), "whether a query variant is asked about a query event depends on its load state only", p.InstrPos(i),
				"skip decision reads ResourceSubscription.state only",
				"a loaded query variant is skipped depending on ResourceSubscription."+bad+": it never learns of the change the query event announces")
		}
	}
	if n == 0 {
		c.viol(fnName(fn), "whether a query variant is asked about a query event depends on its load state only", p.Pos(fn.Pos()), "no decision on the variant's load state found: variants still being requested are asked too, or none is")
	}
}

// ---------------------------------------------------------------------------
// DOM/loop-index (C15, C18): an element read at the position of a counting
// loop variable (i := k; ...; i++) goes with SOME test of that variable — the
// loop condition, or a test in the body — in the function that reads it. A
// scan `for { c = data[i]; if c != ' ' { break }; i++ }` runs off the end of
// every input that consists of the skipped bytes only (an empty frame, a frame
// of blanks): an index-out-of-range panic on the goroutine that reads it.
// Decided: that a test of the counter dominates the read. Not decided: that
// the test is the right one.
func ruleLoopIndex(c *Ctx) {
	p := c.P
	n := 0
	for _, fn := range p.Repo {
		if !inScopePkgs(fn, "server", "rescache", "nats", "rpc", "codec") {
			continue
		}
		for _, in := range instrsOf(fn) {
			var x, idx ssa.Value
			switch y := in.(type) {
			case *ssa.IndexAddr:
				x, idx = y.X, y.Index
			case *ssa.Index:
				x, idx = y.X, y.Index
			case *ssa.Lookup:
				if bt, ok := y.X.Type().Underlying().(*types.Basic); ok && bt.Info()&types.IsString != 0 {
					x, idx = y.X, y.Index
				}
			}
			if x == nil {
				continue
			}
			switch x.Type().Underlying().(type) {
			case *types.Slice, *types.Basic:
			default:
				continue
			}
			phi := inductionVar(idx)
			if phi == nil || !isByteSeq(x.Type()) {
				continue
			}
			n++
			c.inst(1)
			if fn.Name() == "UnmarshalJSON" && fn.Signature.Recv() != nil {
				c.ok(fnName(fn), "an element at the position of a loop counter is read behind a test of the counter", p.InstrPos(in), "exception: encoding/json hands an Unmarshaler one complete JSON value, which has a non-blank byte")
				continue
			}
			// some test involves the counter (or counter±k): in the loop condition or in the body
			guarded := false
			for _, d := range fn.Blocks {
				if i := blockIf(d); i != nil && mentionsValue(i.Cond, phi, 0) {
					guarded = true
				}
			}
			if !guarded && rangeCounter(phi) {
				guarded = true
			}
			c.check(guarded, fnName(fn), "an element at the position of a loop counter is read behind a test of the counter", p.InstrPos(in),
				"the counter is tested in the loop",
				"the scan reads "+x.Name()+"["+phi.Comment+"] with no test of the counter in front of it: it runs off the end of an input made of the skipped bytes only (index out of range on the reading goroutine)")
		}
	}
	if n == 0 {
		c.note("no counted element reads in scope")
	}
}

// inductionVar: idx is (a constant offset of) a phi that counts: one of its
// edges is the phi itself plus or minus a constant.
func inductionVar(idx ssa.Value) *ssa.Phi {
	idx = stripConv(idx)
	for d := 0; d < 3; d++ {
		if b, ok := idx.(*ssa.BinOp); ok && (b.Op == token.ADD || b.Op == token.SUB) {
			if _, isK := constInt(b.Y); isK {
				idx = stripConv(b.X)
				continue
			}
		}
		break
	}
	phi, ok := idx.(*ssa.Phi)
	if !ok {
		return nil
	}
	for _, e := range phi.Edges {
		if b, ok := stripConv(e).(*ssa.BinOp); ok && (b.Op == token.ADD || b.Op == token.SUB) {
			if _, isK := constInt(b.Y); isK && stripConv(b.X) == ssa.Value(phi) {
				return phi
			}
		}
	}
	return nil
}

func mentionsValue(v ssa.Value, want ssa.Value, depth int) bool {
	if depth > 5 || v == nil {
		return false
	}
	v = stripConv(v)
	if v == want {
		return true
	}
	switch x := v.(type) {
	case *ssa.BinOp:
		return mentionsValue(x.X, want, depth+1) || mentionsValue(x.Y, want, depth+1)
	case *ssa.UnOp:
		return mentionsValue(x.X, want, depth+1)
	case *ssa.Phi:
		for _, e := range x.Edges {
			if mentionsValue(e, want, depth+1) {
				return true
			}
		}
	}
	return false
}

func isByteSeq(t types.Type) bool {
	switch u := t.Underlying().(type) {
	case *types.Basic:
		return u.Info()&types.IsString != 0
	case *types.Slice:
		b, ok := u.Elem().Underlying().(*types.Basic)
		return ok && b.Kind() == types.Byte
	}
	return false
}

// rangeCounter: the phi is the hidden counter of a range loop (go/ssa names it
// "rangeindex" and tests it against the length itself).
func rangeCounter(phi *ssa.Phi) bool {
	return phi.Comment == "rangeindex"
}

// ---------------------------------------------------------------------------
// DOM/raw-path (C16): the HTTP path that is split into resource-id parts is
// the escaped one (URL.RawPath when the request had one, URL.EscapedPath()):
// parts are split at '/' first and unescaped afterwards. Splitting the decoded
// URL.Path lets an encoded slash or dot (%2F, %2E) move a part boundary — the
// request addresses another resource than the one its path names.
func ruleRawPath(c *Ctx) {
	p := c.P
	targets := []*types.Func{p.PkgFunc("server.PathToRID"), p.PkgFunc("server.PathToRIDAction")}
	var leaves func(v ssa.Value, depth int, seen map[ssa.Value]bool, out map[string]bool)
	leaves = func(v ssa.Value, depth int, seen map[ssa.Value]bool, out map[string]bool) {
		v = stripConv(v)
		if v == nil || seen[v] || depth > 10 {
			return
		}
		seen[v] = true
		if f, _ := fieldLoad(v); f != nil {
			out["field:"+f.Name()] = true
			return
		}
		switch x := v.(type) {
		case *ssa.Phi:
			for _, e := range x.Edges {
				leaves(e, depth+1, seen, out)
			}
		case *ssa.Slice:
			leaves(x.X, depth+1, seen, out)
		case *ssa.UnOp:
			if x.Op != token.MUL {
				return
			}
			cell := x.X
			if fv, ok := cell.(*ssa.FreeVar); ok {
				if mc := p.parent[fv.Parent()]; mc != nil {
					for i, f2 := range fv.Parent().FreeVars {
						if f2 == fv {
							cell = mc.Bindings[i]
						}
					}
				}
			}
			if al, ok := cell.(*ssa.Alloc); ok && al.Referrers() != nil {
				for _, r := range *al.Referrers() {
					if st, ok := r.(*ssa.Store); ok && st.Addr == ssa.Value(al) {
						leaves(st.Val, depth+1, seen, out)
					}
				}
			}
		case *ssa.Call:
			if m := calleeFunc(&x.Call); m != nil {
				out["call:"+m.Name()] = true
				if sf := x.Call.StaticCallee(); sf != nil && p.isRepoFn(sf) {
					for _, in := range instrsOf(sf) {
						if r, ok := in.(*ssa.Return); ok {
							for _, rv := range r.Results {
								leaves(rv, depth+1, seen, out)
							}
						}
					}
				}
			}
		case *ssa.Extract:
			leaves(x.Tuple, depth+1, seen, out)
		case *ssa.Parameter:
			fn := x.Parent()
			n := p.CG.Nodes[fn]
			idx := -1
			for i, prm := range fn.Params {
				if prm == x {
					idx = i
				}
			}
			if n == nil || idx < 0 {
				out["param"] = true
				return
			}
			k := 0
			for _, e := range n.In {
				if e.Site == nil || e.Site.Common().StaticCallee() != fn {
					continue
				}
				args := callArgs(e.Site.Common())
				if idx < len(args) {
					k++
					leaves(args[idx], depth+1, seen, out)
				}
			}
			if k == 0 {
				out["param"] = true
			}
		}
	}
	n := 0
	for _, fn := range p.Repo {
		if !inScopePkgs(fn, "server") {
			continue
		}
		for _, call := range callsIn(fn) {
			m := calleeFunc(call.Common())
			if m == nil || (m != targets[0] && m != targets[1]) {
				continue
			}
			args := callArgs(call.Common())
			if len(args) == 0 {
				continue
			}
			out := map[string]bool{}
			leaves(args[0], 0, map[ssa.Value]bool{}, out)
			if !out["field:Path"] && !out["field:RawPath"] && !out["call:EscapedPath"] && !out["field:RequestURI"] {
				continue // not a request path (tests, link rendering)
			}
			n++
			c.inst(1)
			c.check(out["field:RawPath"] || out["call:EscapedPath"] || out["field:RequestURI"], fnName(fn), "the request path split into resource-id parts is the escaped one", p.InstrPos(call),
				"path argument comes from URL.RawPath / EscapedPath()",
				"the decoded URL.Path is split into parts: an encoded slash or dot moves a part boundary, the request reaches another resource than its path names")
		}
	}
	if n == 0 {
		c.viol("(*server.Service).apiHandler", "the request path split into resource-id parts is the escaped one", "-", "no request path reaches PathToRID / PathToRIDAction")
	}
}

// ---------------------------------------------------------------------------
// WHO/nats-discard (C18): the pending requests of the NATS adapter (the map of
// inboxes and the timeout queue) are what guarantees that every request is
// completed — by its answer or by its timeout. They are thrown away in one
// place, the shutdown of the client, which only its owner's Close and the
// slow-consumer branch of the error handler may enter. A connection event
// (closed, disconnected, reconnected) that discards them leaves every request
// in flight without completion: its timeout never fires.
func ruleNatsDiscard(c *Ctx) {
	p := c.P
	a := natsFields(p)
	if a.reqs == nil || a.tq == nil {
		c.undecided("nats.Client", "anchor", "-", "pending map / timeout queue not found")
		return
	}
	connect := p.Fn("(*nats.Client).Connect")
	allowed := map[*ssa.Function]string{}
	for _, n := range []string{"(*nats.Client).Close", "(*nats.Client).onError"} {
		if f := p.fnNoRole(n); f != nil {
			allowed[f] = n
		}
	}
	// functions that discard the pending state themselves
	discards := map[*ssa.Function]ssa.Instruction{}
	var pkgFns []*ssa.Function
	for _, fn := range p.Repo {
		if !inScopePkgs(fn, "nats") {
			continue
		}
		pkgFns = append(pkgFns, fn)
		if TopLevel(fn) == connect {
			continue
		}
		for _, in := range instrsOf(fn) {
			switch x := in.(type) {
			case *ssa.Store:
				if fa, ok := x.Addr.(*ssa.FieldAddr); ok && (fieldOfAddr(fa) == a.reqs || fieldOfAddr(fa) == a.tq) {
					if _, fresh := stripConv(x.Val).(*ssa.MakeMap); fresh || isNilConst(x.Val) {
						discards[fn] = in
					}
				}
			case ssa.CallInstruction:
				if m := calleeFunc(x.Common()); m != nil && m.Name() == "Clear" && len(callArgs(x.Common())) > 0 {
					if f, _ := fieldLoad(callArgs(x.Common())[0]); f == a.tq {
						discards[fn] = in
					}
				}
			}
		}
	}
	c.inst(1)
	c.check(len(discards) > 0, "(*nats.Client).close", "the pending requests are discarded at shutdown", "-", fmt.Sprintf("%d discarding function(s)", len(discards)), "no function discards the pending requests: anchor lost")
	// reach: in-package static callers, closures count for their top-level function
	reach := map[*ssa.Function]bool{}
	for f := range discards {
		reach[TopLevel(f)] = true
	}
	for changed := true; changed; {
		changed = false
		for _, fn := range pkgFns {
			t := TopLevel(fn)
			if reach[t] {
				continue
			}
			for _, call := range callsIn(fn) {
				if sf := call.Common().StaticCallee(); sf != nil && reach[TopLevel(sf)] {
					reach[t] = true
					changed = true
				}
			}
		}
	}
	// roots: reaching functions nobody in the package calls
	for t := range reach {
		called := false
		for _, fn := range pkgFns {
			if TopLevel(fn) == t {
				continue
			}
			for _, call := range callsIn(fn) {
				if call.Common().StaticCallee() == t {
					called = true
				}
			}
		}
		if called && (t.Object() == nil || !t.Object().Exported()) {
			continue
		}
		c.inst(1)
		_, ok := allowed[t]
		c.check(ok, fnName(t), "pending requests are discarded only by the owner's Close and the slow-consumer shutdown", p.Pos(t.Pos()),
			"entry point allowed", "this entry point reaches the shutdown that replaces the pending map and clears the timeout queue: requests in flight are never completed, not even by their timeout")
	}
}

// ---------------------------------------------------------------------------
// PROV/throttle-through (C19): a function that is given a throttle hands that
// throttle on — to every callee that takes one — as it got it (or, where it got
// none, the one it created for the purpose). It never replaces it by nil on
// some path: the request issued further down would then go out beside the
// throttle, and more than N governed requests are outstanding.
func ruleThrottleThrough(c *Ctx) {
	p := c.P
	thT := p.Named("rescache.Throttle")
	newTh := p.PkgFunc("rescache.NewThrottle")
	if thT == nil {
		c.undecided("rescache.Throttle", "anchor", "-", "not found")
		return
	}
	isTh := func(t types.Type) bool {
		pt, ok := t.(*types.Pointer)
		return ok && types.Identical(pt.Elem(), thT)
	}
	var leaves func(v ssa.Value, depth int, seen map[ssa.Value]bool, out map[string]bool)
	leaves = func(v ssa.Value, depth int, seen map[ssa.Value]bool, out map[string]bool) {
		v = stripConv(v)
		if v == nil || seen[v] || depth > 10 {
			return
		}
		seen[v] = true
		if isNilConst(v) {
			out["nil"] = true
			return
		}
		if f, _ := fieldLoad(v); f != nil {
			out["field"] = true
			return
		}
		switch x := v.(type) {
		case *ssa.Parameter:
			out["param"] = true
		case *ssa.Phi:
			for _, e := range x.Edges {
				leaves(e, depth+1, seen, out)
			}
		case *ssa.Call:
			if calleeFunc(&x.Call) == newTh && newTh != nil {
				out["new"] = true
			} else {
				out["call"] = true
			}
		case *ssa.UnOp:
			if x.Op != token.MUL {
				out["other"] = true
				return
			}
			cell := x.X
			if fv, ok := cell.(*ssa.FreeVar); ok {
				if mc := p.parent[fv.Parent()]; mc != nil {
					for i, f2 := range fv.Parent().FreeVars {
						if f2 == fv {
							cell = mc.Bindings[i]
						}
					}
				}
			}
			if fv, ok := cell.(*ssa.FreeVar); ok {
				// nested closure: one more level
				if mc := p.parent[fv.Parent()]; mc != nil {
					for i, f2 := range fv.Parent().FreeVars {
						if f2 == fv {
							cell = mc.Bindings[i]
						}
					}
				}
			}
			if al, ok := cell.(*ssa.Alloc); ok && al.Referrers() != nil {
				for _, r := range *al.Referrers() {
					if st, ok := r.(*ssa.Store); ok && st.Addr == ssa.Value(al) {
						leaves(st.Val, depth+1, seen, out)
					}
				}
				return
			}
			out["other"] = true
		default:
			out["other"] = true
		}
	}
	n := 0
	for _, top := range p.Repo {
		if top.Parent() != nil || !inScopePkgs(top, "server", "rescache") {
			continue
		}
		hasParam := false
		for _, prm := range top.Params {
			if isTh(prm.Type()) {
				hasParam = true
			}
		}
		if !hasParam {
			continue
		}
		for _, g := range WithClosures(top) {
			for _, call := range callsIn(g) {
				for ai, a := range call.Common().Args {
					if !isTh(a.Type()) {
						continue
					}
					if call.Common().IsInvoke() == false && ai == 0 && call.Common().Signature().Recv() != nil {
						continue // the throttle's own methods (t.Add, t.Done)
					}
					n++
					c.inst(1)
					out := map[string]bool{}
					leaves(a, 0, map[ssa.Value]bool{}, out)
					bad := ""
					if out["nil"] && (out["param"] || out["field"]) {
						bad = "on some path nil is handed on instead of the throttle the function was given"
					} else if out["nil"] && !out["new"] {
						bad = "nil is handed on although the function was given a throttle"
					}
					c.check(bad == "", fnName(g), "the throttle a function is given governs the requests it causes ("+calleeName(call.Common())+")", p.InstrPos(call),
						"throttle argument is the one received (or the one created where none was received)",
						bad+": the request issued further down goes out beside the throttle — more than the configured number of governed requests are outstanding")
				}
			}
		}
	}
	if n == 0 {
		c.viol("rescache.Throttle", "the throttle a function is given governs the requests it causes", "-", "no site hands a throttle on: anchor lost")
	}
}
