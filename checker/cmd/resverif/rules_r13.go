package main

import (
	"fmt"
	"go/token"
	"go/types"
	"os"
	"sort"
	"strings"

	"golang.org/x/tools/go/ssa"
)

// ---------------------------------------------------------------------------
// DOM/method-token (C05, C16): the method of a call or auth request is ONE
// token of a subject. Every site that hands a method name coming from the
// client to the connection's call/auth entry points lies behind
// codec.IsValidRIDPart(<that very value>). A method with a dot in it
// ("b.c" on resource "a") passes the access check of resource "a" and is
// forwarded as call.a.b.c — method c of resource a.b, which was never checked.
func ruleMethodToken(c *Ctx) {
	p := c.P
	valid := p.PkgFunc("codec.IsValidRIDPart")
	if valid == nil {
		c.undecided("codec.IsValidRIDPart", "anchor", "-", "not found")
		return
	}
	type entry struct {
		m   *types.Func
		arg int // index in callArgs (receiver first)
	}
	var entries []entry
	for _, n := range []string{"server.wsConn.CallResource", "server.wsConn.AuthResource", "server.wsConn.CallHTTPResource", "rpc.Requester.CallResource", "rpc.Requester.AuthResource"} {
		if m := p.Method(n); m != nil {
			entries = append(entries, entry{m, 2})
		}
	}
	if len(entries) == 0 {
		c.undecided("(*server.wsConn).CallResource", "anchor", "-", "no call entry point found")
		return
	}
	// canon: the value a variable read stands for — a captured or spilled variable that is assigned once
	// stands for the value assigned
	var canon func(v ssa.Value, depth int) ssa.Value
	canon = func(v ssa.Value, depth int) ssa.Value {
		v = stripConv(v)
		if depth > 6 {
			return v
		}
		ld, ok := v.(*ssa.UnOp)
		if !ok || ld.Op != token.MUL {
			return v
		}
		cell := ld.X
		if fv, ok := cell.(*ssa.FreeVar); ok {
			fn := fv.Parent()
			mc := p.parent[fn]
			if mc == nil {
				return v
			}
			for i, f2 := range fn.FreeVars {
				if f2 == fv {
					cell = mc.Bindings[i]
				}
			}
			if fv2, ok := cell.(*ssa.FreeVar); ok {
				return canon(&ssa.UnOp{Op: token.MUL, X: fv2}, depth+1)
			}
		}
		al, ok := cell.(*ssa.Alloc)
		if !ok || al.Referrers() == nil {
			return v
		}
		var only ssa.Value
		n := 0
		for _, r := range *al.Referrers() {
			if st, ok := r.(*ssa.Store); ok && st.Addr == ssa.Value(al) {
				n++
				only = st.Val
			}
		}
		if n == 1 {
			return canon(only, depth+1)
		}
		return al
	}
	// is value v validated when control is at instruction `at`?
	var validated func(v ssa.Value, at ssa.Instruction, depth int) (bool, string)
	validated = func(v ssa.Value, at ssa.Instruction, depth int) (bool, string) {
		if depth > 6 {
			return false, "depth"
		}
		cv := canon(v, 0)
		if _, ok := cv.(*ssa.Const); ok {
			return true, ""
		}
		g := p.guardedBy(at, func(i *ssa.If) (bool, bool) {
			x, neg := ssa.Value(i.Cond), false
			if u, ok := x.(*ssa.UnOp); ok && u.Op == token.NOT {
				x, neg = u.X, true
			}
			cl, ok := x.(*ssa.Call)
			if !ok || calleeFunc(&cl.Call) != valid || len(cl.Call.Args) != 1 {
				return false, false
			}
			if canon(cl.Call.Args[0], 0) == cv {
				return !neg, true
			}
			return false, false
		})
		if g != nil {
			return true, ""
		}
		switch x := cv.(type) {
		case *ssa.Phi:
			for i, e := range x.Edges {
				pred := x.Block().Preds[i]
				if ok, why := validated(e, pred.Instrs[len(pred.Instrs)-1], depth+1); !ok {
					return false, why
				}
			}
			return true, ""
		case *ssa.Alloc:
			n := 0
			for _, r := range *x.Referrers() {
				if st, ok := r.(*ssa.Store); ok && st.Addr == ssa.Value(x) {
					n++
					if ok, why := validated(st.Val, st, depth+1); !ok {
						return false, why
					}
				}
			}
			return n > 0, "variable never assigned"
		case *ssa.UnOp:
			// configuration values are validated when the configuration is prepared
			if f, _ := fieldLoad(x); f != nil {
				return true, ""
			}
			if x.Op == token.MUL {
				if f, _ := fieldLoad(x.X); f != nil {
					return true, ""
				}
			}
		case *ssa.Parameter:
			fn := x.Parent()
			idx := -1
			for i, prm := range fn.Params {
				if prm == x {
					idx = i
				}
			}
			n := p.CG.Nodes[fn]
			if idx < 0 || n == nil || len(n.In) == 0 {
				return false, "parameter of a function without known callers"
			}
			for _, e := range n.In {
				if e.Site == nil {
					return false, "called from an unknown site"
				}
				args := callArgs(e.Site.Common())
				if e.Site.Common().StaticCallee() != fn || idx >= len(args) {
					return false, "called indirectly"
				}
				if ok, why := validated(args[idx], e.Site, depth+1); !ok {
					return false, why
				}
			}
			return true, ""
		}
		return false, "the method name is not checked by IsValidRIDPart"
	}
	for _, fn := range p.Repo {
		top := TopLevel(fn)
		if top.Pkg == nil || (top.Pkg.Pkg.Name() != "server" && top.Pkg.Pkg.Name() != "rpc") {
			continue
		}
		for _, call := range callsIn(fn) {
			m := calleeFunc(call.Common())
			if m == nil {
				continue
			}
			for _, e := range entries {
				if m != e.m {
					continue
				}
				args := callArgs(call.Common())
				if e.arg >= len(args) {
					continue
				}
				c.inst(1)
				ok, why := validated(args[e.arg], call, 0)
				c.check(ok, fnName(fn), "the method of a call/auth request is a single valid subject token ("+m.Name()+")", p.InstrPos(call),
					"method value checked by IsValidRIDPart on every path to the entry point",
					"a method name reaches the call/auth entry point unchecked ("+why+"): a method containing a dot is access-checked on one resource and forwarded as a call on another")
			}
		}
	}
}

// ---------------------------------------------------------------------------
// DOM/unsend-countdown (C02, C09): when the collector un-sends a subscription
// (the client dropped it, a loading parent still needs it) the sent count of
// each child goes down by one exactly when the child is sent and counted —
// whatever else holds the child. A child that is also held directly keeps an
// indirectsent one too high otherwise, and is never re-sent/never collected
// when its direct holder goes.
func ruleUnsendCountdown(c *Ctx) {
	p := c.P
	fn := p.Fn("(*server.Subscription).Unsend")
	fSent := p.Field("server.Subscription.indirectsent")
	fState := p.Field("server.Subscription.state")
	if fn == nil || fSent == nil || fState == nil {
		c.undecided("(*server.Subscription).Unsend", "anchor", "-", "not found")
		return
	}
	subT := p.Named("server.Subscription")
	fns := p.withNewHelpers(fn)
	// the decrement exists
	dec := 0
	for _, g := range fns {
		for _, in := range instrsOf(g) {
			st, ok := in.(*ssa.Store)
			if !ok {
				continue
			}
			fa, ok := st.Addr.(*ssa.FieldAddr)
			if !ok || fieldOfAddr(fa) != fSent {
				continue
			}
			if b, ok := st.Val.(*ssa.BinOp); ok && (b.Op == token.SUB || b.Op == token.ADD) {
				dec++
			}
		}
	}
	c.inst(1)
	c.check(dec > 0, fnName(fn), "un-sending counts the sent references of the children down", p.Pos(fn.Pos()), "decrement of the child's indirectsent present", "no count-down of the children's sent counts")
	// the decrement happens for a child that is sent and counted: behind state == stateSent and indirectsent > 0
	kSent := p.ConstInt("server.stateSent", -1)
	nStates := p.ConstInt("server.stateDisposed", 0)
	if k := p.ConstInt("server.stateDeleted", 0); k > nStates {
		nStates = k
	}
	if kSent > nStates {
		nStates = kSent
	}
	isSent := fieldCmpGuard(fState, nStates+1, func(v int64) bool { return v == kSent })
	counted := fieldCmpGuard(fSent, 4, func(v int64) bool { return v > 0 })
	for _, g := range fns {
		for _, in := range instrsOf(g) {
			st, ok := in.(*ssa.Store)
			if !ok {
				continue
			}
			fa, ok := st.Addr.(*ssa.FieldAddr)
			if !ok || fieldOfAddr(fa) != fSent {
				continue
			}
			b, ok := st.Val.(*ssa.BinOp)
			if !ok || b.Op != token.SUB {
				if k, isK := constInt(st.Val); isK && k == 0 {
					continue
				}
				continue
			}
			c.inst(1)
			g1, g2 := p.guardedBy(st, isSent), p.guardedBy(st, counted)
			// (a child whose sent count is positive has been sent, and the other way round: either test carries the
			// decision; with neither, every child is counted down)
			bad := ""
			if g1 == nil && g2 == nil {
				bad = "the decrement lies neither behind state == stateSent nor behind indirectsent > 0: children that were never delivered are counted down, counts go negative"
			}
			c.check(bad == "", fnName(g), "the sent count of a child goes down only if the child is sent / counted", p.InstrPos(st), "behind state == stateSent or indirectsent > 0", bad)
		}
	}
	// the un-sent subscription itself is ready again and counts no sent reference
	{
		c.inst(1)
		zero, ready := false, false
		kReady := p.ConstInt("server.stateReady", -1)
		for _, in := range instrsOf(fn) {
			st, ok := in.(*ssa.Store)
			if !ok || len(fn.Params) == 0 {
				continue
			}
			fa, ok := st.Addr.(*ssa.FieldAddr)
			if !ok || st.Block() != fn.Blocks[0] {
				continue
			}
			base := fa.X
			for {
				inner, isFA := base.(*ssa.FieldAddr)
				if !isFA {
					break
				}
				base = inner.X // counters grouped in a nested / embedded struct
			}
			if base != ssa.Value(fn.Params[0]) {
				continue
			}
			if k, isK := constInt(st.Val); isK {
				if fieldOfAddr(fa) == fSent && k == 0 {
					zero = true
				}
				if fieldOfAddr(fa) == fState && k == kReady {
					ready = true
				}
			}
		}
		bad := ""
		if !zero {
			bad = "indirectsent of the un-sent subscription is not reset: it is taken for delivered by the next resource set that references it, and left out"
		} else if !ready {
			bad = "the un-sent subscription is not made ready again"
		}
		c.check(bad == "", fnName(fn), "an un-sent subscription is ready again and counts no sent reference", p.Pos(fn.Pos()), "state = stateReady and indirectsent = 0 stored unconditionally", bad)
	}
	fieldsOf := func(v ssa.Value, depth int, out map[*types.Var]bool) { condFields(p, v, depth, out) }
	for _, g := range fns {
		for _, in := range instrsOf(g) {
			i, ok := in.(*ssa.If)
			if !ok {
				continue
			}
			fs := map[*types.Var]bool{}
			fieldsOf(i.Cond, 0, fs)
			if len(fs) == 0 {
				continue
			}
			c.inst(1)
			bad := ""
			for f := range fs {
				if f == fSent || f == fState {
					continue
				}
				if subT != nil && fieldOwner(p, f) == subT.Obj().Pkg().Name()+"."+subT.Obj().Name() {
					bad = f.Name()
				}
			}
			c.check(bad == "", fnName(g), "whether a child's sent count goes down depends on its being sent and counted only", p.InstrPos(i),
				"decision reads state / indirectsent only",
				"the count-down of a child depends on Subscription."+bad+": a child with another holder keeps a sent count one too high, it is later taken for sent (not delivered again) or never collected")
		}
	}
}

// ---------------------------------------------------------------------------
// DOM/queue-flag-whole (C06, C02): Subscription.queueFlag is a set of reasons
// for holding events back (loading, re-access pending, ...). Every decision
// taken on it asks whether ANY reason is set: the whole value is compared with
// zero. A test of a single reason bit lets events (or a deferred re-access)
// through while another reason still holds the gate.
func ruleQueueFlagWhole(c *Ctx) {
	p := c.P
	f := p.Field("server.Subscription.queueFlag")
	if f == nil {
		c.undecided("server.Subscription.queueFlag", "anchor", "-", "not found")
		return
	}
	isLoad := func(v ssa.Value) bool {
		g, _ := fieldLoad(stripConv(v))
		return g == f
	}
	for _, fn := range p.Repo {
		top := TopLevel(fn)
		if top.Pkg == nil || top.Pkg.Pkg.Name() != "server" {
			continue
		}
		for _, in := range instrsOf(fn) {
			b, ok := in.(*ssa.BinOp)
			if !ok {
				continue
			}
			switch b.Op {
			case token.EQL, token.NEQ, token.GTR, token.LSS, token.GEQ, token.LEQ:
				if isLoad(b.X) || isLoad(b.Y) {
					c.inst(1)
					k, isK := constInt(b.Y)
					if !isK {
						k, isK = constInt(b.X)
					}
					c.check(isK && k == 0, fnName(fn), "a decision on the hold-back reasons asks whether any reason is set", p.InstrPos(b), "queueFlag compared with 0", "queueFlag compared with something other than 0")
				}
			case token.AND, token.AND_NOT:
				if !isLoad(b.X) && !isLoad(b.Y) {
					continue
				}
				// a masked value: fine when it becomes the new queueFlag (a reason is cleared), not when it is tested
				stored, tested := false, false
				if b.Referrers() != nil {
					for _, r := range *b.Referrers() {
						switch x := r.(type) {
						case *ssa.Store:
							if fa, ok := x.Addr.(*ssa.FieldAddr); ok && fieldOfAddr(fa) == f && x.Val == ssa.Value(b) {
								stored = true
							}
						case *ssa.BinOp:
							switch x.Op {
							case token.EQL, token.NEQ, token.GTR, token.LSS, token.GEQ, token.LEQ:
								tested = true
							}
						case *ssa.If:
							tested = true
						}
					}
				}
				c.inst(1)
				c.check(stored || !tested, fnName(fn), "a decision on the hold-back reasons asks whether any reason is set", p.InstrPos(b), "masked value is the new queueFlag",
					"a single reason bit of queueFlag is tested: events (or a deferred re-access) pass while another reason still holds the gate")
			}
		}
	}
	// the drain (unqueueEvents) gives up early only because a reason holds the gate: every return other than
	// the one after the event loop lies on the true edge of `queueFlag != 0`; and every start of a re-check
	// (handleReaccess) lies behind `queueFlag == 0`
	closed := fieldCmpGuard(f, 4, func(v int64) bool { return v != 0 })
	open := fieldCmpGuard(f, 4, func(v int64) bool { return v == 0 })
	if fn := p.Fn("(*server.Subscription).unqueueEvents"); fn != nil {
		for _, g := range p.withNewHelpers(fn) {
			if g.Parent() != nil {
				continue
			}
			for _, in := range instrsOf(g) {
				r, ok := in.(*ssa.Return)
				if !ok {
					continue
				}
				// the return at the end of the function body is not an early one
				// (the implicit return at the closing brace has no position)
				last := true
				for _, in2 := range instrsOf(g) {
					if r2, ok := in2.(*ssa.Return); ok && r2 != r && r.Pos() != token.NoPos && (r2.Pos() > r.Pos() || r2.Pos() == token.NoPos) {
						last = false
					}
				}
				if last {
					continue
				}
				if g != fn && len(g.Blocks) == 1 {
					continue // a straight-line helper
				}
				c.inst(1)
				c.check(p.guardedByOpt(r, closed, false) != nil, fnName(g), "the drain of held-back events stops early only while a reason holds the gate", p.InstrPos(r), "early return under queueFlag != 0",
					"the drain returns on a path that has not found a hold-back reason set: the held-back events (and a deferred re-access) stay in the queue with the gate open — nothing delivers them later")
			}
		}
	}
	if hr := p.Fn("(*server.Subscription).handleReaccess"); hr != nil {
		for _, g := range p.Repo {
			if !inScopePkgs(g, "server") {
				continue
			}
			for _, call := range callsIn(g) {
				if call.Common().StaticCallee() != hr {
					continue
				}
				c.inst(1)
				c.check(p.guardedUp(call, open, 0), fnName(g), "a re-check of access starts only when no reason holds events back", p.InstrPos(call), "handleReaccess under queueFlag == 0",
					"a re-check starts while events are held back: its own hold-back reason is lifted by the earlier one's completion (or the other way round), and events pass before the new verdict")
			}
		}
	}
}

// condFields collects the struct fields a condition reads, looking through
// arithmetic, phis and predicate helpers of the repository.
func condFields(p *Prog, v ssa.Value, depth int, out map[*types.Var]bool) {
	if depth > 6 || v == nil {
		return
	}
	if f, _ := fieldLoad(v); f != nil {
		out[f] = true
		return
	}
	switch x := v.(type) {
	case *ssa.BinOp:
		condFields(p, x.X, depth+1, out)
		condFields(p, x.Y, depth+1, out)
	case *ssa.UnOp:
		condFields(p, x.X, depth+1, out)
	case *ssa.Phi:
		for _, e := range x.Edges {
			condFields(p, e, depth+1, out)
		}
	case *ssa.Call:
		for _, a := range x.Call.Args {
			condFields(p, a, depth+1, out) // a predicate over a value read from a field (`rs.state.isLoaded()`)
		}
		if sf := x.Call.StaticCallee(); sf != nil && p.isRepoFn(sf) && len(sf.Blocks) > 0 {
			for _, in := range instrsOf(sf) {
				if i, ok := in.(*ssa.If); ok {
					condFields(p, i.Cond, depth+1, out)
				}
				if r, ok := in.(*ssa.Return); ok {
					for _, rv := range r.Results {
						condFields(p, rv, depth+1, out)
					}
				}
			}
		}
	}
}

// DOM/query-event-all (C13): a query event is put to every cached query
// variant that has been loaded: whether a variant is skipped depends on its
// load state only (not on a reset being under way, its subscriber count, ...).
// A skipped variant never learns of the change the event announces.
func ruleQueryEventAll(c *Ctx) {
	p := c.P
	fn := p.Fn("(*rescache.EventSubscription).handleQueryEvent")
	fState := p.Field("rescache.ResourceSubscription.state")
	rsT := p.Named("rescache.ResourceSubscription")
	if fn == nil || fState == nil || rsT == nil {
		c.undecided("(*rescache.EventSubscription).handleQueryEvent", "anchor", "-", "not found")
		return
	}
	owner := rsT.Obj().Pkg().Name() + "." + rsT.Obj().Name()
	n := 0
	for _, g := range p.withNewHelpers(fn) {
		if g.Parent() != nil {
			continue // the answer handlers decide on the answer, not on whether to ask
		}
		for _, in := range instrsOf(g) {
			i, ok := in.(*ssa.If)
			if !ok {
				continue
			}
			fs := map[*types.Var]bool{}
			condFields(p, i.Cond, 0, fs)
			bad, reads := "", false
			for f := range fs {
				if fieldOwner(p, f) != owner {
					continue
				}
				reads = true
				if f != fState {
					bad = f.Name()
				}
			}
			if !reads {
				continue
			}
			n++
			c.inst(1)
			c.check(bad == "", fnName(g), "whether a query variant is asked about a query event depends on its load state only", p.InstrPos(i),
				"skip decision reads ResourceSubscription.state only",
				"a loaded query variant is skipped depending on ResourceSubscription."+bad+": it never learns of the change the query event announces")
		}
	}
	if n == 0 {
		c.viol(fnName(fn), "whether a query variant is asked about a query event depends on its load state only", p.Pos(fn.Pos()), "no decision on the variant's load state found: variants still being requested are asked too, or none is")
	}
}

// ---------------------------------------------------------------------------
// DOM/loop-index (C15, C18): an element read at the position of a counting
// loop variable (i := k; ...; i++) goes with SOME test of that variable — the
// loop condition, or a test in the body — in the function that reads it. A
// scan `for { c = data[i]; if c != ' ' { break }; i++ }` runs off the end of
// every input that consists of the skipped bytes only (an empty frame, a frame
// of blanks): an index-out-of-range panic on the goroutine that reads it.
// Decided: that a test of the counter dominates the read. Not decided: that
// the test is the right one.
func ruleLoopIndex(c *Ctx) {
	p := c.P
	n := 0
	for _, fn := range p.Repo {
		if !inScopePkgs(fn, "server", "rescache", "nats", "rpc", "codec") {
			continue
		}
		for _, in := range instrsOf(fn) {
			var x, idx ssa.Value
			switch y := in.(type) {
			case *ssa.IndexAddr:
				x, idx = y.X, y.Index
			case *ssa.Index:
				x, idx = y.X, y.Index
			case *ssa.Lookup:
				if bt, ok := y.X.Type().Underlying().(*types.Basic); ok && bt.Info()&types.IsString != 0 {
					x, idx = y.X, y.Index
				}
			}
			if x == nil {
				continue
			}
			switch x.Type().Underlying().(type) {
			case *types.Slice, *types.Basic:
			default:
				continue
			}
			phi := inductionVar(idx)
			if phi == nil {
				continue
			}
			if !isByteSeq(x.Type()) && madeHere(x, 0) {
				continue // a slice made in this function with the length it is filled to (`sublist[i] = sub; i++`)
			}
			n++
			c.inst(1)
			if unmarshalerOnly(p, fn, 0) {
				c.ok(fnName(fn), "an element at the position of a loop counter is read behind a test of the counter", p.InstrPos(in), "exception: encoding/json hands an Unmarshaler one complete JSON value, which has a non-blank byte")
				continue
			}
			// some test involves the counter (or counter±k): in the loop condition or in the body
			guarded := false
			scope := map[*ssa.BasicBlock]bool{}
			if h := innermostLoopHeader(phi.Block()); h != nil {
				scope = loopBody(h) // the loop the counter counts in
			} else if lb := loopBody(phi.Block()); len(lb) > 0 {
				scope = lb
			}
			for _, d := range fn.Blocks {
				if len(scope) > 0 && !scope[d] {
					continue
				}
				if i := blockIf(d); i != nil && mentionsValue(i.Cond, phi, 0) {
					guarded = true
				}
			}
			if !guarded && rangeCounter(phi) {
				guarded = true
			}
			if ph, ok := stripConv(x).(*ssa.Phi); ok && guarded {
				grown := false // a list that starts empty and is appended to: its readers are bounded by its length
				for _, e := range ph.Edges {
					if !isNilConst(e) && madeHere(e, 0) {
						grown = true
					}
				}
				for _, e := range ph.Edges {
					if isNilConst(e) && !grown {
						c.viol(fnName(fn), "a sequence read at the position of a loop counter is set on every path that reaches the read", p.InstrPos(in), "on one path the sequence "+ph.Comment+" is still the nil slice it was declared as (one arm of the selection that sets it assigns nothing): the read is out of range there")
						guarded = true
					}
				}
			}
			c.check(guarded, fnName(fn), "an element at the position of a loop counter is read behind a test of the counter", p.InstrPos(in),
				"the counter is tested in the loop",
				"the scan reads "+x.Name()+"["+phi.Comment+"] with no test of the counter in front of it: it runs off the end of an input made of the skipped bytes only (index out of range on the reading goroutine)")
		}
	}
	if n == 0 {
		c.note("no counted element reads in scope")
	}
}

// inductionVar: idx is (a constant offset of) a phi that counts: one of its
// edges is the phi itself plus or minus a constant.
func inductionVar(idx ssa.Value) *ssa.Phi {
	idx = stripConv(idx)
	for d := 0; d < 3; d++ {
		if b, ok := idx.(*ssa.BinOp); ok && (b.Op == token.ADD || b.Op == token.SUB) {
			if _, isK := constInt(b.Y); isK {
				idx = stripConv(b.X)
				continue
			}
		}
		break
	}
	phi, ok := idx.(*ssa.Phi)
	if !ok {
		return nil
	}
	for _, e := range phi.Edges {
		if b, ok := stripConv(e).(*ssa.BinOp); ok && (b.Op == token.ADD || b.Op == token.SUB) {
			if _, isK := constInt(b.Y); isK && stripConv(b.X) == ssa.Value(phi) {
				return phi
			}
		}
	}
	return nil
}

func mentionsValue(v ssa.Value, want ssa.Value, depth int) bool {
	if depth > 5 || v == nil {
		return false
	}
	v = stripConv(v)
	if v == want {
		return true
	}
	switch x := v.(type) {
	case *ssa.BinOp:
		return mentionsValue(x.X, want, depth+1) || mentionsValue(x.Y, want, depth+1)
	case *ssa.UnOp:
		return mentionsValue(x.X, want, depth+1)
	case *ssa.Phi:
		for _, e := range x.Edges {
			if mentionsValue(e, want, depth+1) {
				return true
			}
		}
	}
	return false
}

func isByteSeq(t types.Type) bool {
	switch u := t.Underlying().(type) {
	case *types.Basic:
		return u.Info()&types.IsString != 0
	case *types.Slice:
		b, ok := u.Elem().Underlying().(*types.Basic)
		return ok && b.Kind() == types.Byte
	}
	return false
}

// rangeCounter: the phi is the hidden counter of a range loop (go/ssa names it
// "rangeindex" and tests it against the length itself).
func rangeCounter(phi *ssa.Phi) bool {
	return phi.Comment == "rangeindex"
}

// ---------------------------------------------------------------------------
// DOM/raw-path (C16): the HTTP path that is split into resource-id parts is
// the escaped one (URL.RawPath when the request had one, URL.EscapedPath()):
// parts are split at '/' first and unescaped afterwards. Splitting the decoded
// URL.Path lets an encoded slash or dot (%2F, %2E) move a part boundary — the
// request addresses another resource than the one its path names.
func ruleRawPath(c *Ctx) {
	p := c.P
	targets := []*types.Func{p.PkgFunc("server.PathToRID"), p.PkgFunc("server.PathToRIDAction")}
	var leaves func(v ssa.Value, depth int, seen map[ssa.Value]bool, out map[string]bool)
	leaves = func(v ssa.Value, depth int, seen map[ssa.Value]bool, out map[string]bool) {
		v = stripConv(v)
		if v == nil || seen[v] || depth > 10 {
			return
		}
		seen[v] = true
		if f, _ := fieldLoad(v); f != nil {
			out["field:"+f.Name()] = true
			return
		}
		switch x := v.(type) {
		case *ssa.Phi:
			live := liveBlocks(x.Block().Parent())
			for k, e := range x.Edges {
				if live != nil && !live[x.Block().Preds[k]] {
					continue // an edge a constant test has disabled
				}
				leaves(e, depth+1, seen, out)
			}
		case *ssa.Slice:
			leaves(x.X, depth+1, seen, out)
		case *ssa.UnOp:
			if x.Op != token.MUL {
				return
			}
			cell := x.X
			if fv, ok := cell.(*ssa.FreeVar); ok {
				if mc := p.parent[fv.Parent()]; mc != nil {
					for i, f2 := range fv.Parent().FreeVars {
						if f2 == fv {
							cell = mc.Bindings[i]
						}
					}
				}
			}
			if al, ok := cell.(*ssa.Alloc); ok && al.Referrers() != nil {
				for _, r := range *al.Referrers() {
					if st, ok := r.(*ssa.Store); ok && st.Addr == ssa.Value(al) {
						leaves(st.Val, depth+1, seen, out)
					}
				}
			}
		case *ssa.Call:
			if m := calleeFunc(&x.Call); m != nil {
				out["call:"+m.Name()] = true
				if sf := x.Call.StaticCallee(); sf != nil && p.isRepoFn(sf) {
					for _, in := range instrsOf(sf) {
						if r, ok := in.(*ssa.Return); ok {
							for _, rv := range r.Results {
								leaves(rv, depth+1, seen, out)
							}
						}
					}
				}
			}
		case *ssa.Extract:
			leaves(x.Tuple, depth+1, seen, out)
		case *ssa.Parameter:
			fn := x.Parent()
			n := p.CG.Nodes[fn]
			idx := -1
			for i, prm := range fn.Params {
				if prm == x {
					idx = i
				}
			}
			if n == nil || idx < 0 {
				out["param"] = true
				return
			}
			k := 0
			for _, e := range n.In {
				if e.Site == nil || e.Site.Common().StaticCallee() != fn {
					continue
				}
				args := callArgs(e.Site.Common())
				if idx < len(args) {
					k++
					leaves(args[idx], depth+1, seen, out)
				}
			}
			if k == 0 {
				out["param"] = true
			}
		}
	}
	n := 0
	for _, fn := range p.Repo {
		if !inScopePkgs(fn, "server") {
			continue
		}
		for _, call := range callsIn(fn) {
			m := calleeFunc(call.Common())
			if m == nil || (m != targets[0] && m != targets[1]) {
				continue
			}
			args := callArgs(call.Common())
			if len(args) == 0 {
				continue
			}
			out := map[string]bool{}
			leaves(args[0], 0, map[ssa.Value]bool{}, out)
			if !out["field:Path"] && !out["field:RawPath"] && !out["call:EscapedPath"] && !out["field:RequestURI"] {
				continue // not a request path (tests, link rendering)
			}
			n++
			c.inst(1)
			c.check(out["field:RawPath"] || out["call:EscapedPath"] || out["field:RequestURI"], fnName(fn), "the request path split into resource-id parts is the escaped one", p.InstrPos(call),
				"path argument comes from URL.RawPath / EscapedPath()",
				"the decoded URL.Path is split into parts: an encoded slash or dot moves a part boundary, the request reaches another resource than its path names")
		}
	}
	if n == 0 {
		c.viol("(*server.Service).apiHandler", "the request path split into resource-id parts is the escaped one", "-", "no request path reaches PathToRID / PathToRIDAction")
	}
}

// ---------------------------------------------------------------------------
// WHO/nats-discard (C18): the pending requests of the NATS adapter (the map of
// inboxes and the timeout queue) are what guarantees that every request is
// completed — by its answer or by its timeout. They are thrown away in one
// place, the shutdown of the client, which only its owner's Close and the
// slow-consumer branch of the error handler may enter. A connection event
// (closed, disconnected, reconnected) that discards them leaves every request
// in flight without completion: its timeout never fires.
func ruleNatsDiscard(c *Ctx) {
	p := c.P
	a := natsFields(p)
	if a.reqs == nil || a.tq == nil {
		c.undecided("nats.Client", "anchor", "-", "pending map / timeout queue not found")
		return
	}
	connect := p.Fn("(*nats.Client).Connect")
	allowed := map[*ssa.Function]string{}
	for _, n := range []string{"(*nats.Client).Close", "(*nats.Client).onError"} {
		if f := p.fnNoRole(n); f != nil {
			allowed[f] = n
		}
	}
	setup := map[*ssa.Function]bool{}
	if connect != nil {
		for _, g := range p.withNewHelpers(connect) {
			setup[TopLevel(g)] = true
		}
	}
	// functions that discard the pending state themselves
	discards := map[*ssa.Function]ssa.Instruction{}
	var pkgFns []*ssa.Function
	for _, fn := range p.Repo {
		if !inScopePkgs(fn, "nats") {
			continue
		}
		pkgFns = append(pkgFns, fn)
		if setup[TopLevel(fn)] {
			continue // Connect and the helpers extracted from it set the pending state up
		}
		for _, in := range instrsOf(fn) {
			switch x := in.(type) {
			case *ssa.Store:
				if fa, ok := x.Addr.(*ssa.FieldAddr); ok && (fieldOfAddr(fa) == a.reqs || fieldOfAddr(fa) == a.tq) {
					if _, fresh := stripConv(x.Val).(*ssa.MakeMap); fresh || isNilConst(x.Val) {
						discards[fn] = in
					}
				}
			case ssa.CallInstruction:
				if m := calleeFunc(x.Common()); m != nil && m.Name() == "Clear" && len(callArgs(x.Common())) > 0 {
					if f, _ := fieldLoad(callArgs(x.Common())[0]); f == a.tq {
						discards[fn] = in
					}
				}
			}
		}
	}
	c.inst(1)
	c.check(len(discards) > 0, "(*nats.Client).close", "the pending requests are discarded at shutdown", "-", fmt.Sprintf("%d discarding function(s)", len(discards)), "no function discards the pending requests: anchor lost")
	// reach: in-package static callers, closures count for their top-level function
	reach := map[*ssa.Function]bool{}
	for f := range discards {
		reach[TopLevel(f)] = true
	}
	for changed := true; changed; {
		changed = false
		for _, fn := range pkgFns {
			t := TopLevel(fn)
			if reach[t] {
				continue
			}
			for _, call := range callsIn(fn) {
				if sf := call.Common().StaticCallee(); sf != nil && reach[TopLevel(sf)] {
					reach[t] = true
					changed = true
				}
			}
		}
	}
	// roots: reaching functions nobody in the package calls
	for t := range reach {
		called := false
		for _, fn := range pkgFns {
			if TopLevel(fn) == t {
				continue
			}
			for _, call := range callsIn(fn) {
				if call.Common().StaticCallee() == t {
					called = true
				}
			}
		}
		if called && (t.Object() == nil || !t.Object().Exported()) {
			continue
		}
		c.inst(1)
		_, ok := allowed[t]
		c.check(ok, fnName(t), "pending requests are discarded only by the owner's Close and the slow-consumer shutdown", p.Pos(t.Pos()),
			"entry point allowed", "this entry point reaches the shutdown that replaces the pending map and clears the timeout queue: requests in flight are never completed, not even by their timeout")
	}
}

// ---------------------------------------------------------------------------
// PROV/throttle-through (C19): a function that is given a throttle hands that
// throttle on — to every callee that takes one — as it got it (or, where it got
// none, the one it created for the purpose). It never replaces it by nil on
// some path: the request issued further down would then go out beside the
// throttle, and more than N governed requests are outstanding.
func ruleThrottleThrough(c *Ctx) {
	p := c.P
	thT := p.Named("rescache.Throttle")
	newTh := p.PkgFunc("rescache.NewThrottle")
	if thT == nil {
		c.undecided("rescache.Throttle", "anchor", "-", "not found")
		return
	}
	isTh := func(t types.Type) bool {
		pt, ok := t.(*types.Pointer)
		return ok && types.Identical(pt.Elem(), thT)
	}
	var leaves func(v ssa.Value, depth int, seen map[ssa.Value]bool, out map[string]bool)
	leaves = func(v ssa.Value, depth int, seen map[ssa.Value]bool, out map[string]bool) {
		v = stripConv(v)
		if v == nil || seen[v] || depth > 10 {
			return
		}
		seen[v] = true
		if isNilConst(v) {
			out["nil"] = true
			return
		}
		if f, _ := fieldLoad(v); f != nil {
			out["field"] = true
			return
		}
		switch x := v.(type) {
		case *ssa.Parameter:
			out["param"] = true
		case *ssa.Phi:
			for _, e := range x.Edges {
				leaves(e, depth+1, seen, out)
			}
		case *ssa.Call:
			if calleeFunc(&x.Call) == newTh && newTh != nil {
				out["new"] = true
			} else {
				out["call"] = true
			}
		case *ssa.UnOp:
			if x.Op != token.MUL {
				out["other"] = true
				return
			}
			cell := x.X
			if fv, ok := cell.(*ssa.FreeVar); ok {
				if mc := p.parent[fv.Parent()]; mc != nil {
					for i, f2 := range fv.Parent().FreeVars {
						if f2 == fv {
							cell = mc.Bindings[i]
						}
					}
				}
			}
			if fv, ok := cell.(*ssa.FreeVar); ok {
				// nested closure: one more level
				if mc := p.parent[fv.Parent()]; mc != nil {
					for i, f2 := range fv.Parent().FreeVars {
						if f2 == fv {
							cell = mc.Bindings[i]
						}
					}
				}
			}
			if al, ok := cell.(*ssa.Alloc); ok && al.Referrers() != nil {
				for _, r := range *al.Referrers() {
					if st, ok := r.(*ssa.Store); ok && st.Addr == ssa.Value(al) {
						leaves(st.Val, depth+1, seen, out)
					}
				}
				return
			}
			out["other"] = true
		default:
			out["other"] = true
		}
	}
	n := 0
	for _, top := range p.Repo {
		if top.Parent() != nil || !inScopePkgs(top, "server", "rescache") {
			continue
		}
		hasParam := false
		for _, prm := range top.Params {
			if isTh(prm.Type()) {
				hasParam = true
			}
		}
		if !hasParam {
			continue
		}
		for _, g := range WithClosures(top) {
			for _, call := range callsIn(g) {
				for ai, a := range call.Common().Args {
					if !isTh(a.Type()) {
						continue
					}
					if call.Common().IsInvoke() == false && ai == 0 && call.Common().Signature().Recv() != nil {
						continue // the throttle's own methods (t.Add, t.Done)
					}
					n++
					c.inst(1)
					out := map[string]bool{}
					leaves(a, 0, map[ssa.Value]bool{}, out)
					bad := ""
					// nil handed on where the throttle received is known to be nil is the throttle received
					knownNil := p.guardedBy(call, func(i *ssa.If) (bool, bool) {
						for _, d := range []bool{true, false} {
							if x, nn, ok := nilTest(i, d); ok && !nn && isTh(x.Type()) {
								lv := map[string]bool{}
								leaves(x, 0, map[ssa.Value]bool{}, lv)
								if lv["param"] && !lv["nil"] {
									return d, true
								}
							}
						}
						return false, false
					}) != nil
					if knownNil && out["nil"] {
						delete(out, "nil")
					}
					if out["nil"] && (out["param"] || out["field"]) {
						bad = "on some path nil is handed on instead of the throttle the function was given"
					} else if out["nil"] && !out["new"] {
						bad = "nil is handed on although the function was given a throttle"
					}
					c.check(bad == "", fnName(g), "the throttle a function is given governs the requests it causes ("+calleeName(call.Common())+")", p.InstrPos(call),
						"throttle argument is the one received (or the one created where none was received)",
						bad+": the request issued further down goes out beside the throttle — more than the configured number of governed requests are outstanding")
				}
			}
		}
	}
	if n == 0 {
		c.viol("rescache.Throttle", "the throttle a function is given governs the requests it causes", "-", "no site hands a throttle on: anchor lost")
	}
}

// ---------------------------------------------------------------------------
// TWIN/agree (C02, C01): sibling implementations of one step agree. The pair(s)
// below differ by design in one thing only (the encoding they put into the
// resource set); everything else — which tests are made, which counts and
// states are written, which children are visited — must be the same on every
// path. The repository's suite exercises the legacy twin with a handful of
// tests, so a change to one of them that the other does not get passes it.
// Decided by abstracting every full path of each twin to its set of decisions
// (facts over protocol state) and its set of effects, and comparing the two
// sets of paths after the designed difference is renamed away. Nothing is run.
var twinTable = []struct{ a, b, what string }{
	{"(*server.Subscription).populateResources", "(*server.Subscription).populateResourcesLegacy", "placing a subscription and its references into a resource set"},
}

func twinNormalise(s string) string {
	for _, r := range [][2]string{{"populateResourcesLegacy", "populateResources"}, {"Legacy120Collection", "Collection"}, {"Legacy120Model", "Model"}, {"Legacy120Value", "Value"}, {"Legacy", ""}, {"handleResetAccess", "handleResetResource"}} {
		s = strings.ReplaceAll(s, r[0], r[1])
	}
	return s
}

func ruleTwinAgree(c *Ctx) {
	p := c.P
	ec := newEffCtx(p, true)
	for _, tw := range twinTable {
		fa, fb := p.fnNoRole(tw.a), p.fnNoRole(tw.b)
		if fa == nil || fb == nil || fa == fb {
			c.note("twin " + tw.b + " is gone (merged): nothing to compare")
			continue
		}
		c.inst(1)
		pa, whyA := ec.paths(fa)
		pb, whyB := ec.paths(fb)
		if whyA != "" || whyB != "" {
			c.undecided(fnName(fa), "sibling implementations agree: "+tw.what, p.Pos(fa.Pos()), whyA+whyB)
			continue
		}
		key := func(e effPath) string {
			return twinNormalise(strings.Join(e.facts, " & ") + "  =>  " + strings.Join(e.effects, ", "))
		}
		sa, sb := map[string]bool{}, map[string]bool{}
		for _, e := range pa {
			sa[key(e)] = true
		}
		for _, e := range pb {
			sb[key(e)] = true
		}
		bad := ""
		for k := range sa {
			if !sb[k] {
				bad = "only " + fnName(fa) + " has the path [" + k + "]"
			}
		}
		for k := range sb {
			if !sa[k] {
				bad = "only " + fnName(fb) + " has the path [" + k + "]"
			}
		}
		if bad != "" && len(sa) <= 2 && len(sb) <= 2 {
			// both twins reduced to thin wrappers of one shared implementation that takes the designed
			// difference as a constant argument
			mask := func(m map[string]bool) map[string]bool {
				out := map[string]bool{}
				for k := range m {
					k = strings.NewReplacer(",true)", ",_)", ",false)", ",_)").Replace(k)
					out[k] = true
				}
				return out
			}
			ma, mb := mask(sa), mask(sb)
			same := len(ma) == len(mb)
			for k := range ma {
				if !mb[k] {
					same = false
				}
			}
			if same {
				bad = ""
			}
		}
		if os.Getenv("RV_DEBUG") == "twin" {
			for k := range sa {
				fmt.Println("A:", k)
			}
			for k := range sb {
				fmt.Println("B:", k)
			}
		}
		c.check(bad == "", fnName(fb), "sibling implementations agree: "+tw.what, p.Pos(fb.Pos()), fmt.Sprintf("%d and %d abstract paths, equal", len(sa), len(sb)),
			"the twins differ beyond their encoding: "+bad+" — clients of one protocol version get a resource set (or reference counts) the other version's clients do not")
	}
}

// ---------------------------------------------------------------------------
// DOM/gc-unsend (C02, C01): the collector's decisions about sent-ness.
//
//	(a) A node that is kept is marked "unsend" exactly when the released root was
//	    sent to the client AND no sent reference to the node remains after the
//	    count-down; with either half missing a node the client still holds is
//	    un-sent (it is delivered a second time later, its events stop), or a node
//	    the client dropped stays "sent" (a later resource set leaves it out).
//	(b) The mark phase starts only when the root is to go (no holder left) or is to
//	    be un-sent (sent, no sent reference left). For a root that stays as it is
//	    the walk would see its children with their counts already lowered and
//	    un-send children the client still holds through the root.
func ruleGCUnsend(c *Ctx) {
	p := c.P
	fn := p.Fn("(*server.wsConn).tryDelete")
	trav := p.Method("server.Subscription.traverse")
	isSentM := p.Method("server.Subscription.IsSent")
	gcT := p.Named("server.gcState")
	kKeep, kUnsend, kDelete := p.ConstInt("server.gcStateKeep", -1), p.ConstInt("server.gcStateUnsend", -1), p.ConstInt("server.gcStateDelete", -1)
	if fn == nil || trav == nil || gcT == nil || kKeep < 0 || kUnsend < 0 {
		c.undecided("(*server.wsConn).tryDelete", "anchor", "-", "not found")
		return
	}
	holders, sents := gcRecordFields(p, fn)
	sfInd := p.Field("server.Subscription.indirect")
	sfSent := p.Field("server.Subscription.indirectsent")
	if len(holders) == 0 || len(sents) == 0 {
		// the record is filled through a constructor: its members are found by their names, next to the mark
		for _, tn := range p.Typs["server"].Scope().Names() {
			o, ok := p.Typs["server"].Scope().Lookup(tn).(*types.TypeName)
			if !ok {
				continue
			}
			st, ok := o.Type().Underlying().(*types.Struct)
			if !ok {
				continue
			}
			hasMark := false
			for i := 0; i < st.NumFields(); i++ {
				if types.Identical(st.Field(i).Type(), gcT) {
					hasMark = true
				}
			}
			if !hasMark {
				continue
			}
			for i := 0; i < st.NumFields(); i++ {
				f := st.Field(i)
				if sfInd != nil && strings.EqualFold(f.Name(), sfInd.Name()) {
					holders[f] = true
				}
				if sfSent != nil && strings.EqualFold(f.Name(), sfSent.Name()) {
					sents[f] = true
				}
			}
		}
	}
	isMark := func(f *types.Var) bool { return f != nil && types.Identical(f.Type(), gcT) }
	// does v stand for "the root was sent"?
	var wasSent func(v ssa.Value, depth int) bool
	wasSent = func(v ssa.Value, depth int) bool {
		if depth > 6 || v == nil {
			return false
		}
		if f, _ := fieldLoad(v); f != nil && f.Pkg() != nil && f.Pkg().Name() == "server" {
			// a member of the collector's own record that is only ever given the sent-ness
			if bt, ok := f.Type().Underlying().(*types.Basic); ok && bt.Kind() == types.Bool && len(p.stores[f]) > 0 {
				for _, st := range p.stores[f] {
					if !wasSent(st.Val, depth+1) {
						return false
					}
				}
				return true
			}
			return false
		}
		switch x := v.(type) {
		case *ssa.Call:
			return calleeFunc(&x.Call) == isSentM && isSentM != nil
		case *ssa.Parameter:
			// handed down to an extracted helper: every caller passes the sent-ness
			n := p.CG.Nodes[x.Parent()]
			idx := -1
			for i, prm := range x.Parent().Params {
				if prm == x {
					idx = i
				}
			}
			if n == nil || idx < 0 || len(n.In) == 0 {
				return false
			}
			sites := 0
			for _, e := range n.In {
				if e.Caller != nil && e.Caller.Func != nil && e.Caller.Func.Synthetic != "" && (p.CG.Nodes[e.Caller.Func] == nil || len(p.CG.Nodes[e.Caller.Func].In) == 0) {
					continue // a method wrapper nobody calls
				}
				if e.Site == nil || idx >= len(callArgs(e.Site.Common())) || !wasSent(callArgs(e.Site.Common())[idx], depth+1) {
					return false
				}
				sites++
			}
			return sites > 0
		case *ssa.Extract:
			if cl, ok := x.Tuple.(*ssa.Call); ok {
				if sf := cl.Call.StaticCallee(); sf != nil && p.isRepoFn(sf) {
					for _, in := range instrsOf(sf) {
						if r, ok := in.(*ssa.Return); ok && x.Index < len(r.Results) && !wasSent(r.Results[x.Index], depth+1) {
							return false
						}
					}
					return true
				}
			}
		case *ssa.UnOp:
			if x.Op != token.MUL {
				return false
			}
			cell := x.X
			if fv, ok := cell.(*ssa.FreeVar); ok {
				if mc := p.parent[fv.Parent()]; mc != nil {
					for i, f2 := range fv.Parent().FreeVars {
						if f2 == fv {
							cell = mc.Bindings[i]
						}
					}
				}
			}
			if al, ok := cell.(*ssa.Alloc); ok && al.Referrers() != nil {
				n := 0
				for _, r := range *al.Referrers() {
					if st, ok := r.(*ssa.Store); ok && st.Addr == ssa.Value(al) {
						n++
						if !wasSent(st.Val, depth+1) {
							return false
						}
					}
				}
				return n > 0
			}
		}
		return false
	}
	branch := func(rootMode bool) func(t *Tracer, fr *Frame, i *ssa.If, dir bool) []Ev {
		return func(t *Tracer, fr *Frame, i *ssa.If, dir bool) []Ev {
			cond, d := ssa.Value(i.Cond), dir
			if u, ok := cond.(*ssa.UnOp); ok && u.Op == token.NOT {
				cond, d = u.X, !d
			}
			if wasSent(cond, 0) || wasSent(t.Resolve(fr, cond).V, 0) {
				if d {
					return []Ev{{Kind: "was-sent"}}
				}
				return []Ev{{Kind: "not-sent"}}
			}
			// the answer of a predicate helper the engine went through: what it returned on this path
			if rc := t.Resolve(fr, cond); rc.V != nil && rc.V != cond {
				cond, fr = rc.V, rc.Fr
				if u, ok := cond.(*ssa.UnOp); ok && u.Op == token.NOT {
					cond, d = u.X, !d
				}
			}
			x, op, k, ok := cmpConst(cond)
			if !ok {
				return nil
			}
			f, _ := fieldLoad(x)
			if f == nil {
				f, _ = fieldLoad(t.Resolve(fr, x).V)
			}
			if f == nil {
				return nil
			}
			set := satisfying(op, k, d, 4)
			switch {
			case sents[f] || (rootMode && f == sfSent):
				if len(set) == 1 && set[0] {
					return []Ev{{Kind: "sent-zero"}}
				}
				if !set[0] {
					return []Ev{{Kind: "sent-left"}}
				}
			case holders[f] || (rootMode && f == sfInd):
				if len(set) == 1 && set[0] {
					return []Ev{{Kind: "free"}}
				}
				if !set[0] {
					return []Ev{{Kind: "held"}}
				}
			}
			return nil
		}
	}
	// (a) the mark visitor
	nVis := 0
	for _, g := range p.withHelpers(fn) {
		for _, call := range callsIn(g) {
			if _, ok := isCallTo(call, trav); !ok {
				continue
			}
			args := callArgs(call.Common())
			mc, ok := stripConv(args[len(args)-1]).(*ssa.MakeClosure)
			if !ok {
				continue
			}
			v := mc.Fn.(*ssa.Function)
			if v.Synthetic != "" {
				if m := boundMethod(v); m != nil {
					if mf := p.SSA.FuncValue(m); mf != nil && len(mf.Blocks) > 0 {
						v = mf
					}
				}
			}
			marks := false
			for _, h := range p.withHelpers(v) {
				for _, in := range instrsOf(h) {
					if st, ok := in.(*ssa.Store); ok {
						if fa, ok := st.Addr.(*ssa.FieldAddr); ok && isMark(fieldOfAddr(fa)) {
							if k, isC := constInt(st.Val); isC && (k == kKeep || k == kUnsend) {
								marks = true
							}
						}
					}
				}
			}
			if !marks {
				continue
			}
			nVis++
			c.inst(1)
			sp := &Spec{InlineHelpers: true}
			sp.Inline = func(t *Tracer, fr *Frame, cl ssa.CallInstruction, f *ssa.Function) bool {
				return p.isRepoFn(f) && isSmallPredicate(f)
			}
			sp.Branch = branch(false)
			sp.Classify = func(t *Tracer, fr *Frame, in ssa.Instruction) []Ev {
				if st, ok := in.(*ssa.Store); ok {
					if fa, ok := st.Addr.(*ssa.FieldAddr); ok && isMark(fieldOfAddr(fa)) {
						if k, isC := constInt(t.Resolve(fr, st.Val).V); isC {
							return []Ev{{Kind: fmt.Sprintf("mark=%d", k)}}
						}
					}
				}
				return nil
			}
			tr := runTrace(p, v, sp)
			bad := ""
			nUnsend := 0
			for _, path := range tr.Paths {
				if hasKind(path, fmt.Sprintf("mark=%d", kUnsend)) {
					nUnsend++
					if !hasKind(path, "was-sent") || !hasKind(path, "sent-zero") {
						bad = "a node is marked for un-sending on a path that has not established both that the root was sent and that no sent reference to the node remains: " + tr.FmtPath(path)
					}
				}
				if hasKind(path, fmt.Sprintf("mark=%d", kKeep)) && !hasKind(path, "not-sent") && !hasKind(path, "sent-left") {
					bad = "a node is marked plainly kept on a path that has not established that the root was not sent or that a sent reference remains: a node the client dropped stays 'sent' and is left out of a later resource set: " + tr.FmtPath(path)
				}
			}
			if nUnsend == 0 {
				bad = "no path marks a node for un-sending"
			}
			if tr.Trunc {
				bad = "path budget exhausted"
			}
			c.check(bad == "", fnName(v), "a kept node is un-sent exactly when the root was sent and no sent reference to it remains", p.Pos(v.Pos()), fmt.Sprintf("%d paths, %d un-sending", len(tr.Paths), nUnsend), bad)
		}
	}
	if nVis == 0 {
		c.viol(fnName(fn), "mark visitor of the collector found", p.Pos(fn.Pos()), "no traverse visitor stores a keep mark")
		return
	}
	// (b) the mark phase is entered only for a root that goes or is un-sent
	{
		c.inst(1)
		sp := &Spec{InlineHelpers: true, NoCombs: true}
		sp.Inline = func(t *Tracer, fr *Frame, cl ssa.CallInstruction, f *ssa.Function) bool {
			return p.isRepoFn(f) && isSmallPredicate(f)
		}
		sp.Branch = branch(true)
		sp.Classify = func(t *Tracer, fr *Frame, in ssa.Instruction) []Ev {
			if call, ok := isCallTo(in, trav); ok {
				args := callArgs(call.Common())
				if len(args) >= 2 {
					if k, isC := constInt(t.Resolve(fr, args[1]).V); isC && k == kDelete {
						return []Ev{{Kind: "mark-phase", Stop: true}}
					}
				}
				return []Ev{{Kind: "count-down", Stop: true}}
			}
			return nil
		}
		tr := runTrace(p, fn, sp)
		bad := ""
		nMark := 0
		for _, path := range tr.Paths {
			i := indexKind(path, "mark-phase")
			if i < 0 {
				continue
			}
			nMark++
			j := indexKind(path, "count-down")
			pre := path[:i]
			if j >= 0 && j < i {
				pre = path[j:i]
			}
			if !hasKind(pre, "free") && !(hasKind(pre, "was-sent") && hasKind(pre, "sent-zero")) {
				bad = "the mark phase starts on a path that has established neither that the root has no holder left nor that it was sent with no sent reference left: children the client still holds through the root are un-sent: " + tr.FmtPath(path)
			}
		}
		if nMark == 0 {
			bad = "no path reaches the mark phase"
		}
		if tr.Trunc {
			bad = "path budget exhausted"
		}
		c.check(bad == "", fnName(fn), "the mark phase starts only for a root that goes or is un-sent", p.Pos(fn.Pos()), fmt.Sprintf("%d paths reach the mark phase", nMark), bad)
	}
}

// unmarshalerOnly: fn is an UnmarshalJSON method, or a helper that did not exist
// on the reference tree and is called from such methods only.
func unmarshalerOnly(p *Prog, fn *ssa.Function, depth int) bool {
	fn = TopLevel(fn)
	if fn.Name() == "UnmarshalJSON" && fn.Signature.Recv() != nil {
		return true
	}
	if depth > 3 || p.onReferenceTree(fn) {
		return false
	}
	n := p.CG.Nodes[fn]
	if n == nil || len(n.In) == 0 {
		return false
	}
	for _, e := range n.In {
		if e.Caller == nil || e.Caller.Func == nil || !unmarshalerOnly(p, e.Caller.Func, depth+1) {
			return false
		}
	}
	return true
}

// ---------------------------------------------------------------------------
// DOM/remove-count-held (C08): removeCount lowers the counts of a subscription
// only when the subscription has a holder at all (direct + indirect +
// indirectsent != 0). A release that arrives for a subscription already let go
// (both a delete event and the client's unsubscribe, a late error path) must
// not drive a count negative: the next subscribe of that resource would start
// from -1 and could never be released.
func ruleRemoveCountHeld(c *Ctx) {
	p := c.P
	fam := p.FnFamily("(*server.wsConn).removeCount")
	var fn *ssa.Function
	if len(fam) > 0 {
		fn = fam[0]
	}
	fs := []*types.Var{p.Field("server.Subscription.direct"), p.Field("server.Subscription.indirect"), p.Field("server.Subscription.indirectsent")}
	if fn == nil || fs[0] == nil || fs[1] == nil || fs[2] == nil {
		c.undecided("(*server.wsConn).removeCount", "anchor", "-", "not found")
		return
	}
	anyHolder := func(i *ssa.If) (bool, bool) {
		x, op, k, ok := cmpConst(i.Cond)
		if !ok || k != 0 {
			return false, false
		}
		got := map[*types.Var]bool{}
		condFields(p, x, 0, got)
		if !got[fs[0]] || !got[fs[1]] || !got[fs[2]] {
			return false, false
		}
		switch op {
		case token.EQL, token.LEQ:
			return false, true
		case token.NEQ, token.GTR:
			return true, true
		}
		return false, false
	}
	n := 0
	var scope []*ssa.Function
	for _, m := range fam {
		scope = append(scope, p.withNewHelpers(m)...)
	}
	for _, g := range scope {
		for _, in := range instrsOf(g) {
			st, ok := in.(*ssa.Store)
			if !ok {
				continue
			}
			fa, ok := st.Addr.(*ssa.FieldAddr)
			if !ok {
				continue
			}
			f := fieldOfAddr(fa)
			if f != fs[0] && f != fs[1] && f != fs[2] {
				continue
			}
			n++
			c.inst(1)
			c.check(p.guardedUp(st, anyHolder, 0), fnName(g), "a count of a subscription is lowered only while the subscription has a holder", p.InstrPos(st), "behind direct+indirect+indirectsent != 0",
				"Subscription."+f.Name()+" is lowered on a path that has not established that the subscription has any holder: a release for a subscription already let go drives the count negative")
		}
	}
	if n == 0 {
		c.viol(fnName(fn), "a count of a subscription is lowered only while the subscription has a holder", p.Pos(fn.Pos()), "removeCount lowers no count: anchor lost")
	}
}

// ---------------------------------------------------------------------------
// DOM/diff-drops-equal (C12): the model diff of a re-fetch removes from the new
// property set every property whose value equals the cached one (behind the
// lookup's ok and Value.Equal), and produces no event when nothing is left.
// Decided: that the removal exists, lies behind both tests, and that the empty
// case returns before an event is built. Not decided: Value.Equal itself.
func ruleDiffDropsEqual(c *Ctx) {
	p := c.P
	fn := p.Fn("(*rescache.ResourceSubscription).processResetModel")
	equal := p.Method("codec.Value.Equal")
	if fn == nil || equal == nil {
		c.undecided("(*rescache.ResourceSubscription).processResetModel", "anchor", "-", "not found")
		return
	}
	isEqual := func(i *ssa.If) (bool, bool) {
		v, neg := ssa.Value(i.Cond), false
		if u, ok := v.(*ssa.UnOp); ok && u.Op == token.NOT {
			v, neg = u.X, true
		}
		if cl, ok := v.(*ssa.Call); ok && calleeFunc(&cl.Call) == equal {
			return !neg, true
		}
		return false, false
	}
	found := func(i *ssa.If) (bool, bool) {
		v, neg := ssa.Value(i.Cond), false
		if u, ok := v.(*ssa.UnOp); ok && u.Op == token.NOT {
			v, neg = u.X, true
		}
		if isLookupOK(p, v, 0) {
			return !neg, true
		}
		return false, false
	}
	nDel := 0
	var encode ssa.Instruction
	for _, g := range p.withNewHelpers(fn) {
		for _, in := range instrsOf(g) {
			if _, ok := isBuiltinCall(in, "delete"); ok {
				call := in
				nDel++
				c.inst(1)
				bad := ""
				if p.guardedBy(call, isEqual) == nil {
					bad = "a property is removed from the new set on a path that has not found it equal to the cached value: a changed property is dropped from the change event, cache and clients keep the old value"
				} else if p.guardedBy(call, found) == nil {
					bad = "a property is compared with a cached value that was not found (the zero Value)"
				}
				c.check(bad == "", fnName(g), "a re-fetched property is dropped from the diff only when the cached value was found and is equal", p.InstrPos(call), "delete behind ok and Value.Equal", bad)
			}
			if call, ok := in.(ssa.CallInstruction); ok {
				if m := calleeFunc(call.Common()); m != nil && m.Name() == "EncodeChangeEvent" {
					encode = in
				}
			}
		}
	}
	c.inst(1)
	c.check(nDel > 0, fnName(fn), "unchanged properties of a re-fetched model are dropped from the diff", p.Pos(fn.Pos()), fmt.Sprintf("%d removal site(s)", nDel),
		"no property is ever removed from the new set: every re-fetch of a model sends a change event with all its properties, changed or not")
	_ = encode // (an empty diff is dropped further down by the change handler: no obligation here)
}

func isBuiltinNamed(cl *ssa.Call, name string) bool {
	b, ok := cl.Call.Value.(*ssa.Builtin)
	return ok && b.Name() == name
}

// ---------------------------------------------------------------------------
// DOM/lock-gate (C13, C03): the worker of a cache entry runs the entry's
// queued tasks only while no event lock is outstanding. A query event places
// one lock per query request; tasks queued meanwhile (later events, resets,
// subscribes) wait until every answer has used its lock. Every path of
// processQueue that runs a queued task has established either that there was
// no lock set (locks == nil) or that the set has been used up (cap(locks) <= 0
// after the used locks were cut off).
func ruleLockGate(c *Ctx) {
	p := c.P
	fn := p.Fn("(*rescache.EventSubscription).processQueue")
	fLocks := p.Field("rescache.EventSubscription.locks")
	fQueue := p.Field("rescache.EventSubscription.queue")
	if fn == nil || fLocks == nil || fQueue == nil {
		c.undecided("(*rescache.EventSubscription).processQueue", "anchor", "-", "not found")
		return
	}
	elemOf := func(t *Tracer, fr *Frame, v ssa.Value) *types.Var {
		r := t.Resolve(fr, v)
		u, ok := r.V.(*ssa.UnOp)
		if !ok || u.Op != token.MUL {
			return nil
		}
		ia, ok := u.X.(*ssa.IndexAddr)
		if !ok {
			return nil
		}
		f, _ := fieldLoad(t.Resolve(r.Fr, ia.X).V)
		if f == nil {
			f, _ = fieldLoad(ia.X)
		}
		return f
	}
	sp := &Spec{InlineHelpers: true, EdgeLimit: 2}
	sp.Classify = func(t *Tracer, fr *Frame, in ssa.Instruction) []Ev {
		call, ok := in.(*ssa.Call)
		if !ok || call.Call.IsInvoke() || call.Call.StaticCallee() != nil {
			return nil
		}
		if _, isB := call.Call.Value.(*ssa.Builtin); isB {
			return nil
		}
		switch elemOf(t, fr, call.Call.Value) {
		case fQueue:
			return []Ev{{Kind: "run-queued"}}
		case fLocks:
			return []Ev{{Kind: "run-lock"}}
		}
		return nil
	}
	sp.Branch = func(t *Tracer, fr *Frame, i *ssa.If, dir bool) []Ev {
		if x, nn, ok := nilTest(i, dir); ok {
			if f, _ := fieldLoad(x); f == fLocks {
				if nn {
					return []Ev{{Kind: "locks-set"}}
				}
				return []Ev{{Kind: "locks-nil"}}
			}
		}
		if x, op, k, ok := cmpConst(i.Cond); ok && k == 0 {
			if cl, ok := x.(*ssa.Call); ok && isBuiltinNamed(cl, "cap") && len(cl.Call.Args) == 1 {
				if f, _ := fieldLoad(cl.Call.Args[0]); f == fLocks {
					set := satisfying(op, k, dir, 3)
					if len(set) == 1 && set[0] {
						return []Ev{{Kind: "locks-used-up"}}
					}
					return []Ev{{Kind: "locks-left"}}
				}
			}
		}
		return nil
	}
	c.inst(1)
	tr := runTrace(p, fn, sp)
	bad := ""
	nRun := 0
	for _, path := range tr.Paths {
		i := indexKind(path, "run-queued")
		if i < 0 {
			continue
		}
		nRun++
		pre := path[:i]
		if !hasKind(pre, "locks-nil") && !hasKind(pre, "locks-used-up") {
			bad = "a queued task runs on a path that has established neither that no event lock was set nor that the locks are used up: tasks queued behind a query event overtake its pending answers: " + tr.FmtPath(path)
		}
		if hasKind(pre, "locks-left") {
			bad = "a queued task runs although event locks are still outstanding: " + tr.FmtPath(path)
		}
	}
	if nRun == 0 {
		bad = "no path runs a queued task"
	}
	if tr.Trunc {
		bad = "path budget exhausted"
	}
	c.check(bad == "", fnName(fn), "queued tasks of a cache entry run only while no event lock is outstanding", p.Pos(fn.Pos()), fmt.Sprintf("%d paths run queued tasks", nRun), bad)
}

// ---------------------------------------------------------------------------
// PAIR/requested-once (C03, C09): the get request for a cache entry goes out on
// a path that has moved the entry to stateRequested first. The state is what
// makes a second subscriber arriving before the answer wait for that answer;
// without the store every subscriber during loading sends a get request of its
// own, each answer re-initialises the entry (the later one wipes events applied
// in between) and answers every subscriber again.
func ruleRequestedOnce(c *Ctx) {
	p := c.P
	fn := p.Fn("(*rescache.EventSubscription).addSubscriber")
	fState := p.Field("rescache.ResourceSubscription.state")
	kReq := p.ConstInt("rescache.stateRequested", -1)
	send := p.Method("mq.Client.SendRequest")
	if fn == nil || fState == nil || kReq < 0 || send == nil {
		c.undecided("(*rescache.EventSubscription).addSubscriber", "anchor", "-", "not found")
		return
	}
	n := 0
	family := p.withNewHelpers(fn)
	for _, g := range family {
		for _, call := range callsIn(g) {
			if _, ok := isCallTo(call, send); !ok {
				continue
			}
			n++
			c.inst(1)
			// look for the store where the request is made, then where the closure it is made in was created, then
			// — for a helper extracted from addSubscriber — at the helper's call sites inside addSubscriber
			var okAt func(at ssa.Instruction, depth int) bool
			okAt = func(at ssa.Instruction, depth int) bool {
				if depth > 6 {
					return false
				}
				h := at.Block().Parent()
				for _, in := range instrsOf(h) {
					st, isSt := in.(*ssa.Store)
					if !isSt {
						continue
					}
					fa, isFA := st.Addr.(*ssa.FieldAddr)
					if !isFA || fieldOfAddr(fa) != fState {
						continue
					}
					if k, isK := constInt(st.Val); isK && k == kReq && dominates(st, at) {
						return true
					}
				}
				if mc := p.parent[h]; mc != nil {
					return okAt(mc, depth+1)
				}
				if h == fn || p.onReferenceTree(h) {
					return false
				}
				sites := 0
				for _, g2 := range family {
					for _, c2 := range callsIn(g2) {
						if c2.Common().StaticCallee() == h {
							sites++
							if !okAt(c2, depth+1) {
								return false
							}
						}
					}
				}
				return sites > 0
			}
			ok := okAt(call, 0)
			c.check(ok, fnName(g), "a get request goes out only after the entry is marked as requested", p.InstrPos(call), "state = stateRequested dominates the request",
				"the get request is sent on a path that has not stored stateRequested: every subscriber arriving before the answer sends a request of its own; a later answer re-initialises the entry and wipes the events applied since the first")
		}
	}
	if n == 0 {
		c.viol(fnName(fn), "a get request goes out only after the entry is marked as requested", p.Pos(fn.Pos()), "no get request found in addSubscriber: anchor lost")
	}
}

// ---------------------------------------------------------------------------
// PAIR/subscribe-answered (C07): every path of Cache.Subscribe either hands the
// subscriber to the entry (addSubscriber, which answers it when the resource is
// there) or answers it itself with Loaded(nil, err). A path that does neither
// leaves a client request without a reply for ever.
func ruleSubscribeAnswered(c *Ctx) {
	p := c.P
	fn := p.Fn("(*rescache.Cache).Subscribe")
	addSub := p.Method("rescache.EventSubscription.addSubscriber")
	loaded := p.Method("rescache.Subscriber.Loaded")
	if fn == nil || addSub == nil || loaded == nil {
		c.undecided("(*rescache.Cache).Subscribe", "anchor", "-", "not found")
		return
	}
	sp := &Spec{InlineHelpers: true}
	sp.Classify = func(t *Tracer, fr *Frame, in ssa.Instruction) []Ev {
		if _, ok := isCallTo(in, addSub); ok {
			return []Ev{{Kind: "handover", Stop: true}}
		}
		if _, ok := isCallTo(in, loaded); ok {
			return []Ev{{Kind: "answer", Stop: true}}
		}
		return nil
	}
	pathRule(c, fn, "a subscriber is handed to the cache entry or answered, exactly once, on every path", sp, 2, func(tr *Tracer, path []Ev) string {
		n := countKind(path, "handover") + countKind(path, "answer")
		if n == 0 {
			return "the subscriber is neither handed to the entry nor answered: the client's request never gets a reply"
		}
		if n > 1 {
			return "the subscriber is answered / handed over more than once"
		}
		return ""
	})
}

// ---------------------------------------------------------------------------
// PAIR/worker-queue-reset (C07, C03): the connection worker empties the task
// queue after it has run it, on every path back to waiting for more work. A
// path that keeps the slice runs every task again on the next wake-up: each
// request is processed — and answered — twice.
func ruleWorkerQueueReset(c *Ctx) {
	p := c.P
	fn := p.Fn("(*server.wsConn).outputWorker")
	fQueue := p.Field("server.wsConn.queue")
	if fn == nil || fQueue == nil {
		c.undecided("(*server.wsConn).outputWorker", "anchor", "-", "not found")
		return
	}
	// the queue's own fields, when it has become a type of its own
	queueField := func(f *types.Var) bool {
		if f == fQueue {
			return true
		}
		t := fQueue.Type()
		if pt, ok := t.(*types.Pointer); ok {
			t = pt.Elem()
		}
		if nt, ok := t.(*types.Named); ok {
			if st, ok := nt.Underlying().(*types.Struct); ok {
				for i := 0; i < st.NumFields(); i++ {
					if st.Field(i) == f {
						return true
					}
				}
			}
		}
		return false
	}
	resets := func(b *ssa.BasicBlock) bool {
		for _, in := range b.Instrs {
			if st, ok := in.(*ssa.Store); ok {
				if fa, ok := st.Addr.(*ssa.FieldAddr); ok && queueField(fieldOfAddr(fa)) {
					return true
				}
			}
			if call, ok := in.(ssa.CallInstruction); ok {
				if sf := call.Common().StaticCallee(); sf != nil && p.isRepoFn(sf) {
					for _, f := range p.MayWrite(call) {
						if queueField(f) {
							return true
						}
					}
				}
			}
		}
		return false
	}
	n := 0
	for _, g := range p.withNewHelpers(fn) {
		if g.Parent() != nil {
			continue
		}
		live := liveBlocks(g)
		for _, hb := range g.Blocks {
			if live != nil && !live[hb] {
				continue
			}
			body := loopBody(hb)
			if len(body) == 0 || innermostLoopHeader(hb) == nil && false {
				continue
			}
			// the drain loop: the innermost loop that runs function values
			runs := false
			for b := range body {
				if innermostLoopHeader(b) != hb {
					continue
				}
				for _, in := range b.Instrs {
					if call, ok := in.(*ssa.Call); ok && call.Call.StaticCallee() == nil && !call.Call.IsInvoke() {
						if _, isB := call.Call.Value.(*ssa.Builtin); !isB {
							runs = true
						}
					}
				}
			}
			if !runs {
				continue
			}
			n++
			c.inst(1)
			bad := ""
			seen := map[*ssa.BasicBlock]bool{}
			var work []*ssa.BasicBlock
			for b := range body {
				for _, s2 := range b.Succs {
					if !body[s2] {
						work = append(work, s2)
					}
				}
			}
			for len(work) > 0 {
				b := work[len(work)-1]
				work = work[:len(work)-1]
				if seen[b] || (live != nil && !live[b]) {
					continue
				}
				seen[b] = true
				if body[b] {
					bad = "the worker can come back to running the queue without having emptied it: every task runs again on the next wake-up"
					break
				}
				if resets(b) {
					continue
				}
				succs := b.Succs
				if bi := blockIf(b); bi != nil && len(b.Succs) == 2 {
					if v, ok := constBool(bi.Cond); ok {
						if v {
							succs = b.Succs[:1]
						} else {
							succs = b.Succs[1:]
						}
					}
				}
				work = append(work, succs...)
			}
			c.check(bad == "", fnName(g), "the worker empties the task queue after running it, on every path back to waiting", p.Pos(g.Pos()), "every path from the drain loop's exit back to it stores the queue", bad)
		}
	}
	if n == 0 {
		c.undecided(fnName(fn), "the worker empties the task queue after running it", p.Pos(fn.Pos()), "drain loop not recognised")
	}
}

// ---------------------------------------------------------------------------
// DOM/resetting-gate (C12, C03): while the re-fetch of a reset is outstanding
// (ResourceSubscription.resetting) the cached copy is not touched by events —
// the answer of the re-fetch is diffed against the copy as it was — and no
// second re-fetch is started. Every application of a state event to the cache
// (handleEventChange/Add/Remove/Delete from handleEvent) and the start of a
// re-fetch lie behind resetting == false.
func ruleResettingGate(c *Ctx) {
	p := c.P
	fReset := p.Field("rescache.ResourceSubscription.resetting")
	he := p.Fn("(*rescache.ResourceSubscription).handleEvent")
	hr := p.Fn("(*rescache.ResourceSubscription).handleResetResource")
	if fReset == nil || he == nil || hr == nil {
		c.undecided("rescache.ResourceSubscription.resetting", "anchor", "-", "not found")
		return
	}
	notResetting := boolFieldGuard(fReset, false)
	var appliers []*types.Func
	for _, n := range []string{"handleEventChange", "handleEventAdd", "handleEventRemove", "handleEventDelete"} {
		if m := p.Method("rescache.ResourceSubscription." + n); m != nil {
			appliers = append(appliers, m)
		}
	}
	n := 0
	for _, g := range p.withNewHelpers(he) {
		for _, call := range callsIn(g) {
			if _, ok := isCallTo(call, appliers...); !ok {
				continue
			}
			n++
			c.inst(1)
			if !p.guardedUp(call, notResetting, 0) && discardedByKind(p, call, fReset) {
				c.ok(fnName(g), "a state event is applied to the cached copy only while no re-fetch is outstanding ("+calleeName(call.Common())+")", p.InstrPos(call), "while resetting, the event kinds that modify the copy are discarded up front")
				continue
			}
			c.check(p.guardedUp(call, notResetting, 0), fnName(g), "a state event is applied to the cached copy only while no re-fetch is outstanding ("+calleeName(call.Common())+")", p.InstrPos(call), "behind resetting == false",
				"the event is applied while the re-fetch of a reset is outstanding: the answer is diffed against a copy the clients never saw in that state, and they are sent the change twice or not at all")
		}
	}
	if n < 3 {
		c.viol(fnName(he), "a state event is applied to the cached copy only while no re-fetch is outstanding", p.Pos(he.Pos()), fmt.Sprintf("only %d applying calls found: anchor lost", n))
	}
	// the re-fetch
	m := 0
	for _, g := range p.withNewHelpers(hr) {
		if g.Parent() != nil {
			continue
		}
		for _, in := range instrsOf(g) {
			st, ok := in.(*ssa.Store)
			if !ok {
				continue
			}
			fa, ok := st.Addr.(*ssa.FieldAddr)
			if !ok || fieldOfAddr(fa) != fReset {
				continue
			}
			if v, isC := constBool(st.Val); !isC || !v {
				continue
			}
			m++
			c.inst(1)
			c.check(p.guardedUp(st, notResetting, 0), fnName(g), "a re-fetch is started only when none is outstanding", p.InstrPos(st), "resetting = true behind resetting == false",
				"a second re-fetch is started while one is outstanding: the first answer lowers the flag, events are applied again, and the second answer is diffed against a copy that already moved on")
		}
	}
	if m == 0 {
		c.viol(fnName(hr), "a re-fetch is started only when none is outstanding", p.Pos(hr.Pos()), "the flag is never raised: anchor lost")
	}
}

// ---------------------------------------------------------------------------
// DOM/unregister-empty (C13, C09): a query variant is taken out of the entry's
// index by an unsubscribe only when its last subscriber has gone
// (len(subs) == 0). Unregistered with subscribers left, the variant no longer
// receives query events or resets while clients still hold it.
func ruleUnregisterEmpty(c *Ctx) {
	p := c.P
	fn := p.Fn("(*rescache.ResourceSubscription).Unsubscribe")
	var unreg *types.Func
	if uf := p.Fn("(*rescache.ResourceSubscription).unregister"); uf != nil {
		unreg, _ = uf.Object().(*types.Func)
	}
	fSubs := p.Field("rescache.ResourceSubscription.subs")
	if fn == nil || unreg == nil || fSubs == nil {
		c.undecided("(*rescache.ResourceSubscription).Unsubscribe", "anchor", "-", "not found")
		return
	}
	empty := func(i *ssa.If) (bool, bool) {
		x, op, k, ok := cmpConst(i.Cond)
		if !ok || k != 0 {
			return false, false
		}
		cl, ok := x.(*ssa.Call)
		if !ok || !isBuiltinNamed(cl, "len") || len(cl.Call.Args) != 1 {
			return false, false
		}
		if f, _ := fieldLoad(cl.Call.Args[0]); f != fSubs {
			return false, false
		}
		switch op {
		case token.EQL, token.LEQ:
			return true, true
		case token.NEQ, token.GTR:
			return false, true
		}
		return false, false
	}
	n := 0
	for _, g := range p.withNewHelpers(fn) {
		for _, call := range callsIn(g) {
			if _, ok := isCallTo(call, unreg); !ok {
				continue
			}
			n++
			c.inst(1)
			c.check(p.guardedUp(call, empty, 0), fnName(g), "an unsubscribe unregisters a query variant only when no subscriber is left", p.InstrPos(call), "behind len(subs) == 0",
				"the variant is unregistered while subscribers remain: they get no more query events or resets for a resource they still hold")
		}
	}
	if n == 0 {
		c.note("Unsubscribe does not unregister: nothing to decide")
	}
}

// ---------------------------------------------------------------------------
// DOM/loaded-either (C11, C15): Subscriber.Loaded(resource, err) is called
// with exactly one of the two. The connection-side implementation touches the
// resource subscription only where it has established err == nil — also on the
// path where the connection refused the task (closing): giving the use back
// there must not dereference the nil resource of a failed load.
func ruleLoadedEither(c *Ctx) {
	p := c.P
	fn := p.Fn("(*server.Subscription).Loaded")
	if fn == nil || len(fn.Params) < 3 {
		c.undecided("(*server.Subscription).Loaded", "anchor", "-", "not found")
		return
	}
	var res, errP *ssa.Parameter
	for _, prm := range fn.Params[1:] {
		if isErrorType(prm.Type()) {
			errP = prm
		} else if _, ok := prm.Type().(*types.Pointer); ok {
			res = prm
		}
	}
	if res == nil || errP == nil {
		c.undecided(fnName(fn), "anchor", p.Pos(fn.Pos()), "parameters not recognised")
		return
	}
	// values standing for a parameter: the parameter, and loads of the cell it was spilled to / captured through
	standsFor := func(v ssa.Value, prm *ssa.Parameter) bool {
		v = stripConv(v)
		if v == ssa.Value(prm) {
			return true
		}
		u, ok := v.(*ssa.UnOp)
		if !ok || u.Op != token.MUL {
			return false
		}
		cell := u.X
		for d := 0; d < 3; d++ {
			fv, ok := cell.(*ssa.FreeVar)
			if !ok {
				break
			}
			mc := p.parent[fv.Parent()]
			if mc == nil {
				return false
			}
			for i, f2 := range fv.Parent().FreeVars {
				if f2 == fv {
					cell = mc.Bindings[i]
				}
			}
		}
		al, ok := cell.(*ssa.Alloc)
		if !ok || al.Referrers() == nil {
			return false
		}
		n := 0
		for _, r := range *al.Referrers() {
			if st, ok := r.(*ssa.Store); ok && st.Addr == ssa.Value(al) {
				n++
				if st.Val != ssa.Value(prm) {
					return false
				}
			}
		}
		return n == 1
	}
	noErr := func(i *ssa.If) (bool, bool) {
		for _, d := range []bool{true, false} {
			if x, nn, ok := nilTest(i, d); ok && !nn && standsFor(x, errP) {
				return d, true
			}
		}
		return false, false
	}
	n := 0
	for _, g := range p.withNewHelpers(fn) {
		for _, call := range callsIn(g) {
			args := callArgs(call.Common())
			if len(args) == 0 || !standsFor(args[0], res) {
				continue
			}
			if call.Common().IsInvoke() {
				continue
			}
			n++
			c.inst(1)
			c.check(p.guardedBy(call, noErr) != nil, fnName(g), "the loaded resource is used only where the load is known to have succeeded ("+calleeName(call.Common())+")", p.InstrPos(call), "behind err == nil",
				"a method of the resource subscription is called on a path that has not established err == nil: for a failed load the resource is nil — a nil dereference on a cache worker ends the gateway")
		}
	}
	if n == 0 {
		c.viol(fnName(fn), "the loaded resource is used only where the load is known to have succeeded", p.Pos(fn.Pos()), "no use of the resource parameter found: anchor lost")
	}
}

// ---------------------------------------------------------------------------
// PAIR/queue-reason (C03, C01): a continuation that lifts a hold-back reason
// when it completes (unqueueEvents(R) inside a closure handed to OnReady /
// loadAccess) is created on a path that has set that reason (queueEvents(R))
// before. Without the hold, events arriving while the continuation waits are
// delivered ahead of the event the continuation is about to send.
func ruleQueueReason(c *Ctx) {
	p := c.P
	qe := p.Method("server.Subscription.queueEvents")
	uq := p.Method("server.Subscription.unqueueEvents")
	if qe == nil || uq == nil {
		c.undecided("(*server.Subscription).queueEvents", "anchor", "-", "not found")
		return
	}
	reasonOf := func(call ssa.CallInstruction) (int64, bool) {
		args := callArgs(call.Common())
		if len(args) < 2 {
			return 0, false
		}
		return constInt(args[1])
	}
	n := 0
	for _, fn := range p.Repo {
		if !inScopePkgs(fn, "server") || fn.Parent() == nil {
			continue
		}
		for _, call := range callsIn(fn) {
			if _, ok := isCallTo(call, uq); !ok {
				continue
			}
			k, ok := reasonOf(call)
			if !ok {
				continue
			}
			n++
			c.inst(1)
			good := false
			h := fn
			for depth := 0; depth < 6 && !good; depth++ {
				mc := p.parent[h]
				if mc == nil {
					break
				}
				for _, c2 := range callsIn(mc.Parent()) {
					if _, ok := isCallTo(c2, qe); ok {
						if k2, ok := reasonOf(c2); ok && k2 == k && dominates(c2, mc) {
							good = true
						}
					}
				}
				h = mc.Parent()
			}
			c.check(good, fnName(fn), "a continuation that lifts a hold-back reason is created after that reason was set", p.InstrPos(call), "queueEvents with the same reason dominates the creation of the continuation",
				"the continuation lifts a hold-back reason that no dominating queueEvents has set: events arriving while it waits are delivered ahead of the event it is about to send (and its unqueue lifts a hold somebody else set)")
		}
	}
	if n == 0 {
		c.note("no continuation lifts a hold-back reason")
	}
}

// ---------------------------------------------------------------------------
// PAIR/one-event-out (C03, C01): one resource event handed to a subscription
// is passed on to the client at most once on every path of the handler (the
// continuation of a deferred hand-over is a path of its own). Two sends on one
// path deliver the same service event twice — in two dialects when the first
// is the legacy form that fell through to the current one.
func ruleOneEventOut(c *Ctx) {
	p := c.P
	send := []*types.Func{p.Method("server.ConnSubscriber.Send"), p.Method("server.wsConn.Send")}
	newEvent := p.PkgFunc("rpc.NewEvent")
	for _, nm := range []string{"(*server.Subscription).processCollectionEvent", "(*server.Subscription).processModelEvent"} {
		fn := p.Fn(nm)
		if fn == nil {
			c.undecided(nm, "anchor", "-", "not found")
			continue
		}
		for _, root := range p.withNewHelpers(fn) {
			if root.Parent() == nil && root != fn {
				continue // helpers are inlined into the paths of their callers
			}
			sp := &Spec{NoHelpers: true, NoCombs: true, EdgeLimit: 1}
			sp.Inline = func(t *Tracer, fr *Frame, cl ssa.CallInstruction, f *ssa.Function) bool {
				// only helpers extracted from the handler: what unqueueEvents delivers are other events
				return p.isRepoFn(f) && !p.onReferenceTree(f) && f.Parent() == nil
			}
			sp.Classify = func(t *Tracer, fr *Frame, in ssa.Instruction) []Ev {
				call, ok := isCallTo(in, send...)
				if !ok {
					return nil
				}
				// the event named like the incoming one (event.Event), not a follow-up such as "unsubscribe"
				args := callArgs(call.Common())
				if len(args) >= 2 && newEvent != nil {
					if ne, ok := stripConv(args[1]).(*ssa.Call); ok && calleeFunc(&ne.Call) == newEvent && len(ne.Call.Args) >= 2 {
						if _, isConst := ne.Call.Args[1].(*ssa.Const); isConst {
							return nil
						}
					}
				}
				return []Ev{{Kind: "send"}}
			}
			c.inst(1)
			tr := runTrace(p, root, sp)
			bad := ""
			for _, path := range tr.Paths {
				if countKind(path, "send") > 1 {
					bad = "the event is passed on twice on one path: " + tr.FmtPath(path)
				}
			}
			if tr.Trunc {
				bad = "path budget exhausted"
			}
			c.check(bad == "", fnName(root), "one resource event is passed on to the client at most once per path", p.Pos(root.Pos()), fmt.Sprintf("%d paths", len(tr.Paths)), bad)
		}
	}
}

// ---------------------------------------------------------------------------
// PAIR/edge-sent-counted (C08, C02): an event that makes the client hold a new
// reference to a resource it already has (the quick exits of the add / change
// handlers: nothing to load, the event is sent at once) counts that reference
// in the child's indirectsent before the event goes out. The later removal of
// the reference counts it down again; without the count-up the child's sent
// count goes negative, its holder sum reads zero while the client still has a
// direct subscription, and the release of that subscription is skipped.
func ruleEdgeSentCounted(c *Ctx) {
	p := c.P
	addRef := p.Method("server.Subscription.addReference")
	fSent := p.Field("server.Subscription.indirectsent")
	send := []*types.Func{p.Method("server.ConnSubscriber.Send"), p.Method("server.wsConn.Send")}
	if addRef == nil || fSent == nil {
		c.undecided("(*server.Subscription).addReference", "anchor", "-", "not found")
		return
	}
	domOrLoop := func(a, s ssa.Instruction) bool {
		if a.Block().Parent() != s.Block().Parent() {
			return false
		}
		if dominates(a, s) {
			return true
		}
		if h := innermostLoopHeader(a.Block()); h != nil && h.Dominates(s.Block()) && !loopBody(h)[s.Block()] {
			return true
		}
		return false
	}
	n := 0
	// a send, or a call of a helper that did not exist on the reference tree and sends (sendEvent(event, data))
	sendsLike := func(in ssa.Instruction) bool {
		if _, ok := isCallTo(in, send...); ok {
			return true
		}
		call, ok := in.(ssa.CallInstruction)
		if !ok {
			return false
		}
		sf := call.Common().StaticCallee()
		if sf == nil || !p.isRepoFn(sf) || p.onReferenceTree(sf) || sf.Parent() != nil {
			return false
		}
		for _, h := range p.withNewHelpers(sf) {
			for _, c2 := range callsIn(h) {
				if _, ok := isCallTo(c2, send...); ok {
					return true
				}
			}
		}
		return false
	}
	for _, nm := range []string{"(*server.Subscription).processCollectionEvent", "(*server.Subscription).processModelEvent"} {
		fn := p.Fn(nm)
		if fn == nil {
			c.undecided(nm, "anchor", "-", "not found")
			continue
		}
		for _, g := range p.withNewHelpers(fn) {
			if g.Parent() != nil {
				continue // continuations count through the resource set they build (PAIR/rpc-resources)
			}
			var adds, incs []ssa.Instruction
			for _, in := range instrsOf(g) {
				if _, ok := isCallTo(in, addRef); ok {
					adds = append(adds, in)
				}
				if st, ok := in.(*ssa.Store); ok {
					if fa, ok := st.Addr.(*ssa.FieldAddr); ok && fieldOfAddr(fa) == fSent {
						if b, ok := st.Val.(*ssa.BinOp); ok && b.Op == token.ADD {
							incs = append(incs, in)
						}
					}
				}
			}
			for _, in := range instrsOf(g) {
				if !sendsLike(in) {
					continue
				}
				after := false
				for _, a := range adds {
					if domOrLoop(a, in) {
						after = true
					}
				}
				if !after {
					continue
				}
				n++
				c.inst(1)
				counted := false
				for _, i := range incs {
					if domOrLoop(i, in) {
						counted = true
					}
				}
				// ... and it is the path of a child the client HAS: where one child is counted directly (not in a loop over
				// several), the send lies behind that child being sent (state == stateSent) — ready is not enough: a child
				// that is loaded but was never delivered (an error placeholder, a model kept alive by a loading parent)
				// would be referenced without data
				if counted {
					direct := false
					for _, i := range incs {
						if dominates(i, in) {
							direct = true
						}
					}
					if direct {
						fState := p.Field("server.Subscription.state")
						kSent := p.ConstInt("server.stateSent", -1)
						isSent := fieldCmpGuard(fState, 8, func(v int64) bool { return v == kSent })
						c.inst(1)
						c.check(p.guardedBy(in, isSent) != nil, fnName(g), "the immediate hand-over of an add event is taken only for a child the client already has", p.InstrPos(in), "behind state == stateSent of the referenced subscription",
							"the event is sent at once on a path that has not established that the referenced resource was delivered: a child that is merely ready is referenced without its data or error placeholder")
					}
				}
				c.check(counted, fnName(g), "an event sent at once for a reference to a resource the client already has counts the reference as sent first", p.InstrPos(in), "indirectsent++ of the referenced subscription(s) precedes the send",
					"the event is sent on a path that added a reference without counting it in the child's indirectsent: removing the reference later drives the count negative and the release of a direct subscription of that child is skipped")
			}
		}
	}
	if n == 0 {
		c.viol("(*server.Subscription).processCollectionEvent", "an event sent at once for a reference to a resource the client already has counts the reference as sent first", "-", "no such send found: anchor lost")
	}
}

// ---------------------------------------------------------------------------
// DOM/lazy-init (C02, C15): a container that a loop fills and creates on first
// use (`if xs == nil { xs = make(...) }; xs = append(xs, x)`) is created only
// behind the test that it does not exist yet. Created again on a later turn it
// forgets what the earlier turns collected — for the references of a change
// event: only the last reference is waited for and delivered, the others
// dangle at the client.
func ruleLazyInit(c *Ctx) {
	p := c.P
	n := 0
	for _, fn := range p.Repo {
		if !inScopePkgs(fn, "server", "rescache") {
			continue
		}
		for _, in := range instrsOf(fn) {
			st, ok := in.(*ssa.Store)
			if !ok {
				continue
			}
			switch stripConv(st.Val).(type) {
			case *ssa.MakeSlice, *ssa.MakeMap:
			default:
				continue
			}
			h := innermostLoopHeader(st.Block())
			if h == nil {
				continue
			}
			// the same cell is extended in that loop
			body := loopBody(h)
			sameCell := func(a ssa.Value) bool {
				if a == st.Addr {
					return true
				}
				fa1, ok1 := a.(*ssa.FieldAddr)
				fa2, ok2 := st.Addr.(*ssa.FieldAddr)
				return ok1 && ok2 && fa1.X == fa2.X && fa1.Field == fa2.Field
			}
			grows := false
			for b := range body {
				for _, in2 := range b.Instrs {
					switch y := in2.(type) {
					case *ssa.Store:
						if y != st && sameCell(y.Addr) {
							if cl, ok := y.Val.(*ssa.Call); ok && isBuiltinNamed(cl, "append") {
								grows = true
							}
						}
					case *ssa.MapUpdate:
						if ld, ok := y.Map.(*ssa.UnOp); ok && ld.Op == token.MUL && sameCell(ld.X) {
							grows = true
						}
					}
				}
			}
			if !grows {
				continue
			}
			n++
			c.inst(1)
			isNil := func(i *ssa.If) (bool, bool) {
				for _, d := range []bool{true, false} {
					if x, nn, ok := nilTest(i, d); ok && !nn {
						if ld, ok := x.(*ssa.UnOp); ok && ld.Op == token.MUL && sameCell(ld.X) {
							return d, true
						}
					}
				}
				return false, false
			}
			c.check(p.guardedByOpt(st, isNil, false) != nil, fnName(fn), "a container filled by a loop is created only while it does not exist", p.InstrPos(st), "make behind the == nil test of the same variable",
				"the container is created anew on a turn of the loop that has not found it missing: what earlier turns collected is forgotten")
		}
	}
	if n == 0 {
		c.note("no lazily created container filled in a loop")
	}
}

// discardedByKind: the function of call tests `resetting` and, on its true edge,
// next tests the kind of the event (a condition reading ResourceEvent.Event);
// one edge of that second test cannot reach the call — the modifying kinds are
// discarded there. (`if rs.resetting && isModifyingEvent(r.Event) { return }`)
func discardedByKind(p *Prog, call ssa.Instruction, fReset *types.Var) bool {
	fEvent := p.Field("rescache.ResourceEvent.Event")
	fn := call.Block().Parent()
	reach := func(from *ssa.BasicBlock) bool {
		seen := map[*ssa.BasicBlock]bool{}
		work := []*ssa.BasicBlock{from}
		for len(work) > 0 {
			b := work[len(work)-1]
			work = work[:len(work)-1]
			if seen[b] {
				continue
			}
			seen[b] = true
			if b == call.Block() {
				return true
			}
			work = append(work, b.Succs...)
		}
		return false
	}
	for _, b := range fn.Blocks {
		i := blockIf(b)
		if i == nil {
			continue
		}
		v, neg := ssa.Value(i.Cond), false
		if u, ok := v.(*ssa.UnOp); ok && u.Op == token.NOT {
			v, neg = u.X, true
		}
		if f, _ := fieldLoad(v); f != fReset || f == nil {
			continue
		}
		tb := b.Succs[0]
		if neg {
			tb = b.Succs[1]
		}
		i2 := blockIf(tb)
		if i2 == nil || len(tb.Preds) != 1 {
			continue
		}
		fs := map[*types.Var]bool{}
		condFields(p, i2.Cond, 0, fs)
		if fEvent == nil || !fs[fEvent] {
			continue
		}
		if !reach(tb.Succs[0]) || !reach(tb.Succs[1]) {
			return true
		}
	}
	return false
}

// ---------------------------------------------------------------------------
// DOM/rpc-dispatch (C07, C08): the request dispatcher of the WebSocket
// protocol. (a) Nothing is dispatched for a frame without an id: every call of
// a Requester method lies behind Request.ID != nil — a reply to such a frame
// would carry "id":null, an answer to a request nobody made. (b) In the
// continuation of a request, the success reply is built exactly where the
// outcome is success (err == nil, or ok for the unsubscribe), the error reply
// exactly where it is not.
func ruleRPCDispatch(c *Ctx) {
	p := c.P
	fn := p.Fn("rpc.HandleRequest")
	fID := p.Field("rpc.Request.ID")
	reqT := p.Named("rpc.Requester")
	succ := p.Method("rpc.Request.SuccessResponse")
	errR := p.Method("rpc.Request.ErrorResponse")
	if fn == nil || fID == nil || reqT == nil || succ == nil || errR == nil {
		c.undecided("rpc.HandleRequest", "anchor", "-", "not found")
		return
	}
	hasID := func(i *ssa.If) (bool, bool) {
		for _, d := range []bool{true, false} {
			if x, nn, ok := nilTest(i, d); ok && nn {
				if f, _ := fieldLoad(x); f == fID {
					return d, true
				}
			}
		}
		return false, false
	}
	n := 0
	for _, g := range p.withNewHelpers(fn) {
		for _, call := range callsIn(g) {
			cc := call.Common()
			if !cc.IsInvoke() || !types.Identical(cc.Value.Type(), reqT) {
				continue
			}
			n++
			c.inst(1)
			c.check(p.guardedUp(call, hasID, 0), fnName(g), "nothing is dispatched or replied for a frame without an id ("+cc.Method.Name()+")", p.InstrPos(call), "behind Request.ID != nil",
				"a Requester method is reached for a frame whose id is missing: the request is carried out and the client is sent a reply with \"id\":null")
		}
	}
	if n < 5 {
		c.viol(fnName(fn), "nothing is dispatched or replied for a frame without an id", p.Pos(fn.Pos()), fmt.Sprintf("only %d dispatch sites found: anchor lost", n))
	}
	// (b) reply polarity inside the continuations
	for _, g := range p.withNewHelpers(fn) {
		if g.Parent() == nil {
			continue
		}
		var errP, okP *ssa.Parameter
		for _, prm := range g.Params {
			if isErrorType(prm.Type()) {
				errP = prm
			} else if bt, ok := prm.Type().Underlying().(*types.Basic); ok && bt.Kind() == types.Bool {
				okP = prm
			}
		}
		if errP == nil && okP == nil {
			continue
		}
		outcome := func(success bool) guardPred {
			return func(i *ssa.If) (bool, bool) {
				if errP != nil {
					for _, d := range []bool{true, false} {
						if x, nn, ok := nilTest(i, d); ok && x == ssa.Value(errP) && nn != success {
							return d, true
						}
					}
				}
				if okP != nil {
					v, neg := ssa.Value(i.Cond), false
					if u, ok := v.(*ssa.UnOp); ok && u.Op == token.NOT {
						v, neg = u.X, true
					}
					if v == ssa.Value(okP) {
						return success != neg, true
					}
				}
				return false, false
			}
		}
		for _, call := range callsIn(g) {
			m := calleeFunc(call.Common())
			if m != succ && m != errR {
				continue
			}
			c.inst(1)
			want := m == succ
			what := "the error reply is built only where the request failed"
			if want {
				what = "the success reply is built only where the request succeeded"
			}
			c.check(p.guardedByOpt(call, outcome(want), false) != nil, fnName(g), what, p.InstrPos(call), "behind the outcome test of the continuation",
				"the reply does not follow the outcome handed to the continuation: a request that succeeded is answered with an error (or the other way round) — the client's view of its subscriptions and the gateway's part")
		}
	}
}

// ---------------------------------------------------------------------------
// DOM/proper-values (C15, C01): resource content that comes from a service — a
// model, a collection, the value of an add event — is accepted by its decoder
// only after every value has passed Value.IsProper (a delete action or a
// value without type is no content). For every (decoder, content member) pair
// of the table there is an IsProper test on the member's values whose failing
// edge leaves the decoder with an error.
var properTable = []struct{ fn, field string }{
	{"codec.DecodeGetResponse", "codec.GetResult.Model"},
	{"codec.DecodeGetResponse", "codec.GetResult.Collection"},
	{"codec.DecodeEventQueryResponse", "codec.EventQueryResult.Model"},
	{"codec.DecodeEventQueryResponse", "codec.EventQueryResult.Collection"},
	{"codec.DecodeAddEvent", "codec.AddEvent.Value"},
}

func ruleProperValues(c *Ctx) {
	p := c.P
	isProper := p.Method("codec.Value.IsProper")
	if isProper == nil {
		c.undecided("codec.Value.IsProper", "anchor", "-", "not found")
		return
	}
	// where does the tested value come from?
	var origin func(v ssa.Value, depth int, out map[*types.Var]bool)
	origin = func(v ssa.Value, depth int, out map[*types.Var]bool) {
		if depth > 10 || v == nil {
			return
		}
		v = stripConv(v)
		switch x := v.(type) {
		case *ssa.UnOp:
			if x.Op == token.MUL {
				if fa, ok := x.X.(*ssa.FieldAddr); ok {
					out[fieldOfAddr(fa)] = true
					origin(fa.X, depth+1, out)
					return
				}
				if al, ok := x.X.(*ssa.Alloc); ok && al.Referrers() != nil {
					for _, r := range *al.Referrers() {
						if st, ok := r.(*ssa.Store); ok && st.Addr == ssa.Value(al) {
							origin(st.Val, depth+1, out)
						}
					}
					return
				}
				origin(x.X, depth+1, out)
			}
		case *ssa.FieldAddr:
			out[fieldOfAddr(x)] = true
			origin(x.X, depth+1, out)
		case *ssa.Field:
			if st, ok := x.X.Type().Underlying().(*types.Struct); ok && x.Field < st.NumFields() {
				out[st.Field(x.Field)] = true
			}
			origin(x.X, depth+1, out)
		case *ssa.IndexAddr:
			origin(x.X, depth+1, out)
		case *ssa.Index:
			origin(x.X, depth+1, out)
		case *ssa.Lookup:
			origin(x.X, depth+1, out)
		case *ssa.Extract:
			origin(x.Tuple, depth+1, out)
		case *ssa.Next:
			origin(x.Iter, depth+1, out)
		case *ssa.Range:
			origin(x.X, depth+1, out)
		case *ssa.Phi:
			for _, e := range x.Edges {
				origin(e, depth+1, out)
			}
		case *ssa.Parameter:
			fn := x.Parent()
			n := p.CG.Nodes[fn]
			idx := -1
			for i, prm := range fn.Params {
				if prm == x {
					idx = i
				}
			}
			if n == nil || idx < 0 {
				return
			}
			for _, e := range n.In {
				if e.Site != nil && e.Site.Common().StaticCallee() == fn && idx < len(callArgs(e.Site.Common())) {
					origin(callArgs(e.Site.Common())[idx], depth+1, out)
				}
			}
		}
	}
	for _, row := range properTable {
		fn := p.Fn(row.fn)
		f := p.Field(row.field)
		if fn == nil || f == nil {
			c.undecided(row.fn, "anchor", "-", row.field+" not found")
			continue
		}
		c.inst(1)
		found := false
		for _, g := range p.withNewHelpers(fn) {
			for _, call := range callsIn(g) {
				if calleeFunc(call.Common()) != isProper {
					continue
				}
				cv, ok := call.(*ssa.Call)
				if !ok {
					continue
				}
				from := map[*types.Var]bool{}
				origin(callArgs(call.Common())[0], 0, from)
				if !from[f] {
					continue
				}
				// the test decides: its result is the condition of a branch (possibly negated), or what a
				// predicate helper returns
				used := false
				if cv.Referrers() != nil {
					for _, r := range *cv.Referrers() {
						switch y := r.(type) {
						case *ssa.If:
							used = true
						case *ssa.UnOp:
							if y.Op == token.NOT {
								used = true
							}
						case *ssa.Return, *ssa.Phi, *ssa.BinOp:
							used = true
						}
					}
				}
				if used {
					found = true
				}
			}
		}
		c.check(found, row.fn, "service content is accepted only after every value passed IsProper ("+row.field+")", p.Pos(fn.Pos()), "an IsProper test on the values of "+row.field+" decides the decoder's outcome",
			"no live IsProper test on the values of "+row.field+": a delete action or a typeless value in service content is stored in the cache and sent to clients as if it were a value")
	}
}

// ---------------------------------------------------------------------------
// DOM/exclusive-members (C15): an answer that carries two alternative content
// members at once (a model and a collection, events and a model, ...) is
// ambiguous and refused as a whole: for each pair there is an error return
// that lies behind both members being present. Also: a value object is taken
// for a delete action only behind the comparison of its action with the one
// known action name.
var exclusiveTable = []struct {
	fn   string
	a, b string
}{
	{"codec.DecodeGetResponse", "codec.GetResult.Model", "codec.GetResult.Collection"},
	{"codec.DecodeEventQueryResponse", "codec.EventQueryResult.Model", "codec.EventQueryResult.Collection"},
	{"codec.DecodeEventQueryResponse", "codec.EventQueryResult.Events", "codec.EventQueryResult.Model"},
	{"codec.DecodeEventQueryResponse", "codec.EventQueryResult.Events", "codec.EventQueryResult.Collection"},
}

func ruleExclusiveMembers(c *Ctx) {
	p := c.P
	present := func(f *types.Var) guardPred {
		return func(i *ssa.If) (bool, bool) {
			for _, d := range []bool{true, false} {
				if x, nn, ok := nilTest(i, d); ok && nn {
					if g, _ := fieldLoad(x); g == f {
						return d, true
					}
				}
			}
			return false, false
		}
	}
	for _, row := range exclusiveTable {
		fn := p.Fn(row.fn)
		fa, fb := p.Field(row.a), p.Field(row.b)
		if fn == nil || fa == nil || fb == nil {
			c.undecided(row.fn, "anchor", "-", row.a+" / "+row.b+" not found")
			continue
		}
		c.inst(1)
		found := false
		for _, g := range p.withNewHelpers(fn) {
			for _, in := range instrsOf(g) {
				r, ok := in.(*ssa.Return)
				if !ok || len(r.Results) == 0 {
					continue
				}
				last := r.Results[len(r.Results)-1]
				if !isErrorType(last.Type()) || isNilConst(last) {
					continue
				}
				if p.guardedByOpt(r, present(fa), false) != nil && p.guardedByOpt(r, present(fb), false) != nil {
					found = true
				}
			}
			// `if a != nil { if b != nil || c != nil { return err } }`: the test of one member lies behind the other
			// being present, and its present edge goes straight to an error return
			errBlock := func(b *ssa.BasicBlock) bool {
				for k := 0; k < 3 && b != nil; k++ {
					if len(b.Instrs) == 0 {
						return false
					}
					switch x := b.Instrs[len(b.Instrs)-1].(type) {
					case *ssa.Return:
						if len(x.Results) == 0 {
							return false
						}
						last := x.Results[len(x.Results)-1]
						return isErrorType(last.Type()) && !isNilConst(last)
					case *ssa.Jump:
						b = b.Succs[0]
					default:
						return false
					}
				}
				return false
			}
			for _, pair := range [][2]*types.Var{{fa, fb}, {fb, fa}} {
				live := liveBlocks(g)
				for _, blk := range g.Blocks {
					i := blockIf(blk)
					if i == nil || (live != nil && !live[blk]) {
						continue
					}
					d, ok := present(pair[1])(i)
					if !ok || p.guardedByOpt(i, present(pair[0]), false) == nil {
						continue
					}
					succ := blk.Succs[0]
					if !d {
						succ = blk.Succs[1]
					}
					if errBlock(succ) {
						found = true
					}
				}
			}
		}
		c.check(found, row.fn, "an answer with two alternative content members is refused ("+fa.Name()+" and "+fb.Name()+")", p.Pos(fn.Pos()), "an error return lies behind both members being present",
			"no error return lies behind "+fa.Name()+" != nil and "+fb.Name()+" != nil: an ambiguous answer is applied as one of the two")
	}
	// the delete action
	if fn := p.Fn("(*codec.Value).UnmarshalJSON"); fn != nil {
		fType := p.Field("codec.Value.Type")
		kDel := p.ConstInt("codec.ValueTypeDelete", -1)
		n := 0
		for _, g := range p.withNewHelpers(fn) {
			for _, in := range instrsOf(g) {
				st, ok := in.(*ssa.Store)
				if !ok {
					continue
				}
				fa, ok := st.Addr.(*ssa.FieldAddr)
				if !ok || fieldOfAddr(fa) != fType {
					continue
				}
				if k, isK := constInt(st.Val); !isK || k != kDel {
					continue
				}
				n++
				c.inst(1)
				named := func(i *ssa.If) (bool, bool) {
					b, ok := i.Cond.(*ssa.BinOp)
					if !ok || (b.Op != token.EQL && b.Op != token.NEQ) {
						return false, false
					}
					_, xs := constString(b.X)
					_, ys := constString(b.Y)
					if xs == ys {
						return false, false
					}
					return b.Op == token.EQL, true
				}
				c.check(p.guardedBy(st, named) != nil, fnName(g), "a value object is a delete action only if its action is the known one", p.InstrPos(st), "behind the comparison of the action with its name",
					"a value is typed as delete action on a path that has not compared the action with \"delete\": any unknown action deletes the property")
			}
		}
		if n == 0 {
			c.note("no store of ValueTypeDelete in UnmarshalJSON")
		}
	}
}

// ---------------------------------------------------------------------------
// DOM/map-arg-made (C15): a function that writes into a map it is given
// (MergeHeader(a, b): a[k] = v) is handed a map that exists: where the
// argument is a member that is created on demand, the call lies behind the
// member being non-nil or behind its creation. A nil map there is an
// "assignment to entry in nil map" panic on a connection worker.
func ruleMapArgMade(c *Ctx) {
	p := c.P
	// functions that write into a map parameter
	writes := map[*ssa.Function]int{}
	for _, fn := range p.Repo {
		if fn.Parent() != nil || !inScopePkgs(fn, "server", "rescache", "codec", "rpc") {
			continue
		}
		for _, in := range instrsOf(fn) {
			if mu, ok := in.(*ssa.MapUpdate); ok {
				if prm, ok := mu.Map.(*ssa.Parameter); ok {
					for i, q := range fn.Params {
						if q == prm {
							writes[fn] = i
						}
					}
				}
			}
		}
	}
	// members created on demand: some branch in the repository tests them against nil
	lazy := map[*types.Var]bool{}
	for _, fn := range p.Repo {
		for _, b := range fn.Blocks {
			if i := blockIf(b); i != nil {
				if x, _, ok := nilTest(i, true); ok {
					if f, _ := fieldLoad(x); f != nil {
						lazy[f] = true
					}
				}
			}
		}
	}
	n := 0
	for _, fn := range p.Repo {
		if !inScopePkgs(fn, "server", "rescache", "codec", "rpc") {
			continue
		}
		for _, call := range callsIn(fn) {
			sf := call.Common().StaticCallee()
			idx, ok := writes[sf]
			if sf == nil || !ok {
				continue
			}
			args := callArgs(call.Common())
			if idx >= len(args) {
				continue
			}
			f, _ := fieldLoad(args[idx])
			if f == nil {
				continue // a local made here, or a parameter: the caller's obligation
			}
			if len(p.stores[f]) == 0 || !lazy[f] {
				continue // not a member the repository creates on demand (no branch tests it against nil)
			}
			n++
			c.inst(1)
			nonNil := func(i *ssa.If) (bool, bool) {
				for _, d := range []bool{true, false} {
					if x, nn, ok := nilTest(i, d); ok && nn {
						if g, _ := fieldLoad(x); g == f {
							return d, true
						}
					}
				}
				return false, false
			}
			made := false
			for _, in := range instrsOf(fn) {
				if st, ok := in.(*ssa.Store); ok {
					if fa, ok := st.Addr.(*ssa.FieldAddr); ok && fieldOfAddr(fa) == f && !isNilConst(st.Val) && dominates(st, call) {
						made = true
					}
				}
			}
			c.check(made || p.guardedBy(call, nonNil) != nil, fnName(fn), "a map handed to a function that writes into it exists ("+fnName(sf)+", "+f.Name()+")", p.InstrPos(call), "behind "+f.Name()+" != nil, or made on the path",
				"the member "+f.Name()+" may be nil where it is handed to "+fnName(sf)+", which assigns into it: assignment to entry in nil map (panic on the worker that merges the meta of two answers)")
		}
	}
	if n == 0 {
		c.note("no member map handed to a writing function")
	}
}

// ---------------------------------------------------------------------------
// PAIR/respond-once (C17, C16): an HTTP exchange is answered once. On every
// path of every function that is handed the http.ResponseWriter (the handlers,
// and the continuation that writes the outcome of a request) at most one
// response is produced: one helper that responds (httpError, notFoundHandler,
// httpStatusResponse, a delegated handler), or one WebSocket upgrade, or the
// function's own status line / body. A second one after the first puts an
// error body under a status already sent, or upgrades a request that was
// refused.
func ruleRespondOnce(c *Ctx) {
	p := c.P
	isRW := func(t types.Type) bool { return strings.HasSuffix(t.String(), "net/http.ResponseWriter") }
	// functions that produce a response through a writer they are given
	responds := map[*ssa.Function]bool{}
	direct := func(call ssa.CallInstruction) string {
		cc := call.Common()
		if cc.IsInvoke() && isRW(cc.Value.Type()) {
			switch cc.Method.Name() {
			case "WriteHeader":
				return "status"
			case "Write":
				return "body"
			}
			return ""
		}
		if m := calleeFunc(cc); m != nil && m.Name() == "Upgrade" && m.Pkg() != nil && strings.Contains(m.Pkg().Path(), "websocket") {
			return "upgrade"
		}
		return ""
	}
	var fns []*ssa.Function
	for _, fn := range p.Repo {
		if inScopePkgs(fn, "server") {
			fns = append(fns, fn)
		}
	}
	for changed := true; changed; {
		changed = false
		for _, fn := range fns {
			if responds[fn] {
				continue
			}
			for _, call := range callsIn(fn) {
				if _, isDefer := call.(*ssa.Defer); isDefer {
					continue
				}
				if direct(call) != "" {
					responds[fn] = true
				} else if sf := call.Common().StaticCallee(); sf != nil && responds[sf] {
					passes := false
					for _, a := range call.Common().Args {
						if isRW(a.Type()) {
							passes = true
						}
					}
					if passes {
						responds[fn] = true
					}
				}
				if responds[fn] {
					changed = true
					break
				}
			}
		}
	}
	n := 0
	serveHTTP := p.Fn("(*server.Service).ServeHTTP")
	for _, fn := range fns {
		if !responds[fn] {
			continue
		}
		if fn.Parent() == nil && !p.onReferenceTree(fn) {
			continue // walked through from its callers
		}
		n++
		c.inst(1)
		sp := &Spec{NoHelpers: true, NoCombs: true, EdgeLimit: 1}
		// a helper that did not exist on the reference tree is part of the function it was extracted from: it is
		// walked through (it may answer on some of its paths only, and tell its caller)
		extracted := func(f *ssa.Function) bool {
			return f != nil && p.isRepoFn(f) && f.Parent() == nil && !p.onReferenceTree(f) && responds[f]
		}
		sp.Inline = func(t *Tracer, fr *Frame, cl ssa.CallInstruction, f *ssa.Function) bool {
			if _, isGo := cl.(*ssa.Go); isGo {
				return false
			}
			return extracted(f)
		}
		sp.Classify = func(t *Tracer, fr *Frame, in ssa.Instruction) []Ev {
			call, ok := in.(ssa.CallInstruction)
			if !ok || (fr != t.RootFr && !extracted(fr.Fn)) {
				return nil
			}
			if extracted(call.Common().StaticCallee()) {
				return nil
			}
			if _, isDefer := call.(*ssa.Defer); isDefer {
				return nil
			}
			if b, isB := call.Common().Value.(*ssa.Builtin); isB && b.Name() == "close" {
				return []Ev{{Kind: "release"}} // the handler waiting for the response is let go
			}
			if k := direct(call); k != "" {
				return []Ev{{Kind: k}}
			}
			if sf := call.Common().StaticCallee(); sf != nil && responds[sf] {
				for _, a := range call.Common().Args {
					if isRW(a.Type()) {
						return []Ev{{Kind: "helper", Note: fnName(sf), Stop: true}}
					}
				}
			}
			return nil
		}
		tr := runTrace(p, fn, sp)
		bad := ""
		for _, path := range tr.Paths {
			k := countKind(path, "helper") + countKind(path, "upgrade")
			if countKind(path, "status") > 0 || countKind(path, "body") > 0 {
				k++
			}
			// (a second status line of the function's own response is superfluous, not a second response)
			if k > 1 {
				bad = "two responses on one path: " + tr.FmtPath(path)
			}
			if i := indexKind(path, "release"); i >= 0 {
				for _, e := range path[i+1:] {
					switch e.Kind {
					case "helper", "upgrade", "status", "body":
						bad = "the handler waiting for the response is released before the response is written (net/http finishes the exchange with an empty 200 while the worker still writes): " + tr.FmtPath(path)
					}
				}
			}
			if k == 0 && fn == serveHTTP {
				bad = "a path of the top-level handler hands the request to nobody and writes nothing: the client gets an empty 200"
			}
		}
		if tr.Trunc {
			bad = "path budget exhausted"
		}
		c.check(bad == "", fnName(fn), "an HTTP exchange is answered at most once on every path", p.Pos(fn.Pos()), fmt.Sprintf("%d paths", len(tr.Paths)), bad)
	}
	if n == 0 {
		c.viol("server", "an HTTP exchange is answered at most once on every path", "-", "no responding function found: anchor lost")
	}
}

// ---------------------------------------------------------------------------
// DOM/direct-status-first (C17): for an HTTP request the access answer may
// carry a meta status (3xx–5xx) that is the whole response. The continuations
// of the HTTP access requests (Cache.Access with isHTTP = true) evaluate the
// answer's grants (CanGet / CanCall) only behind IsDirectResponseStatus() ==
// false: otherwise the request goes on to wait for (or send) the resource
// request and answers with its outcome instead of the status the service set.
func ruleDirectStatusFirst(c *Ctx) {
	p := c.P
	access := p.Method("rescache.Cache.Access")
	isDirect := p.Method("codec.Meta.IsDirectResponseStatus")
	var grants []*types.Func
	for _, n := range []string{"rescache.Access.CanGet", "rescache.Access.CanCall"} {
		if m := p.Method(n); m != nil {
			grants = append(grants, m)
		}
	}
	if access == nil || isDirect == nil || len(grants) == 0 {
		c.undecided("(*rescache.Cache).Access", "anchor", "-", "not found")
		return
	}
	notDirect := func(i *ssa.If) (bool, bool) {
		v, neg := ssa.Value(i.Cond), false
		if u, ok := v.(*ssa.UnOp); ok && u.Op == token.NOT {
			v, neg = u.X, true
		}
		if cl, ok := v.(*ssa.Call); ok && calleeFunc(&cl.Call) == isDirect {
			return neg, true
		}
		return false, false
	}
	n := 0
	for _, fn := range p.Repo {
		if fn.Parent() != nil || !inScopePkgs(fn, "server") {
			continue
		}
		http := false
		for _, call := range callsIn(fn) {
			if _, ok := isCallTo(call, access); ok {
				for _, a := range call.Common().Args {
					if b, isB := constBool(a); isB && b {
						http = true
					}
				}
			}
		}
		if !http {
			continue
		}
		for _, g := range WithClosures(fn) {
			for _, call := range callsIn(g) {
				if _, ok := isCallTo(call, grants...); !ok {
					continue
				}
				n++
				c.inst(1)
				if p.guardedBy(call, notDirect) == nil && handedToGuardedCaller(p, g, notDirect) {
					c.ok(fnName(g), "the grants of an HTTP access answer are evaluated only if its meta status is not the response ("+calleeName(call.Common())+")", p.InstrPos(call), "the test is handed as a function to a helper that calls it behind IsDirectResponseStatus() == false")
					continue
				}
				c.check(p.guardedBy(call, notDirect) != nil, fnName(g), "the grants of an HTTP access answer are evaluated only if its meta status is not the response ("+calleeName(call.Common())+")", p.InstrPos(call), "behind IsDirectResponseStatus() == false",
					"the access answer's grants are evaluated although its meta status may be a direct response (3xx–5xx): the request goes on and is answered with the resource request's outcome, not with the status")
			}
		}
	}
	if n == 0 {
		c.viol("(*server.wsConn).GetHTTPSubscription", "the grants of an HTTP access answer are evaluated only if its meta status is not the response", "-", "no HTTP access continuation found: anchor lost")
	}
}

// ---------------------------------------------------------------------------
// TABLE/status-classes (C16, C17): the places that sort a meta status into its
// class compare it at the class borders: 300 and 400 where redirects are told
// from errors, 300 and 600 where a status is told from "no direct response",
// 400 / 500 / 600 in the error table. Every ordered comparison of the status
// with a constant is evaluated for all values 0..699 and the value at which it
// flips is taken; the set of flip points per function must be the borders of
// the table. `status > 300` flips at 301: a status of exactly 300 is then no
// redirect and goes out as an error without Location.
type flipRow struct {
	fn     string
	flips  []int64
	status string // "param", "len(param)" or the field read
	also   []int64 // further borders that may, but need not, be tested
}

var lengthTable = []flipRow{
	{"codec.IsValidRIDPart", []int64{1}, "len(param)", nil},
}

var statusTable = []flipRow{
	{"server.httpStatusResponse", []int64{400}, "param", []int64{300}}, // called with 300–599 only
	{"(*codec.Meta).IsDirectResponseStatus", []int64{300, 600}, "codec.Meta.Status", nil},
	{"(*codec.Meta).IsValidStatus", []int64{300, 600}, "codec.Meta.Status", nil},
	{"server.statusError", []int64{500}, "param", []int64{400, 600}}, // called with 400–599 only
}

func ruleStatusClasses(c *Ctx) { ruleFlipPoints(statusTable, "a meta status is sorted into its class at the class borders", "a status on the border is answered as a member of the neighbouring class")(c) }

// TABLE/part-nonempty (C14): a part of a resource id is valid only if it is not empty — the length test of
// IsValidRIDPart flips between 0 and 1. An empty method name would make the subject "call.<resource>.".
func rulePartNonEmpty(c *Ctx) {
	ruleFlipPoints(lengthTable, "the empty part is no valid part of a resource id", "the empty string passes as a part: a call with an empty method is sent on the subject call.<resource>. (trailing dot)")(c)
}

func ruleFlipPoints(table []flipRow, what, consequence string) func(c *Ctx) {
	return func(c *Ctx) { flipPoints(c, table, what, consequence) }
}

func flipPoints(c *Ctx, table []flipRow, what, consequence string) {
	p := c.P
	for _, row := range table {
		fn := p.Fn(row.fn)
		if fn == nil {
			c.undecided(row.fn, "anchor", "-", "not found")
			continue
		}
		var fStatus *types.Var
		if row.status != "param" && row.status != "len(param)" {
			fStatus = p.Field(row.status)
		}
		isStatus := func(v ssa.Value) bool {
			v = stripConv(v)
			if row.status == "len(param)" {
				cl, ok := v.(*ssa.Call)
				if !ok || !isBuiltinNamed(cl, "len") || len(cl.Call.Args) != 1 {
					return false
				}
				_, isP := cl.Call.Args[0].(*ssa.Parameter)
				return isP
			}
			if fStatus == nil {
				prm, ok := v.(*ssa.Parameter)
				if !ok {
					return false
				}
				bt, ok := prm.Type().Underlying().(*types.Basic)
				return ok && bt.Info()&types.IsInteger != 0
			}
			// *m.Status, possibly through a local
			for d := 0; d < 4; d++ {
				u, ok := v.(*ssa.UnOp)
				if !ok || u.Op != token.MUL {
					return false
				}
				if f, _ := fieldLoad(u); f == fStatus {
					return true
				}
				if f, _ := fieldLoad(u.X); f == fStatus {
					return true
				}
				if al, ok := u.X.(*ssa.Alloc); ok && al.Referrers() != nil {
					var val ssa.Value
					for _, r := range *al.Referrers() {
						if st, ok := r.(*ssa.Store); ok && st.Addr == ssa.Value(al) {
							val = st.Val
						}
					}
					if val == nil {
						return false
					}
					v = stripConv(val)
					continue
				}
				return false
			}
			return false
		}
		flips := map[int64]bool{}
		for _, g := range p.withNewHelpers(fn) {
			for _, in := range instrsOf(g) {
				b, ok := in.(*ssa.BinOp)
				if !ok {
					continue
				}
				switch b.Op {
				case token.LSS, token.LEQ, token.GTR, token.GEQ:
				default:
					continue
				}
				x, op, k, ok := cmpConst(b)
				if !ok {
					continue
				}
				if !isStatus(x) {
					// in a helper extracted from the function the status is the integer parameter it was handed
					prm, isP := stripConv(x).(*ssa.Parameter)
					if !isP || g == fn || g.Parent() != nil || row.status == "len(param)" {
						continue
					}
					if bt, isB := prm.Type().Underlying().(*types.Basic); !isB || bt.Info()&types.IsInteger == 0 {
						continue
					}
				}
				prev, _ := evalIntCmp(op, 0, k)
				for v := int64(1); v < 700; v++ {
					cur, _ := evalIntCmp(op, v, k)
					if cur != prev {
						flips[v] = true
						prev = cur
					}
				}
			}
		}
		c.inst(1)
		var got, want []string
		bad := ""
		for _, k := range row.flips {
			want = append(want, fmt.Sprint(k))
			if !flips[k] {
				bad = fmt.Sprintf("no comparison of the status flips at %d", k)
			}
		}
		for k := range flips {
			got = append(got, fmt.Sprint(k))
			isWant := false
			for _, w := range append(append([]int64{}, row.flips...), row.also...) {
				if w == k {
					isWant = true
				}
			}
			if !isWant {
				bad = fmt.Sprintf("a comparison of the status flips at %d, which is no class border (%s)", k, strings.Join(want, ", "))
			}
		}
		sort.Strings(got)
		c.check(bad == "", row.fn, what+" ("+strings.Join(want, ", ")+")", p.Pos(fn.Pos()), "comparisons flip at "+strings.Join(got, ", "), bad+": "+consequence)
	}
}

// ---------------------------------------------------------------------------
// DOM/small-guards: guards of one line each that the mutation sweep showed to
// be covered by nothing (suite or rule). Each is a dominance obligation over a
// named construct; the table says which property it serves.
//  disposed-error   (C01, C07): Subscription.Error() returns the stored load error only for a
//                   subscription that is not disposed — a continuation waiting on a child must not
//                   answer a request with the data of a subscription that no longer exists.
//  empty-payload    (C06, C03): DecodeEvent decodes only a non-empty payload; reaccess and delete
//                   events have none, and a decode error drops them.
//  reset-subject    (C14, C15): a token reset without subject reaches no connection (the auth
//                   request it causes would go to the empty subject).
//  start-once       (C20): Service.start creates the stop channel only when there is none — a
//                   second Start on a running service must not replace it.
//  canonical-only   (C17): Meta.Canonicalize removes the key it has re-filed under its canonical
//                   spelling: the protected-header filter matches canonical spelling only.
func ruleSmallGuards(which string) func(c *Ctx) {
	return func(c *Ctx) {
		p := c.P
		switch which {
		case "disposed-error":
			fn := p.Fn("(*server.Subscription).Error")
			fState, fErr := p.Field("server.Subscription.state"), p.Field("server.Subscription.err")
			kDisp := p.ConstInt("server.stateDisposed", -1)
			if fn == nil || fState == nil || fErr == nil || kDisp < 0 {
				c.undecided("(*server.Subscription).Error", "anchor", "-", "not found")
				return
			}
			alive := fieldCmpGuard(fState, 8, func(v int64) bool { return v != kDisp })
			n := 0
			for _, in := range instrsOf(fn) {
				r, ok := in.(*ssa.Return)
				if !ok || len(r.Results) != 1 {
					continue
				}
				if f, _ := fieldLoad(r.Results[0]); f != fErr {
					continue
				}
				n++
				c.inst(1)
				c.check(p.guardedBy(r, alive) != nil, fnName(fn), "the stored load error (or nil) is reported only for a subscription that is not disposed", p.InstrPos(r), "behind state != stateDisposed",
					"Error() reports 'no error' for a disposed subscription: a request waiting on it is answered with the data of a subscription the connection no longer has")
			}
			if n == 0 {
				c.note("Error() does not return the stored error directly")
			}
		case "empty-payload":
			fn := p.Fn("codec.DecodeEvent")
			if fn == nil {
				c.undecided("codec.DecodeEvent", "anchor", "-", "not found")
				return
			}
			nonEmpty := func(i *ssa.If) (bool, bool) {
				x, op, k, ok := cmpConst(i.Cond)
				if !ok || k != 0 {
					return false, false
				}
				cl, ok := x.(*ssa.Call)
				if !ok || !isBuiltinNamed(cl, "len") || len(cl.Call.Args) != 1 {
					return false, false
				}
				if _, isP := cl.Call.Args[0].(*ssa.Parameter); !isP {
					return false, false
				}
				switch op {
				case token.EQL, token.LEQ:
					return false, true
				case token.NEQ, token.GTR:
					return true, true
				}
				return false, false
			}
			n := 0
			isUnmarshal := func(call ssa.CallInstruction) bool {
				m := calleeFunc(call.Common())
				return m != nil && m.Pkg() != nil && m.Pkg().Path() == "encoding/json" && m.Name() == "Unmarshal"
			}
			// the decode step of DecodeEvent itself: json.Unmarshal, or a helper (new since the reference tree) that does it
			decodes := func(call ssa.CallInstruction) bool {
				if isUnmarshal(call) {
					return true
				}
				sf := call.Common().StaticCallee()
				if sf == nil || !p.isRepoFn(sf) || p.onReferenceTree(sf) {
					return false
				}
				for _, h := range p.withNewHelpers(sf) {
					for _, c2 := range callsIn(h) {
						if isUnmarshal(c2) {
							return true
						}
					}
				}
				return false
			}
			for _, g := range WithClosures(fn) {
				for _, call := range callsIn(g) {
					if decodes(call) {
						n++
						c.inst(1)
						c.check(p.guardedBy(call, nonEmpty) != nil, fnName(g), "an event without payload is an event without data, not a malformed one", p.InstrPos(call), "decode behind len(payload) != 0",
							"an empty payload is handed to the JSON decoder, which fails: reaccess and delete events (which have none) are dropped as malformed")
					}
				}
			}
			if n == 0 {
				c.note("DecodeEvent does not call json.Unmarshal")
			}
		case "reset-subject":
			fn := p.Fn("(*rescache.Cache).handleSystemTokenReset")
			fSubj := p.Field("codec.SystemTokenReset.Subject")
			if fn == nil || fSubj == nil {
				c.undecided("(*rescache.Cache).handleSystemTokenReset", "anchor", "-", "not found")
				return
			}
			hasSubject := func(i *ssa.If) (bool, bool) {
				b, ok := i.Cond.(*ssa.BinOp)
				if !ok || (b.Op != token.EQL && b.Op != token.NEQ) {
					return false, false
				}
				var other ssa.Value
				if f, _ := fieldLoad(b.X); f == fSubj {
					other = b.Y
				} else if f, _ := fieldLoad(b.Y); f == fSubj {
					other = b.X
				}
				if s, ok := constString(other); !ok || s != "" {
					return false, false
				}
				return b.Op == token.NEQ, true
			}
			n := 0
			for _, g := range p.withNewHelpers(fn) {
				for _, call := range callsIn(g) {
					if cc := call.Common(); cc.IsInvoke() && cc.Method.Name() == "TokenReset" {
						n++
						c.inst(1)
						c.check(p.guardedUp(call, hasSubject, 0), fnName(g), "a token reset without subject reaches no connection", p.InstrPos(call), "behind Subject != \"\"",
							"connections are told to re-authenticate against the empty subject: an auth request carrying cid and token goes out on subject \"\"")
					}
				}
			}
			if n == 0 {
				c.viol(fnName(fn), "a token reset without subject reaches no connection", p.Pos(fn.Pos()), "no TokenReset fan-out found: anchor lost")
			}
		case "start-once":
			fn := p.Fn("(*server.Service).start")
			fStop := p.Field("server.Service.stop")
			if fn == nil || fStop == nil {
				c.undecided("(*server.Service).start", "anchor", "-", "not found")
				return
			}
			none := func(i *ssa.If) (bool, bool) {
				for _, d := range []bool{true, false} {
					if x, nn, ok := nilTest(i, d); ok && !nn {
						if f, _ := fieldLoad(x); f == fStop {
							return d, true
						}
					}
				}
				return false, false
			}
			n := 0
			for _, g := range p.withNewHelpers(fn) {
				for _, in := range instrsOf(g) {
					st, ok := in.(*ssa.Store)
					if !ok {
						continue
					}
					fa, ok := st.Addr.(*ssa.FieldAddr)
					if !ok || fieldOfAddr(fa) != fStop || isNilConst(st.Val) {
						continue
					}
					n++
					c.inst(1)
					c.check(p.guardedUp(st, none, 0), fnName(g), "a stop channel is created only when the service has none (Start on a running service is a no-op)", p.InstrPos(st), "behind stop == nil",
						"Start on a running service replaces the stop channel (its holders are never notified), starts the parts again and — as the cache refuses a second start — stops the whole gateway")
				}
			}
			if n == 0 {
				c.viol(fnName(fn), "a stop channel is created only when the service has none", p.Pos(fn.Pos()), "start creates no stop channel: anchor lost")
			}
		case "canonical-only":
			fn := p.Fn("(*codec.Meta).Canonicalize")
			if fn == nil {
				c.undecided("(*codec.Meta).Canonicalize", "anchor", "-", "not found")
				return
			}
			c.inst(1)
			// every path of the loop body that files a value under another key deletes the old key
			refiles, deletes := 0, 0
			var upd *ssa.MapUpdate
			for _, g := range p.withNewHelpers(fn) {
				for _, in := range instrsOf(g) {
					if mu, ok := in.(*ssa.MapUpdate); ok {
						refiles++
						upd = mu
					}
					if _, ok := isBuiltinCall(in, "delete"); ok {
						deletes++
						_ = in
					}
				}
			}
			bad := ""
			if refiles > 0 && deletes == 0 {
				bad = "a header is filed under its canonical key and the non-canonical key is kept: the protected-header filter, which matches canonical spelling, lets the non-canonical copy through"
			}
			pos := p.Pos(fn.Pos())
			if upd != nil {
				pos = p.InstrPos(upd)
			}
			c.check(bad == "", fnName(fn), "a header re-filed under its canonical key leaves no copy under the old key", pos, fmt.Sprintf("%d re-filing store(s), %d delete(s)", refiles, deletes), bad)
		}
	}
}

// ---------------------------------------------------------------------------
// PAIR/listener-stopped (C20, C18): the adapter's listener closes the channel
// its owner waits on when it ends, on every return path. Close() waits for that
// channel; the slow-consumer handler calls Close() on the NATS callback
// goroutine — without the signal it blocks there for ever and the closed-
// connection callback that stops the gateway never runs.
// DOM/too-long-only-when-long (C18): the adapter refuses a subject as too long
// only behind a test of its length.
func ruleNatsSmall(c *Ctx) {
	p := c.P
	if fn := p.Fn("(*nats.Client).listener"); fn != nil {
		var stopped *ssa.Parameter
		for _, prm := range fn.Params {
			if ch, ok := prm.Type().Underlying().(*types.Chan); ok {
				if st, ok := ch.Elem().Underlying().(*types.Struct); ok && st.NumFields() == 0 {
					stopped = prm
				}
			}
		}
		if stopped == nil {
			c.note("listener takes no stop-signal channel")
		} else {
			var closes []ssa.Instruction
			deferred := false
			for _, in := range instrsOf(fn) {
				if bc, ok := isBuiltinCall(in, "close"); ok && len(bc.Call.Args) == 1 && bc.Call.Args[0] == ssa.Value(stopped) {
					if _, isD := in.(*ssa.Defer); isD && in.Block() == fn.Blocks[0] {
						deferred = true
					}
					closes = append(closes, in)
				}
			}
			for _, in := range instrsOf(fn) {
				r, ok := in.(*ssa.Return)
				if !ok {
					continue
				}
				c.inst(1)
				good := deferred
				for _, cl := range closes {
					if dominates(cl, r) {
						good = true
					}
				}
				c.check(good, fnName(fn), "the listener signals its end on every return path", p.InstrPos(r), "close(stopped) dominates the return (or is deferred at entry)",
					"the listener can end without closing the channel Close() waits on: Close blocks for ever — on the NATS callback goroutine when the slow-consumer handler calls it, so the closed-connection callback that stops the gateway never runs")
			}
		}
	} else {
		c.undecided("(*nats.Client).listener", "anchor", "-", "not found")
	}
	// too long only when long
	var tooLong *ssa.Global
	for _, spk := range p.SSA.AllPackages() {
		if spk.Pkg.Name() == "mq" {
			tooLong, _ = spk.Members["ErrSubjectTooLong"].(*ssa.Global)
		}
	}
	if tooLong == nil {
		return
	}
	lenTest := func(i *ssa.If) (bool, bool) {
		b, ok := i.Cond.(*ssa.BinOp)
		if !ok {
			return false, false
		}
		hasLen := false
		var walk func(v ssa.Value, d int)
		walk = func(v ssa.Value, d int) {
			if d > 4 {
				return
			}
			switch x := v.(type) {
			case *ssa.Call:
				if isBuiltinNamed(x, "len") {
					hasLen = true
				}
			case *ssa.BinOp:
				walk(x.X, d+1)
				walk(x.Y, d+1)
			}
		}
		walk(b, 0)
		if !hasLen {
			return false, false
		}
		switch b.Op {
		case token.GTR, token.GEQ:
			return true, true
		case token.LSS, token.LEQ:
			return false, true
		}
		return false, false
	}
	for _, fn := range p.Repo {
		if !inScopePkgs(fn, "nats") {
			continue
		}
		for _, in := range instrsOf(fn) {
			uses := false
			var ops []*ssa.Value
			for _, op := range in.Operands(ops) {
				if u, ok := (*op).(*ssa.UnOp); ok && u.X == ssa.Value(tooLong) {
					uses = true
				}
			}
			if !uses {
				continue
			}
			c.inst(1)
			c.check(p.guardedBy(in, lenTest) != nil, fnName(fn), "a subject is refused as too long only behind a test of its length", p.InstrPos(in), "behind a len() comparison",
				"system.subjectTooLong is answered on a path that has not measured the subject: every subscribe / request is refused")
		}
	}
}

// ---------------------------------------------------------------------------
// TABLE/list-scan (C05): shape conditions of the scanner that looks a method up
// in the comma-separated call list (Access.CanCall). Decided: (a) the scan
// loop is left without a grant only behind "the counter has passed the start of
// the list" — so every entry is looked at, not only the last; (b) the text
// compared with the method is cut out between the counter (plus one) and an end
// mark that moves to each separator found (a merge of the list length and the
// counter) — so an entry is compared on its own, not together with everything
// behind it. Not decided: that the scanner is right for all lists.
func ruleListScan(c *Ctx) {
	p := c.P
	fn := p.Fn("(*rescache.Access).CanCall")
	fCall := p.Field("rescache.Access.Call")
	if fn == nil || fCall == nil {
		c.undecided("(*rescache.Access).CanCall", "anchor", "-", "not found")
		return
	}
	// the compared slices of the list
	n := 0
	for _, g := range p.withNewHelpers(fn) {
		for _, in := range instrsOf(g) {
			sl, ok := in.(*ssa.Slice)
			if !ok {
				continue
			}
			if f, _ := fieldLoad(stripConv(sl.X)); f != fCall {
				continue
			}
			h := innermostLoopHeader(sl.Block())
			if h == nil {
				continue
			}
			n++
			body := loopBody(h)
			// (b) bounds
			c.inst(1)
			bad := ""
			lo := inductionVar(sl.Low)
			if lo == nil {
				bad = "the start of the compared text is not the scan position"
			}
			hiOK := false
			if ph, ok := stripConv(sl.High).(*ssa.Phi); ok && lo != nil {
				for _, e := range ph.Edges {
					if mentionsValue(e, lo, 0) {
						hiOK = true
					}
				}
			}
			if sl.High == nil {
				hiOK = false
			}
			if bad == "" && !hiOK {
				bad = "the end of the compared text does not move to the separator found: an entry is compared together with everything behind it, so only the last entry of a list can ever match"
			}
			c.check(bad == "", fnName(g), "a list entry is compared on its own (from the scan position to the last separator found)", p.InstrPos(sl), "low = counter+1, high merges the list length and the counter", bad)
			// (a) exits
			if lo == nil {
				continue
			}
			c.inst(1)
			bad = ""
			atStart := func(i *ssa.If) (bool, bool) {
				x, op, k, ok := cmpConst(i.Cond)
				if !ok || !mentionsValue(x, lo, 0) {
					return false, false
				}
				switch {
				case op == token.EQL && k == -1, op == token.LSS && k == 0, op == token.LEQ && k == -1:
					return true, true
				case op == token.NEQ && k == -1, op == token.GEQ && k == 0, op == token.GTR && k == -1:
					return false, true
				}
				return false, false
			}
			live := liveBlocks(g)
			for b := range body {
				if live != nil && !live[b] {
					continue
				}
				for si, s := range b.Succs {
					if body[s] {
						continue
					}
					// a constant test takes only its live edge
					if i := blockIf(b); i != nil {
						if v, isC := constBool(i.Cond); isC && (v != (si == 0)) {
							continue
						}
					}
					// an exit that grants (returns nil) needs no bound
					if len(s.Instrs) > 0 {
						if r, ok := s.Instrs[len(s.Instrs)-1].(*ssa.Return); ok && len(r.Results) == 1 && isNilConst(r.Results[0]) {
							continue
						}
					}
					guarded := false
					if i := blockIf(b); i != nil {
						if d, ok := atStart(i); ok && d == (si == 0) {
							guarded = true
						}
					}
					if !guarded && len(b.Instrs) > 0 && p.guardedByOpt(b.Instrs[len(b.Instrs)-1], atStart, false) != nil {
						guarded = true
					}
					if !guarded {
						bad = "the scan can be left without a grant before the start of the list is reached (" + p.InstrPos(b.Instrs[len(b.Instrs)-1]) + "): entries in front are never compared, a granted method is denied"
					}
				}
			}
			c.check(bad == "", fnName(g), "the scan of the call list is given up only at the start of the list", p.InstrPos(sl), "every exit without grant lies behind counter == -1", bad)
		}
	}
	if n == 0 {
		c.note("CanCall does not scan the list with a counter (rewritten): nothing to decide")
	}
}

// madeHere: the slice value comes from a make in the same function (directly,
// through a local, a re-slice or a merge of such).
func madeHere(v ssa.Value, depth int) bool {
	if depth > 6 {
		return false
	}
	switch x := stripConv(v).(type) {
	case *ssa.MakeSlice:
		return true
	case *ssa.Slice:
		return madeHere(x.X, depth+1)
	case *ssa.Phi:
		for _, e := range x.Edges {
			if !madeHere(e, depth+1) {
				return false
			}
		}
		return len(x.Edges) > 0
	case *ssa.UnOp:
		if x.Op == token.MUL {
			if al, ok := x.X.(*ssa.Alloc); ok && al.Referrers() != nil {
				n := 0
				for _, r := range *al.Referrers() {
					if st, ok := r.(*ssa.Store); ok && st.Addr == ssa.Value(al) {
						n++
						if !madeHere(st.Val, depth+1) {
							return false
						}
					}
				}
				return n > 0
			}
		}
	case *ssa.Call:
		if isBuiltinNamed(x, "append") {
			return true // grown here: its readers are bounded by its length
		}
	}
	return false
}

// ---------------------------------------------------------------------------
// DOM/descending-complete (C14, C16): a loop that walks a sequence from its
// last element down (i := len(x)-1; …; i--) and reads x[i] goes on for i == 0:
// its condition, evaluated with the counter at 0, keeps the loop running. A
// condition `i > 0` leaves the first element out — for the parts of an HTTP
// path: the first part is neither unescaped nor validated.
func ruleDescendingComplete(c *Ctx) {
	p := c.P
	n := 0
	for _, fn := range p.Repo {
		if !inScopePkgs(fn, "server", "rescache", "codec", "rpc") {
			continue
		}
		for _, hb := range fn.Blocks {
			i := blockIf(hb)
			body := loopBody(hb)
			if i == nil || len(body) == 0 {
				continue
			}
			x, op, k, ok := cmpConst(i.Cond)
			if !ok {
				continue
			}
			switch op {
			case token.LSS, token.LEQ, token.GTR, token.GEQ:
			default:
				continue // an equality test inside the loop is no loop condition
			}
			if body[hb.Succs[0]] == body[hb.Succs[1]] {
				continue // not the exit test of the loop
			}
			phi, ok := stripConv(x).(*ssa.Phi)
			if !ok || phi.Block() != hb {
				continue
			}
			// descending from len(s)-1
			var seq ssa.Value
			desc := false
			for _, e := range phi.Edges {
				b, ok := stripConv(e).(*ssa.BinOp)
				if !ok || b.Op != token.SUB {
					continue
				}
				if kk, isK := constInt(b.Y); !isK || kk != 1 {
					continue
				}
				if stripConv(b.X) == ssa.Value(phi) {
					desc = true
				} else if cl, ok := stripConv(b.X).(*ssa.Call); ok && isBuiltinNamed(cl, "len") {
					seq = cl.Call.Args[0]
				}
			}
			if !desc || seq == nil {
				continue
			}
			// the counter indexes that sequence in the body
			reads := false
			for b := range body {
				for _, in := range b.Instrs {
					switch y := in.(type) {
					case *ssa.IndexAddr:
						if stripConv(y.Index) == ssa.Value(phi) {
							reads = true
						}
					case *ssa.Index:
						if stripConv(y.Index) == ssa.Value(phi) {
							reads = true
						}
					}
				}
			}
			if !reads {
				continue
			}
			n++
			c.inst(1)
			stay := body[hb.Succs[0]]
			at0, _ := evalIntCmp(op, 0, k)
			c.check(at0 == stay, fnName(fn), "a walk from the last element down includes the first element", p.InstrPos(i), "the loop condition keeps the loop running at index 0",
				"the loop ends before index 0: the first element is left out (for an HTTP path: the first part is neither unescaped nor validated)")
		}
	}
	if n == 0 {
		c.note("no descending walk over a sequence")
	}
}

// handedToGuardedCaller: the closure g is handed as an argument to a repository
// function that calls that parameter only behind the guard.
func handedToGuardedCaller(p *Prog, g *ssa.Function, pred guardPred) bool {
	mc := p.parent[g]
	if mc == nil || mc.Referrers() == nil {
		return false
	}
	found := false
	for _, r := range *mc.Referrers() {
		call, ok := r.(ssa.CallInstruction)
		if !ok {
			return false
		}
		h := call.Common().StaticCallee()
		if h == nil || !p.isRepoFn(h) {
			return false
		}
		idx := -1
		for i, a := range callArgs(call.Common()) {
			if stripConv(a) == ssa.Value(mc) {
				idx = i
			}
		}
		if idx < 0 || idx >= len(h.Params) {
			return false
		}
		prm := h.Params[idx]
		n := 0
		for _, in := range instrsOf(h) {
			dc, ok := in.(*ssa.Call)
			if !ok || dc.Call.Value != ssa.Value(prm) {
				continue
			}
			n++
			if p.guardedBy(dc, pred) == nil {
				return false
			}
		}
		if n == 0 {
			return false
		}
		found = true
	}
	return found
}

// DOM/reset-access-base (C12, C06): an access reset visits the base resource of an
// entry only when the base is not a link to a query variant (query == ""): the
// variants are visited on their own, and a second visit re-requests access for
// every subscriber twice.
func ruleResetAccessBase(c *Ctx) {
	p := c.P
	fn := p.Fn("(*rescache.EventSubscription).handleResetAccess")
	fBase := p.Field("rescache.EventSubscription.base")
	fQuery := p.Field("rescache.ResourceSubscription.query")
	target := p.Method("rescache.ResourceSubscription.handleResetAccess")
	if fn == nil || fBase == nil || fQuery == nil || target == nil {
		c.undecided("(*rescache.EventSubscription).handleResetAccess", "anchor", "-", "not found")
		return
	}
	notLink := func(i *ssa.If) (bool, bool) {
		b, ok := i.Cond.(*ssa.BinOp)
		if !ok || (b.Op != token.EQL && b.Op != token.NEQ) {
			return false, false
		}
		var other ssa.Value
		if f, _ := fieldLoad(b.X); f == fQuery {
			other = b.Y
		} else if f, _ := fieldLoad(b.Y); f == fQuery {
			other = b.X
		}
		if s, ok := constString(other); !ok || s != "" {
			return false, false
		}
		return b.Op == token.EQL, true
	}
	n := 0
	for _, g := range p.withNewHelpers(fn) {
		for _, call := range callsIn(g) {
			if _, ok := isCallTo(call, target); !ok {
				continue
			}
			args := callArgs(call.Common())
			if f, _ := fieldLoad(args[0]); f != fBase {
				continue
			}
			n++
			c.inst(1)
			c.check(p.guardedUp(call, notLink, 0), fnName(g), "an access reset visits the base of an entry only when it is not a link to a query variant", p.InstrPos(call), "behind base.query == \"\"",
				"the base is visited although it may be a link to a query variant, which is visited on its own: every subscriber of that variant is re-checked twice (two access requests, two verdicts)")
		}
	}
	if n == 0 {
		c.note("the access reset does not visit the base resource separately")
	}
}

// ---------------------------------------------------------------------------
// PAIR/ref-counted (C09, C02): every reference value in the content of a
// loaded resource takes one count on its child (addReference) — also the
// second reference to the same child: removing one of two references later
// gives one count back, and with only one taken the child is released while
// the other reference still shows it to the client. Every path of
// subscribeRef that reports success has either found that the value is no
// reference or taken the count.
func ruleRefCounted(c *Ctx) {
	p := c.P
	fn := p.Fn("(*server.Subscription).subscribeRef")
	addRef := p.Method("server.Subscription.addReference")
	fType := p.Field("codec.Value.Type")
	kRef := p.ConstInt("codec.ValueTypeReference", -1)
	if fn == nil || addRef == nil || fType == nil || kRef < 0 {
		c.undecided("(*server.Subscription).subscribeRef", "anchor", "-", "not found")
		return
	}
	sp := &Spec{InlineHelpers: true, EdgeLimit: 1}
	sp.Classify = func(t *Tracer, fr *Frame, in ssa.Instruction) []Ev {
		if _, ok := isCallTo(in, addRef); ok {
			return []Ev{{Kind: "counted", Stop: true}}
		}
		if r, ok := in.(*ssa.Return); ok && fr == t.RootFr && len(r.Results) == 1 {
			if b, isC := constBool(t.Resolve(fr, r.Results[0]).V); isC && b {
				return []Ev{{Kind: "ok"}}
			}
			return []Ev{{Kind: "not-ok"}}
		}
		return nil
	}
	sp.Branch = func(t *Tracer, fr *Frame, i *ssa.If, dir bool) []Ev {
		x, op, k, ok := cmpConst(i.Cond)
		if !ok || k != kRef {
			return nil
		}
		f, _ := fieldLoad(x)
		if f == nil {
			f, _ = fieldLoad(t.Resolve(fr, x).V)
		}
		if f != fType {
			// a value parameter's member: Field extraction
			if fe, isF := stripConv(x).(*ssa.Field); !isF || fe.X.Type().String() != fType.Pkg().Path()+".Value" {
				return nil
			}
		}
		if (op == token.EQL) == dir {
			return []Ev{{Kind: "is-ref"}}
		}
		return []Ev{{Kind: "not-ref"}}
	}
	pathRule(c, fn, "every reference value of a loaded resource takes a count on its child", sp, 2, func(tr *Tracer, path []Ev) string {
		if hasKind(path, "ok") && !hasKind(path, "not-ref") && !hasKind(path, "counted") {
			return "subscribeRef reports success for a reference value without taking a count on the child: the second reference to the same child is not counted, and removing one of the two releases the child while the client still sees the other"
		}
		return ""
	})
}

// ---------------------------------------------------------------------------
// Round 14.
//
// DOM/subscribe-live (C11): a connection that is closing takes no new resource
// subscription: every call of Cache.Subscribe from the connection lies behind
// disposing == false (in the function or, for an unexported step, in every one
// of its callers). A late call/auth answer carrying a resource reference would
// otherwise send get and access requests for a connection whose conn.<cid>
// subscription is gone, and take a cache use nobody gives back.
func ruleSubscribeLive(c *Ctx) {
	p := c.P
	sub := p.Method("rescache.Cache.Subscribe")
	fDisp := p.Field("server.wsConn.disposing")
	if sub == nil || fDisp == nil {
		c.undecided("(*rescache.Cache).Subscribe", "anchor", "-", "not found")
		return
	}
	live := boolFieldGuard(fDisp, false)
	n := 0
	for _, fn := range p.Repo {
		if !inScopePkgs(fn, "server") {
			continue
		}
		for _, call := range callsIn(fn) {
			if _, ok := isCallTo(call, sub); !ok {
				continue
			}
			n++
			c.inst(1)
			c.check(p.guardedUp(call, live, 0), fnName(fn), "a closing connection takes no new resource subscription", p.InstrPos(call), "behind disposing == false (here or in every caller)",
				"the cache is asked to subscribe on behalf of a connection that may be closing: get and access requests go out under a cid whose connection subscription is released, and the cache use is never given back")
		}
	}
	if n == 0 {
		c.viol("(*server.wsConn).subscribe", "a closing connection takes no new resource subscription", "-", "no call of Cache.Subscribe found: anchor lost")
	}
}

// WHO/handle-event (C12, C03): who hands events to a cached resource. An event
// reaches ResourceSubscription.handleEvent from the entry's message handler,
// from the answer of a query event, and from the diff of a re-fetch — nowhere
// else. In particular nothing replays events later: what arrived while a
// re-fetch was outstanding is contained in the re-fetched state, and applying it
// again after the diff applies it twice.
func ruleWhoHandleEvent(c *Ctx) {
	p := c.P
	he := p.Method("rescache.ResourceSubscription.handleEvent")
	if he == nil {
		c.undecided("(*rescache.ResourceSubscription).handleEvent", "anchor", "-", "not found")
		return
	}
	allowed := map[string]bool{}
	for _, n := range []string{"(*rescache.EventSubscription).enqueueEvent", "(*rescache.EventSubscription).handleQueryEvent",
		"(*rescache.ResourceSubscription).processResetGetResponse", "(*rescache.ResourceSubscription).processResetModel", "(*rescache.ResourceSubscription).processResetCollection"} {
		if f := p.Fn(n); f != nil {
			allowed[fnName(f)] = true
		}
	}
	n := 0
	for _, fn := range p.Repo {
		if !inScopePkgs(fn, "rescache", "server") {
			continue
		}
		for _, call := range callsIn(fn) {
			if _, ok := isCallTo(call, he); !ok {
				continue
			}
			n++
			c.inst(1)
			owner, ok := p.ownedBy(fn, func(nm string) bool { return allowed[nm] })
			if !ok && p.onReferenceTree(TopLevel(fn)) {
				ok = allowed[fnName(TopLevel(fn))]
			}
			c.check(ok, fnName(fn), "events reach a cached resource from the message handler, a query answer or the diff of a re-fetch only", p.InstrPos(call), "called from "+owner,
				"a further source hands events to the cached resource: events replayed after a re-fetch are applied a second time (the re-fetched state already contains them) and clients diverge from the service")
		}
	}
	if n < 3 {
		c.viol("(*rescache.ResourceSubscription).handleEvent", "events reach a cached resource from the listed sources only", "-", fmt.Sprintf("only %d call sites found: anchor lost", n))
	}
}

// PROV/origin-entry (C17): the configured allow-list of origins is compared as it
// was written, apart from ASCII lower-casing: the only value stored back into the
// list by its validation is the lower-cased entry. An entry rewritten further
// (a port stripped, a scheme normalised) admits origins the operator did not list.
func ruleOriginEntry(c *Ctx) {
	p := c.P
	fn := p.Fn("server.validateAllowOrigin")
	lower := p.PkgFunc("server.toLowerASCII")
	if fn == nil {
		c.undecided("server.validateAllowOrigin", "anchor", "-", "not found")
		return
	}
	n := 0
	for _, g := range p.withNewHelpers(fn) {
		for _, in := range instrsOf(g) {
			st, ok := in.(*ssa.Store)
			if !ok {
				continue
			}
			ia, ok := st.Addr.(*ssa.IndexAddr)
			if !ok {
				continue
			}
			if _, isP := ia.X.(*ssa.Parameter); !isP {
				continue
			}
			n++
			c.inst(1)
			good := false
			v := stripConv(st.Val)
			if u, ok := v.(*ssa.UnOp); ok && u.Op == token.MUL {
				// through the loop variable's cell
				if al, ok := u.X.(*ssa.Alloc); ok && al.Referrers() != nil {
					all := true
					k := 0
					for _, r := range *al.Referrers() {
						if s2, ok := r.(*ssa.Store); ok && s2.Addr == ssa.Value(al) && dominates(s2, st) {
							k++
							if cl, ok := stripConv(s2.Val).(*ssa.Call); !ok || lower == nil || calleeFunc(&cl.Call) != lower {
								if _, isExtract := stripConv(s2.Val).(*ssa.Extract); !isExtract {
									all = false
								}
							}
						}
					}
					good = all && k > 0
				}
			}
			if cl, ok := v.(*ssa.Call); ok && lower != nil && calleeFunc(&cl.Call) == lower {
				good = true
			}
			c.check(good, fnName(g), "the validation of the origin allow-list stores back only the lower-cased entry", p.InstrPos(st), "stored value is toLowerASCII(entry)",
				"an allow-list entry is rewritten beyond lower-casing: origins are admitted (or refused) that differ from what the operator listed")
		}
	}
	if n == 0 {
		c.note("the validation does not rewrite the list")
	}
}

// WHO/stop-channel (C20): the stop channel carries the cause of a stop to the
// owner of the service, once. Inside the gateway it is only created, sent to,
// closed, cleared and handed out: nothing in the package receives from it — a
// receive takes the single buffered cause away from the owner.
func ruleStopChannel(c *Ctx) {
	p := c.P
	fStop := p.Field("server.Service.stop")
	if fStop == nil {
		c.undecided("server.Service.stop", "anchor", "-", "not found")
		return
	}
	isStopChan := func(v ssa.Value, depth int) bool { return false }
	var rec func(v ssa.Value, depth int) bool
	rec = func(v ssa.Value, depth int) bool {
		if depth > 5 || v == nil {
			return false
		}
		v = stripConv(v)
		if f, _ := fieldLoad(v); f == fStop {
			return true
		}
		switch x := v.(type) {
		case *ssa.Phi:
			for _, e := range x.Edges {
				if rec(e, depth+1) {
					return true
				}
			}
		case *ssa.UnOp:
			if x.Op == token.MUL {
				if al, ok := x.X.(*ssa.Alloc); ok && al.Referrers() != nil {
					for _, r := range *al.Referrers() {
						if st, ok := r.(*ssa.Store); ok && st.Addr == ssa.Value(al) && rec(st.Val, depth+1) {
							return true
						}
					}
				}
			}
		}
		return false
	}
	isStopChan = rec
	n := 0
	for _, fn := range p.Repo {
		if !inScopePkgs(fn, "server") {
			continue
		}
		for _, in := range instrsOf(fn) {
			switch x := in.(type) {
			case *ssa.UnOp:
				if x.Op == token.ARROW && isStopChan(x.X, 0) {
					n++
					c.viol(fnName(fn), "nothing inside the gateway receives from the stop channel", p.InstrPos(x), "a receive on the service's stop channel takes the buffered cause of the stop: the owner reads nil (a clean stop) instead of the lost-connection error")
				}
			case *ssa.Select:
				for _, st := range x.States {
					if st.Dir == types.RecvOnly && isStopChan(st.Chan, 0) {
						n++
						c.viol(fnName(fn), "nothing inside the gateway receives from the stop channel", p.InstrPos(x), "a select receives from the service's stop channel: the cause of the stop is taken away from the owner")
					}
				}
			}
		}
	}
	c.inst(1)
	if n == 0 {
		c.ok("server.Service.stop", "nothing inside the gateway receives from the stop channel", "-", "no receive on the stop channel in package server")
	}
}

// WHO/decoded-as-sent (C04, C06): a decoder of the codec package hands the message
// on as the service sent it: after json.Unmarshal it validates, it does not
// rewrite members of the decoded value. In particular a token event with token
// null stays distinguishable from a connection that never had a token: folded
// into "no token", the login that follows a logout takes the first-token path
// and re-validates nothing.
func ruleDecodedAsSent(c *Ctx) {
	p := c.P
	n := 0
	for _, fn := range p.Repo {
		if fn.Parent() != nil || !inScopePkgs(fn, "codec") || !strings.HasPrefix(fn.Name(), "Decode") {
			continue
		}
		n++
		c.inst(1)
		bad := ""
		// the decoded value: the local handed to json.Unmarshal
		targets := map[ssa.Value]bool{}
		var unm []ssa.Instruction
		for _, call := range callsIn(fn) {
			if m := calleeFunc(call.Common()); m != nil && m.Pkg() != nil && m.Pkg().Path() == "encoding/json" && m.Name() == "Unmarshal" && len(call.Common().Args) == 2 {
				targets[stripConv(call.Common().Args[1])] = true
				unm = append(unm, call)
			}
		}
		for _, in := range instrsOf(fn) {
			st, ok := in.(*ssa.Store)
			if !ok {
				continue
			}
			fa, ok := st.Addr.(*ssa.FieldAddr)
			if !ok || !targets[fa.X] {
				continue
			}
			after := false
			for _, u := range unm {
				if dominates(u, st) {
					after = true
				}
			}
			if after {
				bad = "member " + fieldOfAddr(fa).Name() + " of the decoded message is rewritten after decoding (" + p.InstrPos(st) + "): what the handler sees is not what the service sent"
			}
		}
		c.check(bad == "", fnName(fn), "a decoder validates the message, it does not rewrite it", p.Pos(fn.Pos()), "no store into the decoded value after json.Unmarshal", bad)
	}
	if n == 0 {
		c.viol("codec", "a decoder validates the message, it does not rewrite it", "-", "no decoder found: anchor lost")
	}
}

// ---------------------------------------------------------------------------
// Round 15.

// DOM/query-events-all (C13): every event of a query answer is handed to the
// resource: the loop over the answered events is left only when the list is
// exhausted — no break, no return inside.
func ruleQueryEventsAll(c *Ctx) {
	p := c.P
	fn := p.Fn("(*rescache.EventSubscription).handleQueryEvent")
	fEvents := p.Field("codec.EventQueryResult.Events")
	if fn == nil || fEvents == nil {
		c.undecided("(*rescache.EventSubscription).handleQueryEvent", "anchor", "-", "not found")
		return
	}
	n := 0
	for _, g := range p.withNewHelpers(fn) {
		done := map[*ssa.BasicBlock]bool{}
		for _, in := range instrsOf(g) {
			call, ok := in.(ssa.CallInstruction)
			if !ok {
				continue
			}
			if m := calleeFunc(call.Common()); m == nil || m.Name() != "handleEvent" {
				continue
			}
			hb := innermostLoopHeader(in.Block())
			if hb == nil || done[hb] {
				continue
			}
			body := loopBody(hb)
			// the loop walks the events of the answer
			walks := false
			for b := range body {
				for _, in2 := range b.Instrs {
					switch y := in2.(type) {
					case *ssa.IndexAddr:
						if f, _ := fieldLoad(y.X); f == fEvents {
							walks = true
						}
					case *ssa.Index:
						if f, _ := fieldLoad(y.X); f == fEvents {
							walks = true
						}
					case *ssa.Range:
						if f, _ := fieldLoad(y.X); f == fEvents {
							walks = true
						}
					}
				}
			}
			if !walks {
				continue
			}
			done[hb] = true
			n++
			c.inst(1)
			bad := ""
			for b := range body {
				if b == hb {
					continue
				}
				for _, s2 := range b.Succs {
					if !body[s2] {
						bad = "the loop over the answered events is left from inside (" + p.InstrPos(b.Instrs[len(b.Instrs)-1]) + "): the events behind that point are never applied or sent"
					}
				}
				if len(b.Instrs) > 0 {
					if _, isRet := b.Instrs[len(b.Instrs)-1].(*ssa.Return); isRet {
						bad = "the loop over the answered events returns from inside: the events behind that point are never applied or sent"
					}
				}
			}
			c.check(bad == "", fnName(g), "every event of a query answer is handed to the resource", p.InstrPos(in), "the loop ends only when the list is exhausted", bad)
		}
	}
	if n == 0 {
		c.note("no loop over the events of a query answer hands them on directly")
	}
}

// WHO/origin-header (C17): the Origin header of a request is what the allow-list
// is checked against; nothing in the gateway removes or rewrites it before that
// check (no Header.Del/Set/Add with the key Origin, no delete on the header map).
func ruleOriginHeader(c *Ctx) {
	p := c.P
	n := 0
	for _, fn := range p.Repo {
		if !inScopePkgs(fn, "server") {
			continue
		}
		for _, call := range callsIn(fn) {
			m := calleeFunc(call.Common())
			args := callArgs(call.Common())
			key := ""
			if m != nil && m.Pkg() != nil && (m.Pkg().Path() == "net/http" || m.Pkg().Path() == "net/textproto") && (m.Name() == "Del" || m.Name() == "Set" || m.Name() == "Add") && len(args) >= 2 {
				key, _ = constString(args[1])
			}
			if b, ok := call.Common().Value.(*ssa.Builtin); ok && b.Name() == "delete" && len(args) == 2 {
				key, _ = constString(stripConv(args[1]))
			}
			if strings.EqualFold(key, "Origin") {
				n++
				c.viol(fnName(fn), "the Origin header of a request is not removed or rewritten inside the gateway", p.InstrPos(call), "the request's Origin header is changed before the allow-list is consulted: an origin that is not listed is served as if the request had none")
			}
		}
	}
	c.inst(1)
	if n == 0 {
		c.ok("server", "the Origin header of a request is not removed or rewritten inside the gateway", "-", "no Del/Set/Add/delete with the key Origin")
	}
}

// PROV/reset-throttle-config (C19): the limit of the reset throttle is the
// configured resetThrottle and nothing else (0 = no throttle): the value handed
// to NewCache comes from Config.ResetThrottle on every path.
func ruleResetThrottleConfig(c *Ctx) {
	p := c.P
	newCache := p.PkgFunc("rescache.NewCache")
	fReset := p.Field("server.Config.ResetThrottle")
	if newCache == nil || fReset == nil {
		c.undecided("rescache.NewCache", "anchor", "-", "not found")
		return
	}
	n := 0
	for _, fn := range p.Repo {
		if !inScopePkgs(fn, "server") {
			continue
		}
		for _, call := range callsIn(fn) {
			if calleeFunc(call.Common()) != newCache {
				continue
			}
			// the int argument named resetThrottle: by the callee's parameter name, else position 2
			idx := 2
			if sf := call.Common().StaticCallee(); sf != nil {
				for i, prm := range sf.Params {
					if strings.Contains(strings.ToLower(prm.Name()), "reset") {
						idx = i
					}
				}
			}
			args := call.Common().Args
			if idx >= len(args) {
				continue
			}
			n++
			c.inst(1)
			fs := map[*types.Var]bool{}
			var walk func(v ssa.Value, d int)
			seen := map[ssa.Value]bool{}
			other := false
			walk = func(v ssa.Value, d int) {
				v = stripConv(v)
				if d > 8 || v == nil || seen[v] {
					return
				}
				seen[v] = true
				if f, _ := fieldLoad(v); f != nil {
					fs[f] = true
					return
				}
				switch x := v.(type) {
				case *ssa.Phi:
					for _, e := range x.Edges {
						walk(e, d+1)
					}
				case *ssa.UnOp:
					if al, ok := x.X.(*ssa.Alloc); ok && x.Op == token.MUL && al.Referrers() != nil {
						for _, r := range *al.Referrers() {
							if st, ok := r.(*ssa.Store); ok && st.Addr == ssa.Value(al) {
								walk(st.Val, d+1)
							}
						}
						return
					}
					other = true
				case *ssa.Const:
				default:
					other = true
				}
			}
			walk(args[idx], 0)
			bad := ""
			for f := range fs {
				if f != fReset {
					bad = "the reset throttle's limit may come from Config." + f.Name()
				}
			}
			if !fs[fReset] {
				bad = "the reset throttle's limit does not come from Config.ResetThrottle"
			}
			_ = other
			c.check(bad == "", fnName(fn), "the reset throttle is limited by the configured resetThrottle only (0: nothing is delayed)", p.InstrPos(call), "argument comes from Config.ResetThrottle", bad+": with resetThrottle 0 the requests of a reset are delayed all the same")
		}
	}
	if n == 0 {
		c.viol("rescache.NewCache", "the reset throttle is limited by the configured resetThrottle only", "-", "no call of NewCache found: anchor lost")
	}
}

// PROV/action-segment (C14, C05): the method of an HTTP call is ONE segment of the
// path: what PathToRIDAction returns as action is a segment cut out at '/' and
// unescaped on its own — it is not cut out of the joined (dotted, already
// unescaped) resource id, where an encoded dot of the last segment has become a
// separator.
func ruleActionSegment(c *Ctx) {
	p := c.P
	fn := p.Fn("server.PathToRIDAction")
	if fn == nil {
		c.undecided("server.PathToRIDAction", "anchor", "-", "not found")
		return
	}
	n := 0
	for _, in := range instrsOf(fn) {
		r, ok := in.(*ssa.Return)
		if !ok || len(r.Results) != 2 {
			continue
		}
		if k, isC := constString(r.Results[1]); isC && k == "" {
			continue
		}
		n++
		c.inst(1)
		joined := false
		seen := map[ssa.Value]bool{}
		var walk func(v ssa.Value, d int)
		walk = func(v ssa.Value, d int) {
			v = stripConv(v)
			if d > 10 || v == nil || seen[v] {
				return
			}
			seen[v] = true
			switch x := v.(type) {
			case *ssa.Slice:
				walk(x.X, d+1)
			case *ssa.Phi:
				for _, e := range x.Edges {
					walk(e, d+1)
				}
			case *ssa.Extract:
				walk(x.Tuple, d+1)
			case *ssa.UnOp:
				if x.Op != token.MUL {
					return
				}
				if al, ok := x.X.(*ssa.Alloc); ok && al.Referrers() != nil {
					for _, r2 := range *al.Referrers() {
						if st, ok := r2.(*ssa.Store); ok && st.Addr == ssa.Value(al) {
							walk(st.Val, d+1)
						}
					}
					return
				}
				if ia, ok := x.X.(*ssa.IndexAddr); ok {
					_ = ia // an element of the split path: a segment
				}
			case *ssa.Call:
				m := calleeFunc(&x.Call)
				if m == nil {
					return
				}
				if m.Pkg() != nil && m.Pkg().Path() == "strings" && m.Name() == "Join" {
					joined = true
					return
				}
				if sf := x.Call.StaticCallee(); sf != nil && p.isRepoFn(sf) {
					// a repository function that returns a joined id (PathToRID)
					for _, in2 := range instrsOf(sf) {
						if r2, ok := in2.(*ssa.Return); ok {
							for _, rv := range r2.Results {
								walk(rv, d+1)
							}
						}
					}
					return
				}
				// PathUnescape(x), TrimX(x): what went in
				for _, a := range x.Call.Args {
					if bt, ok := a.Type().Underlying().(*types.Basic); ok && bt.Info()&types.IsString != 0 {
						walk(a, d+1)
					}
				}
			case *ssa.BinOp:
				walk(x.X, d+1)
				walk(x.Y, d+1)
			}
		}
		walk(r.Results[1], 0)
		c.check(!joined, fnName(fn), "the method of an HTTP call is one path segment, unescaped on its own", p.InstrPos(r), "the returned action does not derive from the joined resource id",
			"the action is cut out of the joined, already unescaped resource id: an encoded dot in the last path segment becomes a separator — the request is access-checked and forwarded on a subject the path does not name")
	}
	if n == 0 {
		c.note("PathToRIDAction returns no action")
	}
}

// WHO/transient-subscription (C05, C06): a subscription object made for one
// request on a resource the connection is not subscribed to (a call, an HTTP
// call) is private to that request. Only the connection's table (wsConn.subs,
// filled by subscribe) holds subscriptions across requests: token events,
// reaccess events and resets re-validate what is in that table. A transient one
// kept anywhere else keeps a cached verdict that no trigger reaches.
func ruleTransientSubscription(c *Ctx) {
	p := c.P
	newSub := p.PkgFunc("server.NewSubscription")
	registrar := p.Fn("(*server.wsConn).subscribe")
	if newSub == nil {
		c.undecided("server.NewSubscription", "anchor", "-", "not found")
		return
	}
	inRegistrar := map[*ssa.Function]bool{}
	if registrar != nil {
		for _, g := range p.withNewHelpers(registrar) {
			inRegistrar[g] = true
		}
	}
	n := 0
	for _, fn := range p.Repo {
		if !inScopePkgs(fn, "server") || inRegistrar[fn] {
			continue
		}
		for _, call := range callsIn(fn) {
			cv, ok := call.(*ssa.Call)
			if !ok || calleeFunc(&cv.Call) != newSub {
				continue
			}
			n++
			c.inst(1)
			bad := ""
			seen := map[ssa.Value]bool{}
			var follow func(v ssa.Value, d int)
			follow = func(v ssa.Value, d int) {
				if d > 5 || v == nil || seen[v] || v.Referrers() == nil {
					return
				}
				seen[v] = true
				for _, r := range *v.Referrers() {
					switch x := r.(type) {
					case *ssa.MapUpdate:
						if x.Value == v {
							if _, local := stripConv(x.Map).(*ssa.MakeMap); !local {
								bad = "the subscription made for one request is put into a map (" + p.InstrPos(x) + ")"
							}
						}
					case *ssa.Store:
						if x.Val != v {
							continue
						}
						if fa, isFA := x.Addr.(*ssa.FieldAddr); isFA {
							// (a member of an object made in this very function — a parameter object handed from phase to
							// phase of the request — is as private as a local)
							if !freshBase(fa.X) {
								bad = "the subscription made for one request is stored in a member (" + p.InstrPos(x) + ")"
							}
						}
						if al, ok := x.Addr.(*ssa.Alloc); ok {
							for _, r2 := range *al.Referrers() {
								if ld, ok := r2.(*ssa.UnOp); ok && ld.Op == token.MUL {
									follow(ld, d+1)
								}
							}
						}
					case *ssa.Phi:
						follow(x, d+1)
					}
				}
			}
			follow(cv, 0)
			c.check(bad == "", fnName(fn), "a subscription made for one request is private to that request", p.InstrPos(cv), "not stored in any map or member",
				bad+": it outlives the request outside the connection's subscription table, where no token event, reaccess event or reset re-validates its cached verdict")
		}
	}
	if n == 0 {
		c.note("no transient subscriptions")
	}
}

// DOM/new-takes-subscription (C08): the answer to a `new` request that names a
// resource goes through handleResourceResult — which takes the direct
// subscription the client is told about — on every path, whatever protocol
// version the connection speaks.
func ruleNewTakesSubscription(c *Ctx) {
	p := c.P
	fn := p.Fn("(*server.wsConn).NewResource")
	hrr := p.Method("server.wsConn.handleResourceResult")
	if fn == nil || hrr == nil {
		c.undecided("(*server.wsConn).NewResource", "anchor", "-", "not found")
		return
	}
	for _, g := range WithClosures(fn) {
		if g.Parent() == nil || len(g.Params) < 3 {
			continue
		}
		var errP, ridP *ssa.Parameter
		for _, prm := range g.Params {
			if isErrorType(prm.Type()) {
				errP = prm
			} else if bt, ok := prm.Type().Underlying().(*types.Basic); ok && bt.Kind() == types.String {
				ridP = prm
			}
		}
		if errP == nil || ridP == nil {
			continue
		}
		sp := &Spec{InlineHelpers: true}
		sp.Classify = func(t *Tracer, fr *Frame, in ssa.Instruction) []Ev {
			if _, ok := isCallTo(in, hrr); ok {
				return []Ev{{Kind: "resource-result", Stop: true}}
			}
			return nil
		}
		sp.Branch = func(t *Tracer, fr *Frame, i *ssa.If, dir bool) []Ev {
			if x, nn, ok := nilTest(i, dir); ok && t.Resolve(fr, x).V == ssa.Value(errP) {
				if nn {
					return []Ev{{Kind: "failed"}}
				}
				return []Ev{{Kind: "succeeded"}}
			}
			if b, ok := i.Cond.(*ssa.BinOp); ok && (b.Op == token.EQL || b.Op == token.NEQ) {
				if s, isS := constString(b.Y); isS && s == "" && t.Resolve(fr, b.X).V == ssa.Value(ridP) {
					if (b.Op == token.NEQ) == dir {
						return []Ev{{Kind: "has-rid"}}
					}
					return []Ev{{Kind: "no-rid"}}
				}
			}
			return nil
		}
		pathRule(c, g, "a `new` answer that names a resource takes the direct subscription on every path", sp, 2, func(tr *Tracer, path []Ev) string {
			if hasKind(path, "failed") || hasKind(path, "no-rid") {
				return ""
			}
			if !hasKind(path, "resource-result") {
				return "a successful `new` answer with a resource id is replied to without handleResourceResult: the client is told about a resource it has no direct subscription on (a later unsubscribe fails, no events arrive)"
			}
			return ""
		})
	}
}
