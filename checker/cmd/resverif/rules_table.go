package main

import (
	"fmt"
	"go/constant"
	"go/token"
	"strings"

	"golang.org/x/tools/go/ssa"
)

// evalIntCmp evaluates `x op const` for a concrete x.
func evalIntCmp(op token.Token, x, k int64) (bool, bool) {
	switch op {
	case token.LSS:
		return x < k, true
	case token.GTR:
		return x > k, true
	case token.LEQ:
		return x <= k, true
	case token.GEQ:
		return x >= k, true
	case token.EQL:
		return x == k, true
	case token.NEQ:
		return x != k, true
	}
	return false, false
}

// ---------------------------------------------------------------------------
// TABLE/reject-set (C14.5, C12.5): with the scanned character fixed to a
// constant (constant propagation, one case per character), every path of the
// recogniser's first loop iteration must return false for the characters the
// property excludes from subjects.

type rejectSpec struct {
	fn      string
	reject  []rune
	accept  []rune
	byteIdx bool // loop indexes bytes (s[i]) instead of ranging over runes
}

func ruleRejectSet(specs []rejectSpec) func(c *Ctx) {
	return func(c *Ctx) {
		p := c.P
		for _, rs := range specs {
			fn := p.Fn(rs.fn)
			if fn == nil {
				c.undecided(rs.fn, "anchor", "-", "not found")
				continue
			}
			c.inst(1)
			pos := p.Pos(fn.Pos())
			var badRej, badAcc []string
			run := func(ch rune) (allFalse bool, someContinue bool, n int) {
				sp := &Spec{}
				isRune := func(v ssa.Value) bool {
					if e, ok := v.(*ssa.Extract); ok && e.Index == 2 {
						if nx, ok := e.Tuple.(*ssa.Next); ok && nx.IsString {
							return true
						}
					}
					return false
				}
				sp.Eval = func(t *Tracer, fr *Frame, cond ssa.Value) (bool, bool) {
					if fr != t.RootFr {
						return false, false
					}
					x, op, k, ok := cmpConst(cond)
					if !ok {
						// comparison with a typed rune constant
						if b, isB := cond.(*ssa.BinOp); isB {
							if cc, isC := b.Y.(*ssa.Const); isC && cc.Value != nil && cc.Value.Kind() == constant.Int {
								kk, _ := constant.Int64Val(cc.Value)
								x, op, k, ok = b.X, b.Op, kk, true
							}
						}
					}
					if !ok || !isRune(x) {
						return false, false
					}
					return evalIntCmp(op, int64(ch), k)
				}
				sp.Classify = func(t *Tracer, fr *Frame, in ssa.Instruction) []Ev {
					if r, ok := in.(*ssa.Return); ok && fr == t.RootFr && len(r.Results) >= 1 {
						res := t.Resolve(fr, r.Results[0]).V
						if b, ok := constBool(res); ok {
							return []Ev{{Kind: fmt.Sprintf("return:%v", b)}}
						}
						// a zero-value struct (ResourcePattern{}) counts as reject
						if _, ok := res.(*ssa.Const); ok {
							return []Ev{{Kind: "return:false"}}
						}
						if u, ok := res.(*ssa.UnOp); ok {
							if al, ok := u.X.(*ssa.Alloc); ok && len(*al.Referrers()) <= 2 {
								onlyZero := true
								for _, rr := range *al.Referrers() {
									if _, isStore := rr.(*ssa.Store); isStore {
										onlyZero = false
									}
									if _, isFA := rr.(*ssa.FieldAddr); isFA {
										onlyZero = false
									}
								}
								if onlyZero {
									return []Ev{{Kind: "return:false"}}
								}
							}
						}
						return []Ev{{Kind: "return:other"}}
					}
					return nil
				}
				sp.Branch = func(t *Tracer, fr *Frame, i *ssa.If, dir bool) []Ev {
					if e, ok := i.Cond.(*ssa.Extract); ok && e.Index == 0 {
						if _, ok := e.Tuple.(*ssa.Next); ok {
							if dir {
								return []Ev{{Kind: "iter"}}
							}
							return []Ev{{Kind: "loop-exit"}}
						}
					}
					return nil
				}
				tr := runTrace(p, fn, sp)
				allFalse = true
				for _, path := range tr.Paths {
					ii := indexKind(path, "iter")
					if ii < 0 {
						continue // empty string
					}
					n++
					// what happens after the first character was read
					rest := path[ii+1:]
					if len(rest) > 0 && rest[0].Kind == "return:false" {
						continue
					}
					allFalse = false
					someContinue = true
				}
				return
			}
			for _, ch := range rs.reject {
				allFalse, _, n := run(ch)
				if !allFalse || n == 0 {
					badRej = append(badRej, fmt.Sprintf("%q (%d)", ch, ch))
				}
			}
			for _, ch := range rs.accept {
				_, cont, _ := run(ch)
				if !cont {
					badAcc = append(badAcc, fmt.Sprintf("%q", ch))
				}
			}
			bad := ""
			if len(badRej) > 0 {
				bad += "characters that must never appear in a subject token are not rejected when scanned: " + strings.Join(badRej, ", ")
			}
			if len(badAcc) > 0 {
				bad += " ordinary characters are rejected: " + strings.Join(badAcc, ", ")
			}
			c.check(bad == "", rs.fn, "rejects control characters, space, DEL, non-ASCII and wildcards", pos,
				fmt.Sprintf("%d excluded and %d ordinary characters evaluated by constant propagation over all paths of one iteration", len(rs.reject), len(rs.accept)), bad)
		}
	}
}

var asciiBad = []rune{0, 1, 9, 10, 13, 31, 32, 127, 128, 0xff, 0x100, 0x2028, 0xfffd, 0x10ffff}

func rejectSpecs() []rejectSpec {
	return []rejectSpec{
		{fn: "codec.IsValidRID", reject: append(append([]rune{}, asciiBad...), '*', '>'), accept: []rune{'a', 'Z', '0', '_', '-', '{', '}', '~', '!'}},
		{fn: "codec.IsValidRIDPart", reject: append(append([]rune{}, asciiBad...), '*', '>', '.', '?'), accept: []rune{'a', 'Z', '0', '_', '-', '~', '!'}},
		{fn: "rescache.ParseResourcePattern", reject: append(append([]rune{}, asciiBad...), '?'), accept: []rune{'a', 'Z', '0', '_'}},
	}
}
