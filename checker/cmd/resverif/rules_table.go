package main

import (
	"fmt"
	"go/constant"
	"go/token"
	"go/types"
	"strings"

	"golang.org/x/tools/go/ssa"
)

// evalIntCmp evaluates `x op const` for a concrete x.
func evalIntCmp(op token.Token, x, k int64) (bool, bool) {
	switch op {
	case token.LSS:
		return x < k, true
	case token.GTR:
		return x > k, true
	case token.LEQ:
		return x <= k, true
	case token.GEQ:
		return x >= k, true
	case token.EQL:
		return x == k, true
	case token.NEQ:
		return x != k, true
	}
	return false, false
}

// ---------------------------------------------------------------------------
// TABLE/reject-set (C14.5, C12.5): with the scanned character fixed to a
// constant (constant propagation, one case per character), every path of the
// recogniser's first loop iteration must return false for the characters the
// property excludes from subjects.

type rejectSpec struct {
	fn      string
	reject  []rune
	accept  []rune
	byteIdx bool // loop indexes bytes (s[i]) instead of ranging over runes
}

func ruleRejectSet(specs []rejectSpec) func(c *Ctx) {
	return func(c *Ctx) {
		p := c.P
		for _, rs := range specs {
			fn := p.Fn(rs.fn)
			if fn == nil {
				c.undecided(rs.fn, "anchor", "-", "not found")
				continue
			}
			c.inst(1)
			pos := p.Pos(fn.Pos())
			var badRej, badAcc []string
			run := func(ch rune) (allFalse bool, someContinue bool, n int) {
				sp := &Spec{}
				isRune := func(v ssa.Value) bool {
					if e, ok := v.(*ssa.Extract); ok && e.Index == 2 {
						if nx, ok := e.Tuple.(*ssa.Next); ok && nx.IsString {
							return true
						}
					}
					return false
				}
				sp.Eval = func(t *Tracer, fr *Frame, cond ssa.Value) (bool, bool) {
					x, op, k, ok := cmpConst(cond)
					if !ok {
						// comparison with a typed rune constant
						if b, isB := cond.(*ssa.BinOp); isB {
							if cc, isC := b.Y.(*ssa.Const); isC && cc.Value != nil && cc.Value.Kind() == constant.Int {
								kk, _ := constant.Int64Val(cc.Value)
								x, op, k, ok = b.X, b.Op, kk, true
							}
						}
					}
					if !ok {
						return false, false
					}
					// the scanned character itself, or — in a predicate helper the character was handed to
					// (`isPatternChar(c)`) — the parameter that stands for it
					if fr != t.RootFr {
						rx := t.Resolve(fr, x)
						if rx.Fr != t.RootFr || !isRune(rx.V) {
							return false, false
						}
					} else if !isRune(x) {
						return false, false
					}
					return evalIntCmp(op, int64(ch), k)
				}
				sp.Classify = func(t *Tracer, fr *Frame, in ssa.Instruction) []Ev {
					if r, ok := in.(*ssa.Return); ok && fr == t.RootFr && len(r.Results) >= 1 {
						res := t.Resolve(fr, r.Results[0]).V
						if b, ok := constBool(res); ok {
							return []Ev{{Kind: fmt.Sprintf("return:%v", b)}}
						}
						// a zero-value struct (ResourcePattern{}) counts as reject
						if _, ok := res.(*ssa.Const); ok {
							return []Ev{{Kind: "return:false"}}
						}
						if u, ok := res.(*ssa.UnOp); ok {
							if al, ok := u.X.(*ssa.Alloc); ok && len(*al.Referrers()) <= 2 {
								onlyZero := true
								for _, rr := range *al.Referrers() {
									if _, isStore := rr.(*ssa.Store); isStore {
										onlyZero = false
									}
									if _, isFA := rr.(*ssa.FieldAddr); isFA {
										onlyZero = false
									}
								}
								if onlyZero {
									return []Ev{{Kind: "return:false"}}
								}
							}
						}
						return []Ev{{Kind: "return:other"}}
					}
					return nil
				}
				sp.Branch = func(t *Tracer, fr *Frame, i *ssa.If, dir bool) []Ev {
					if e, ok := i.Cond.(*ssa.Extract); ok && e.Index == 0 {
						if _, ok := e.Tuple.(*ssa.Next); ok {
							if dir {
								return []Ev{{Kind: "iter"}}
							}
							return []Ev{{Kind: "loop-exit"}}
						}
					}
					return nil
				}
				tr := runTrace(p, fn, sp)
				allFalse = true
				for _, path := range tr.Paths {
					ii := indexKind(path, "iter")
					if ii < 0 {
						continue // empty string
					}
					n++
					// what happens after the first character was read
					rest := path[ii+1:]
					if len(rest) > 0 && rest[0].Kind == "return:false" {
						continue
					}
					allFalse = false
					someContinue = true
				}
				return
			}
			for _, ch := range rs.reject {
				allFalse, _, n := run(ch)
				if !allFalse || n == 0 {
					badRej = append(badRej, fmt.Sprintf("%q (%d)", ch, ch))
				}
			}
			for _, ch := range rs.accept {
				_, cont, _ := run(ch)
				if !cont {
					badAcc = append(badAcc, fmt.Sprintf("%q", ch))
				}
			}
			bad := ""
			if len(badRej) > 0 {
				bad += "characters that must never appear in a subject token are not rejected when scanned: " + strings.Join(badRej, ", ")
			}
			if len(badAcc) > 0 {
				bad += " ordinary characters are rejected: " + strings.Join(badAcc, ", ")
			}
			c.check(bad == "", rs.fn, "rejects control characters, space, DEL, non-ASCII and wildcards", pos,
				fmt.Sprintf("%d excluded and %d ordinary characters evaluated by constant propagation over all paths of one iteration", len(rs.reject), len(rs.accept)), bad)
		}
	}
}

var asciiBad = []rune{0, 1, 9, 10, 13, 31, 32, 127, 128, 0xff, 0x100, 0x2028, 0xfffd, 0x10ffff}

func rejectSpecs() []rejectSpec {
	return []rejectSpec{
		{fn: "codec.IsValidRID", reject: append(append([]rune{}, asciiBad...), '*', '>'), accept: []rune{'a', 'Z', '0', '_', '-', '{', '}', '~', '!'}},
		{fn: "codec.IsValidRIDPart", reject: append(append([]rune{}, asciiBad...), '*', '>', '.', '?'), accept: []rune{'a', 'Z', '0', '_', '-', '~', '!'}},
		{fn: "rescache.ParseResourcePattern", reject: append(append([]rune{}, asciiBad...), '?'), accept: []rune{'a', 'Z', '0', '_', '!', '~'}},
	}
}

// ---------------------------------------------------------------------------
// TABLE/errorStatus (C17.1): error code -> HTTP status, by constant
// propagation with the code fixed, one case per code.

var errorStatusTable = map[string]int64{
	"system.notFound":           404,
	"system.methodNotFound":     404,
	"system.timeout":            404,
	"system.accessDenied":       401,
	"system.forbidden":          403,
	"system.methodNotAllowed":   405,
	"system.subjectTooLong":     414,
	"system.internalError":      500,
	"system.serviceUnavailable": 503,
	// anything else: 400
	"system.invalidParams":  400,
	"system.invalidRequest": 400,
	"system.badRequest":     400,
	"system.noSubscription": 400,
	"some.custom.error":     400,
	"":                      400,
}

func ruleErrorStatus(c *Ctx) {
	p := c.P
	fn := p.Fn("server.errorStatus")
	if fn == nil {
		c.undecided("server.errorStatus", "anchor", "-", "not found")
		return
	}
	fCode := p.Field("reserr.Error.Code")
	// the table is closed: every code the function tells apart that is not in the property's table, and any
	// code it does not mention, maps to 400
	codes := strKeys(errorStatusTable)
	codes["system.someOtherCode"] = true
	for _, g := range p.withHelpers(fn) {
		for _, in := range instrsOf(g) {
			b, ok := in.(*ssa.BinOp)
			if !ok || (b.Op != token.EQL && b.Op != token.NEQ) {
				continue
			}
			for _, pair := range [][2]ssa.Value{{b.X, b.Y}, {b.Y, b.X}} {
				if s, isS := constString(pair[1]); isS {
					if f, _ := fieldLoad(pair[0]); f == fCode {
						codes[s] = true
					}
				}
			}
		}
	}
	for _, code := range sortedKeys(codes) {
		want, listed := errorStatusTable[code]
		if !listed {
			want = 400
		}
		c.inst(1)
		sp := &Spec{}
		sp.Eval = func(t *Tracer, fr *Frame, cond ssa.Value) (bool, bool) {
			b, ok := cond.(*ssa.BinOp)
			if !ok || (b.Op != token.EQL && b.Op != token.NEQ) {
				return false, false
			}
			s, isS := constString(b.Y)
			x := b.X
			if !isS {
				s, isS = constString(b.X)
				x = b.Y
			}
			if !isS {
				return false, false
			}
			if f, _ := fieldLoad(t.Resolve(fr, x).V); f != fCode {
				return false, false
			}
			return (s == code) == (b.Op == token.EQL), true
		}
		var got []string
		sp.Classify = func(t *Tracer, fr *Frame, in ssa.Instruction) []Ev {
			if r, ok := in.(*ssa.Return); ok && fr == t.RootFr && len(r.Results) == 2 {
				if k, ok := constInt(t.Resolve(fr, r.Results[1]).V); ok {
					return []Ev{{Kind: fmt.Sprintf("status=%d", k)}}
				}
				return []Ev{{Kind: "status=?"}}
			}
			return nil
		}
		sp.InlineHelpers = true
		tr := runTrace(p, fn, sp)
		ok := len(tr.Paths) > 0
		for _, path := range tr.Paths {
			for _, e := range path {
				if strings.HasPrefix(e.Kind, "status=") {
					got = append(got, e.Kind[7:])
					if e.Kind != fmt.Sprintf("status=%d", want) {
						ok = false
					}
				}
			}
		}
		c.check(ok, "server.errorStatus", fmt.Sprintf("code %q maps to %d", code, want), p.Pos(fn.Pos()),
			fmt.Sprintf("%d paths, all return %d", len(tr.Paths), want), fmt.Sprintf("code %q maps to %s, the property says %d", code, strings.Join(got, "/"), want))
	}
}

func strKeys(m map[string]int64) map[string]bool {
	o := map[string]bool{}
	for k := range m {
		o[k] = true
	}
	return o
}

// ---------------------------------------------------------------------------
// TABLE/status-interval (C17.2): meta status honoured exactly within 300..599

func ruleStatusInterval(c *Ctx) {
	p := c.P
	fStatus := p.Field("codec.Meta.Status")
	for _, spec := range []struct {
		fn      string
		wantNil bool
	}{{"(*codec.Meta).IsDirectResponseStatus", false}, {"(*codec.Meta).IsValidStatus", true}} {
		fn := p.Fn(spec.fn)
		if fn == nil {
			c.undecided(spec.fn, "anchor", "-", "not found")
			continue
		}
		c.inst(1)
		bad := ""
		for _, s := range []int64{-1, 0, 100, 199, 200, 204, 299, 300, 301, 399, 400, 404, 500, 599, 600, 601, 1000, 65536} {
			sp := &Spec{}
			sp.Eval = func(t *Tracer, fr *Frame, cond ssa.Value) (bool, bool) {
				if x, nonNil, ok := nilTestV(cond); ok {
					// m != nil and m.Status != nil: both non-nil in this case
					_ = x
					return nonNil, true
				}
				x, op, k, ok := cmpConst(cond)
				if !ok {
					return false, false
				}
				// x must be *m.Status
				r := t.Resolve(fr, x).V
				if u, isU := r.(*ssa.UnOp); isU && u.Op == token.MUL {
					if f, _ := fieldLoad(u.X); f == fStatus {
						return evalIntCmp(op, s, k)
					}
				}
				return false, false
			}
			sp.Classify = func(t *Tracer, fr *Frame, in ssa.Instruction) []Ev {
				if r, ok := in.(*ssa.Return); ok && fr == t.RootFr {
					rv := t.Resolve(fr, r.Results[0])
					if b, ok := constBool(rv.V); ok {
						return []Ev{{Kind: fmt.Sprintf("ret=%v", b)}}
					}
					if b, ok := sp.Eval(t, rv.Fr, rv.V); ok {
						return []Ev{{Kind: fmt.Sprintf("ret=%v", b)}}
					}
					return []Ev{{Kind: "ret=?"}}
				}
				return nil
			}
			tr := runTrace(p, fn, sp)
			want := s >= 300 && s <= 599
			for _, path := range tr.Paths {
				if !hasKind(path, fmt.Sprintf("ret=%v", want)) {
					bad = fmt.Sprintf("status %d: returns %v, the property honours a meta status exactly within 300-599", s, kinds(path))
				}
			}
			if len(tr.Paths) == 0 {
				bad = "no path"
			}
		}
		// nil meta / nil status
		{
			sp := &Spec{}
			sp.Eval = func(t *Tracer, fr *Frame, cond ssa.Value) (bool, bool) {
				if _, nonNil, ok := nilTestV(cond); ok {
					// first test (m != nil) true, second (Status != nil) false: handled by enumerating both
					_ = nonNil
					return false, false
				}
				return false, false
			}
			sp.Classify = func(t *Tracer, fr *Frame, in ssa.Instruction) []Ev {
				if r, ok := in.(*ssa.Return); ok && fr == t.RootFr {
					if b, ok := constBool(t.Resolve(fr, r.Results[0]).V); ok {
						return []Ev{{Kind: fmt.Sprintf("ret=%v", b)}}
					}
				}
				return nil
			}
			sp.Branch = func(t *Tracer, fr *Frame, i *ssa.If, dir bool) []Ev {
				if _, nonNil, ok := nilTest(i, dir); ok && !nonNil {
					return []Ev{{Kind: "nil"}}
				}
				return nil
			}
			tr := runTrace(p, fn, sp)
			for _, path := range tr.Paths {
				if hasKind(path, "nil") && !hasKind(path, fmt.Sprintf("ret=%v", spec.wantNil)) {
					bad = fmt.Sprintf("nil meta / nil status must yield %v: %v", spec.wantNil, kinds(path))
				}
			}
		}
		c.check(bad == "", spec.fn, "true exactly for a status within 300..599", p.Pos(fn.Pos()), "18 status values and the nil cases evaluated by constant propagation", bad)
	}
}

// nilTestV decodes `X != nil` / `X == nil` on a value; nonNil is the truth of
// the condition when X is non-nil.
func nilTestV(cond ssa.Value) (ssa.Value, bool, bool) {
	b, ok := cond.(*ssa.BinOp)
	if !ok || (b.Op != token.EQL && b.Op != token.NEQ) {
		return nil, false, false
	}
	switch {
	case isNilConst(b.Y):
		return b.X, b.Op == token.NEQ, true
	case isNilConst(b.X):
		return b.Y, b.Op == token.NEQ, true
	}
	return nil, false, false
}

// ---------------------------------------------------------------------------
// TABLE/protected (C17.3): MergeHeader never copies a protected key, appends
// Set-Cookie and replaces everything else.

var protectedHeaders = []string{"Content-Type", "Access-Control-Allow-Origin", "Access-Control-Allow-Credentials", "Sec-Websocket-Extensions", "Sec-Websocket-Protocol"}

func ruleProtectedHeaders(c *Ctx) {
	p := c.P
	fn := p.Fn("codec.MergeHeader")
	if fn == nil {
		c.undecided("codec.MergeHeader", "anchor", "-", "not found")
		return
	}
	run := func(key string) (updates, appends, iters int) {
		sp := &Spec{}
		isKey := func(v ssa.Value) bool {
			if e, ok := v.(*ssa.Extract); ok && e.Index == 1 {
				if nx, ok := e.Tuple.(*ssa.Next); ok && !nx.IsString {
					return true
				}
			}
			return false
		}
		sp.Eval = func(t *Tracer, fr *Frame, cond ssa.Value) (bool, bool) {
			// membership in a package-level set of header names (`_, ok := protectedHeaders[k]`)
			if e, isE := cond.(*ssa.Extract); isE && e.Index == 1 {
				if lk, isL := e.Tuple.(*ssa.Lookup); isL && lk.CommaOk && isKey(t.Resolve(fr, lk.Index).V) {
					if keys := globalMapKeys(t.Resolve(fr, lk.X).V); keys != nil {
						return keys[key], true
					}
				}
				return false, false
			}
			b, ok := cond.(*ssa.BinOp)
			if !ok || (b.Op != token.EQL && b.Op != token.NEQ) {
				return false, false
			}
			s, isS := constString(b.Y)
			if !isS || !isKey(t.Resolve(fr, b.X).V) {
				return false, false
			}
			return (s == key) == (b.Op == token.EQL), true
		}
		sp.Classify = func(t *Tracer, fr *Frame, in ssa.Instruction) []Ev {
			if mu, ok := in.(*ssa.MapUpdate); ok {
				if call, ok := mu.Value.(*ssa.Call); ok {
					if b, ok := call.Call.Value.(*ssa.Builtin); ok && b.Name() == "append" {
						return []Ev{{Kind: "append"}}
					}
				}
				return []Ev{{Kind: "replace"}}
			}
			return nil
		}
		sp.Branch = func(t *Tracer, fr *Frame, i *ssa.If, dir bool) []Ev {
			if e, ok := i.Cond.(*ssa.Extract); ok && e.Index == 0 {
				if _, ok := e.Tuple.(*ssa.Next); ok && dir {
					return []Ev{{Kind: "iter"}}
				}
			}
			return nil
		}
		sp.InlineHelpers = true
		tr := runTrace(p, fn, sp)
		for _, path := range tr.Paths {
			ni := countKind(path, "iter")
			if ni == 0 {
				continue
			}
			// normalise to "per iteration": a path with k iterations must have k updates of the expected kind
			iters++
			if countKind(path, "replace") == ni {
				updates++
			} else if countKind(path, "replace") > 0 {
				updates += 1000
			}
			if countKind(path, "append") == ni {
				appends++
			} else if countKind(path, "append") > 0 {
				appends += 1000
			}
		}
		return
	}
	for _, k := range protectedHeaders {
		c.inst(1)
		u, a, n := run(k)
		c.check(u+a == 0 && n > 0, "codec.MergeHeader", "protected header "+k+" is never merged", p.Pos(fn.Pos()), "no map update on any path with this key", fmt.Sprintf("key %q is copied into the response header (%d replace, %d append)", k, u, a))
		if textprotoCanonical(k) != k {
			c.viol("codec.MergeHeader", "protected header "+k+" is canonical", "-", "not a fixed point of CanonicalMIMEHeaderKey")
		}
	}
	c.inst(2)
	u, a, n := run("Set-Cookie")
	c.check(u == 0 && a == n && n > 0, "codec.MergeHeader", "Set-Cookie values accumulate", p.Pos(fn.Pos()), "append form on every path", fmt.Sprintf("Set-Cookie: %d replace, %d append over %d paths", u, a, n))
	u, a, n = run("X-Other")
	c.check(a == 0 && u == n && n > 0, "codec.MergeHeader", "other headers replace", p.Pos(fn.Pos()), "replace form on every path", fmt.Sprintf("X-Other: %d replace, %d append over %d paths", u, a, n))
}

// textprotoCanonical mirrors textproto.CanonicalMIMEHeaderKey for plain
// token keys (letters, digits, '-').
func textprotoCanonical(s string) string {
	b := []byte(s)
	upper := true
	for i, ch := range b {
		if upper && 'a' <= ch && ch <= 'z' {
			b[i] = ch - 32
		} else if !upper && 'A' <= ch && ch <= 'Z' {
			b[i] = ch + 32
		}
		upper = ch == '-'
	}
	return string(b)
}

// ---------------------------------------------------------------------------
// DOM/canonicalize (C17.3): every meta a decoder hands out was canonicalised

func ruleCanonicalize(c *Ctx) {
	p := c.P
	canon := p.Method("codec.Meta.Canonicalize")
	metaT := p.Named("codec.Meta")
	if canon == nil || metaT == nil {
		c.undecided("codec.Meta.Canonicalize", "anchor", "-", "not found")
		return
	}
	// header names that differ only in letter case fold into one canonical name, and their values accumulate
	// (two Set-Cookie spellings are two cookies): a value stored under a canonicalised key is appended to what
	// is already there
	if cf := p.SSA.FuncValue(canon); cf != nil {
		n := 0
		for _, g := range p.withHelpers(cf) {
			for _, in := range instrsOf(g) {
				mu, ok := in.(*ssa.MapUpdate)
				if !ok {
					continue
				}
				kc, isCall := mu.Key.(*ssa.Call)
				if !isCall {
					continue
				}
				if f := calleeFunc(&kc.Call); f == nil || f.Name() != "CanonicalMIMEHeaderKey" {
					continue
				}
				n++
				c.inst(1)
				acc := false
				if ap, isA := mu.Value.(*ssa.Call); isA {
					if b, isB := ap.Call.Value.(*ssa.Builtin); isB && b.Name() == "append" && len(ap.Call.Args) > 0 {
						if lk, isL := ap.Call.Args[0].(*ssa.Lookup); isL && lk.X == mu.Map && lk.Index == mu.Key {
							acc = true
						}
					}
				}
				c.check(acc, fnName(g), "values of header names that fold to the same canonical name accumulate", p.InstrPos(mu), "h[canonical] = append(h[canonical], v...)", "a value is stored under the canonical name without keeping what is already there: of two spellings of one header (Set-Cookie / set-cookie) only one survives, and which one depends on map iteration order")
			}
		}
		if n == 0 {
			c.inst(1)
			c.viol(fnName(cf), "values of header names that fold to the same canonical name accumulate", p.Pos(cf.Pos()), "no store under a canonicalised header name found")
		}
	}
	for _, fn := range p.Repo {
		if fn.Pkg == nil || fn.Pkg.Pkg.Name() != "codec" || fn.Parent() != nil {
			continue
		}
		res := fn.Signature.Results()
		mi := -1
		for i := 0; i < res.Len(); i++ {
			if pt, ok := res.At(i).Type().(*types.Pointer); ok {
				if pt.Elem() == metaT.Obj().Type() {
					mi = i
				}
			}
		}
		if mi < 0 || fn.Name() == "Merge" {
			continue
		}
		c.inst(1)
		sp := &Spec{}
		sp.Classify = func(t *Tracer, fr *Frame, in ssa.Instruction) []Ev {
			if _, ok := isCallTo(in, canon); ok {
				return []Ev{{Kind: "canon", Stop: true}}
			}
			if r, ok := in.(*ssa.Return); ok && fr == t.RootFr {
				if isNilConst(t.Resolve(fr, r.Results[mi]).V) {
					return []Ev{{Kind: "return:nometa"}}
				}
				return []Ev{{Kind: "return:meta"}}
			}
			return nil
		}
		tr := runTrace(p, fn, sp)
		bad := ""
		for _, path := range tr.Paths {
			if hasKind(path, "return:meta") && !hasKind(path, "canon") {
				bad = "a meta object is returned without Canonicalize(): header keys in the service's own spelling bypass the protected-header filter: " + tr.FmtPath(path)
			}
		}
		c.check(bad == "", fnName(fn), "every returned meta passed Canonicalize", p.Pos(fn.Pos()), fmt.Sprintf("%d paths", len(tr.Paths)), bad)
	}
}

// globalMapKeys: v is a load of a package-level map variable that the
// package's init fills from a composite literal with constant string keys;
// returns those keys (nil if v is not of that form).
func globalMapKeys(v ssa.Value) map[string]bool {
	u, ok := v.(*ssa.UnOp)
	if !ok || u.Op != token.MUL {
		return nil
	}
	g, ok := u.X.(*ssa.Global)
	if !ok || g.Pkg == nil {
		return nil
	}
	init := g.Pkg.Func("init")
	if init == nil {
		return nil
	}
	var mk ssa.Value
	for _, in := range instrsOf(init) {
		if st, ok := in.(*ssa.Store); ok && st.Addr == ssa.Value(g) {
			mk = st.Val
			if ct, isCT := mk.(*ssa.ChangeType); isCT {
				mk = ct.X
			}
		}
	}
	if mk == nil {
		return nil
	}
	keys := map[string]bool{}
	for _, in := range instrsOf(init) {
		if mu, ok := in.(*ssa.MapUpdate); ok {
			m := mu.Map
			if ct, isCT := m.(*ssa.ChangeType); isCT {
				m = ct.X
			}
			if m != mk && mu.Map != mk {
				continue
			}
			s, isS := constString(mu.Key)
			if !isS {
				return nil
			}
			keys[s] = true
		}
	}
	if len(keys) == 0 {
		return nil
	}
	return keys
}

// TABLE/method-rewrite (C17): methodNotFound has the fixed status 404. The
// handler replaces an error by methodNotAllowed (405) in two places only: for
// an HTTP method that has no mapping at all, and for a mapped method (PUT,
// DELETE, PATCH) whose call method the service does not know. Neither may be
// reachable for GET, HEAD or POST: every path to a use of ErrMethodNotAllowed
// in code that can see the request's method has established that the method is
// none of these three.
func ruleMethodRewrite(c *Ctx) {
	p := c.P
	fixed := map[string]bool{"GET": true, "HEAD": true, "POST": true}
	isMethodField := func(f *types.Var) bool {
		return f != nil && f.Name() == "Method" && f.Pkg() != nil && f.Pkg().Path() == "net/http"
	}
	isUse := func(in ssa.Instruction) bool {
		u, ok := in.(*ssa.UnOp)
		if !ok || u.Op != token.MUL {
			return false
		}
		g, ok := u.X.(*ssa.Global)
		return ok && g.Name() == "ErrMethodNotAllowed" && g.Pkg != nil && g.Pkg.Pkg.Name() == "reserr"
	}
	seesMethod := func(fn *ssa.Function) bool {
		for _, g := range p.withHelpers(TopLevel(fn)) {
			for _, in := range instrsOf(g) {
				if v, ok := in.(ssa.Value); ok {
					if f, _ := fieldLoad(v); isMethodField(f) {
						return true
					}
				}
			}
		}
		return false
	}
	loadsMethod := func(g *ssa.Function) bool {
		for _, in := range instrsOf(g) {
			if v, ok := in.(ssa.Value); ok {
				if f, _ := fieldLoad(v); isMethodField(f) {
					return true
				}
			}
		}
		return false
	}
	httpMethods := map[string]bool{"GET": true, "HEAD": true, "POST": true, "PUT": true, "DELETE": true, "PATCH": true, "OPTIONS": true}
	// testsMethodParam: the function compares one of its string parameters with an HTTP method name
	testsMethodParam := func(g *ssa.Function) bool {
		for _, in := range instrsOf(g) {
			b, ok := in.(*ssa.BinOp)
			if !ok || (b.Op != token.EQL && b.Op != token.NEQ) {
				continue
			}
			x, y := b.X, b.Y
			if _, isS := constString(x); isS {
				x, y = y, x
			}
			if s, isS := constString(y); isS && httpMethods[s] {
				if _, isP := x.(*ssa.Parameter); isP {
					return true
				}
			}
		}
		return false
	}
	type job struct{ root, useFn *ssa.Function }
	var jobs []job
	for _, fn := range p.Repo {
		if fn.Pkg == nil && fn.Parent() == nil {
			continue
		}
		has := false
		for _, in := range instrsOf(fn) {
			if isUse(in) {
				has = true
			}
		}
		if !has {
			continue
		}
		if seesMethod(fn) {
			jobs = append(jobs, job{fn, fn})
			continue
		}
		if !testsMethodParam(fn) {
			continue // a table from status codes to errors, not a decision on the request method
		}
		// the method is handed in as a parameter: decided from the callers that read it off the request
		seen := map[*ssa.Function]bool{}
		var up func(g *ssa.Function, d int)
		up = func(g *ssa.Function, d int) {
			if seen[g] || d > 3 {
				return
			}
			seen[g] = true
			if g != fn && loadsMethod(g) {
				jobs = append(jobs, job{g, fn})
				return
			}
			if nd := p.CG.Nodes[g]; nd != nil {
				for _, e := range nd.In {
					if e.Caller.Func != nil && e.Site != nil && p.isRepoFn(e.Caller.Func) && e.Site.Common().StaticCallee() == g {
						up(e.Caller.Func, d+1)
					}
				}
			}
		}
		up(fn, 0)
	}
	n := 0
	for _, jb := range jobs {
		fn, useFn := jb.root, jb.useFn
		n++
		c.inst(1)
		sp := &Spec{InlineHelpers: true}
		sp.Classify = func(t *Tracer, fr *Frame, in ssa.Instruction) []Ev {
			if (fr == t.RootFr || fr.Fn == useFn) && isUse(in) {
				return []Ev{{Kind: "use"}}
			}
			return nil
		}
		sp.Branch = func(t *Tracer, fr *Frame, i *ssa.If, dir bool) []Ev {
			b, ok := i.Cond.(*ssa.BinOp)
			if !ok || (b.Op != token.EQL && b.Op != token.NEQ) {
				return nil
			}
			x, y := b.X, b.Y
			if _, isS := constString(x); isS {
				x, y = y, x
			}
			s, isS := constString(y)
			if !isS {
				return nil
			}
			f, _ := fieldLoad(t.Resolve(fr, x).V)
			if !isMethodField(f) {
				return nil
			}
			if (b.Op == token.EQL) == dir {
				return []Ev{{Kind: "m=" + s}}
			}
			return []Ev{{Kind: "m!=" + s}}
		}
		tr := runTrace(p, fn, sp)
		bad := ""
		uses := 0
		for _, path := range tr.Paths {
			ui := indexKind(path, "use")
			if ui < 0 {
				continue
			}
			uses++
			okPath := false
			neg := 0
			for _, e := range path[:ui] {
				if strings.HasPrefix(e.Kind, "m=") && !fixed[e.Kind[2:]] {
					okPath = true
				}
				if strings.HasPrefix(e.Kind, "m!=") && fixed[e.Kind[3:]] {
					neg++
				}
			}
			if hasKind(path[:ui], "m!=GET") && hasKind(path[:ui], "m!=HEAD") && hasKind(path[:ui], "m!=POST") {
				okPath = true
			}
			if !okPath {
				bad = "an error is replaced by methodNotAllowed (405) on a path that has not excluded GET, HEAD and POST: a methodNotFound answer to such a request loses its fixed status 404: " + tr.FmtPath(path)
			}
		}
		if tr.Trunc {
			bad = "path budget exhausted"
		}
		c.check(bad == "", fnName(fn), "methodNotAllowed replaces an error only for a request method other than GET, HEAD and POST", p.Pos(fn.Pos()), fmt.Sprintf("%d paths, %d reach a use", len(tr.Paths), uses), bad)
	}
	if n == 0 {
		c.viol("reserr.ErrMethodNotAllowed", "methodNotAllowed replaces an error only for a request method other than GET, HEAD and POST", "-", "no use in code that sees the request method found")
	}
}
