package main

import (
	"fmt"
	"go/token"
	"go/types"
	"strings"

	"golang.org/x/tools/go/ssa"
)

// PAIR/emit (C16, structural part of "well-formed JSON"): the hand-written
// encoders emit, on every successful path, a byte sequence whose JSON
// skeleton is exactly one well-formed value. Literal bytes written to the
// buffer are tokenised; everything else written (marshalled strings, raw
// service values, nested encoder calls) stands for one complete value V.
// The rule decides the skeleton (brackets, separators, member shape) for
// collections and models of 0, 1 and 2 elements; it does not decide that the
// raw values themselves are JSON (they come from the decoder, C15/C12) nor
// that the content equals the cached graph.
func ruleEmit(c *Ctx) {
	p := c.P
	contains := p.PkgFunc("server.containsString")
	for _, enc := range []string{"encoderJSON", "encoderJSONFlat"} {
		fBuf := p.Field("server." + enc + ".b")
		if fBuf == nil {
			c.undecided("server."+enc+".b", "anchor", "-", "field not found")
			continue
		}
		resType := p.Method("server.Subscription.ResourceType")
		encSub := p.Method("server." + enc + ".encodeSubscription")
		encVal := p.Method("server." + enc + ".encodeValue")
		for _, m := range []string{"encodeSubscription", "encodeValue"} {
			fn := p.Fn("(*server." + enc + ")." + m)
			if fn == nil {
				c.undecided("(*server."+enc+")."+m, "anchor", "-", "not found")
				continue
			}
			c.inst(1)
			// the wrap parameter (if any): the un-wrapped call is the root of an expansion (empty path)
			var wrap *ssa.Parameter
			for _, prm := range fn.Params {
				if b, ok := prm.Type().Underlying().(*types.Basic); ok && b.Kind() == types.Bool {
					wrap = prm
				}
			}
			sp := &Spec{EdgeLimit: 2}
			sp.Classify = func(t *Tracer, fr *Frame, in ssa.Instruction) []Ev {
				call, ok := in.(ssa.CallInstruction)
				if !ok {
					if r, isR := in.(*ssa.Return); isR && fr == t.RootFr {
						if len(r.Results) > 0 && isNilConst(t.Resolve(fr, r.Results[len(r.Results)-1]).V) {
							return []Ev{{Kind: "ret:ok"}}
						}
						return []Ev{{Kind: "ret:err"}}
					}
					return nil
				}
				com := call.Common()
				if _, ok := isCallTo(in, encSub, encVal); ok {
					return []Ev{{Kind: "tok", Note: "V", Stop: true}}
				}
				cf := calleeFunc(com)
				if cf == nil || cf.Pkg() == nil || cf.Pkg().Path() != "bytes" {
					return nil
				}
				args := callArgs(com)
				if len(args) < 2 {
					return nil
				}
				// receiver must be the encoder's buffer, possibly handed to a writing helper as a parameter
				// (while probing a helper for interest: any buffer parameter)
				recv := t.Resolve(fr, args[0]).V
				if fa, ok := recv.(*ssa.FieldAddr); !ok || fieldOfAddr(fa) != fBuf {
					if _, isP := recv.(*ssa.Parameter); !isP || fr.ID != -1 {
						return nil
					}
				}
				switch cf.Name() {
				case "WriteByte":
					if k, isC := t.foldInt(fr, args[1]); isC {
						return []Ev{{Kind: "tok", Note: "L" + string(rune(k))}}
					}
					return []Ev{{Kind: "tok", Note: "?"}}
				case "Write", "WriteString":
					v := t.Resolve(fr, args[1]).V
					if cv, ok := v.(*ssa.Convert); ok {
						v = cv.X
					}
					if s, ok := constString(v); ok {
						return []Ev{{Kind: "tok", Note: "L" + s}}
					}
					if fr.ID == -1 || isJSONSource(p, t.Resolve(fr, args[1]).V, 0) {
						return []Ev{{Kind: "tok", Note: "V"}}
					}
					return []Ev{{Kind: "tok", Note: "?"}}
				}
				return []Ev{{Kind: "tok", Note: "?"}}
			}
			sp.Branch = func(t *Tracer, fr *Frame, i *ssa.If, dir bool) []Ev {
				if call, ok := i.Cond.(*ssa.Call); ok && calleeFunc(&call.Call) == contains && dir {
					return []Ev{{Kind: "cycle"}}
				}
				// the kind dispatch: a loaded subscription without error is a collection or a model
				if x, _, _, isC := cmpConst(i.Cond); isC && fr == t.RootFr {
					if call, ok := x.(*ssa.Call); ok && calleeFunc(&call.Call) == resType {
						if dir {
							return []Ev{{Kind: "kind"}}
						}
						return []Ev{{Kind: "notkind"}}
					}
				}
				if wrap != nil && fr == t.RootFr {
					v := i.Cond
					neg := false
					if u, ok := v.(*ssa.UnOp); ok && u.Op == token.NOT {
						v, neg = u.X, true
					}
					if v == ssa.Value(wrap) {
						if dir != neg {
							return []Ev{{Kind: "wrap"}}
						}
						return []Ev{{Kind: "nowrap"}}
					}
				}
				return nil
			}
			tr := runTrace(p, fn, sp)
			bad := ""
			nOK := 0
			for _, path := range tr.Paths {
				if !hasKind(path, "ret:ok") {
					continue // the output of a failed encoding is discarded by EncodeGET
				}
				if hasKind(path, "cycle") && hasKind(path, "nowrap") {
					continue // un-wrapped call = root of the expansion, whose path is empty (checked below)
				}
				if hasKind(path, "notkind") && !hasKind(path, "kind") {
					continue // neither collection nor model: not a state of a loaded subscription without error (C02 typestate)
				}
				var toks []string
				unknown := false
				for _, e := range path {
					if e.Kind != "tok" {
						continue
					}
					switch {
					case e.Note == "V":
						toks = append(toks, "V")
					case e.Note == "?":
						unknown = true
					default:
						ts, ok := jsonTokens(e.Note[1:])
						if !ok {
							unknown = true
						}
						toks = append(toks, ts...)
					}
				}
				nOK++
				if unknown {
					bad = "a write to the output buffer whose content is neither a literal nor known to be JSON (the result of json.Marshal, a json.RawMessage from the decoder, an encoded error): keys or values needing escaping would make the body malformed: " + tr.FmtPath(path)
					continue
				}
				if err := parseOneValue(toks); err != "" {
					bad = fmt.Sprintf("a successful path emits %q, which is not one well-formed JSON value (%s): %s", strings.Join(toks, " "), err, tr.FmtPath(path))
				}
			}
			if tr.Trunc {
				bad = "path budget exhausted"
			}
			if nOK == 0 && bad == "" {
				bad = "no successful path"
			}
			c.check(bad == "", fnName(fn), "every successful path emits exactly one well-formed JSON value skeleton", p.Pos(fn.Pos()), fmt.Sprintf("%d successful paths (collections and models of 0, 1 and 2 elements)", nOK), bad)
		}
		// the un-wrapped call comes only from the entry point, on a fresh encoder
		if fn := p.Fn("(*server." + enc + ").encodeSubscription"); fn != nil {
			hasWrap := false
			for _, prm := range fn.Params {
				if b, ok := prm.Type().Underlying().(*types.Basic); ok && b.Kind() == types.Bool {
					hasWrap = true
				}
			}
			if hasWrap {
				c.inst(1)
				bad := ""
				if n := p.CG.Nodes[fn]; n != nil {
					for _, e := range n.In {
						if e.Site == nil || e.Site.Common().StaticCallee() != fn {
							continue
						}
						args := e.Site.Common().Args
						w, isC := constBool(args[len(args)-1])
						if isC && w {
							continue
						}
						// un-wrapped (or unknown): receiver must be a fresh encoder of the calling function
						if _, fresh := args[0].(*ssa.Alloc); !fresh {
							bad = "un-wrapped encodeSubscription called on an encoder that is not freshly made @" + p.InstrPos(e.Site)
						}
					}
				}
				c.check(bad == "", fnName(fn), "the un-wrapped expansion starts on a fresh encoder (empty path)", p.Pos(fn.Pos()), "all wrap=false call sites use a local encoder value", bad)
			}
		}
	}
}

// jsonTokens splits a literal fragment of JSON into structural tokens;
// string literals become "S".
func jsonTokens(s string) ([]string, bool) {
	var out []string
	for i := 0; i < len(s); i++ {
		ch := s[i]
		switch ch {
		case '{', '}', '[', ']', ',', ':':
			out = append(out, string(ch))
		case '"':
			j := i + 1
			for j < len(s) && s[j] != '"' {
				if s[j] == '\\' {
					j++
				}
				j++
			}
			if j >= len(s) {
				return out, false
			}
			out = append(out, "S")
			i = j
		case ' ', '\n', '\t':
		default:
			// a bare literal (null, true, number): one value
			j := i
			for j < len(s) && strings.IndexByte("{}[],:\" \n\t", s[j]) < 0 {
				j++
			}
			out = append(out, "V")
			i = j - 1
		}
	}
	return out, true
}

// parseOneValue checks that toks is exactly one JSON value skeleton.
// V is a complete value (also accepted as an object key: marshalled string).
func parseOneValue(toks []string) string {
	pos := 0
	var value func() string
	value = func() string {
		if pos >= len(toks) {
			return "value expected at end of output"
		}
		switch toks[pos] {
		case "V", "S":
			pos++
			return ""
		case "[":
			pos++
			if pos < len(toks) && toks[pos] == "]" {
				pos++
				return ""
			}
			for {
				if e := value(); e != "" {
					return e
				}
				if pos >= len(toks) {
					return "unterminated array"
				}
				if toks[pos] == "," {
					pos++
					continue
				}
				if toks[pos] == "]" {
					pos++
					return ""
				}
				return fmt.Sprintf("',' or ']' expected at token %d (%s)", pos, toks[pos])
			}
		case "{":
			pos++
			if pos < len(toks) && toks[pos] == "}" {
				pos++
				return ""
			}
			for {
				if pos >= len(toks) || (toks[pos] != "S" && toks[pos] != "V") {
					return fmt.Sprintf("member key expected at token %d", pos)
				}
				pos++
				if pos >= len(toks) || toks[pos] != ":" {
					return fmt.Sprintf("':' expected at token %d", pos)
				}
				pos++
				if e := value(); e != "" {
					return e
				}
				if pos >= len(toks) {
					return "unterminated object"
				}
				if toks[pos] == "," {
					pos++
					continue
				}
				if toks[pos] == "}" {
					pos++
					return ""
				}
				return fmt.Sprintf("',' or '}' expected at token %d (%s)", pos, toks[pos])
			}
		}
		return fmt.Sprintf("unexpected token %d (%s)", pos, toks[pos])
	}
	if e := value(); e != "" {
		return e
	}
	if pos != len(toks) {
		return fmt.Sprintf("trailing output after the value at token %d (%s)", pos, toks[pos])
	}
	return ""
}

// isJSONSource: the value is JSON text by construction — the result of
// encoding/json.Marshal, a json.RawMessage (decoded service data, kept
// verbatim), or the result of a repository function all of whose results are.
func isJSONSource(p *Prog, v ssa.Value, depth int) bool {
	if v == nil || depth > 3 {
		return false
	}
	if strings.HasSuffix(v.Type().String(), "encoding/json.RawMessage") {
		return true
	}
	switch x := v.(type) {
	case *ssa.Convert:
		return isJSONSource(p, x.X, depth+1)
	case *ssa.ChangeType:
		return isJSONSource(p, x.X, depth+1)
	case *ssa.Extract:
		if call, ok := x.Tuple.(*ssa.Call); ok && x.Index == 0 {
			if cf := calleeFunc(&call.Call); cf != nil && cf.Pkg() != nil && cf.Pkg().Path() == "encoding/json" && (cf.Name() == "Marshal" || cf.Name() == "MarshalIndent") {
				return true
			}
		}
	case *ssa.Phi:
		if len(x.Edges) == 0 {
			return false
		}
		for _, e := range x.Edges {
			if !isJSONSource(p, e, depth+1) {
				return false
			}
		}
		return len(x.Edges) > 0
	case *ssa.Call:
		if cf := calleeFunc(&x.Call); cf != nil && cf.Pkg() != nil && cf.Pkg().Path() == "strconv" {
			switch cf.Name() {
			case "Itoa", "FormatInt", "FormatUint", "FormatBool", "AppendInt", "AppendUint", "AppendBool":
				return true // integer and boolean literals are JSON
			}
		}
		sf := x.Call.StaticCallee()
		if sf == nil || !p.isRepoFn(sf) || len(sf.Blocks) == 0 {
			return false
		}
		n := 0
		for _, in := range instrsOf(sf) {
			if r, ok := in.(*ssa.Return); ok && len(r.Results) >= 1 {
				n++
				if c2, isC := r.Results[0].(*ssa.Call); isC && c2.Call.StaticCallee() == sf {
					continue // recursion on the error of marshalling an error
				}
				if !isJSONSource(p, r.Results[0], depth+1) {
					return false
				}
			}
		}
		return n > 0
	}
	return false
}
