package main

import (
	"fmt"
	"go/token"
	"go/types"
	"sort"
	"strings"

	"golang.org/x/tools/go/ssa"
)

// ---------------------------------------------------------------------------
// TABLE/path-split (C14): an HTTP path is cut into tokens at '/' BEFORE the
// tokens are percent-decoded. Text that came out of url.PathUnescape is never
// split, searched or rewritten at '/': a decoded %2F belongs to its token.

func rulePathSplit(c *Ctx) {
	p := c.P
	slashOps := map[string]bool{"strings.Split": true, "strings.SplitN": true, "strings.SplitAfter": true, "strings.Replace": true, "strings.ReplaceAll": true,
		"strings.Index": true, "strings.IndexByte": true, "strings.IndexRune": true, "strings.LastIndex": true, "strings.LastIndexByte": true,
		"strings.Cut": true, "strings.Fields": true, "strings.FieldsFunc": true, "strings.TrimSuffix": true, "strings.TrimPrefix": true}
	isSlash := func(v ssa.Value) bool {
		if s, ok := constString(v); ok {
			return s == "/"
		}
		if k, ok := constInt(v); ok {
			return k == '/'
		}
		return false
	}
	isUnescape := func(v ssa.Value) bool {
		cl, ok := v.(*ssa.Call)
		if !ok {
			return false
		}
		nm := calleeName(&cl.Call)
		return nm == "net/url.PathUnescape" || nm == "net/url.QueryUnescape"
	}
	for _, nm := range []string{"server.PathToRID", "server.PathToRIDAction"} {
		fn := p.Fn(nm)
		if fn == nil {
			c.undecided(nm, "anchor", "-", "not found")
			continue
		}
		nUn := 0
		for _, g := range append([]*ssa.Function{fn}, staticCallees(p, fn)...) {
			for _, in := range instrsOf(g) {
				if v, ok := in.(ssa.Value); ok && isUnescape(v) {
					nUn++
				}
				cl, ok := in.(*ssa.Call)
				if !ok || !slashOps[calleeName(&cl.Call)] {
					continue
				}
				hasSlash := false
				for _, a := range cl.Call.Args[1:] {
					if isSlash(a) {
						hasSlash = true
					}
				}
				if !hasSlash {
					continue
				}
				c.inst(1)
				dep := dependsOn(cl.Call.Args[0], isUnescape, map[ssa.Value]bool{}, 0)
				c.check(!dep, nm, "the path is cut at '/' before percent-decoding, never after", p.InstrPos(cl), calleeName(&cl.Call)+" works on undecoded text",
					"text that was already percent-decoded is cut or rewritten at '/' ("+calleeName(&cl.Call)+"): a %2F inside a path segment becomes a token separator and the subject no longer names the client's resource")
			}
		}
		c.inst(1)
		c.check(nUn > 0, nm, "path segments are percent-decoded", p.Pos(fn.Pos()), fmt.Sprintf("%d decode call(s)", nUn), "no percent-decoding found")
	}
}

// dependsOn: v is computed from a value satisfying pred (through phis, slices,
// concatenation, calls, and elements stored into the slice it is read from).
func dependsOn(v ssa.Value, pred func(ssa.Value) bool, seen map[ssa.Value]bool, depth int) bool {
	if v == nil || seen[v] || depth > 40 {
		return false
	}
	seen[v] = true
	if pred(v) {
		return true
	}
	rec := func(x ssa.Value) bool { return dependsOn(x, pred, seen, depth+1) }
	switch x := v.(type) {
	case *ssa.Phi:
		for _, e := range x.Edges {
			if rec(e) {
				return true
			}
		}
	case *ssa.Slice:
		return rec(x.X)
	case *ssa.BinOp:
		return rec(x.X) || rec(x.Y)
	case *ssa.Extract:
		return rec(x.Tuple)
	case *ssa.Convert:
		return rec(x.X)
	case *ssa.ChangeType:
		return rec(x.X)
	case *ssa.MakeInterface:
		return rec(x.X)
	case *ssa.Call:
		for _, a := range x.Call.Args {
			if rec(a) {
				return true
			}
		}
	case *ssa.UnOp:
		if x.Op != token.MUL {
			return rec(x.X)
		}
		switch a := x.X.(type) {
		case *ssa.IndexAddr:
			if rec(a.X) {
				return true
			}
			return storedElems(a.X, rec)
		case *ssa.Alloc:
			for _, r := range *a.Referrers() {
				if st, ok := r.(*ssa.Store); ok && st.Addr == ssa.Value(a) && rec(st.Val) {
					return true
				}
			}
		}
	case *ssa.Alloc:
		return storedElems(x, rec)
	case *ssa.Lookup:
		return rec(x.X)
	}
	// a slice value: what was stored into its elements
	if _, isSl := v.Type().Underlying().(*types.Slice); isSl {
		return storedElems(v, rec)
	}
	return false
}

func storedElems(base ssa.Value, rec func(ssa.Value) bool) bool {
	refs := base.Referrers()
	if refs == nil {
		return false
	}
	for _, r := range *refs {
		if ia, ok := r.(*ssa.IndexAddr); ok {
			for _, r2 := range *ia.Referrers() {
				if st, ok := r2.(*ssa.Store); ok && st.Addr == ssa.Value(ia) && rec(st.Val) {
					return true
				}
			}
		}
	}
	return false
}

// ---------------------------------------------------------------------------
// DOM/meta-merge (C17): merging the meta of a later service answer into an
// earlier one hands its status over on every path on which both exist — a
// later 300–599 status must end the request whatever the earlier meta held.

func ruleMetaMerge(c *Ctx) {
	p := c.P
	fn := p.Fn("(*codec.Meta).Merge")
	fStatus := p.Field("codec.Meta.Status")
	if fn == nil || fStatus == nil || len(fn.Params) < 2 {
		c.undecided("(*codec.Meta).Merge", "anchor", "-", "not found")
		return
	}
	c.inst(1)
	m, o := fn.Params[0], fn.Params[1]
	sp := &Spec{InlineHelpers: true}
	sp.Classify = func(t *Tracer, fr *Frame, in ssa.Instruction) []Ev {
		if st, ok := isStoreToT(t, fr, in, fStatus); ok {
			if f, base := fieldLoad(t.Resolve(fr, st.Val).V); f == fStatus && base != nil && t.Resolve(fr, base).V == ssa.Value(o) {
				return []Ev{{Kind: "status=o"}}
			}
			return []Ev{{Kind: "status=?"}}
		}
		if r, ok := in.(*ssa.Return); ok && fr == t.RootFr && len(r.Results) == 1 {
			switch t.Resolve(fr, r.Results[0]).V {
			case ssa.Value(m):
				return []Ev{{Kind: "return m"}}
			case ssa.Value(o):
				return []Ev{{Kind: "return o"}}
			}
			return []Ev{{Kind: "return ?"}}
		}
		return nil
	}
	sp.Branch = func(t *Tracer, fr *Frame, i *ssa.If, dir bool) []Ev {
		x, nn, ok := nilTest(i, dir)
		if !ok {
			return nil
		}
		r := t.Resolve(fr, x).V
		name := ""
		switch {
		case r == ssa.Value(m):
			name = "m"
		case r == ssa.Value(o):
			name = "o"
		default:
			if f, base := fieldLoad(r); f == fStatus && base != nil && t.Resolve(fr, base).V == ssa.Value(o) {
				name = "o.status"
			}
		}
		if name == "" {
			return nil
		}
		if nn {
			return []Ev{{Kind: name + "!=nil"}}
		}
		return []Ev{{Kind: name + "=nil"}}
	}
	tr := runTrace(p, fn, sp)
	bad := ""
	both := 0
	for _, path := range tr.Paths {
		if !hasKind(path, "return m") || hasKind(path, "o=nil") {
			continue
		}
		both++
		switch {
		case hasKind(path, "o.status!=nil") && !hasKind(path, "status=o"):
			bad = "the later meta has a status and the merged meta does not take it: " + tr.FmtPath(path)
		case !hasKind(path, "o.status!=nil") && !hasKind(path, "o.status=nil") && !hasKind(path, "status=o"):
			bad = "a path merges two metas without looking at the later one's status: a later 300–599 status is dropped and the request goes on (or answers with the wrong code): " + tr.FmtPath(path)
		}
	}
	if both == 0 {
		bad = "no path merging two metas found"
	}
	if tr.Trunc {
		bad = "path budget exhausted"
	}
	c.check(bad == "", fnName(fn), "the merged meta takes the later meta's status on every path", p.Pos(fn.Pos()), fmt.Sprintf("%d paths, %d merge two metas", len(tr.Paths), both), bad)
}

// ---------------------------------------------------------------------------
// DOM/query-request-error (C13): a query request that failed (no answer:
// timeout, no responders, subject too long) changes nothing — in particular it
// is not read as the service's answer system.notFound (mq.ErrNoResponders IS
// reserr.ErrNotFound). Every path of the completion that applies something to
// the query resource has established that the request error is nil.

func ruleQueryRequestError(c *Ctx) {
	p := c.P
	fn := p.Fn("(*rescache.EventSubscription).handleQueryEvent")
	send := p.Method("mq.Client.SendRequest")
	if fn == nil || send == nil {
		c.undecided("(*rescache.EventSubscription).handleQueryEvent", "anchor", "-", "not found")
		return
	}
	apply := []*types.Func{p.Method("rescache.ResourceSubscription.handleEvent"), p.Method("rescache.ResourceSubscription.processResetModel"), p.Method("rescache.ResourceSubscription.processResetCollection")}
	n := 0
	for _, g := range p.withHelpers(fn) {
		for _, call := range callsIn(g) {
			if _, ok := isCallTo(call, send); !ok {
				continue
			}
			args := callArgs(call.Common())
			var root *ssa.Function
			switch x := stripConv(args[len(args)-1]).(type) {
			case *ssa.MakeClosure:
				root = x.Fn.(*ssa.Function)
			case *ssa.Function:
				root = x
			}
			if root == nil {
				continue
			}
			var errPrm *ssa.Parameter
			for _, prm := range root.Params {
				if isErrorType(prm.Type()) {
					errPrm = prm
				}
			}
			if errPrm == nil {
				continue
			}
			n++
			c.inst(1)
			sp := &Spec{InlineHelpers: true}
			sp.Classify = func(t *Tracer, fr *Frame, in ssa.Instruction) []Ev {
				if _, ok := isCallTo(in, apply...); ok {
					return []Ev{{Kind: "apply", Stop: true}}
				}
				return nil
			}
			sp.Branch = func(t *Tracer, fr *Frame, i *ssa.If, dir bool) []Ev {
				x, nn, ok := nilTest(i, dir)
				if !ok {
					return nil
				}
				if r := t.Resolve(fr, x); r.V == ssa.Value(errPrm) {
					if nn {
						return []Ev{{Kind: "request-error!=nil"}}
					}
					return []Ev{{Kind: "request-error=nil"}}
				}
				return nil
			}
			tr := runTrace(p, root, sp)
			bad := ""
			nApply := 0
			for _, path := range tr.Paths {
				ai := indexKind(path, "apply")
				if ai < 0 {
					continue
				}
				nApply++
				if !hasKind(path[:ai], "request-error=nil") {
					bad = "the completion of a query request applies something to the query resource on a path that has not established that the request itself succeeded: a request without answer (no responders = system.notFound, timeout) deletes or changes the resource for every subscriber: " + tr.FmtPath(path)
				}
			}
			if nApply == 0 {
				bad = "no path applying the answer found"
			}
			if tr.Trunc {
				bad = "path budget exhausted"
			}
			c.check(bad == "", fnName(root), "a failed query request changes nothing", p.InstrPos(call), fmt.Sprintf("%d paths, %d apply the answer, all under request error == nil", len(tr.Paths), nApply), bad)
		}
	}
	if n == 0 {
		c.viol(fnName(fn), "a failed query request changes nothing", p.Pos(fn.Pos()), "no query request completion found")
	}
}

// ---------------------------------------------------------------------------
// TABLE/lcs-exhaustive (C03, C12): the back-tracking of the edit script walks
// the LCS table by comparing two neighbouring cells. Where two different
// branches compare the same pair of cells, their comparisons together must
// cover <, = and >: a tie that no branch takes ends the walk early and the
// derived add/remove sequence is cut short (clients keep a stale collection).

func ruleLCSExhaustive(c *Ctx) {
	p := c.P
	fn := p.Fn("rescache.lcs")
	if fn == nil {
		c.undecided("rescache.lcs", "anchor", "-", "not found")
		return
	}
	var key func(v ssa.Value, d int) string
	key = func(v ssa.Value, d int) string {
		if d > 8 {
			return v.Name()
		}
		switch x := v.(type) {
		case *ssa.BinOp:
			a, b := key(x.X, d+1), key(x.Y, d+1)
			if (x.Op == token.ADD || x.Op == token.MUL) && b < a {
				a, b = b, a
			}
			return "(" + a + x.Op.String() + b + ")"
		case *ssa.UnOp:
			return x.Op.String() + key(x.X, d+1)
		case *ssa.IndexAddr:
			return key(x.X, d+1) + "[" + key(x.Index, d+1) + "]"
		case *ssa.Const:
			return x.String()
		}
		return v.Name()
	}
	truth := map[token.Token]string{token.LSS: "<", token.LEQ: "<=", token.GTR: ">", token.GEQ: ">=", token.EQL: "=", token.NEQ: "<>"}
	flip := map[token.Token]token.Token{token.LSS: token.GTR, token.GTR: token.LSS, token.LEQ: token.GEQ, token.GEQ: token.LEQ, token.EQL: token.EQL, token.NEQ: token.NEQ}
	type cmp struct {
		op  token.Token
		pos string
	}
	pairs := map[string][]cmp{}
	for _, in := range instrsOf(fn) {
		// (a case condition `a && (b || x >= y)` is built as a value: the comparison need not be an If's own condition)
		b, ok := in.(*ssa.BinOp)
		if !ok {
			continue
		}
		i := in
		if _, ok := truth[b.Op]; !ok {
			continue
		}
		// both operands are table cells (loads of slice elements)
		isCell := func(v ssa.Value) bool {
			u, ok := v.(*ssa.UnOp)
			if !ok || u.Op != token.MUL {
				return false
			}
			_, ok = u.X.(*ssa.IndexAddr)
			return ok
		}
		if !isCell(b.X) || !isCell(b.Y) {
			continue
		}
		kx, ky, op := key(b.X, 0), key(b.Y, 0), b.Op
		if ky < kx {
			kx, ky, op = ky, kx, flip[op]
		}
		pairs[kx+" ? "+ky] = append(pairs[kx+" ? "+ky], cmp{op, p.InstrPos(i)})
	}
	var keys []string
	for k := range pairs {
		keys = append(keys, k)
	}
	sort.Strings(keys)
	n := 0
	for _, k := range keys {
		cs := pairs[k]
		if len(cs) < 2 {
			continue // an if/else on one comparison is exhaustive by itself
		}
		n++
		c.inst(1)
		cover := ""
		var ops []string
		for _, x := range cs {
			ops = append(ops, truth[x.op]+"@"+x.pos)
			switch x.op {
			case token.LSS:
				cover += "<"
			case token.LEQ:
				cover += "<="
			case token.GTR:
				cover += ">"
			case token.GEQ:
				cover += ">="
			case token.EQL:
				cover += "="
			case token.NEQ:
				cover += "<>"
			}
		}
		full := strings.Contains(cover, "<") && strings.Contains(cover, ">") && strings.Contains(cover, "=")
		c.check(full, fnName(fn), "branches comparing the same two table cells cover every ordering", cs[0].pos, strings.Join(ops, ", "),
			"two branches compare the same pair of LCS-table cells ("+strings.Join(ops, ", ")+") and leave one ordering to neither: on that ordering the back-tracking stops early and the derived add/remove events are cut short")
	}
	if n == 0 {
		c.note("rescache.lcs: no pair of branches comparing the same table cells (the algorithm has another shape): nothing to decide")
	}
}

// ---------------------------------------------------------------------------
// TABLE/remove-run (C12, C03): events are applied one after the other, and a
// remove shifts everything behind it. A loop that emits a remove per iteration
// with the loop's own ascending counter as the index (`for ; s < m; s++ {
// remove(Idx: s) }`) removes every other element of the run it means to
// remove. The index of removes emitted by one loop stays or descends.

func ruleRemoveRun(c *Ctx) {
	p := c.P
	fIdx := p.Field("codec.RemoveEvent.Idx")
	if fIdx == nil {
		c.undecided("codec.RemoveEvent.Idx", "anchor", "-", "not found")
		return
	}
	n := 0
	for _, st := range p.stores[fIdx] {
		fn := st.Parent()
		if TopLevel(fn).Pkg == nil || TopLevel(fn).Pkg.Pkg.Name() != "rescache" {
			continue
		}
		n++
		c.inst(1)
		bad := ""
		if ph, ok := st.Val.(*ssa.Phi); ok && loopBody(ph.Block())[st.Block()] {
			for _, e := range ph.Edges {
				if b, isB := e.(*ssa.BinOp); isB && b.Op == token.ADD && (b.X == ssa.Value(ph) || b.Y == ssa.Value(ph)) {
					k, isC := constInt(b.Y)
					if !isC {
						k, isC = constInt(b.X)
					}
					if isC && k > 0 {
						bad = "the index of the removes emitted by this loop is the loop's own ascending counter: each remove shifts the rest, so a run of elements is only half removed (clients end up with a different collection than the service's)"
					}
				}
			}
		}
		c.check(bad == "", fnName(fn), "removes emitted by one loop do not use an ascending index", p.InstrPos(st), "index stays or descends", bad)
	}
	if n == 0 {
		c.note("no remove event is built in the cache package")
	}
}
