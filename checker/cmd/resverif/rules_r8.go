package main

import (
	"fmt"
	"go/token"
	"go/types"
	"sort"
	"strings"

	"golang.org/x/tools/go/ssa"
)

// ---------------------------------------------------------------------------
// TABLE/path-split (C14): an HTTP path is cut into tokens at '/' BEFORE the
// tokens are percent-decoded. Text that came out of url.PathUnescape is never
// split, searched or rewritten at '/': a decoded %2F belongs to its token.

func rulePathSplit(c *Ctx) {
	p := c.P
	slashOps := map[string]bool{"strings.Split": true, "strings.SplitN": true, "strings.SplitAfter": true, "strings.Replace": true, "strings.ReplaceAll": true,
		"strings.Index": true, "strings.IndexByte": true, "strings.IndexRune": true, "strings.LastIndex": true, "strings.LastIndexByte": true,
		"strings.Cut": true, "strings.Fields": true, "strings.FieldsFunc": true, "strings.TrimSuffix": true, "strings.TrimPrefix": true}
	isSlash := func(v ssa.Value) bool {
		if s, ok := constString(v); ok {
			return s == "/"
		}
		if k, ok := constInt(v); ok {
			return k == '/'
		}
		return false
	}
	isUnescape := func(v ssa.Value) bool {
		cl, ok := v.(*ssa.Call)
		if !ok {
			return false
		}
		nm := calleeName(&cl.Call)
		return nm == "net/url.PathUnescape" || nm == "net/url.QueryUnescape"
	}
	for _, nm := range []string{"server.PathToRID", "server.PathToRIDAction"} {
		fn := p.Fn(nm)
		if fn == nil {
			c.undecided(nm, "anchor", "-", "not found")
			continue
		}
		nUn := 0
		for _, g := range append([]*ssa.Function{fn}, staticCallees(p, fn)...) {
			for _, in := range instrsOf(g) {
				if v, ok := in.(ssa.Value); ok && isUnescape(v) {
					nUn++
				}
				cl, ok := in.(*ssa.Call)
				if !ok || !slashOps[calleeName(&cl.Call)] {
					continue
				}
				hasSlash := false
				for _, a := range cl.Call.Args[1:] {
					if isSlash(a) {
						hasSlash = true
					}
				}
				if !hasSlash {
					continue
				}
				c.inst(1)
				dep := dependsOn(cl.Call.Args[0], isUnescape, map[ssa.Value]bool{}, 0)
				c.check(!dep, nm, "the path is cut at '/' before percent-decoding, never after", p.InstrPos(cl), calleeName(&cl.Call)+" works on undecoded text",
					"text that was already percent-decoded is cut or rewritten at '/' ("+calleeName(&cl.Call)+"): a %2F inside a path segment becomes a token separator and the subject no longer names the client's resource")
			}
		}
		c.inst(1)
		c.check(nUn > 0, nm, "path segments are percent-decoded", p.Pos(fn.Pos()), fmt.Sprintf("%d decode call(s)", nUn), "no percent-decoding found")
	}
}

// dependsOn: v is computed from a value satisfying pred (through phis, slices,
// concatenation, calls, and elements stored into the slice it is read from).
func dependsOn(v ssa.Value, pred func(ssa.Value) bool, seen map[ssa.Value]bool, depth int) bool {
	if v == nil || seen[v] || depth > 40 {
		return false
	}
	seen[v] = true
	if pred(v) {
		return true
	}
	rec := func(x ssa.Value) bool { return dependsOn(x, pred, seen, depth+1) }
	switch x := v.(type) {
	case *ssa.Phi:
		for _, e := range x.Edges {
			if rec(e) {
				return true
			}
		}
	case *ssa.Slice:
		return rec(x.X)
	case *ssa.BinOp:
		return rec(x.X) || rec(x.Y)
	case *ssa.Extract:
		return rec(x.Tuple)
	case *ssa.Convert:
		return rec(x.X)
	case *ssa.ChangeType:
		return rec(x.X)
	case *ssa.MakeInterface:
		return rec(x.X)
	case *ssa.Call:
		for _, a := range x.Call.Args {
			if rec(a) {
				return true
			}
		}
	case *ssa.UnOp:
		if x.Op != token.MUL {
			return rec(x.X)
		}
		switch a := x.X.(type) {
		case *ssa.IndexAddr:
			if rec(a.X) {
				return true
			}
			return storedElems(a.X, rec)
		case *ssa.Alloc:
			for _, r := range *a.Referrers() {
				if st, ok := r.(*ssa.Store); ok && st.Addr == ssa.Value(a) && rec(st.Val) {
					return true
				}
			}
		}
	case *ssa.Alloc:
		return storedElems(x, rec)
	case *ssa.Lookup:
		return rec(x.X)
	}
	// a slice value: what was stored into its elements
	if _, isSl := v.Type().Underlying().(*types.Slice); isSl {
		return storedElems(v, rec)
	}
	return false
}

func storedElems(base ssa.Value, rec func(ssa.Value) bool) bool {
	refs := base.Referrers()
	if refs == nil {
		return false
	}
	for _, r := range *refs {
		if ia, ok := r.(*ssa.IndexAddr); ok {
			for _, r2 := range *ia.Referrers() {
				if st, ok := r2.(*ssa.Store); ok && st.Addr == ssa.Value(ia) && rec(st.Val) {
					return true
				}
			}
		}
	}
	return false
}

// ---------------------------------------------------------------------------
// DOM/meta-merge (C17): merging the meta of a later service answer into an
// earlier one hands its status over on every path on which both exist — a
// later 300–599 status must end the request whatever the earlier meta held.

func ruleMetaMerge(c *Ctx) {
	p := c.P
	fn := p.Fn("(*codec.Meta).Merge")
	fStatus := p.Field("codec.Meta.Status")
	fHeader := p.Field("codec.Meta.Header")
	if fn == nil || fStatus == nil || len(fn.Params) < 2 {
		c.undecided("(*codec.Meta).Merge", "anchor", "-", "not found")
		return
	}
	c.inst(1)
	m, o := fn.Params[0], fn.Params[1]
	sp := &Spec{InlineHelpers: true}
	sp.Classify = func(t *Tracer, fr *Frame, in ssa.Instruction) []Ev {
		if fHeader != nil {
			if _, ok := isStoreToT(t, fr, in, fHeader); ok {
				return []Ev{{Kind: "hdr"}}
			}
			if call, ok := in.(ssa.CallInstruction); ok {
				if m2 := calleeFunc(call.Common()); m2 != nil && m2.Name() == "MergeHeader" {
					return []Ev{{Kind: "hdr", Stop: true}}
				}
			}
		}
		if st, ok := isStoreToT(t, fr, in, fStatus); ok {
			if f, base := fieldLoad(t.Resolve(fr, st.Val).V); f == fStatus && base != nil && t.Resolve(fr, base).V == ssa.Value(o) {
				return []Ev{{Kind: "status=o"}}
			}
			return []Ev{{Kind: "status=?"}}
		}
		if r, ok := in.(*ssa.Return); ok && fr == t.RootFr && len(r.Results) == 1 {
			switch t.Resolve(fr, r.Results[0]).V {
			case ssa.Value(m):
				return []Ev{{Kind: "return m"}}
			case ssa.Value(o):
				return []Ev{{Kind: "return o"}}
			}
			return []Ev{{Kind: "return ?"}}
		}
		return nil
	}
	sp.Branch = func(t *Tracer, fr *Frame, i *ssa.If, dir bool) []Ev {
		x, nn, ok := nilTest(i, dir)
		if !ok {
			return nil
		}
		r := t.Resolve(fr, x).V
		name := ""
		switch {
		case r == ssa.Value(m):
			name = "m"
		case r == ssa.Value(o):
			name = "o"
		default:
			if f, base := fieldLoad(r); f == fStatus && base != nil && t.Resolve(fr, base).V == ssa.Value(o) {
				name = "o.status"
			}
		}
		if name == "" {
			return nil
		}
		if nn {
			return []Ev{{Kind: name + "!=nil"}}
		}
		return []Ev{{Kind: name + "=nil"}}
	}
	tr := runTrace(p, fn, sp)
	bad := ""
	both := 0
	for _, path := range tr.Paths {
		if !hasKind(path, "return m") || hasKind(path, "o=nil") {
			continue
		}
		both++
		switch {
		case hasKind(path, "o.status!=nil") && !hasKind(path, "status=o"):
			bad = "the later meta has a status and the merged meta does not take it: " + tr.FmtPath(path)
		case fHeader != nil && !hasKind(path, "hdr"):
			bad = "a path merges two metas and leaves the later one's headers out (neither taken over nor merged): Set-Cookie and the other headers of the later answer never reach the response: " + tr.FmtPath(path)
		case !hasKind(path, "o.status!=nil") && !hasKind(path, "o.status=nil") && !hasKind(path, "status=o"):
			bad = "a path merges two metas without looking at the later one's status: a later 300–599 status is dropped and the request goes on (or answers with the wrong code): " + tr.FmtPath(path)
		}
	}
	if both == 0 {
		bad = "no path merging two metas found"
	}
	if tr.Trunc {
		bad = "path budget exhausted"
	}
	c.check(bad == "", fnName(fn), "the merged meta takes the later meta's status on every path", p.Pos(fn.Pos()), fmt.Sprintf("%d paths, %d merge two metas", len(tr.Paths), both), bad)
}

// ---------------------------------------------------------------------------
// DOM/query-request-error (C13): a query request that failed (no answer:
// timeout, no responders, subject too long) changes nothing — in particular it
// is not read as the service's answer system.notFound (mq.ErrNoResponders IS
// reserr.ErrNotFound). Every path of the completion that applies something to
// the query resource has established that the request error is nil.

func ruleQueryRequestError(c *Ctx) {
	p := c.P
	fn := p.Fn("(*rescache.EventSubscription).handleQueryEvent")
	send := p.Method("mq.Client.SendRequest")
	if fn == nil || send == nil {
		c.undecided("(*rescache.EventSubscription).handleQueryEvent", "anchor", "-", "not found")
		return
	}
	apply := []*types.Func{p.Method("rescache.ResourceSubscription.handleEvent"), p.Method("rescache.ResourceSubscription.processResetModel"), p.Method("rescache.ResourceSubscription.processResetCollection")}
	n := 0
	for _, g := range p.withHelpers(fn) {
		for _, call := range callsIn(g) {
			if _, ok := isCallTo(call, send); !ok {
				continue
			}
			args := callArgs(call.Common())
			var root *ssa.Function
			switch x := stripConv(args[len(args)-1]).(type) {
			case *ssa.MakeClosure:
				root = x.Fn.(*ssa.Function)
			case *ssa.Function:
				root = x
			}
			if root == nil {
				continue
			}
			var errPrm *ssa.Parameter
			for _, prm := range root.Params {
				if isErrorType(prm.Type()) {
					errPrm = prm
				}
			}
			if errPrm == nil {
				continue
			}
			n++
			c.inst(1)
			sp := &Spec{InlineHelpers: true}
			sp.Classify = func(t *Tracer, fr *Frame, in ssa.Instruction) []Ev {
				if _, ok := isCallTo(in, apply...); ok {
					return []Ev{{Kind: "apply", Stop: true}}
				}
				return nil
			}
			sp.Branch = func(t *Tracer, fr *Frame, i *ssa.If, dir bool) []Ev {
				x, nn, ok := nilTest(i, dir)
				if !ok {
					return nil
				}
				if r := t.Resolve(fr, x); r.V == ssa.Value(errPrm) {
					if nn {
						return []Ev{{Kind: "request-error!=nil"}}
					}
					return []Ev{{Kind: "request-error=nil"}}
				}
				return nil
			}
			tr := runTrace(p, root, sp)
			bad := ""
			nApply := 0
			for _, path := range tr.Paths {
				ai := indexKind(path, "apply")
				if ai < 0 {
					continue
				}
				nApply++
				if !hasKind(path[:ai], "request-error=nil") {
					bad = "the completion of a query request applies something to the query resource on a path that has not established that the request itself succeeded: a request without answer (no responders = system.notFound, timeout) deletes or changes the resource for every subscriber: " + tr.FmtPath(path)
				}
			}
			if nApply == 0 {
				bad = "no path applying the answer found"
			}
			if tr.Trunc {
				bad = "path budget exhausted"
			}
			c.check(bad == "", fnName(root), "a failed query request changes nothing", p.InstrPos(call), fmt.Sprintf("%d paths, %d apply the answer, all under request error == nil", len(tr.Paths), nApply), bad)
		}
	}
	if n == 0 {
		c.viol(fnName(fn), "a failed query request changes nothing", p.Pos(fn.Pos()), "no query request completion found")
	}
}

// ---------------------------------------------------------------------------
// TABLE/lcs-exhaustive (C03, C12): the back-tracking of the edit script walks
// the LCS table by comparing two neighbouring cells. Where two different
// branches compare the same pair of cells, their comparisons together must
// cover <, = and >: a tie that no branch takes ends the walk early and the
// derived add/remove sequence is cut short (clients keep a stale collection).

func ruleLCSExhaustive(c *Ctx) {
	p := c.P
	fn := p.Fn("rescache.lcs")
	if fn == nil {
		c.undecided("rescache.lcs", "anchor", "-", "not found")
		return
	}
	var key func(v ssa.Value, d int) string
	key = func(v ssa.Value, d int) string {
		if d > 8 {
			return v.Name()
		}
		switch x := v.(type) {
		case *ssa.BinOp:
			a, b := key(x.X, d+1), key(x.Y, d+1)
			if (x.Op == token.ADD || x.Op == token.MUL) && b < a {
				a, b = b, a
			}
			return "(" + a + x.Op.String() + b + ")"
		case *ssa.UnOp:
			return x.Op.String() + key(x.X, d+1)
		case *ssa.IndexAddr:
			return key(x.X, d+1) + "[" + key(x.Index, d+1) + "]"
		case *ssa.Const:
			return x.String()
		}
		return v.Name()
	}
	truth := map[token.Token]string{token.LSS: "<", token.LEQ: "<=", token.GTR: ">", token.GEQ: ">=", token.EQL: "=", token.NEQ: "<>"}
	flip := map[token.Token]token.Token{token.LSS: token.GTR, token.GTR: token.LSS, token.LEQ: token.GEQ, token.GEQ: token.LEQ, token.EQL: token.EQL, token.NEQ: token.NEQ}
	type cmp struct {
		op  token.Token
		pos string
	}
	pairs := map[string][]cmp{}
	for _, in := range instrsOf(fn) {
		// (a case condition `a && (b || x >= y)` is built as a value: the comparison need not be an If's own condition)
		b, ok := in.(*ssa.BinOp)
		if !ok {
			continue
		}
		i := in
		if _, ok := truth[b.Op]; !ok {
			continue
		}
		// both operands are table cells (loads of slice elements)
		isCell := func(v ssa.Value) bool {
			u, ok := v.(*ssa.UnOp)
			if !ok || u.Op != token.MUL {
				return false
			}
			_, ok = u.X.(*ssa.IndexAddr)
			return ok
		}
		if !isCell(b.X) || !isCell(b.Y) {
			continue
		}
		kx, ky, op := key(b.X, 0), key(b.Y, 0), b.Op
		if ky < kx {
			kx, ky, op = ky, kx, flip[op]
		}
		pairs[kx+" ? "+ky] = append(pairs[kx+" ? "+ky], cmp{op, p.InstrPos(i)})
	}
	var keys []string
	for k := range pairs {
		keys = append(keys, k)
	}
	sort.Strings(keys)
	n := 0
	for _, k := range keys {
		cs := pairs[k]
		if len(cs) < 2 {
			continue // an if/else on one comparison is exhaustive by itself
		}
		n++
		c.inst(1)
		cover := ""
		var ops []string
		for _, x := range cs {
			ops = append(ops, truth[x.op]+"@"+x.pos)
			switch x.op {
			case token.LSS:
				cover += "<"
			case token.LEQ:
				cover += "<="
			case token.GTR:
				cover += ">"
			case token.GEQ:
				cover += ">="
			case token.EQL:
				cover += "="
			case token.NEQ:
				cover += "<>"
			}
		}
		full := strings.Contains(cover, "<") && strings.Contains(cover, ">") && strings.Contains(cover, "=")
		c.check(full, fnName(fn), "branches comparing the same two table cells cover every ordering", cs[0].pos, strings.Join(ops, ", "),
			"two branches compare the same pair of LCS-table cells ("+strings.Join(ops, ", ")+") and leave one ordering to neither: on that ordering the back-tracking stops early and the derived add/remove events are cut short")
	}
	if n == 0 {
		c.note("rescache.lcs: no pair of branches comparing the same table cells (the algorithm has another shape): nothing to decide")
	}
}

// ---------------------------------------------------------------------------
// TABLE/remove-run (C12, C03): events are applied one after the other, and a
// remove shifts everything behind it. A loop that emits a remove per iteration
// with the loop's own ascending counter as the index (`for ; s < m; s++ {
// remove(Idx: s) }`) removes every other element of the run it means to
// remove. The index of removes emitted by one loop stays or descends.

func ruleRemoveRun(c *Ctx) {
	p := c.P
	fIdx := p.Field("codec.RemoveEvent.Idx")
	if fIdx == nil {
		c.undecided("codec.RemoveEvent.Idx", "anchor", "-", "not found")
		return
	}
	n := 0
	for _, st := range p.stores[fIdx] {
		fn := st.Parent()
		if TopLevel(fn).Pkg == nil || TopLevel(fn).Pkg.Pkg.Name() != "rescache" {
			continue
		}
		n++
		c.inst(1)
		bad := ""
		if ph, ok := st.Val.(*ssa.Phi); ok && loopBody(ph.Block())[st.Block()] {
			for _, e := range ph.Edges {
				if b, isB := e.(*ssa.BinOp); isB && b.Op == token.ADD && (b.X == ssa.Value(ph) || b.Y == ssa.Value(ph)) {
					k, isC := constInt(b.Y)
					if !isC {
						k, isC = constInt(b.X)
					}
					if isC && k > 0 {
						bad = "the index of the removes emitted by this loop is the loop's own ascending counter: each remove shifts the rest, so a run of elements is only half removed (clients end up with a different collection than the service's)"
					}
				}
			}
		}
		c.check(bad == "", fnName(fn), "removes emitted by one loop do not use an ascending index", p.InstrPos(st), "index stays or descends", bad)
	}
	if n == 0 {
		c.note("no remove event is built in the cache package")
	}
}

// ---------------------------------------------------------------------------
// PROV/json-text (C07, C02): a MarshalJSON method hands encoding/json bytes
// that are JSON by construction. Text data (a resource id, a key) reaches the
// output only through json.Marshal; a string that is not a compile-time
// constant is never converted to bytes or written as it is — an unescaped
// quote or backslash makes the whole frame fail to encode, and the request it
// answers gets no response at all.

func ruleJSONText(c *Ctx) {
	p := c.P
	n := 0
	seen := map[*ssa.Function]bool{}
	var fns []*ssa.Function
	for _, fn := range p.Repo {
		if fn.Parent() != nil || fn.Signature.Recv() == nil || fn.Name() != "MarshalJSON" || fn.Synthetic != "" {
			continue
		}
		for _, g := range append([]*ssa.Function{fn}, staticCallees(p, fn)...) {
			if !seen[g] && p.isRepoFn(g) {
				seen[g] = true
				fns = append(fns, g)
			}
		}
	}
	sort.Slice(fns, func(i, j int) bool { return fnName(fns[i]) < fnName(fns[j]) })
	isConstStr := func(v ssa.Value) bool {
		_, ok := constString(v)
		return ok
	}
	for _, fn := range fns {
		for _, in := range instrsOf(fn) {
			switch x := in.(type) {
			case *ssa.Convert:
				// string -> []byte
				bt, isB := x.X.Type().Underlying().(*types.Basic)
				if !isB || bt.Info()&types.IsString == 0 {
					continue
				}
				if _, isSlice := x.Type().Underlying().(*types.Slice); !isSlice {
					continue
				}
				n++
				c.inst(1)
				c.check(isConstStr(x.X), fnName(fn), "text reaches the JSON output only through json.Marshal", p.InstrPos(x), "constant text", "a string that is not a constant is converted to output bytes as it is: a quote, backslash or control character in it makes the frame invalid JSON, the encoder fails and the request gets no response")
			case *ssa.Call:
				cf := calleeFunc(&x.Call)
				if cf == nil || cf.Pkg() == nil {
					continue
				}
				if (cf.Pkg().Path() == "bytes" || cf.Pkg().Path() == "strings") && cf.Name() == "WriteString" {
					args := callArgs(&x.Call)
					n++
					c.inst(1)
					c.check(isConstStr(args[len(args)-1]), fnName(fn), "text reaches the JSON output only through json.Marshal", p.InstrPos(x), "constant text", "a string that is not a constant is written to the output as it is")
				}
			}
		}
	}
	c.inst(len(fns))
	if len(fns) == 0 {
		c.viol("MarshalJSON", "text reaches the JSON output only through json.Marshal", "-", "no MarshalJSON method found")
	} else if n == 0 {
		c.ok("MarshalJSON", "text reaches the JSON output only through json.Marshal", "-", fmt.Sprintf("%d marshalers and helpers: no string is converted or written as it is", len(fns)))
	}
}

// ---------------------------------------------------------------------------
// DOM/validate-before-conn (C14): an HTTP request with an invalid resource id
// is answered 404 "without any service traffic". The temporary connection of a
// request already causes traffic (header authentication, the connection's own
// event subscription), so it is created only behind the validity test.

func ruleValidateBeforeConn(c *Ctx) {
	p := c.P
	tc := p.Method("server.Service.temporaryConn")
	isValid := p.PkgFunc("codec.IsValidRID")
	if tc == nil || isValid == nil {
		c.undecided("(*server.Service).temporaryConn", "anchor", "-", "not found")
		return
	}
	valid := func(i *ssa.If) (bool, bool) {
		v, neg := ssa.Value(i.Cond), false
		if u, ok := v.(*ssa.UnOp); ok && u.Op == token.NOT {
			v, neg = u.X, true
		}
		if cl, ok := v.(*ssa.Call); ok && calleeFunc(&cl.Call) == isValid {
			return !neg, true
		}
		return false, false
	}
	n := 0
	for _, fn := range p.Repo {
		for _, call := range callsIn(fn) {
			if _, ok := isCallTo(call, tc); !ok {
				continue
			}
			n++
			c.inst(1)
			c.check(p.guardedUp(call, valid, 0), fnName(fn), "the temporary connection of an HTTP request is created only for a valid resource id", p.InstrPos(call), "dominated by IsValidRID",
				"a request with an invalid resource id gets a temporary connection (header authentication request, connection event subscription) before it is rejected: service traffic for an input that must cause none")
		}
	}
	if n == 0 {
		c.viol("(*server.Service).temporaryConn", "the temporary connection of an HTTP request is created only for a valid resource id", "-", "no call found")
	}
}

// ---------------------------------------------------------------------------
// TABLE/href-dots (C16): reader and writer of HTTP paths agree on '.'. The
// reader (PathToRID) refuses any path that contains a dot; so every piece of a
// resource id the writer (RIDToPath) puts into an href passes through the
// '.' → '/' replacement — a dot left in an href (say, in the query of the id)
// yields a link the gateway itself answers with 404.

func ruleHrefDots(c *Ctx) {
	p := c.P
	rd, wr := p.Fn("server.PathToRID"), p.Fn("server.RIDToPath")
	if rd == nil || wr == nil || len(wr.Params) == 0 {
		c.undecided("server.RIDToPath", "anchor", "-", "not found")
		return
	}
	isDot := func(v ssa.Value) bool {
		if s, ok := constString(v); ok {
			return s == "."
		}
		if k, ok := constInt(v); ok {
			return k == '.'
		}
		return false
	}
	rejects := false
	for _, g := range append([]*ssa.Function{rd}, staticCallees(p, rd)...) {
		for _, in := range instrsOf(g) {
			if cl, ok := in.(*ssa.Call); ok {
				nm := calleeName(&cl.Call)
				if strings.HasPrefix(nm, "strings.Contains") || strings.HasPrefix(nm, "strings.Index") {
					for _, a := range cl.Call.Args[1:] {
						if isDot(a) {
							rejects = true
						}
					}
				}
			}
		}
	}
	c.inst(1)
	if !rejects {
		c.ok(fnName(wr), "no dot of a resource id is left in an href", p.Pos(wr.Pos()), "the reader does not refuse dots: nothing to agree on")
		return
	}
	rid := wr.Params[0]
	fromRID := func(v ssa.Value) bool { return v == ssa.Value(rid) }
	var flat func(v ssa.Value, out *[]ssa.Value, d int)
	flat = func(v ssa.Value, out *[]ssa.Value, d int) {
		if b, ok := v.(*ssa.BinOp); ok && b.Op == token.ADD && d < 12 {
			flat(b.X, out, d+1)
			flat(b.Y, out, d+1)
			return
		}
		if ph, ok := v.(*ssa.Phi); ok && d < 12 {
			for _, e := range ph.Edges {
				flat(e, out, d+1)
			}
			return
		}
		*out = append(*out, v)
	}
	bad := ""
	nret := 0
	for _, in := range instrsOf(wr) {
		r, ok := in.(*ssa.Return)
		if !ok || len(r.Results) != 1 {
			continue
		}
		nret++
		var parts []ssa.Value
		flat(r.Results[0], &parts, 0)
		for _, pt := range parts {
			if _, isC := pt.(*ssa.Const); isC {
				continue
			}
			if cl, isCall := pt.(*ssa.Call); isCall {
				nm := calleeName(&cl.Call)
				if (nm == "strings.Replace" || nm == "strings.ReplaceAll") && len(cl.Call.Args) >= 3 && isDot(cl.Call.Args[1]) {
					if s, ok := constString(cl.Call.Args[2]); ok && s == "/" {
						continue
					}
				}
			}
			if dependsOn(pt, fromRID, map[ssa.Value]bool{}, 0) {
				bad = "a piece of the resource id is put into the path without the '.' → '/' replacement (" + p.InstrPos(r) + "): the reader refuses every path with a dot, so the href of such a resource leads to 404"
			}
		}
	}
	if nret == 0 {
		bad = "no return found"
	}
	c.check(bad == "", fnName(wr), "no dot of a resource id is left in an href", p.Pos(wr.Pos()), "every id-derived piece passes the '.' → '/' replacement; the reader refuses dots", bad)
}

// ---------------------------------------------------------------------------
// DOM/auth-meta-kept (C17): "Set-Cookie values accumulate". The meta of the
// header-authentication answer (its headers, its cookies) is kept for the
// response on every path on which the request goes on — also when the
// authentication answered with an error.

func ruleAuthMetaKept(c *Ctx) {
	p := c.P
	fn := p.Fn("(*server.Service).temporaryConn")
	auth := p.Method("server.wsConn.AuthResourceNoResult")
	if fn == nil || auth == nil || len(fn.Params) < 4 {
		c.undecided("(*server.Service).temporaryConn", "anchor", "-", "not found")
		return
	}
	metaT := p.Named("codec.Meta")
	n := 0
	for _, g := range p.withHelpers(fn) {
		for _, call := range callsIn(g) {
			if _, ok := isCallTo(call, auth); !ok {
				continue
			}
			args := callArgs(call.Common())
			mc, ok := stripConv(args[len(args)-1]).(*ssa.MakeClosure)
			if !ok {
				continue
			}
			root := mc.Fn.(*ssa.Function)
			var mPrm *ssa.Parameter
			for _, prm := range root.Params {
				if pt, ok := prm.Type().(*types.Pointer); ok && metaT != nil && types.Identical(pt.Elem(), metaT) {
					mPrm = prm
				}
			}
			if mPrm == nil {
				continue
			}
			n++
			c.inst(1)
			sp := &Spec{InlineHelpers: true}
			sp.Classify = func(t *Tracer, fr *Frame, in ssa.Instruction) []Ev {
				if st, ok := in.(*ssa.Store); ok {
					if t.Resolve(fr, st.Val).V == ssa.Value(mPrm) {
						if _, isFV := st.Addr.(*ssa.FreeVar); isFV {
							return []Ev{{Kind: "kept"}}
						}
						if _, isFA := st.Addr.(*ssa.FieldAddr); isFA {
							return []Ev{{Kind: "kept"}}
						}
					}
				}
				// the request goes on: the request callback (a func-typed parameter of temporaryConn) is called
				if cl, ok := in.(ssa.CallInstruction); ok && !cl.Common().IsInvoke() && cl.Common().StaticCallee() == nil {
					if _, isB := cl.Common().Value.(*ssa.Builtin); !isB {
						for _, wf := range p.closuresHeld(cl.Common().Value, 0) {
							_ = wf
						}
						v := t.Resolve(fr, cl.Common().Value).V
						if u, isU := v.(*ssa.UnOp); isU {
							v = u.X
						}
						_, isFV := v.(*ssa.FreeVar)
						if prm, isP := v.(*ssa.Parameter); isP && prm.Parent() != t.Root {
							isFV = true // the request callback handed down to a named continuation (or the engine's probe of one)
						}
						if isFV {
							if _, isSig := deref(v.Type()).Underlying().(*types.Signature); isSig {
								// passing the merged meta on directly also keeps it
								for _, a := range cl.Common().Args {
									if dependsOn(a, func(x ssa.Value) bool { return x == ssa.Value(mPrm) }, map[ssa.Value]bool{}, 0) {
										return []Ev{{Kind: "kept"}, {Kind: "go-on"}}
									}
								}
								return []Ev{{Kind: "go-on"}}
							}
						}
					}
				}
				return nil
			}
			tr := runTrace(p, root, sp)
			bad := ""
			nOn := 0
			for _, path := range tr.Paths {
				gi := indexKind(path, "go-on")
				if gi < 0 {
					continue
				}
				nOn++
				if !hasKind(path[:gi+1], "kept") {
					bad = "the request goes on after header authentication on a path that does not keep the authentication answer's meta: its headers and Set-Cookie values are missing from the response: " + tr.FmtPath(path)
				}
			}
			if nOn == 0 {
				bad = "no path on which the request goes on found"
			}
			if tr.Trunc {
				bad = "path budget exhausted"
			}
			c.check(bad == "", fnName(root), "the header-authentication answer's meta is kept whenever the request goes on", p.InstrPos(call), fmt.Sprintf("%d paths, %d go on", len(tr.Paths), nOn), bad)
		}
	}
	if n == 0 {
		c.viol(fnName(fn), "the header-authentication answer's meta is kept whenever the request goes on", p.Pos(fn.Pos()), "no header-authentication continuation found")
	}
}

func deref(t types.Type) types.Type {
	if pt, ok := t.(*types.Pointer); ok {
		return pt.Elem()
	}
	return t
}

// ---------------------------------------------------------------------------
// CONTRA/stale-test (C01, C02): a contradiction rule. A test `x.f == c2` that
// is dominated by the store `x.f = c1` (c1 ≠ c2) of the same object, with no
// call and no other store to f in between, can never hold: either the test or
// the store is wrong (the collector's `Unsend` testing the receiver it has just
// reset instead of the child it is looking at).

func ruleStaleTest(c *Ctx) {
	p := c.P
	n := 0
	for _, fn := range p.Repo {
		top := TopLevel(fn)
		if top.Pkg == nil {
			continue
		}
		switch top.Pkg.Pkg.Name() {
		case "server", "rescache", "codec", "nats", "rpc":
		default:
			continue
		}
		// constant stores to fields in this function
		type cst struct {
			st   *ssa.Store
			fa   *ssa.FieldAddr
			f    *types.Var
			k    int64
			isOK bool
		}
		var stores []cst
		for _, in := range instrsOf(fn) {
			st, ok := in.(*ssa.Store)
			if !ok {
				continue
			}
			fa, ok := st.Addr.(*ssa.FieldAddr)
			if !ok {
				continue
			}
			f := fieldOfAddr(fa)
			if f == nil {
				continue
			}
			if k, isC := constInt(st.Val); isC {
				stores = append(stores, cst{st, fa, f, k, true})
			} else if b, isB := constBool(st.Val); isB {
				k := int64(0)
				if b {
					k = 1
				}
				stores = append(stores, cst{st, fa, f, k, true})
			}
		}
		if len(stores) == 0 {
			continue
		}
		for _, b := range fn.Blocks {
			i := blockIf(b)
			if i == nil {
				continue
			}
			var x ssa.Value
			var k2 int64
			eq := true
			if bo, ok := i.Cond.(*ssa.BinOp); ok && (bo.Op == token.EQL || bo.Op == token.NEQ) {
				if k, isC := constInt(bo.Y); isC {
					x, k2, eq = bo.X, k, bo.Op == token.EQL
				} else if k, isC := constInt(bo.X); isC {
					x, k2, eq = bo.Y, k, bo.Op == token.EQL
				}
			}
			if x == nil {
				continue
			}
			u, ok := x.(*ssa.UnOp)
			if !ok || u.Op != token.MUL {
				continue
			}
			lfa, ok := u.X.(*ssa.FieldAddr)
			if !ok {
				continue
			}
			lf := fieldOfAddr(lfa)
			for _, s := range stores {
				if s.f != lf || s.fa.X != lfa.X || s.k == k2 {
					continue
				}
				sb := s.st.Block()
				if sb == b {
					continue // a loop over one block: not the shape looked for
				}
				if !sb.Dominates(b) {
					continue
				}
				// blocks between: reachable from the store's block and reaching the test
				reach := map[*ssa.BasicBlock]bool{}
				var fw func(x *ssa.BasicBlock)
				fw = func(x *ssa.BasicBlock) {
					if reach[x] {
						return
					}
					reach[x] = true
					for _, sx := range x.Succs {
						fw(sx)
					}
				}
				for _, sx := range sb.Succs {
					fw(sx)
				}
				back := map[*ssa.BasicBlock]bool{}
				var bw func(x *ssa.BasicBlock)
				bw = func(x *ssa.BasicBlock) {
					if back[x] {
						return
					}
					back[x] = true
					for _, px := range x.Preds {
						bw(px)
					}
				}
				bw(b)
				clean := true
				scan := func(ins []ssa.Instruction) {
					for _, in := range ins {
						switch y := in.(type) {
						case ssa.CallInstruction:
							if _, isB := y.Common().Value.(*ssa.Builtin); !isB {
								clean = false
							}
						case *ssa.Store:
							if fa2, ok := y.Addr.(*ssa.FieldAddr); ok && fieldOfAddr(fa2) == lf && y != s.st {
								clean = false
							}
							if _, isFA := y.Addr.(*ssa.FieldAddr); !isFA {
								if _, isAl := y.Addr.(*ssa.Alloc); !isAl {
									clean = false // a store through some other pointer
								}
							}
						}
					}
				}
				// the store's own block after the store
				after := false
				for _, in := range sb.Instrs {
					if in == ssa.Instruction(s.st) {
						after = true
						continue
					}
					if after {
						scan([]ssa.Instruction{in})
					}
				}
				for _, blk := range fn.Blocks {
					if blk != sb && reach[blk] && back[blk] {
						scan(blk.Instrs)
					}
				}
				if !clean {
					continue
				}
				n++
				c.inst(1)
				verdict := "false"
				if !eq {
					verdict = "true"
				}
				c.viol(fnName(fn), "no test contradicts a store that dominates it", p.InstrPos(i), fmt.Sprintf("%s.%s is set to %d at %s and nothing can change it before it is tested against %d here: the test is always %s — either the test looks at the wrong object or the store is misplaced", fieldOwner(p, lf), lf.Name(), s.k, p.InstrPos(s.st), k2, verdict))
			}
		}
	}
	c.inst(1)
	if n == 0 {
		c.ok("repository", "no test contradicts a store that dominates it", "-", "no field is tested against a constant other than the one a dominating store of the same object has just given it")
	}
}

// ---------------------------------------------------------------------------
// DOM/error-wins (C05, C04, C15): a service answer that carries an `error`
// member is an error answer, whatever else it carries. Every path of a response
// decoder that returns success has established that the decoded Error is nil.

func ruleErrorWins(c *Ctx) {
	p := c.P
	n := 0
	for _, fn := range p.Repo {
		if fn.Parent() != nil || fn.Pkg == nil || fn.Pkg.Pkg.Name() != "codec" || !strings.HasPrefix(fn.Name(), "Decode") {
			continue
		}
		res := fn.Signature.Results()
		if res.Len() == 0 {
			continue
		}
		lastT := res.At(res.Len() - 1).Type()
		if !isErrorType(lastT) && !strings.HasSuffix(lastT.String(), "reserr.Error") {
			continue
		}
		isErrField := func(f *types.Var) bool {
			return f != nil && f.Name() == "Error" && strings.HasSuffix(f.Type().String(), "reserr.Error")
		}
		loads := false
		for _, g := range p.withHelpers(fn) {
			for _, in := range instrsOf(g) {
				if v, ok := in.(ssa.Value); ok {
					if f, _ := fieldLoad(v); isErrField(f) {
						loads = true
					}
				}
			}
		}
		if !loads {
			continue
		}
		n++
		c.inst(1)
		sp := &Spec{InlineHelpers: true}
		sp.Classify = func(t *Tracer, fr *Frame, in ssa.Instruction) []Ev {
			if r, ok := in.(*ssa.Return); ok && fr == t.RootFr {
				if isNilConst(t.Resolve(fr, r.Results[len(r.Results)-1]).V) {
					return []Ev{{Kind: "return:ok"}}
				}
				return []Ev{{Kind: "return:err"}}
			}
			return nil
		}
		sp.Branch = func(t *Tracer, fr *Frame, i *ssa.If, dir bool) []Ev {
			x, nn, ok := nilTest(i, dir)
			if !ok {
				return nil
			}
			rx := t.Resolve(fr, x).V
			if f, _ := fieldLoad(rx); isErrField(f) {
				if nn {
					return []Ev{{Kind: "error!=nil"}}
				}
				return []Ev{{Kind: "error=nil"}}
			}
			// the test moved into a helper that is handed the error member (`responseError(r.Error, …)`): seen
			// unbound by the engine's probe, it makes the helper worth following
			if prm, isP := rx.(*ssa.Parameter); isP && fr != t.RootFr && strings.HasSuffix(prm.Type().String(), "reserr.Error") {
				return []Ev{{Kind: "error-param-test"}}
			}
			return nil
		}
		tr := runTrace(p, fn, sp)
		bad := ""
		nOK := 0
		for _, path := range tr.Paths {
			if !hasKind(path, "return:ok") {
				continue
			}
			nOK++
			if !hasKind(path, "error=nil") {
				bad = "a success return on a path that has not established that the answer's error member is absent: an answer carrying both an error and a result is taken for the result (an access error with a result grants access): " + tr.FmtPath(path)
			}
		}
		if tr.Trunc {
			bad = "path budget exhausted"
		}
		c.check(bad == "", fnName(fn), "an answer that carries an error is decoded as that error", p.Pos(fn.Pos()), fmt.Sprintf("%d paths, %d return success, all under error == nil", len(tr.Paths), nOK), bad)
	}
	if n == 0 {
		c.viol("codec.Decode*", "an answer that carries an error is decoded as that error", "-", "no response decoder found")
	}
}

// ---------------------------------------------------------------------------
// FIFO/handler-sync (C06, C03): what the messaging system delivers in order is
// taken in in order. The handler given to mq.Subscribe — and everything it
// calls synchronously up to the hand-over to a queue — starts no goroutine: a
// `go` there lets a later message (an event right behind a system.reset)
// overtake an earlier one.

func ruleHandlerSync(c *Ctx) {
	p := c.P
	sub := p.Method("mq.Client.Subscribe")
	if sub == nil {
		c.undecided("mq.Client.Subscribe", "anchor", "-", "not found")
		return
	}
	n := 0
	for _, fn := range p.Repo {
		top := TopLevel(fn)
		if top.Pkg == nil || (top.Pkg.Pkg.Name() != "rescache" && top.Pkg.Pkg.Name() != "server") {
			continue
		}
		for _, call := range callsIn(fn) {
			if _, ok := isCallTo(call, sub); !ok {
				continue
			}
			args := callArgs(call.Common())
			var h *ssa.Function
			switch x := stripConv(args[len(args)-1]).(type) {
			case *ssa.MakeClosure:
				h = x.Fn.(*ssa.Function)
			case *ssa.Function:
				h = x
			}
			if h == nil {
				continue
			}
			if h.Synthetic != "" {
				if m := boundMethod(h); m != nil {
					if mf := p.SSA.FuncValue(m); mf != nil && len(mf.Blocks) > 0 {
						h = mf
					}
				}
			}
			n++
			c.inst(1)
			seen := map[*ssa.Function]bool{}
			bad := ""
			var walk func(f *ssa.Function, chain string, d int)
			walk = func(f *ssa.Function, chain string, d int) {
				if seen[f] || d > 8 || bad != "" {
					return
				}
				seen[f] = true
				for _, in := range instrsOf(f) {
					if g, isGo := in.(*ssa.Go); isGo {
						bad = "the message handler starts a goroutine (" + p.InstrPos(g) + ", reached through " + chain + "): messages delivered in order are processed out of order — an event right behind a system.reset is delivered before the reset's re-validation holds it back"
						return
					}
					cl, ok := in.(ssa.CallInstruction)
					if !ok {
						continue
					}
					if _, isDefer := in.(*ssa.Defer); isDefer {
						continue
					}
					if sf := cl.Common().StaticCallee(); sf != nil && p.isRepoFn(sf) && len(sf.Blocks) > 0 {
						walk(sf, chain+" → "+fnName(sf), d+1)
					} else if mc, isMC := cl.Common().Value.(*ssa.MakeClosure); isMC {
						walk(mc.Fn.(*ssa.Function), chain+" → closure", d+1)
					}
				}
			}
			walk(h, fnName(h), 0)
			c.check(bad == "", fnName(h), "the message handler takes messages in synchronously, in arrival order", p.InstrPos(call), fmt.Sprintf("%d functions reached synchronously, no go statement", len(seen)), bad)
		}
	}
	if n == 0 {
		c.viol("mq.Client.Subscribe", "the message handler takes messages in synchronously, in arrival order", "-", "no subscription handler found")
	}
}

// ---------------------------------------------------------------------------
// TABLE/value-object (C15): a value object names exactly one of rid, action and
// data; an object naming two of them is ambiguous and must be refused. Every
// accepting path of the value decoder that found one member present has
// established that the other two are absent.

func ruleValueObject(c *Ctx) {
	p := c.P
	fn := p.Fn("(*codec.Value).UnmarshalJSON")
	fs := map[*types.Var]string{}
	for _, q := range []string{"codec.ValueObject.RID", "codec.ValueObject.Action", "codec.ValueObject.Data"} {
		if f := p.Field(q); f != nil {
			fs[f] = q[strings.LastIndex(q, ".")+1:]
		}
	}
	if fn == nil || len(fs) != 3 {
		c.undecided("(*codec.Value).UnmarshalJSON", "anchor", "-", "not found")
		return
	}
	c.inst(1)
	sp := &Spec{InlineHelpers: true}
	sp.Classify = func(t *Tracer, fr *Frame, in ssa.Instruction) []Ev {
		if r, ok := in.(*ssa.Return); ok && fr == t.RootFr && len(r.Results) == 1 {
			if isNilConst(t.Resolve(fr, r.Results[0]).V) {
				return []Ev{{Kind: "accept"}}
			}
			return []Ev{{Kind: "refuse"}}
		}
		return nil
	}
	sp.Branch = func(t *Tracer, fr *Frame, i *ssa.If, dir bool) []Ev {
		x, nn, ok := nilTest(i, dir)
		if !ok {
			return nil
		}
		f, _ := fieldLoad(t.Resolve(fr, x).V)
		name, isM := fs[f]
		if !isM {
			return nil
		}
		if nn {
			return []Ev{{Kind: name + " present"}}
		}
		return []Ev{{Kind: name + " absent"}}
	}
	tr := runTrace(p, fn, sp)
	bad := ""
	nObj := 0
	for _, path := range tr.Paths {
		if !hasKind(path, "accept") {
			continue
		}
		var present, absent []string
		for _, nm := range []string{"RID", "Action", "Data"} {
			if hasKind(path, nm+" present") {
				present = append(present, nm)
			}
			if hasKind(path, nm+" absent") {
				absent = append(absent, nm)
			}
		}
		if len(present) == 0 {
			continue // not an object, or refused elsewhere
		}
		nObj++
		if len(present) != 1 || len(absent) != 2 {
			bad = fmt.Sprintf("a value object is accepted with %v present and only %v known absent: an object naming two of rid, action and data is taken for one of them instead of being refused (the malformed message is applied and fanned out): %s", present, absent, tr.FmtPath(path))
		}
	}
	if nObj == 0 {
		bad = "no accepting path for a value object found"
	}
	if tr.Trunc {
		bad = "path budget exhausted"
	}
	c.check(bad == "", fnName(fn), "a value object is accepted only with exactly one of rid, action, data", p.Pos(fn.Pos()), fmt.Sprintf("%d paths, %d accept an object", len(tr.Paths), nObj), bad)
}

// ---------------------------------------------------------------------------
// DOM/onready-inline (C16, C07): OnReady runs its callback at once only for a
// subscription that IS ready (state ≥ ready: it and everything below it is
// loaded). For anything else the callback goes through the ready-callback
// walk. A shortcut on a weaker test (the resource and its direct references
// are loaded) answers a request while deeper references are still loading.

func ruleOnReadyInline(c *Ctx) {
	p := c.P
	fn := p.Fn("(*server.Subscription).OnReady")
	fState := p.Field("server.Subscription.state")
	kReady := p.ConstInt("server.stateReady", -1)
	kLast := p.ConstInt("server.stateDeleted", -1)
	if fn == nil || fState == nil || kReady < 0 || kLast < kReady || len(fn.Params) < 2 {
		c.undecided("(*server.Subscription).OnReady", "anchor", "-", "not found")
		return
	}
	cb := fn.Params[1]
	recv := fn.Params[0]
	c.inst(1)
	sp := &Spec{InlineHelpers: true}
	sp.Classify = func(t *Tracer, fr *Frame, in ssa.Instruction) []Ev {
		if cl, ok := in.(ssa.CallInstruction); ok && !cl.Common().IsInvoke() && cl.Common().StaticCallee() == nil {
			if _, isB := cl.Common().Value.(*ssa.Builtin); !isB {
				if r := t.Resolve(fr, cl.Common().Value); r.V == ssa.Value(cb) {
					return []Ev{{Kind: "cb-now"}}
				}
			}
		}
		return nil
	}
	sp.Branch = func(t *Tracer, fr *Frame, i *ssa.If, dir bool) []Ev {
		x, op, k, ok := cmpConst(i.Cond)
		if !ok {
			return nil
		}
		f, base := fieldLoad(x)
		bfr := fr
		if f == nil {
			// a predicate on the state VALUE (`func (st subscriptionState) isReady()`): the tested parameter
			// is the caller's load of the field
			rx := t.Resolve(fr, x)
			f, base = fieldLoad(rx.V)
			bfr = rx.Fr
			if f == nil {
				if prm, isP := x.(*ssa.Parameter); isP && fr != t.RootFr && types.Identical(prm.Type(), fState.Type()) {
					f = fState // the engine's probe of such a predicate
				}
			}
		}
		if f != fState {
			return nil
		}
		if base != nil {
			if rb := t.Resolve(bfr, base).V; rb != ssa.Value(recv) {
				// (the engine's probe of a predicate helper sees the helper's own, unbound receiver)
				if _, isP := rb.(*ssa.Parameter); !isP || bfr == t.RootFr {
					return nil
				}
			}
		}
		set := satisfying(op, k, dir, kLast+1)
		var ss []string
		for v := int64(0); v <= kLast; v++ {
			if set[v] {
				ss = append(ss, fmt.Sprint(v))
			}
		}
		return []Ev{{Kind: "stateset", Note: strings.Join(ss, ",")}}
	}
	tr := runTrace(p, fn, sp)
	bad := ""
	nNow := 0
	for _, path := range tr.Paths {
		ci := indexKind(path, "cb-now")
		if ci < 0 {
			continue
		}
		nNow++
		// several tests of the state on one path (a list of excluded states instead of a range comparison) are intersected
		possible := map[string]bool{}
		for v := int64(0); v <= kLast; v++ {
			possible[fmt.Sprint(v)] = true
		}
		for _, e := range path[:ci] {
			if e.Kind != "stateset" {
				continue
			}
			in := map[string]bool{}
			for _, x := range strings.Split(e.Note, ",") {
				in[x] = true
			}
			for v := range possible {
				if !in[v] {
					delete(possible, v)
				}
			}
		}
		isReady := len(possible) > 0
		for v := int64(0); v < kReady; v++ {
			if possible[fmt.Sprint(v)] {
				isReady = false
			}
		}
		if !isReady {
			bad = "the callback is run at once on a path that has not established that the subscription is ready: a request is answered while references below the first level are still loading (an HTTP GET renders them as href only, or as malformed JSON): " + tr.FmtPath(path)
		}
	}
	if tr.Trunc {
		bad = "path budget exhausted"
	}
	c.check(bad == "", fnName(fn), "the callback is run at once only for a ready subscription", p.Pos(fn.Pos()), fmt.Sprintf("%d paths, %d run the callback at once, all under state ≥ ready", len(tr.Paths), nNow), bad)
}

// ---------------------------------------------------------------------------
// PROV/payload-fresh (C10, C05): a request payload carries one connection's id
// and token. The bytes a Create…Request function hands out are its own: the
// result of json.Marshal (a fresh slice per call) or a constant payload without
// connection data — never the contents of a buffer that is reused (pooled)
// while the payload waits to be published, where another connection's request
// can overwrite it.

func rulePayloadFresh(c *Ctx) {
	p := c.P
	n := 0
	for _, fn := range p.Repo {
		if fn.Parent() != nil || fn.Pkg == nil || fn.Pkg.Pkg.Name() != "codec" || !strings.HasPrefix(fn.Name(), "Create") || !strings.HasSuffix(fn.Name(), "Request") {
			continue
		}
		res := fn.Signature.Results()
		if res.Len() != 1 {
			continue
		}
		if sl, ok := res.At(0).Type().Underlying().(*types.Slice); !ok || !types.Identical(sl.Elem(), types.Typ[types.Byte]) {
			continue
		}
		n++
		c.inst(1)
		bad := ""
		for _, in := range instrsOf(fn) {
			r, ok := in.(*ssa.Return)
			if !ok {
				continue
			}
			v := r.Results[0]
			if isJSONSource(p, v, 0) {
				continue
			}
			if u, isU := v.(*ssa.UnOp); isU && u.Op == token.MUL {
				if _, isG := u.X.(*ssa.Global); isG {
					continue // a constant payload
				}
			}
			bad = "the payload returned at " + p.InstrPos(r) + " is not the fresh result of json.Marshal (nor a constant): bytes of a reused buffer can be overwritten by another connection's request before this one is published — a request goes out under one connection's subject with another connection's id and token"
		}
		c.check(bad == "", fnName(fn), "a request payload is a fresh encoding owned by its request", p.Pos(fn.Pos()), "every return is json.Marshal's result or a constant", bad)
	}
	if n == 0 {
		c.viol("codec.Create*Request", "a request payload is a fresh encoding owned by its request", "-", "no payload constructor found")
	}
}
