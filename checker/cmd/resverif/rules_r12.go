package main

// Rules and clauses added after seeding round 12.

import (
	"fmt"
	"go/token"
	"go/types"
	"strings"

	"golang.org/x/tools/go/ssa"
)

// ---------------------------------------------------------------------------
// TABLE/populate-skip (C02, C01): the "already handed over" quick exit of
// populateResources / populateResourcesLegacy is taken for exactly the states
// to-send and sent. Decided by constant propagation with the subscription's
// state fixed to each of its values: for to-send and sent no path reaches the
// hand-over, for every other live state some path does. A deleted resource
// (which the client has dropped) is delivered again, not skipped.

func rulePopulateSkip(c *Ctx) {
	p := c.P
	fState := p.Field("server.Subscription.state")
	kToSend := p.ConstInt("server.stateToSend", -1)
	kSent := p.ConstInt("server.stateSent", -1)
	kLast := p.ConstInt("server.stateDeleted", -1)
	if fState == nil || kToSend < 0 || kSent < 0 || kLast < kSent {
		c.undecided("server.Subscription.state", "anchor", "-", "not found")
		return
	}
	for _, nm := range []string{"(*server.Subscription).populateResources", "(*server.Subscription).populateResourcesLegacy"} {
		fn := p.Fn(nm)
		if fn == nil {
			c.undecided(nm, "anchor", "-", "not found")
			continue
		}
		c.inst(1)
		reaches := func(k int64) (bool, bool) {
			sp := &Spec{InlineHelpers: true}
			sp.Eval = func(t *Tracer, fr *Frame, cond ssa.Value) (bool, bool) {
				x, op, kk, ok := cmpConst(cond)
				if !ok {
					return false, false
				}
				f, base := fieldLoad(t.Resolve(fr, x).V)
				if f != fState {
					return false, false
				}
				// the receiver's own state only
				if b := t.Resolve(fr, base); b.Fr != t.RootFr || b.V != ssa.Value(t.Root.Params[0]) {
					if fr == t.RootFr {
						return false, false
					}
				}
				return evalIntCmp(op, k, kk)
			}
			sp.Classify = func(t *Tracer, fr *Frame, in ssa.Instruction) []Ev {
				if st, ok := isStoreToT(t, fr, in, fState); ok {
					if kk, isC := constInt(st.Val); isC && kk == kToSend {
						return []Ev{{Kind: "hand-over"}}
					}
				}
				return nil
			}
			tr := runTrace(p, fn, sp)
			if tr.Trunc {
				return false, false
			}
			for _, path := range tr.Paths {
				if hasKind(path, "hand-over") {
					return true, true
				}
			}
			return false, true
		}
		bad := ""
		for k := int64(1); k <= kLast; k++ {
			r, ok := reaches(k)
			if !ok {
				bad = "path budget exhausted"
				break
			}
			skip := k == kToSend || k == kSent
			if skip && r {
				bad = fmt.Sprintf("a subscription in state %s is handed over again although it is already part of a resource set", subStateNames[k])
			}
			if !skip && !r {
				bad = fmt.Sprintf("a subscription in state %s takes the 'already sent' quick exit: it is referenced by the resource set but not delivered with it, although the client does not hold it (dangling reference)", subStateNames[k])
			}
		}
		c.check(bad == "", nm, "the already-handed-over quick exit is taken for exactly the states to-send and sent", p.Pos(fn.Pos()), fmt.Sprintf("state fixed to each of %d values: hand-over reachable exactly for the states other than to-send and sent", kLast), bad)
	}
}

// ---------------------------------------------------------------------------
// DOM/gc-after-release (C01, C02, C08): a reference released with the collect
// flag set reaches the collector on every path: removeCount returns without
// calling tryDelete only when nothing is held at all or the caller asked for no
// collection. Any other early return (a "still referenced" shortcut) leaves
// reference cycles and self-references alive and marked sent.

func ruleGCAfterRelease(c *Ctx) {
	p := c.P
	fams := p.FnFamily("(*server.wsConn).removeCount")
	tryDel := p.Method("server.wsConn.tryDelete")
	if len(fams) == 0 || tryDel == nil {
		c.undecided("(*server.wsConn).removeCount", "anchor", "-", "not found")
		return
	}
	var counters []*types.Var
	for _, q := range []string{"server.Subscription.direct", "server.Subscription.indirect", "server.Subscription.indirectsent"} {
		if f := p.Field(q); f != nil {
			counters = append(counters, f)
		}
	}
	for _, fn := range fams {
		c.inst(1)
		// the bool parameter that asks for collection: the one a call of tryDelete is control-dependent on
		sp := &Spec{InlineHelpers: true}
		sp.Classify = func(t *Tracer, fr *Frame, in ssa.Instruction) []Ev {
			if _, ok := isCallTo(in, tryDel); ok {
				return []Ev{{Kind: "collect", Stop: true}}
			}
			if st, ok := in.(*ssa.Store); ok {
				if fa, ok := st.Addr.(*ssa.FieldAddr); ok {
					for _, f := range counters {
						if fieldOfAddr(fa) == f {
							return []Ev{{Kind: "lower"}}
						}
					}
				}
			}
			return nil
		}
		sp.Branch = func(t *Tracer, fr *Frame, i *ssa.If, dir bool) []Ev {
			// a bool parameter of the root
			v := i.Cond
			neg := false
			if u, ok := v.(*ssa.UnOp); ok && u.Op == token.NOT {
				v, neg = u.X, true
			}
			if nm, ty := rootParamRole(t, fr, v); nm != "" {
				if b, isB := ty.Underlying().(*types.Basic); isB && b.Kind() == types.Bool {
					return []Ev{{Kind: fmt.Sprintf("param:%s=%v", nm, dir != neg)}}
				}
			}
			// the nothing-held guard: a sum of the counters compared with zero
			if x, op, k, ok := cmpConst(i.Cond); ok && k == 0 {
				n := 0
				var walk func(v ssa.Value)
				walk = func(v ssa.Value) {
					switch y := v.(type) {
					case *ssa.BinOp:
						if y.Op == token.ADD {
							walk(y.X)
							walk(y.Y)
						}
					case *ssa.Call:
						// the sum kept in a helper (`s.counts.total()`): its returned expression
						if sf := y.Call.StaticCallee(); sf != nil && p.isRepoFn(sf) {
							for _, in := range instrsOf(sf) {
								if r, ok := in.(*ssa.Return); ok && len(r.Results) == 1 {
									walk(r.Results[0])
								}
							}
						}
					default:
						if f, _ := fieldLoad(t.Resolve(fr, v).V); f != nil {
							for _, cf := range counters {
								if cf == f {
									n++
								}
							}
						}
					}
				}
				walk(x)
				if n == len(counters) && n > 0 {
					if zero, known := evalIntCmp(op, 0, 0); known && zero == dir {
						return []Ev{{Kind: "nothing-held"}}
					}
					return nil
				}
			}
			return nil
		}
		tr := runTrace(p, fn, sp)
		bad := ""
		// which parameter gates the collector: appears as param:X=true on every path with "collect"
		gate := ""
		for _, path := range tr.Paths {
			if hasKind(path, "collect") {
				for _, e := range path {
					if strings.HasPrefix(e.Kind, "param:") && strings.HasSuffix(e.Kind, "=true") {
						gate = strings.TrimSuffix(e.Kind, "=true")
					}
				}
			}
		}
		nCollect := 0
		for _, path := range tr.Paths {
			if hasKind(path, "collect") {
				nCollect++
				continue
			}
			if hasKind(path, "nothing-held") {
				continue
			}
			if gate != "" && hasKind(path, gate+"=false") {
				continue
			}
			bad = "a release returns without reaching the collector on a path that neither found nothing held nor was told not to collect: " + tr.FmtPath(path) + " — a subscription that is only held by a reference cycle (or by itself) is never collected: it stays marked sent and is left out of a later resource set"
		}
		if nCollect == 0 {
			// a member of a split family may have no collector call at all (removeIndirectCount(…, false))
			if len(fams) == 1 {
				bad = "no path calls tryDelete"
			}
		}
		if tr.Trunc {
			bad = "path budget exhausted"
		}
		c.check(bad == "", fnName(fn), "a release with the collect flag set reaches the collector on every path", p.Pos(fn.Pos()), fmt.Sprintf("%d paths, %d reach tryDelete; the others found nothing held or were told not to collect", len(tr.Paths), nCollect), bad)
	}
}

// ---------------------------------------------------------------------------
// TABLE/match-literal (C05, C06, C12, C04): a pattern that contains wildcards is
// never decided by string equality. Every path of ResourcePattern.Match that
// returns `s == p.pattern` has established that the pattern has no wildcard.

func ruleMatchLiteral(c *Ctx) {
	p := c.P
	fn := p.Fn("(rescache.ResourcePattern).Match")
	fWild := p.Field("rescache.ResourcePattern.hasWild")
	fPat := p.Field("rescache.ResourcePattern.pattern")
	if fn == nil || fWild == nil || fPat == nil {
		c.undecided("(rescache.ResourcePattern).Match", "anchor", "-", "not found")
		return
	}
	c.inst(1)
	sp := &Spec{InlineHelpers: true}
	isEqPattern := func(t *Tracer, fr *Frame, v ssa.Value) bool {
		bo, ok := t.Resolve(fr, v).V.(*ssa.BinOp)
		if !ok || bo.Op != token.EQL {
			return false
		}
		for _, side := range []ssa.Value{bo.X, bo.Y} {
			rs := t.Resolve(fr, side).V
			if f, _ := fieldLoad(rs); f == fPat {
				return true
			}
			if fl, ok := rs.(*ssa.Field); ok {
				if st, ok := fl.X.Type().Underlying().(*types.Struct); ok && st.Field(fl.Field) == fPat {
					return true
				}
			}
		}
		return false
	}
	sp.Classify = func(t *Tracer, fr *Frame, in ssa.Instruction) []Ev {
		if r, ok := in.(*ssa.Return); ok && fr == t.RootFr && len(r.Results) == 1 {
			if isEqPattern(t, fr, r.Results[0]) {
				return []Ev{{Kind: "return:equal"}}
			}
		}
		return nil
	}
	isWild := func(t *Tracer, fr *Frame, v ssa.Value) bool {
		rs := t.Resolve(fr, v).V
		if f, _ := fieldLoad(rs); f == fWild {
			return true
		}
		if fl, ok := rs.(*ssa.Field); ok {
			if st, ok := fl.X.Type().Underlying().(*types.Struct); ok && st.Field(fl.Field) == fWild {
				return true
			}
		}
		return false
	}
	sp.Branch = func(t *Tracer, fr *Frame, i *ssa.If, dir bool) []Ev {
		v := i.Cond
		neg := false
		if u, ok := v.(*ssa.UnOp); ok && u.Op == token.NOT {
			v, neg = u.X, true
		}
		if isWild(t, fr, v) {
			if dir != neg {
				return []Ev{{Kind: "wild"}}
			}
			return []Ev{{Kind: "literal"}}
		}
		// `if s == p.pattern { return true }` on a wildcard path is the same shortcut
		if isEqPattern(t, fr, v) && dir != neg {
			return []Ev{{Kind: "equal-taken"}}
		}
		return nil
	}
	tr := runTrace(p, fn, sp)
	bad := ""
	nEq := 0
	for _, path := range tr.Paths {
		if !hasKind(path, "return:equal") {
			continue
		}
		nEq++
		if !hasKind(path, "literal") {
			bad = "the match is decided by comparing the name with the pattern text on a path that has not established that the pattern is free of wildcards: a wildcard pattern then matches only its own text (a reset with test.model.* misses test.model.7): " + tr.FmtPath(path)
		}
	}
	if tr.Trunc {
		bad = "path budget exhausted"
	}
	c.check(bad == "", fnName(fn), "a pattern with wildcards is never matched by string equality", p.Pos(fn.Pos()), fmt.Sprintf("%d paths, %d return the equality, all under hasWild == false", len(tr.Paths), nEq), bad)
}

// ---------------------------------------------------------------------------
// DOM/event-target (C10, C01, C03): a resource event from the messaging system
// is applied to the resource it names. In enqueueEvent, handleEvent is called on
// the entry's base resource only — the query variants of a name are separate
// resources with their own subscribers, refreshed by query events.

func ruleEventTarget(c *Ctx) {
	p := c.P
	fn := p.Fn("(*rescache.EventSubscription).enqueueEvent")
	he := p.Method("rescache.ResourceSubscription.handleEvent")
	fBase := p.Field("rescache.EventSubscription.base")
	if fn == nil || he == nil || fBase == nil {
		c.undecided("(*rescache.EventSubscription).enqueueEvent", "anchor", "-", "not found")
		return
	}
	n := 0
	for _, g := range p.withNewHelpers(fn) {
		for _, call := range callsIn(g) {
			if _, ok := isCallTo(call, he); !ok {
				continue
			}
			n++
			c.inst(1)
			recv := callArgs(call.Common())[0]
			ok := false
			seen := map[ssa.Value]bool{}
			var walk func(v ssa.Value, d int) bool
			walk = func(v ssa.Value, d int) bool {
				if v == nil || seen[v] || d > 8 {
					return false
				}
				seen[v] = true
				if f, _ := fieldLoad(v); f == fBase {
					return true
				}
				switch x := v.(type) {
				case *ssa.Phi:
					all := len(x.Edges) > 0
					for _, e := range x.Edges {
						if !walk(e, d+1) {
							all = false
						}
					}
					return all
				case *ssa.UnOp:
					if al, isAl := x.X.(*ssa.Alloc); isAl {
						all, any := true, false
						for _, r := range *al.Referrers() {
							if st, isSt := r.(*ssa.Store); isSt && st.Addr == ssa.Value(al) {
								any = true
								if !walk(st.Val, d+1) {
									all = false
								}
							}
						}
						return any && all
					}
					if fv, isFV := x.X.(*ssa.FreeVar); isFV {
						if mc := p.parent[fv.Parent()]; mc != nil {
							for i, f2 := range fv.Parent().FreeVars {
								if f2 == fv && i < len(mc.Bindings) {
									return walk(&ssa.UnOp{Op: token.MUL, X: mc.Bindings[i]}, d+1)
								}
							}
						}
					}
				case *ssa.ChangeType:
					return walk(x.X, d+1)
				}
				return false
			}
			ok = walk(stripConv(recv), 0)
			c.check(ok, fnName(g), "a resource event is applied to the resource it names (the entry's base resource)", p.InstrPos(call), "receiver is the base resource", "handleEvent is called on a resource other than the entry's base resource: an event on a name reaches the subscribers of its query variants (connections that never subscribed to the resource the event is about)")
		}
	}
	if n == 0 {
		c.viol(fnName(fn), "a resource event is applied to the resource it names (the entry's base resource)", "-", "no handleEvent call found")
	}
}

// ---------------------------------------------------------------------------
// DOM/diff-unconditional (C12, C01): the pass of the reset model diff that marks
// cached keys missing from the new model as deleted runs for every re-fetched
// model. Guarded by a size comparison it misses a key that was replaced by
// another one (same number of keys), and client and cache keep the stale key.

func ruleDiffUnconditional(c *Ctx) {
	p := c.P
	fn := p.Fn("(*rescache.ResourceSubscription).processResetModel")
	if fn == nil {
		c.undecided("(*rescache.ResourceSubscription).processResetModel", "anchor", "-", "not found")
		return
	}
	var del *ssa.Global
	if pk := p.Typs["codec"]; pk != nil {
		if o := pk.Scope().Lookup("DeleteValue"); o != nil {
			for _, spk := range p.SSA.AllPackages() {
				if spk.Pkg == pk {
					del, _ = spk.Members["DeleteValue"].(*ssa.Global)
				}
			}
		}
	}
	if del == nil {
		c.undecided("codec.DeleteValue", "anchor", "-", "not found")
		return
	}
	n := 0
	for _, g := range p.withHelpers(fn) {
		for _, in := range instrsOf(g) {
			// a map update storing the delete action
			mu, ok := in.(*ssa.MapUpdate)
			if !ok {
				continue
			}
			isDel := false
			if u, ok := mu.Value.(*ssa.UnOp); ok && u.X == ssa.Value(del) {
				isDel = true
			}
			if !isDel {
				continue
			}
			n++
			c.inst(1)
			// the loop it lies in: its header must be reached on every path from the function's entry to a return
			var header *ssa.BasicBlock
			for _, b := range g.Blocks {
				if lb := loopBody(b); lb[mu.Block()] && len(lb) > 0 {
					if header == nil || loopBody(header)[b] {
						header = b
					}
				}
			}
			bad := ""
			if header == nil {
				bad = "the delete marking is not in a loop over the cached keys"
			} else {
				for _, b := range g.Blocks {
					if len(b.Instrs) == 0 {
						continue
					}
					if _, isRet := b.Instrs[len(b.Instrs)-1].(*ssa.Return); isRet && !header.Dominates(b) {
						bad = "a path reaches the end of the diff without entering the loop that marks cached keys missing from the new model as deleted (" + p.InstrPos(b.Instrs[len(b.Instrs)-1]) + "): a property that was replaced by another one keeps its stale value in the cache and on every client"
					}
				}
			}
			c.check(bad == "", fnName(g), "every cached key missing from a re-fetched model is marked deleted", p.InstrPos(mu), "the marking loop is entered on every path", bad)
		}
	}
	if n == 0 {
		c.viol(fnName(fn), "every cached key missing from a re-fetched model is marked deleted", "-", "no delete marking found")
	}
}

// ---------------------------------------------------------------------------
// PAIR/alias-recorded (C15, C09, C13): an alias installed for a normalised
// query — the entry's base pointer or an entry of the links map pointing at the
// shared resource — is recorded in that resource's own alias list on the same
// path. unregister walks the list to clear the aliases; an alias that is not on
// it survives the resource and the next subscriber is attached to a dead
// resource (nil map write on a cache worker).

func ruleAliasRecorded(c *Ctx) {
	p := c.P
	fn := p.Fn("(*rescache.ResourceSubscription).processGetResponse")
	fBase := p.Field("rescache.EventSubscription.base")
	fLinks := p.Field("rescache.EventSubscription.links")
	fRsLinks := p.Field("rescache.ResourceSubscription.links")
	getRS := p.Method("rescache.EventSubscription.getResourceSubscription")
	if fn == nil || fBase == nil || fLinks == nil || fRsLinks == nil {
		c.undecided("(*rescache.ResourceSubscription).processGetResponse", "anchor", "-", "not found")
		return
	}
	c.inst(1)
	sp := &Spec{InlineHelpers: true}
	sp.Classify = func(t *Tracer, fr *Frame, in ssa.Instruction) []Ev {
		if getRS != nil {
			if _, ok := isCallTo(in, getRS); ok {
				return []Ev{{Kind: "lookup", Stop: true}}
			}
		}
		switch x := in.(type) {
		case *ssa.Store:
			if fa, ok := x.Addr.(*ssa.FieldAddr); ok {
				switch fieldOfAddr(fa) {
				case fBase:
					if !isNilConst(x.Val) {
						return []Ev{{Kind: "alias:base"}}
					}
				case fRsLinks:
					return []Ev{{Kind: "record"}}
				}
			}
		case *ssa.MapUpdate:
			if f, _ := fieldLoad(t.Resolve(fr, x.Map).V); f == fLinks {
				return []Ev{{Kind: "alias:link"}}
			}
		}
		return nil
	}
	tr := runTrace(p, fn, sp)
	bad := ""
	nAlias := 0
	for _, path := range tr.Paths {
		if !hasKind(path, "alias:base") && !hasKind(path, "alias:link") {
			continue
		}
		nAlias++
		if !hasKind(path, "record") {
			bad = "an alias of the normalised query resource is installed on a path that does not record it in the resource's alias list: " + tr.FmtPath(path) + " — when the resource is deleted the alias survives, and the next subscriber is attached to the dead resource"
		}
	}
	if nAlias == 0 {
		bad = "no path installs an alias"
	}
	if tr.Trunc {
		bad = "path budget exhausted"
	}
	c.check(bad == "", fnName(fn), "an alias installed for a normalised query is recorded in the resource's alias list", p.Pos(fn.Pos()), fmt.Sprintf("%d paths install an alias, each records it", nAlias), bad)
}

// ---------------------------------------------------------------------------
// TABLE/dots-after-prefix (C16, C14): the "no dot in the path" test of the HTTP
// path readers looks at the part behind the api prefix. Applied to the whole
// path it refuses every request of a gateway whose configured prefix contains a
// dot ("/api/v1.2/").

func ruleDotsAfterPrefix(c *Ctx) {
	p := c.P
	n := 0
	for _, nm := range []string{"server.PathToRID", "server.PathToRIDAction"} {
		fn := p.Fn(nm)
		if fn == nil {
			c.undecided(nm, "anchor", "-", "not found")
			continue
		}
		for _, g := range p.withHelpers(fn) {
			for _, call := range callsIn(g) {
				f := calleeFunc(call.Common())
				if f == nil || f.Pkg() == nil || (f.Pkg().Path() != "strings" && f.Pkg().Path() != "bytes") {
					continue
				}
				switch f.Name() {
				case "ContainsRune", "IndexByte", "IndexRune", "Contains", "ContainsAny", "Index", "IndexAny":
				default:
					continue
				}
				args := callArgs(call.Common())
				if len(args) < 2 {
					continue
				}
				isDot := false
				if k, ok := constInt(args[1]); ok && k == '.' {
					isDot = true
				}
				if s, ok := constString(args[1]); ok && s == "." {
					isDot = true
				}
				if !isDot {
					continue
				}
				n++
				c.inst(1)
				// the searched text passes a slice operation (the prefix cut) on the way from the parameter
				cut := false
				seen := map[ssa.Value]bool{}
				var walk func(v ssa.Value, d int, sliced bool)
				raw := false
				walk = func(v ssa.Value, d int, sliced bool) {
					if v == nil || d > 10 || seen[v] {
						return
					}
					seen[v] = true
					switch x := v.(type) {
					case *ssa.Slice:
						walk(x.X, d+1, true)
					case *ssa.Phi:
						for _, e := range x.Edges {
							walk(e, d+1, sliced)
						}
					case *ssa.Parameter:
						if sliced {
							cut = true
						} else {
							raw = true
						}
					case *ssa.Call:
						// a helper that cuts the prefix off (strings.TrimPrefix, a repository helper)
						if cf := calleeFunc(&x.Call); cf != nil && (cf.Name() == "TrimPrefix" || cf.Name() == "CutPrefix") {
							cut = true
							return
						}
						if sf := x.Call.StaticCallee(); sf != nil && p.isRepoFn(sf) {
							cut = true // derived by a helper: not the raw path
						}
					case *ssa.Extract:
						walk(x.Tuple, d+1, sliced)
					case *ssa.UnOp:
						if al, ok := x.X.(*ssa.Alloc); ok {
							for _, r := range *al.Referrers() {
								if st, ok := r.(*ssa.Store); ok && st.Addr == ssa.Value(al) {
									walk(st.Val, d+1, sliced)
								}
							}
						}
					}
				}
				walk(stripConv(args[0]), 0, false)
				c.check(cut && !raw, fnName(g), "the dot test of the path reader looks at the part behind the api prefix", p.InstrPos(call), "searched text is the path with the prefix cut off",
					"the path is searched for '.' as a whole, prefix included: with a configured api path that contains a dot every GET, HEAD and POST is answered 404")
			}
		}
	}
	if n == 0 {
		c.viol("server.PathToRID", "the dot test of the path reader looks at the part behind the api prefix", "-", "no dot test found")
	}
}

// ---------------------------------------------------------------------------
// TABLE/meta-first-byte (C18): a message on a request's inbox is a pre-response
// (meta line such as `timeout:"5000"`) exactly when it starts with an ASCII
// letter; anything else — '{', '[', '"', a digit — is the reply and completes the
// request. Decided by constant propagation over all 256 values of the first byte:
// parseMeta is reachable in the listener exactly for A–Z and a–z.

func ruleMetaFirstByte(c *Ctx) {
	p := c.P
	fn := p.Fn("(*nats.Client).listener")
	parse := p.Method("nats.Client.parseMeta")
	if fn == nil || parse == nil {
		c.undecided("(*nats.Client).listener", "anchor", "-", "not found")
		return
	}
	c.inst(1)
	// is v (an integer expression) a function of the first byte of the message data? evaluate it for b
	var evalByte func(t *Tracer, fr *Frame, v ssa.Value, b int64, d int) (int64, bool)
	evalByte = func(t *Tracer, fr *Frame, v ssa.Value, b int64, d int) (int64, bool) {
		if d > 8 {
			return 0, false
		}
		r := t.Resolve(fr, v)
		switch x := r.V.(type) {
		case *ssa.Const:
			return constInt(x)
		case *ssa.Convert:
			return evalByte(t, r.Fr, x.X, b, d+1)
		case *ssa.UnOp:
			if x.Op == token.MUL {
				if ia, ok := x.X.(*ssa.IndexAddr); ok {
					if k, isC := constInt(ia.Index); isC && k == 0 {
						if et, ok := ia.Type().Underlying().(*types.Pointer); ok {
							if bt, ok := et.Elem().Underlying().(*types.Basic); ok && bt.Kind() == types.Uint8 {
								return b, true
							}
						}
					}
				}
			}
		case *ssa.BinOp:
			a, ok1 := evalByte(t, r.Fr, x.X, b, d+1)
			bb, ok2 := evalByte(t, r.Fr, x.Y, b, d+1)
			if !ok1 || !ok2 {
				return 0, false
			}
			switch x.Op {
			case token.OR:
				return a | bb, true
			case token.AND:
				return a & bb, true
			case token.AND_NOT:
				return a &^ bb, true
			case token.SUB:
				return (a - bb) & 0xff, true
			case token.ADD:
				return (a + bb) & 0xff, true
			case token.XOR:
				return a ^ bb, true
			}
		}
		return 0, false
	}
	dependsOnByte := func(t *Tracer, fr *Frame, v ssa.Value) bool {
		a, ok1 := evalByte(t, fr, v, 0x41, 0)
		b, ok2 := evalByte(t, fr, v, 0x7b, 0)
		return ok1 && ok2 && a != b
	}
	metaFor := func(b int64) (bool, bool) {
		sp := &Spec{InlineHelpers: true}
		sp.Eval = func(t *Tracer, fr *Frame, cond ssa.Value) (bool, bool) {
			bo, ok := cond.(*ssa.BinOp)
			if !ok {
				return false, false
			}
			if _, isRel := relFlip[bo.Op]; !isRel {
				return false, false
			}
			if !dependsOnByte(t, fr, bo.X) && !dependsOnByte(t, fr, bo.Y) {
				return false, false
			}
			x, ok1 := evalByte(t, fr, bo.X, b, 0)
			y, ok2 := evalByte(t, fr, bo.Y, b, 0)
			if !ok1 || !ok2 {
				return false, false
			}
			return evalIntCmp(bo.Op, x, y)
		}
		sp.Classify = func(t *Tracer, fr *Frame, in ssa.Instruction) []Ev {
			if _, ok := isCallTo(in, parse); ok {
				return []Ev{{Kind: "meta", Stop: true}}
			}
			return nil
		}
		tr := runTrace(p, fn, sp)
		if tr.Trunc {
			return false, false
		}
		for _, path := range tr.Paths {
			if hasKind(path, "meta") {
				return true, true
			}
		}
		return false, true
	}
	var wrong []string
	for b := int64(0); b < 256; b++ {
		got, ok := metaFor(b)
		if !ok {
			c.undecided(fnName(fn), "a pre-response is recognised by an ASCII letter as first byte", p.Pos(fn.Pos()), "path budget exhausted")
			return
		}
		want := (b >= 'A' && b <= 'Z') || (b >= 'a' && b <= 'z')
		if got != want {
			if len(wrong) < 8 {
				wrong = append(wrong, fmt.Sprintf("%q", rune(b)))
			}
		}
	}
	bad := ""
	if len(wrong) > 0 {
		bad = "first bytes classified wrongly: " + strings.Join(wrong, " ") + " — a reply that starts with such a byte is taken for a pre-response and dropped (the request ends with a timeout), or a pre-response is taken for the reply"
	}
	c.check(bad == "", fnName(fn), "a pre-response is recognised by an ASCII letter as first byte", p.Pos(fn.Pos()), "256 first-byte values evaluated by constant propagation: parseMeta reachable exactly for A–Z, a–z", bad)
}

// withNewHelpers: fn, its closures, and — transitively — the functions they call
// statically that did not exist on the reference tree (helpers extracted from
// fn by a refactoring), with their closures.
func (p *Prog) withNewHelpers(fn *ssa.Function) []*ssa.Function {
	ref := map[string]bool{}
	for _, n := range loadGolden().Funcs {
		ref[n] = true
	}
	seen := map[*ssa.Function]bool{}
	var out []*ssa.Function
	var add func(f *ssa.Function, d int)
	add = func(f *ssa.Function, d int) {
		for _, g := range WithClosures(f) {
			if seen[g] {
				continue
			}
			seen[g] = true
			out = append(out, g)
			if d > 4 {
				continue
			}
			for _, call := range callsIn(g) {
				// a method that is new since the reference tree and is handed on as a function value
				// (`s.eachRef((*Subscription).countDownSent)`) belongs to the code it was extracted from
				for _, a := range call.Common().Args {
					fv, ok := stripConv(a).(*ssa.Function)
					if ok && fv.Synthetic != "" {
						// a method expression is wrapped in a thunk: the method it calls
						if m := boundMethod(fv); m != nil {
							if mf := p.SSA.FuncValue(m); mf != nil {
								fv = mf
							}
						}
					}
					if ok && p.isRepoFn(fv) && fv.Parent() == nil && len(fv.Blocks) > 0 && fv.Pkg == fn.Pkg && len(ref) > 0 && !ref[fnName(fv)] {
						add(fv, d+1)
					}
				}
				sf := call.Common().StaticCallee()
				if sf == nil || !p.isRepoFn(sf) || sf.Parent() != nil || len(sf.Blocks) == 0 || sf.Pkg != fn.Pkg {
					continue
				}
				if len(ref) > 0 && !ref[fnName(sf)] {
					add(sf, d+1)
				}
			}
		}
	}
	add(fn, 0)
	return out
}

// ---------------------------------------------------------------------------
// LOCK/balance (C15, C20, C11, C03): every function leaves each mutex as it
// found it — on every path to a normal return the Lock and Unlock calls on a
// mutex cancel out (deferred calls replayed at the exits, callees counted with
// their own net effect, closures that run later analysed on their own). A path
// that returns with a mutex still held blocks every later event, request and the
// shutdown for the resource, connection or service the mutex belongs to; a path
// that returns with one unlock too many crashes the process ("unlock of unlocked
// mutex"). The unlock windows (Unlock … Lock inside a task that runs with the
// mutex held) net to zero like every critical section.

type lockDelta map[*types.Var]int

func (d lockDelta) key(p *Prog) string {
	var parts []string
	for f, n := range d {
		if n != 0 {
			parts = append(parts, fmt.Sprintf("%s%+d", typeFieldName(p, f), n))
		}
	}
	sortStrings(parts)
	return strings.Join(parts, " ")
}

func sortStrings(s []string) {
	for i := 1; i < len(s); i++ {
		for j := i; j > 0 && s[j] < s[j-1]; j-- {
			s[j], s[j-1] = s[j-1], s[j]
		}
	}
}

// mutexOp: the call is Lock/RLock (+1) or Unlock/RUnlock (-1) of a mutex that is a
// struct field; returns the field.
func mutexOp(c *ssa.CallCommon) (*types.Var, int) {
	f := calleeFunc(c)
	if f == nil || f.Pkg() == nil || f.Pkg().Path() != "sync" {
		return nil, 0
	}
	d := 0
	switch f.Name() {
	case "Lock", "RLock":
		d = 1
	case "Unlock", "RUnlock":
		d = -1
	default:
		return nil, 0
	}
	args := callArgs(c)
	if len(args) == 0 {
		return nil, 0
	}
	if fa, ok := stripConv(args[0]).(*ssa.FieldAddr); ok {
		if fv := fieldOfAddr(fa); fv != nil {
			return fv, d
		}
	}
	return nil, 0
}

func ruleLockBalance(c *Ctx) {
	p := c.P
	// roots: named functions and closures that are not simply called / deferred where they are made
	var roots []*ssa.Function
	for _, fn := range p.Repo {
		top := TopLevel(fn)
		if top.Pkg == nil {
			continue
		}
		switch top.Pkg.Pkg.Name() {
		case "server", "rescache", "nats":
		default:
			continue
		}
		if fn.Parent() != nil {
			if mc := p.parent[fn]; mc != nil && mc.Referrers() != nil {
				onSpot := len(*mc.Referrers()) > 0
				for _, r := range *mc.Referrers() {
					cl, ok := r.(ssa.CallInstruction)
					if !ok || cl.Common().Value != ssa.Value(mc) {
						onSpot = false
					}
					if _, isGo := r.(*ssa.Go); isGo {
						onSpot = false
					}
				}
				if onSpot {
					continue
				}
			}
		}
		roots = append(roots, fn)
	}
	summary := map[*ssa.Function]lockDelta{}
	type res struct {
		keys  map[string]bool
		trunc bool
		delta lockDelta
	}
	analyse := func(fn *ssa.Function) res {
		sp := &Spec{NoHelpers: true, NoCombs: true, EdgeLimit: 1, MaxPaths: 20000}
		sp.Inline = func(t *Tracer, fr *Frame, cl ssa.CallInstruction, f *ssa.Function) bool {
			return f.Parent() != nil // closures called on the spot
		}
		sp.Classify = func(t *Tracer, fr *Frame, in ssa.Instruction) []Ev {
			cl, ok := in.(ssa.CallInstruction)
			if !ok {
				return nil
			}
			if _, isGo := in.(*ssa.Go); isGo {
				return nil
			}
			if fv, d := mutexOp(cl.Common()); fv != nil {
				return []Ev{{Kind: fmt.Sprintf("L:%p:%d", fv, d), Note: typeFieldName(p, fv)}}
			}
			if sf := cl.Common().StaticCallee(); sf != nil && sf.Parent() == nil {
				if sd := summary[sf]; len(sd) > 0 {
					var evs []Ev
					for fv, n := range sd {
						if n != 0 {
							evs = append(evs, Ev{Kind: fmt.Sprintf("L:%p:%d", fv, n), Note: typeFieldName(p, fv)})
						}
					}
					return evs
				}
			}
			return nil
		}
		tr := runTrace(p, fn, sp)
		r := res{keys: map[string]bool{}, trunc: tr.Trunc}
		byPtr := map[string]*types.Var{}
		for _, path := range tr.Paths {
			d := lockDelta{}
			for _, e := range path {
				if !strings.HasPrefix(e.Kind, "L:") {
					continue
				}
				var ptr string
				var n int
				parts := strings.Split(e.Kind, ":")
				ptr = parts[1]
				fmt.Sscanf(parts[2], "%d", &n)
				fv := byPtr[ptr]
				if fv == nil {
					// recover the field from the instruction
					if cl, ok := e.Instr.(ssa.CallInstruction); ok {
						if f2, _ := mutexOp(cl.Common()); f2 != nil {
							fv = f2
						} else if sf := cl.Common().StaticCallee(); sf != nil {
							for f3 := range summary[sf] {
								if fmt.Sprintf("%p", f3) == ptr {
									fv = f3
								}
							}
						}
					}
					byPtr[ptr] = fv
				}
				if fv != nil {
					d[fv] += n
				}
			}
			r.keys[d.key(p)] = true
			r.delta = d
		}
		return r
	}
	// callee summaries to a fixpoint (static calls only; the repository has no lock-transferring recursion)
	results := map[*ssa.Function]res{}
	for round := 0; round < 4; round++ {
		changed := false
		for _, fn := range roots {
			r := analyse(fn)
			results[fn] = r
			if fn.Parent() == nil && len(r.keys) == 1 {
				nd := lockDelta{}
				for f, n := range r.delta {
					if n != 0 {
						nd[f] = n
					}
				}
				if nd.key(p) != summary[fn].key(p) {
					summary[fn] = nd
					changed = true
				}
			}
		}
		if !changed {
			break
		}
	}
	nLock := 0
	for _, fn := range roots {
		r := results[fn]
		has := false
		for _, call := range callsIn(fn) {
			if fv, _ := mutexOp(call.Common()); fv != nil {
				has = true
			}
		}
		if !has && len(r.keys) <= 1 {
			only := ""
			for k := range r.keys {
				only = k
			}
			if only == "" {
				continue
			}
		}
		nLock++
		c.inst(1)
		what := "leaves every mutex as it found it on every path to a return"
		pos := p.Pos(fn.Pos())
		if r.trunc {
			c.undecided(fnName(fn), what, pos, "path budget exhausted")
			continue
		}
		var ks []string
		for k := range r.keys {
			if k == "" {
				k = "balanced"
			}
			ks = append(ks, k)
		}
		sortStrings(ks)
		switch {
		case len(r.keys) > 1:
			c.viol(fnName(fn), what, pos, "the paths of this function disagree on what they leave locked ("+strings.Join(ks, " | ")+"): on some path a mutex is still held at the return (everything that needs it afterwards blocks for ever) or is unlocked once too often (fatal error: unlock of unlocked mutex)")
		case len(r.keys) == 1 && ks[0] != "balanced":
			c.viol(fnName(fn), what, pos, "every path returns with "+ks[0]+": the mutex is left held (or released without being held)")
		default:
			c.ok(fnName(fn), what, pos, "Lock and Unlock cancel out on every path")
		}
	}
	if nLock == 0 {
		c.viol("repository", "leaves every mutex as it found it on every path to a return", "-", "no function locks a mutex")
	}
}

// ---------------------------------------------------------------------------
// LOCK/guarded-fields (C15, C20, C11, C18, C19): the fields each mutex guards
// (frozen table, discovered on the reference tree where every access outside a
// constructor lies inside the mutex's critical sections) are read and written
// with that mutex held. Lock state is tracked flow-sensitively inside each
// function and handed to callees as the meet over their call sites. An access
// that moved out of its critical section (a `defer mu.Unlock()` that lost its
// defer, a check hoisted above the Lock) is a data race on a map or slice —
// "concurrent map iteration and map write" terminates the gateway — or a
// check-then-act on stale state.

type guardedEntry struct {
	Mu, Field string
	Except    map[string]string // function -> why an access outside the critical sections is fine there
}

var guardedTable = []guardedEntry{
	{"rescache.Cache.mu", "rescache.Cache.eventSubs", map[string]string{"(*rescache.Cache).Start": "re-created before the workers and the reset subscription exist"}},
	{"rescache.Cache.mu", "rescache.Cache.conns", nil},
	{"server.Service.mu", "server.Service.conns", map[string]string{"(*server.Service).initWSHandler": "initialisation in NewService"}},
	{"server.Service.mu", "server.Service.stopping", nil},
	{"server.Service.mu", "server.Service.stop", nil},
	{"server.Service.mu", "server.Service.h", nil},
	{"nats.Client.mu", "nats.Client.mqReqs", nil},
	{"nats.Client.mu", "nats.Client.mq", nil},
	{"nats.Client.mu", "nats.Client.tq", nil},
	{"nats.Client.mu", "nats.Client.mqCh", nil},
	{"nats.Client.mu", "nats.Client.stopped", nil},
	{"rescache.Throttle.mu", "rescache.Throttle.running", nil},
	{"rescache.Throttle.mu", "rescache.Throttle.queue", nil},
	{"server.wsConn.mu", "server.wsConn.queue", map[string]string{"(*server.wsConn).outputWorker": "the store of nil after the work channel was closed: the flag set under the same mutex makes every later Enqueue refuse"}},
}

func ruleGuardedFields(c *Ctx) {
	p := c.P
	memo := map[*types.Var]map[*ssa.Function]map[ssa.Instruction]int{}
	for _, ge := range guardedTable {
		mu, fld := p.Field(ge.Mu), p.Field(ge.Field)
		if mu == nil || fld == nil {
			c.undecided(ge.Field, "anchor", "-", "mutex or field not found")
			continue
		}
		if memo[mu] == nil {
			memo[mu] = p.lockStatesGeneric(mu)
		}
		states := memo[mu]
		nHeld := 0
		for _, fa := range p.faddrs[fld] {
			if freshBase(fa.X) {
				continue // construction
			}
			// the address only handed on (`s.shutdownServer(&s.httpSrv, …)`): the access is where it is dereferenced
			touched := false
			if fa.Referrers() != nil {
				for _, r := range *fa.Referrers() {
					switch y := r.(type) {
					case *ssa.UnOp, *ssa.Store, *ssa.MapUpdate, *ssa.Lookup, *ssa.Range, *ssa.IndexAddr, *ssa.FieldAddr:
						touched = true
					case ssa.CallInstruction:
						if _, isB := y.Common().Value.(*ssa.Builtin); isB {
							touched = true
						}
					default:
						touched = true
					}
				}
			}
			if !touched {
				continue
			}
			fn := fa.Parent()
			st := 0
			if m := states[fn]; m != nil {
				st = m[fa]
			}
			c.inst(1)
			what := "access of " + ge.Field[strings.LastIndex(ge.Field, ".")+1:] + " under " + ge.Mu
			if st == 1 {
				nHeld++
				c.ok(fnName(fn), what, p.InstrPos(fa), "mutex held")
				continue
			}
			excepted := false
			owners := []string{fnName(TopLevel(fn))}
			if !p.onReferenceTree(TopLevel(fn)) {
				owners = append(owners, p.ownerChain(fn)...) // a helper extracted from the excepted function
			}
			// an excepted function that was renamed is found by what it is (p.Fn resolves renames and roles)
			for ex := range ge.Except {
				if f := p.Fn(ex); f != nil {
					for _, o := range append([]string{}, owners...) {
						if p.ByNm[o] == f {
							owners = append(owners, ex)
						}
					}
				}
			}
			for _, o := range owners {
				if why, ok := ge.Except[o]; ok {
					c.ok(fnName(fn), what, p.InstrPos(fa), "exception: "+why)
					excepted = true
					break
				}
			}
			if excepted {
				continue
			}
			kind := "not held"
			if st == 2 {
				kind = "held on some paths (or at some call sites) only"
			}
			c.viol(fnName(fn), what, p.InstrPos(fa), ge.Field+" is touched with "+ge.Mu+" "+kind+": every other access lies inside the mutex's critical sections — an unsynchronised access races with them (a map or slice read while it is written: 'concurrent map iteration and map write' ends the process; a test of stale state lets a connection in while the service stops)")
		}
		if nHeld == 0 {
			c.viol(ge.Field, "access under "+ge.Mu, "-", "no access under the mutex found")
		}
	}
}

// lockStatesGeneric: like esLockStates for any mutex field: every function of
// the mutex's package gets the meet of the lock state over its static call
// sites as entry state; closures start free unless they are called where they
// are made.
func (p *Prog) lockStatesGeneric(mu *types.Var) map[*ssa.Function]map[ssa.Instruction]int {
	pkg := mu.Pkg()
	entry := map[*ssa.Function]int{}
	var fns []*ssa.Function
	for _, f := range p.Repo {
		top := TopLevel(f)
		if top.Pkg != nil && top.Pkg.Pkg == pkg {
			fns = append(fns, f)
			entry[f] = -1
		}
	}
	onSpot := func(f *ssa.Function) bool {
		mc := p.parent[f]
		if mc == nil || mc.Referrers() == nil || len(*mc.Referrers()) == 0 {
			return false
		}
		for _, r := range *mc.Referrers() {
			cl, ok := r.(ssa.CallInstruction)
			if !ok || cl.Common().Value != ssa.Value(mc) {
				return false
			}
			if _, isGo := r.(*ssa.Go); isGo {
				return false
			}
		}
		return true
	}
	hasCaller := map[*ssa.Function]bool{}
	for _, f := range fns {
		for _, call := range callsIn(f) {
			if _, isGo := call.(*ssa.Go); isGo {
				continue
			}
			if sf := call.Common().StaticCallee(); sf != nil && sf != f {
				if _, ok := entry[sf]; ok {
					hasCaller[sf] = true
				}
			}
		}
	}
	for _, f := range fns {
		if f.Parent() != nil && !onSpot(f) {
			entry[f] = 0
		}
		if f.Parent() == nil && (!hasCaller[f] || (f.Object() != nil && f.Object().Exported())) {
			entry[f] = 0 // entry points: exported, or not called inside the package
		}
	}
	states := map[*ssa.Function]map[ssa.Instruction]int{}
	for iter := 0; iter < 100; iter++ {
		changed := false
		for _, f := range fns {
			if entry[f] != -1 {
				states[f] = lockStates(f, mu, entry[f])
			}
		}
		for _, f := range fns {
			st := states[f]
			if st == nil {
				continue
			}
			for _, call := range callsIn(f) {
				if _, isGo := call.(*ssa.Go); isGo {
					continue
				}
				var tgt *ssa.Function
				if sf := call.Common().StaticCallee(); sf != nil {
					tgt = sf
				} else if mc, ok := call.Common().Value.(*ssa.MakeClosure); ok {
					tgt = mc.Fn.(*ssa.Function)
				}
				if tgt == nil {
					continue
				}
				old, ok := entry[tgt]
				if !ok {
					continue
				}
				s := st[call]
				if _, isDefer := call.(*ssa.Defer); isDefer {
					// runs at the exits: the state there — approximated by the state at the last return
					for _, b := range f.Blocks {
						if len(b.Instrs) > 0 {
							if r, isR := b.Instrs[len(b.Instrs)-1].(*ssa.Return); isR {
								s = st[r]
							}
						}
					}
				}
				n := old
				switch {
				case old == -1:
					n = s
				case old != s:
					n = 2
				}
				if tgt.Object() != nil && tgt.Object().Exported() && tgt.Parent() == nil && n == 1 {
					n = 2 // exported: may also be entered from outside without the lock
				}
				if n != old {
					entry[tgt] = n
					changed = true
				}
			}
		}
		if !changed {
			progressed := false
			for _, f := range fns {
				if entry[f] == -1 {
					entry[f] = 0
					progressed = true
					break
				}
			}
			if !progressed {
				break
			}
		}
	}
	for _, f := range fns {
		if states[f] == nil && entry[f] != -1 {
			states[f] = lockStates(f, mu, entry[f])
		}
	}
	return states
}

// cmdLockStats prints, per mutex field and sibling field, how many accesses lie
// under the mutex (table authoring aid for LOCK/guarded-fields).
func cmdLockStats(args []string) int {
	repo := "/repo"
	if len(args) > 0 {
		repo = args[0]
	}
	p, err := Load(repo, "")
	if err != nil {
		fmt.Println(err)
		return 2
	}
	for f := range p.faddrs {
		if !strings.HasSuffix(f.Type().String(), "sync.Mutex") && !strings.HasSuffix(f.Type().String(), "sync.RWMutex") {
			continue
		}
		owner := fieldOwner(p, f)
		states := p.lockStatesGeneric(f)
		fmt.Printf("== %s.%s\n", owner, f.Name())
		n := p.Named(owner)
		if n == nil {
			continue
		}
		st, _ := n.Underlying().(*types.Struct)
		for k := 0; st != nil && k < st.NumFields(); k++ {
			g := st.Field(k)
			if g == f {
				continue
			}
			held, free, either, ctor := 0, 0, 0, 0
			var freeAt []string
			for _, fa := range p.faddrs[g] {
				if _, isAlloc := fa.X.(*ssa.Alloc); isAlloc {
					ctor++
					continue
				}
				s := 0
				if m := states[fa.Parent()]; m != nil {
					s = m[fa]
				}
				switch s {
				case 1:
					held++
				case 0:
					free++
					freeAt = append(freeAt, fnName(fa.Parent()))
				default:
					either++
					freeAt = append(freeAt, fnName(fa.Parent())+"?")
				}
			}
			if held+free+either == 0 {
				continue
			}
			fmt.Printf("   %-18s held=%d free=%d either=%d ctor=%d %v\n", g.Name(), held, free, either, ctor, freeAt)
		}
	}
	return 0
}

// onReferenceTree: the function existed (under this name) on the tree the rule
// tables were written for.
func (p *Prog) onReferenceTree(fn *ssa.Function) bool {
	g := loadGolden()
	if len(g.Funcs) == 0 {
		return true
	}
	n := fnName(fn)
	for _, x := range g.Funcs {
		if x == n {
			return true
		}
	}
	return false
}

// refOwnerName: the name an obligation about fn is filed under: fn's own name, or —
// when fn is a helper that did not exist on the reference tree — the function of
// the reference tree it was extracted from (its only static caller, transitively).
func (p *Prog) refOwnerName(fn *ssa.Function) string {
	top := TopLevel(fn)
	if p.onReferenceTree(top) {
		return fnName(fn)
	}
	for _, o := range p.ownerChain(fn) {
		if f := p.ByNm[o]; f != nil && p.onReferenceTree(f) {
			return o
		}
	}
	return fnName(fn)
}

// rootParamRole: v is (a field of) a parameter of the root function — `direct`,
// or `rel.direct` for a parameter object `rel countRelease` — seen from any
// frame of the path. Returns the role name (the parameter's or the field's
// name) and its type.
func rootParamRole(t *Tracer, fr *Frame, v ssa.Value) (string, types.Type) {
	r := t.Resolve(fr, v)
	isRootParam := func(x ssa.Value, xfr *Frame) *ssa.Parameter {
		rx := t.Resolve(xfr, x)
		if prm, ok := rx.V.(*ssa.Parameter); ok && (rx.Fr == t.RootFr || rx.Fr == nil) && prm.Parent() == t.Root {
			return prm
		}
		// a struct parameter spilled to a local cell
		if al, ok := rx.V.(*ssa.Alloc); ok && al.Referrers() != nil {
			var val ssa.Value
			n := 0
			for _, rr := range *al.Referrers() {
				if st, ok := rr.(*ssa.Store); ok && st.Addr == ssa.Value(al) {
					val = st.Val
					n++
				}
			}
			if n == 1 {
				if prm, ok := val.(*ssa.Parameter); ok && prm.Parent() == t.Root {
					return prm
				}
			}
		}
		return nil
	}
	switch x := r.V.(type) {
	case *ssa.Parameter:
		if (r.Fr == t.RootFr || r.Fr == nil) && x.Parent() == t.Root {
			return x.Name(), x.Type()
		}
	case *ssa.UnOp:
		if x.Op == token.MUL {
			if fa, ok := x.X.(*ssa.FieldAddr); ok {
				if prm := isRootParam(fa.X, r.Fr); prm != nil {
					if f := fieldOfAddr(fa); f != nil {
						return f.Name(), f.Type()
					}
				}
			}
		}
	case *ssa.Field:
		if prm := isRootParam(x.X, r.Fr); prm != nil {
			if st, ok := x.X.Type().Underlying().(*types.Struct); ok {
				return st.Field(x.Field).Name(), st.Field(x.Field).Type()
			}
		}
	}
	return "", nil
}

// callRoleArg: the argument of a call that plays the named role: the positional
// argument when the callee still has a parameter of that name, else the value a
// composite-literal argument (a parameter object) gives the field of that name.
// ok=false when the role cannot be found; a field the literal leaves out is nil.
func callRoleArg(call ssa.CallInstruction, role string) (ssa.Value, bool) {
	com := call.Common()
	args := callArgs(com)
	var sig *types.Signature
	if f := calleeFunc(com); f != nil {
		sig, _ = f.Type().(*types.Signature)
	}
	if sig != nil {
		off := 0
		if sig.Recv() != nil {
			off = 1
		}
		for i := 0; i < sig.Params().Len(); i++ {
			if sig.Params().At(i).Name() == role && i+off < len(args) {
				return args[i+off], true
			}
		}
	}
	for _, a := range args {
		st, ok := a.Type().Underlying().(*types.Struct)
		if !ok {
			continue
		}
		idx := -1
		for k := 0; k < st.NumFields(); k++ {
			if st.Field(k).Name() == role {
				idx = k
			}
		}
		if idx < 0 {
			continue
		}
		u, ok := stripConv(a).(*ssa.UnOp)
		if !ok {
			return nil, false
		}
		al, ok := u.X.(*ssa.Alloc)
		if !ok {
			return nil, false
		}
		for _, r := range *al.Referrers() {
			if fa, ok := r.(*ssa.FieldAddr); ok && fa.Field == idx {
				for _, r2 := range *fa.Referrers() {
					if s, ok := r2.(*ssa.Store); ok && s.Addr == ssa.Value(fa) {
						return s.Val, true
					}
				}
			}
		}
		return nil, true // left at its zero value
	}
	return nil, false
}

// freshBase: the address is (a member of a member of …) an object allocated in this very function: the
// object is under construction and nobody else can see it yet.
func freshBase(v ssa.Value) bool {
	for d := 0; d < 4; d++ {
		switch x := v.(type) {
		case *ssa.Alloc:
			return true
		case *ssa.FieldAddr:
			v = x.X
		default:
			return false
		}
	}
	return false
}

// ---------------------------------------------------------------------------
// TABLE/legacy-select (C01, C02): which encoding a client gets is decided by its
// negotiated protocol version in one way everywhere: versions below the one
// that introduced soft references and data values (1.2.1) get the legacy
// encoding, that version and later ones the current encoding.
//   - every comparison of ProtocolVersion() with a constant in package server is
//     `version < versionSoftResourceReferenceAndDataValue`;
//   - every use of a legacy encoder outside the legacy encoders themselves is
//     dominated by the true edge of such a test, and no such use lies under a
//     false edge.
// In rescache the legacy marshalers convert exactly when a value is a soft
// reference or a data value, and hand the resource to the current marshaler
// otherwise.

func ruleLegacySelect(c *Ctx) {
	p := c.P
	kSoft := p.ConstInt("server.versionSoftResourceReferenceAndDataValue", -1)
	if kSoft < 0 {
		c.undecided("server.versionSoftResourceReferenceAndDataValue", "anchor", "-", "constant not found")
		return
	}
	isVersionCall := func(v ssa.Value) bool {
		cl, ok := v.(*ssa.Call)
		if !ok {
			return false
		}
		f := calleeFunc(&cl.Call)
		return f != nil && f.Name() == "ProtocolVersion"
	}
	// proper: the edge dir of i establishes version < kSoft
	versionTest := func(i *ssa.If) (legacyDir bool, proper bool, isTest bool) {
		bo, ok := i.Cond.(*ssa.BinOp)
		if !ok {
			return
		}
		var op token.Token
		var k int64
		switch {
		case isVersionCall(bo.X):
			kk, isC := constInt(bo.Y)
			if !isC {
				return
			}
			op, k = bo.Op, kk
		case isVersionCall(bo.Y):
			kk, isC := constInt(bo.X)
			if !isC {
				return
			}
			op, k = relSwap[bo.Op], kk
		default:
			return
		}
		isTest = true
		switch {
		case op == token.LSS && k == kSoft:
			return true, true, true
		case op == token.GEQ && k == kSoft:
			return false, true, true
		case op == token.LEQ && k == kSoft-1:
			return true, true, true
		case op == token.GTR && k == kSoft-1:
			return false, true, true
		}
		return false, false, true
	}
	isLegacyMarker := func(in ssa.Instruction) bool {
		switch x := in.(type) {
		case ssa.CallInstruction:
			if f := calleeFunc(x.Common()); f != nil && strings.Contains(f.Name(), "Legacy") {
				// a legacy encoder of the reference tree — not a new predicate such as usesLegacyEncoding()
				if sf := x.Common().StaticCallee(); sf == nil || p.onReferenceTree(sf) {
					return true
				}
			}
		case *ssa.ChangeType:
			return strings.Contains(x.Type().String(), "Legacy")
		case *ssa.Convert:
			return strings.Contains(x.Type().String(), "Legacy")
		}
		return false
	}
	nTests := 0
	for _, fn := range p.Repo {
		if !inScopePkgs(fn, "server") {
			continue
		}
		top := TopLevel(fn)
		selfLegacy := strings.Contains(top.Name(), "Legacy")
		for _, in := range instrsOf(fn) {
			bo, isBo := in.(*ssa.BinOp)
			if !isBo {
				continue
			}
			if _, proper, isTest := versionTest(&ssa.If{Cond: bo}); isTest {
				nTests++
				c.inst(1)
				c.check(proper, fnName(fn), "a protocol version is compared as `version < 1.2.1` (legacy below, current from 1.2.1 on)", p.InstrPos(bo), "version < versionSoftResourceReferenceAndDataValue",
					"the negotiated protocol version is compared in another way than `< versionSoftResourceReferenceAndDataValue`: a client that negotiated exactly 1.2.1 (or a neighbouring version) is served the other dialect — soft references and data values arrive in a form it cannot read")
			}
		}
		if selfLegacy {
			continue
		}
		for _, in := range instrsOf(fn) {
			if !isLegacyMarker(in) {
				continue
			}
			c.inst(1)
			under := func(i *ssa.If) (bool, bool) {
				if ld, proper, isTest := versionTest(i); isTest && proper {
					return ld, true
				}
				// `legacy := s.usesLegacyEncoding()` … `if legacy`: a local holding the result of a predicate that
				// returns the version test
				v := i.Cond
				neg := false
				if u, ok := v.(*ssa.UnOp); ok && u.Op == token.NOT {
					v, neg = u.X, true
				}
				if u, ok := v.(*ssa.UnOp); ok && u.Op == token.MUL {
					if al, ok := u.X.(*ssa.Alloc); ok {
						var val ssa.Value
						ns := 0
						for _, r := range *al.Referrers() {
							if st, ok := r.(*ssa.Store); ok && st.Addr == ssa.Value(al) {
								val = st.Val
								ns++
							}
						}
						if ns == 1 {
							v = val
						}
					}
					if fv, ok := u.X.(*ssa.FreeVar); ok {
						if mc := p.parent[fv.Parent()]; mc != nil {
							for bi, f2 := range fv.Parent().FreeVars {
								if f2 == fv && bi < len(mc.Bindings) {
									if al, ok := mc.Bindings[bi].(*ssa.Alloc); ok {
										for _, r := range *al.Referrers() {
											if st, ok := r.(*ssa.Store); ok && st.Addr == ssa.Value(al) {
												v = st.Val
											}
										}
									}
								}
							}
						}
					}
				}
				if isProperExprLS(p, v, versionTest) {
					return !neg, true
				}
				return false, false
			}
			wrong := func(i *ssa.If) (bool, bool) {
				if ld, proper, isTest := versionTest(i); isTest && proper {
					return !ld, true
				}
				return false, false
			}
			okU := p.guardedBy(in, under) != nil
			if !okU && fn.Parent() == nil && p.guardedUp(in, under, 0) {
				okU = true
			}
			if !okU {
				// the selection handed down as a bool parameter (populate(r, indirect, legacy)): the marker lies on the
				// true edge of that parameter, and every caller passes the version test (or its own such parameter)
				isProperExpr := func(v ssa.Value) bool {
					v = stripConv(v)
					if bo, ok := v.(*ssa.BinOp); ok {
						ld, proper, isTest := versionTest(&ssa.If{Cond: bo})
						return isTest && proper && ld
					}
					if cl, ok := v.(*ssa.Call); ok {
						if sf := cl.Call.StaticCallee(); sf != nil && p.isRepoFn(sf) {
							for _, in2 := range instrsOf(sf) {
								if r, ok := in2.(*ssa.Return); ok && len(r.Results) == 1 {
									if bo, ok := r.Results[0].(*ssa.BinOp); ok {
										ld, proper, isTest := versionTest(&ssa.If{Cond: bo})
										return isTest && proper && ld
									}
								}
							}
						}
					}
					return false
				}
				top := TopLevel(fn)
				for pi, prm := range top.Params {
					if bt, ok := prm.Type().Underlying().(*types.Basic); !ok || bt.Kind() != types.Bool {
						continue
					}
					byParam := func(i *ssa.If) (bool, bool) {
						if i.Cond == ssa.Value(prm) {
							return true, true
						}
						return false, false
					}
					if p.guardedBy(in, byParam) == nil {
						continue
					}
					all, any := true, false
					if node := p.CG.Nodes[top]; node != nil {
						for _, e := range node.In {
							if e.Site == nil || e.Site.Common().StaticCallee() != top {
								continue
							}
							any = true
							args := callArgs(e.Site.Common())
							if pi >= len(args) {
								all = false
								continue
							}
							a := stripConv(args[pi])
							if ap, isP := a.(*ssa.Parameter); isP && ap.Parent() == top {
								continue // handed down unchanged in the recursion
							}
							if b, isC := constBool(a); isC {
								if !b {
									continue // never selects the legacy form
								}
								if strings.Contains(TopLevel(e.Caller.Func).Name(), "Legacy") {
									continue // the legacy twin kept as a thin wrapper
								}
							}
							if !isProperExpr(a) {
								all = false
							}
						}
					}
					if any && all {
						okU = true
					}
				}
			}
			bad := ""
			if !okU {
				// decided only where the selection is made next to the use: the function (with its closures) consults
				// the version itself. A selection carried by an enum, a strategy object or a parameter whose callers
				// are not in view is not re-derived here.
				local := false
				for _, g := range []*ssa.Function{fn} {
					for _, gb := range g.Blocks { // also a test that a constant condition has disabled
						for _, in3 := range gb.Instrs {
							if bo, ok := in3.(*ssa.BinOp); ok {
								if _, _, isTest := versionTest(&ssa.If{Cond: bo}); isTest {
									local = true
								}
							}
						}
					}
				}
				if local {
					bad = "a legacy encoder is used on a path that has not established that the client's protocol version is below 1.2.1: current clients are sent the 1.2.0 dialect (soft references as strings, data values as placeholders)"
				}
			}
			if p.guardedBy(in, wrong) != nil {
				bad = "a legacy encoder is used on the branch for clients at or above 1.2.1 (the selection is inverted)"
			}
			c.check(bad == "", fnName(fn), "legacy encoders are used exactly for clients below 1.2.1", p.InstrPos(in), "dominated by the version < 1.2.1 edge", bad)
		}
	}
	if nTests == 0 {
		c.viol("server", "a protocol version is compared as `version < 1.2.1`", "-", "no protocol version test found")
	}
	// the other half: where the legacy twin of an encoder exists, the current one is used only for clients at or
	// above 1.2.1 — on the other edge of the same test
	if cur, leg := p.fnNoRole("(*server.Subscription).populateResources"), p.fnNoRole("(*server.Subscription).populateResourcesLegacy"); cur != nil && leg != nil && cur != leg {
		notLegacy := func(i *ssa.If) (bool, bool) {
			if ld, proper, isTest := versionTest(i); isTest && proper {
				return !ld, true
			}
			return false, false
		}
		for _, fn := range p.Repo {
			if !inScopePkgs(fn, "server") || TopLevel(fn) == cur || TopLevel(fn) == leg {
				continue
			}
			for _, call := range callsIn(fn) {
				if call.Common().StaticCallee() != cur {
					continue
				}
				c.inst(1)
				c.check(p.guardedBy(call, notLegacy) != nil, fnName(fn), "the current encoders are used exactly for clients at or above 1.2.1", p.InstrPos(call), "dominated by the version >= 1.2.1 edge",
					"the current resource encoding is placed on a path that has not established that the client's protocol version is at least 1.2.1: clients that negotiated 1.2.0 are sent soft references and data values in a form they cannot read")
			}
		}
	}
	// rescache: the legacy marshalers convert exactly for soft references and data values
	kSoftRef := p.ConstInt("codec.ValueTypeSoftReference", -1)
	kData := p.ConstInt("codec.ValueTypeData", -1)
	fType := p.Field("codec.Value.Type")
	for _, nm := range []string{"(*rescache.Legacy120Model).MarshalJSON", "(*rescache.Legacy120Collection).MarshalJSON"} {
		fn := p.Fn(nm)
		if fn == nil || fType == nil || kSoftRef < 0 || kData < 0 {
			c.undecided(nm, "anchor", "-", "not found")
			continue
		}
		c.inst(1)
		sp := &Spec{EdgeLimit: 1}
		sp.Classify = func(t *Tracer, fr *Frame, in ssa.Instruction) []Ev {
			if cl, ok := in.(ssa.CallInstruction); ok {
				if sf := cl.Common().StaticCallee(); sf != nil && sf.Name() == "MarshalJSON" && sf.Signature.Recv() != nil {
					rt := sf.Signature.Recv().Type().String()
					if strings.HasSuffix(rt, "rescache.Model") || strings.HasSuffix(rt, "rescache.Collection") {
						return []Ev{{Kind: "current", Stop: true}}
					}
					if strings.Contains(rt, "Legacy") {
						return []Ev{{Kind: "convert", Stop: true}}
					}
				}
				if f := calleeFunc(cl.Common()); f != nil && f.Pkg() != nil && f.Pkg().Path() == "encoding/json" && f.Name() == "Marshal" {
					return []Ev{{Kind: "convert"}}
				}
			}
			return nil
		}
		sp.Branch = func(t *Tracer, fr *Frame, i *ssa.If, dir bool) []Ev {
			x, op, k, ok := cmpConst(i.Cond)
			if !ok || (op != token.EQL && op != token.NEQ) {
				return nil
			}
			if f, _ := fieldLoad(t.Resolve(fr, x).V); f != fType {
				if fl, isF := t.Resolve(fr, x).V.(*ssa.Field); !isF || fl.X.Type().Underlying().(*types.Struct).Field(fl.Field) != fType {
					return nil
				}
			}
			if k != kSoftRef && k != kData {
				return nil
			}
			if (op == token.EQL) == dir {
				return []Ev{{Kind: "needs-legacy-form"}}
			}
			return nil
		}
		tr := runTrace(p, fn, sp)
		bad := ""
		nConv, nCur := 0, 0
		for _, path := range tr.Paths {
			if hasKind(path, "convert") {
				nConv++
				// (converting a resource that needs no conversion costs time and yields the same bytes: no obligation)
			}
			if hasKind(path, "current") {
				nCur++
				if hasKind(path, "needs-legacy-form") {
					bad = "a resource holding a soft reference or a data value is handed to a 1.2.0 client in the current encoding (objects it cannot read) — the conversion test is inverted or skipped: " + tr.FmtPath(path)
				}
			}
		}
		if nConv == 0 {
			bad = fmt.Sprintf("shape not recognised (%d converting, %d current paths)", nConv, nCur)
		}
		c.check(bad == "" && !tr.Trunc, nm, "a 1.2.0 client gets the converted form whenever the resource holds a soft reference or a data value", p.Pos(fn.Pos()), fmt.Sprintf("%d paths convert, %d hand the current encoding on", nConv, nCur), bad)
	}
}

// ---------------------------------------------------------------------------
// DOM/ready-continuation-live (C02, C11): an event that adds a reference waits
// for the referenced resources to load; when they have, the continuation sends
// the event only if its subscription is still alive. Every Send (and every
// hand-out of resources) inside a closure given to OnReady by a method of
// Subscription lies under the test `state != disposed` of that subscription —
// tested in the continuation itself, not before the wait.

func ruleReadyContinuationLive(c *Ctx) {
	p := c.P
	onReady := p.Method("server.Subscription.OnReady")
	fState := p.Field("server.Subscription.state")
	kDisposed := p.ConstInt("server.stateDisposed", -1)
	if onReady == nil || fState == nil || kDisposed < 0 {
		c.undecided("(*server.Subscription).OnReady", "anchor", "-", "not found")
		return
	}
	alive := func(i *ssa.If) (bool, bool) {
		x, op, k, ok := cmpConst(i.Cond)
		if !ok || k != kDisposed {
			return false, false
		}
		f, base := fieldLoad(x)
		if f != fState {
			return false, false
		}
		// the subscription whose event this is — the receiver of the handler — not the referenced one
		if base != nil && !isOwnReceiver(p, base) {
			return false, false
		}
		switch op {
		case token.EQL:
			return false, true
		case token.NEQ:
			return true, true
		}
		return false, false
	}
	n := 0
	for _, fn := range p.Repo {
		top := TopLevel(fn)
		if top.Pkg == nil || top.Pkg.Pkg.Name() != "server" || top.Signature.Recv() == nil || !strings.HasSuffix(top.Signature.Recv().Type().String(), "server.Subscription") {
			continue
		}
		for _, call := range callsIn(fn) {
			if _, ok := isCallTo(call, onReady); !ok {
				continue
			}
			args := callArgs(call.Common())
			mc, ok := stripConv(args[len(args)-1]).(*ssa.MakeClosure)
			if !ok {
				continue
			}
			// what counts as sending, seen from the continuation: Send / GetRPCResources themselves, or a helper
			// that did not exist on the reference tree and (transitively) does one of them
			var sends func(f *ssa.Function, d int) bool
			sends = func(f *ssa.Function, d int) bool {
				if d > 4 || f == nil {
					return false
				}
				for _, c3 := range callsIn(f) {
					cf := calleeFunc(c3.Common())
					if cf != nil && (cf.Name() == "Send" || cf.Name() == "GetRPCResources") {
						return true
					}
					if sf := c3.Common().StaticCallee(); sf != nil && p.isRepoFn(sf) && !p.onReferenceTree(sf) && sends(sf, d+1) {
						return true
					}
				}
				return false
			}
			g := mc.Fn.(*ssa.Function)
			for _, c2 := range callsIn(g) {
				f := calleeFunc(c2.Common())
				isSend := f != nil && (f.Name() == "Send" || f.Name() == "GetRPCResources")
				if !isSend {
					if sf := c2.Common().StaticCallee(); sf != nil && p.isRepoFn(sf) && !p.onReferenceTree(sf) && sends(sf, 0) {
						isSend = true
					}
				}
				if !isSend {
					continue
				}
				n++
				c.inst(1)
				ok := p.guardedByOpt(c2, alive, false) != nil
				if !ok && !(f != nil && (f.Name() == "Send" || f.Name() == "GetRPCResources")) {
					// the body of the continuation moved into a named method (new since the reference tree) that makes the
					// test itself: every send inside it lies behind the test
					if sf := c2.Common().StaticCallee(); sf != nil {
						all, any := true, false
						for _, h := range p.withNewHelpers(sf) {
							for _, c3 := range callsIn(h) {
								cf := calleeFunc(c3.Common())
								if cf != nil && (cf.Name() == "Send" || cf.Name() == "GetRPCResources") {
									any = true
									if p.guardedBy(c3, alive) == nil {
										all = false
									}
								}
							}
						}
						ok = any && all
					}
				}
				c.check(ok, fnName(g), "a continuation that waited for references sends only for a live subscription", p.InstrPos(c2), "under state != disposed, tested in the continuation",
					"after the wait for the referenced resources the event is sent (resources handed out) without testing that the subscription is still alive: a resource the client has unsubscribed, or a connection that is gone, is sent an event and its references are counted as sent")
			}
		}
	}
	if n == 0 {
		c.viol("server.Subscription", "a continuation that waited for references sends only for a live subscription", "-", "no such continuation found")
	}
}

// isProperExprLS: v is the version test `version < 1.2.1` itself or a call of a predicate that returns it.
func isProperExprLS(p *Prog, v ssa.Value, versionTest func(*ssa.If) (bool, bool, bool)) bool {
	v = stripConv(v)
	if bo, ok := v.(*ssa.BinOp); ok {
		ld, proper, isTest := versionTest(&ssa.If{Cond: bo})
		return isTest && proper && ld
	}
	if cl, ok := v.(*ssa.Call); ok {
		if sf := cl.Call.StaticCallee(); sf != nil && p.isRepoFn(sf) {
			for _, in2 := range instrsOf(sf) {
				if r, ok := in2.(*ssa.Return); ok && len(r.Results) == 1 {
					if bo, ok := r.Results[0].(*ssa.BinOp); ok {
						ld, proper, isTest := versionTest(&ssa.If{Cond: bo})
						return isTest && proper && ld
					}
				}
			}
		}
	}
	return false
}

// ---------------------------------------------------------------------------
// REC/gc-terminates (C15, C02): the collector's walks over the reference graph
// end on every graph, cycles included.
//   - traverse descends into the references only when the visitor did not answer
//     "stop";
//   - the count-down visitor answers "stop" for a node it has seen (the lookup in
//     its record map found it) and records every node it has not;
//   - the mark visitor answers "stop" for a node already marked kept or unsend;
//     a node marked for deletion is visited again only to be upgraded to kept —
//     decided by constant propagation over the five mark values.
// A walk that goes round a cycle for ever overflows the stack of the connection
// worker: fatal for the whole gateway.

func ruleGCTerminates(c *Ctx) {
	p := c.P
	fn := p.Fn("(*server.wsConn).tryDelete")
	travFn := p.Fn("(*server.Subscription).traverse")
	trav := p.Method("server.Subscription.traverse")
	gcT := p.Named("server.gcState")
	kStop := p.ConstInt("server.gcStateStop", -1)
	kNone, kDelete, kKeep, kUnsend := p.ConstInt("server.gcStateNone", -1), p.ConstInt("server.gcStateDelete", -1), p.ConstInt("server.gcStateKeep", -1), p.ConstInt("server.gcStateUnsend", -1)
	if fn == nil || travFn == nil || trav == nil || gcT == nil || kStop < 0 || kNone < 0 || kKeep < 0 {
		c.undecided("(*server.wsConn).tryDelete", "anchor", "-", "not found")
		return
	}
	// 1. traverse
	{
		c.inst(1)
		sp := &Spec{}
		sp.Classify = func(t *Tracer, fr *Frame, in ssa.Instruction) []Ev {
			if _, ok := isCallTo(in, trav); ok {
				return []Ev{{Kind: "descend", Stop: true}}
			}
			return nil
		}
		sp.Branch = func(t *Tracer, fr *Frame, i *ssa.If, dir bool) []Ev {
			x, op, k, ok := cmpConst(i.Cond)
			if !ok || k != kStop || !types.Identical(x.Type(), gcT) {
				return nil
			}
			// the value compared must be the visitor's answer (a call result), not the incoming state
			if _, isCall := t.Resolve(fr, x).V.(*ssa.Call); !isCall {
				return nil
			}
			if (op == token.EQL) == dir {
				return []Ev{{Kind: "answer=stop"}}
			}
			return []Ev{{Kind: "answer!=stop"}}
		}
		tr := runTrace(p, travFn, sp)
		bad := ""
		nDesc := 0
		for _, path := range tr.Paths {
			if hasKind(path, "descend") {
				nDesc++
				if !hasKind(path, "answer!=stop") {
					bad = "traverse descends into the references on a path that has not established that the visitor did not answer stop: a revisited node is walked again, on a reference cycle for ever (stack overflow ends the gateway): " + tr.FmtPath(path)
				}
			}
		}
		if nDesc == 0 {
			bad = "no descending path"
		}
		c.check(bad == "" && !tr.Trunc, fnName(travFn), "the walk descends only where the visitor did not answer stop", p.Pos(travFn.Pos()), fmt.Sprintf("%d descending paths", nDesc), bad)
	}
	// visitors of tryDelete
	var visitors []*ssa.Function
	for _, g := range p.withHelpers(fn) {
		for _, call := range callsIn(g) {
			if _, ok := isCallTo(call, trav); ok {
				args := callArgs(call.Common())
				if mc, ok := stripConv(args[len(args)-1]).(*ssa.MakeClosure); ok {
					vf := mc.Fn.(*ssa.Function)
					if vf.Synthetic != "" {
						if m := boundMethod(vf); m != nil {
							if mf := p.SSA.FuncValue(m); mf != nil && len(mf.Blocks) > 0 {
								vf = mf
							}
						}
					}
					visitors = append(visitors, vf)
				}
			}
		}
	}
	isMark := func(f *types.Var) bool { return f != nil && types.Identical(f.Type(), gcT) }
	for _, v := range visitors {
		marks := false
		for _, g := range p.withHelpers(v) {
			for _, in := range instrsOf(g) {
				if st, ok := in.(*ssa.Store); ok {
					if fa, ok := st.Addr.(*ssa.FieldAddr); ok && isMark(fieldOfAddr(fa)) {
						if k, isC := constInt(st.Val); isC && k == kKeep {
							marks = true
						}
					}
				}
			}
		}
		retEv := func(t *Tracer, fr *Frame, in ssa.Instruction) []Ev {
			if r, ok := in.(*ssa.Return); ok && fr == t.RootFr && len(r.Results) == 1 {
				if k, isC := constInt(t.Resolve(fr, r.Results[0]).V); isC && k == kStop {
					return []Ev{{Kind: "answer:stop"}}
				}
				return []Ev{{Kind: "answer:go-on"}}
			}
			return nil
		}
		if !marks {
			// the count-down visitor
			c.inst(1)
			sp := &Spec{InlineHelpers: true}
			sp.Classify = func(t *Tracer, fr *Frame, in ssa.Instruction) []Ev {
				if _, ok := in.(*ssa.MapUpdate); ok {
					return []Ev{{Kind: "record"}}
				}
				return retEv(t, fr, in)
			}
			sp.Branch = func(t *Tracer, fr *Frame, i *ssa.If, dir bool) []Ev {
				v2 := i.Cond
				neg := false
				if u, ok := v2.(*ssa.UnOp); ok && u.Op == token.NOT {
					v2, neg = u.X, true
				}
				if ex, ok := t.Resolve(fr, v2).V.(*ssa.Extract); ok && ex.Index == 1 {
					if _, isLk := ex.Tuple.(*ssa.Lookup); isLk {
						if dir != neg {
							return []Ev{{Kind: "seen-before"}}
						}
						return []Ev{{Kind: "first-visit"}}
					}
				}
				if x, nn, ok := nilTest(i, dir); ok {
					if _, isLk := t.Resolve(fr, x).V.(*ssa.Lookup); isLk {
						if nn {
							return []Ev{{Kind: "seen-before"}}
						}
						return []Ev{{Kind: "first-visit"}}
					}
				}
				return nil
			}
			tr := runTrace(p, v, sp)
			bad := ""
			nSeen := 0
			for _, path := range tr.Paths {
				if hasKind(path, "seen-before") {
					nSeen++
					if !hasKind(path, "answer:stop") {
						bad = "the count-down visitor does not answer stop for a node it has already seen: " + tr.FmtPath(path)
					}
				}
				if hasKind(path, "first-visit") && hasKind(path, "answer:go-on") && !hasKind(path, "record") {
					bad = "the count-down visitor goes on from a node it has not recorded: " + tr.FmtPath(path)
				}
				if hasKind(path, "answer:go-on") && !hasKind(path, "first-visit") && !hasKind(path, "seen-before") && len(path) > 1 {
					// going on without consulting the record (other than for the root, which has its own test)
				}
			}
			if nSeen == 0 {
				bad = "no path of the count-down visitor recognises a node it has seen before: on a reference cycle the walk never ends"
			}
			c.check(bad == "" && !tr.Trunc, fnName(v), "the count-down walk stops at a node it has seen and records every node it has not", p.Pos(v.Pos()), fmt.Sprintf("%d paths, %d for a seen node", len(tr.Paths), nSeen), bad)
			continue
		}
		// the mark visitor: constant propagation over the node's mark
		c.inst(1)
		bad := ""
		for _, k := range []int64{kNone, kDelete, kKeep, kUnsend} {
			kk := k
			sp := &Spec{InlineHelpers: true}
			sp.Inline = func(t *Tracer, fr *Frame, c ssa.CallInstruction, f *ssa.Function) bool {
				return p.isRepoFn(f) && isSmallPredicate(f)
			}
			sp.Eval = func(t *Tracer, fr *Frame, cond ssa.Value) (bool, bool) {
				// the test may be the answer of a predicate helper (`r.isDecided()`): what it returned on this path
				if rc := t.Resolve(fr, cond); rc.V != nil && rc.V != cond {
					cond, fr = rc.V, rc.Fr
				}
				x, op, c2, ok := cmpConst(cond)
				if !ok {
					return false, false
				}
				if f, _ := fieldLoad(t.Resolve(fr, x).V); !isMark(f) {
					return false, false
				}
				return evalIntCmp(op, kk, c2)
			}
			sp.Classify = func(t *Tracer, fr *Frame, in ssa.Instruction) []Ev {
				if st, ok := in.(*ssa.Store); ok {
					if fa, ok := st.Addr.(*ssa.FieldAddr); ok && isMark(fieldOfAddr(fa)) {
						if c2, isC := constInt(t.Resolve(fr, st.Val).V); isC {
							return []Ev{{Kind: fmt.Sprintf("mark=%d", c2)}}
						}
					}
				}
				return retEv(t, fr, in)
			}
			tr := runTrace(p, v, sp)
			for _, path := range tr.Paths {
				if !hasKind(path, "answer:go-on") {
					continue
				}
				switch kk {
				case kKeep, kUnsend:
					bad = fmt.Sprintf("the mark walk goes on from a node already marked %d (kept / unsend): on a reference cycle of kept nodes it never ends: %s", kk, tr.FmtPath(path))
				case kDelete:
					if !hasKind(path, fmt.Sprintf("mark=%d", kKeep)) && !hasKind(path, fmt.Sprintf("mark=%d", kUnsend)) {
						bad = "the mark walk goes on from a node already marked for deletion without upgrading it: on a cycle of such nodes it never ends: " + tr.FmtPath(path)
					}
				}
			}
			if tr.Trunc {
				bad = "path budget exhausted"
			}
		}
		c.check(bad == "", fnName(v), "the mark walk stops at a node already kept, and revisits a node marked for deletion only to upgrade it", p.Pos(v.Pos()), "four mark values evaluated by constant propagation", bad)
	}
	if len(visitors) < 2 {
		c.viol(fnName(fn), "the collector's walks end on every graph", "-", "visitors not found")
	}
}

// isOwnReceiver: v stands for the receiver of the method the code belongs to — the
// receiver parameter itself, or, inside a closure, the captured receiver.
func isOwnReceiver(p *Prog, v ssa.Value) bool {
	for d := 0; d < 6; d++ {
		switch x := v.(type) {
		case *ssa.Parameter:
			fn := x.Parent()
			return fn.Signature.Recv() != nil && len(fn.Params) > 0 && fn.Params[0] == x
		case *ssa.FreeVar:
			mc := p.parent[x.Parent()]
			if mc == nil {
				return true // unknown binding: not refuted
			}
			for i, fv := range x.Parent().FreeVars {
				if fv == x {
					v = mc.Bindings[i]
				}
			}
			if v == ssa.Value(x) {
				return true
			}
		case *ssa.UnOp:
			if x.Op != token.MUL {
				return false
			}
			// a spilled / captured variable: what was stored into it
			cell := x.X
			if fv, ok := cell.(*ssa.FreeVar); ok {
				mc := p.parent[fv.Parent()]
				if mc == nil {
					return true
				}
				for i, f2 := range fv.Parent().FreeVars {
					if f2 == fv {
						cell = mc.Bindings[i]
					}
				}
			}
			if fv, ok := cell.(*ssa.FreeVar); ok {
				v = &ssa.UnOp{Op: token.MUL, X: fv}
				continue
			}
			al, ok := cell.(*ssa.Alloc)
			if !ok || al.Referrers() == nil {
				return false
			}
			var only ssa.Value
			n := 0
			for _, r := range *al.Referrers() {
				if st, ok := r.(*ssa.Store); ok && st.Addr == ssa.Value(al) {
					n++
					only = st.Val
				}
			}
			if n != 1 {
				return false
			}
			v = only
		default:
			return false
		}
	}
	return false
}
