package main

import (
	"go/types"
)

// combDecl is one line of the frozen combinator table: which function-typed
// parameter of which function is a continuation/task, how often it runs and
// where. Each entry whose body is repository code is itself checked by the
// LIN rule of C07/C18 (the summary is proved on the body); the others are
// stated assumptions and listed in the evidence.
type combDecl struct {
	Fn     string // "pkg.Type.Method" (concrete or interface method) or "pkg.Func"
	Arg    int    // argument index, receiver = 0 for methods
	Mode   Mode
	Async  bool
	Reason string
}

var combTable = []combDecl{
	// connection worker
	{"server.wsConn.Enqueue", 1, ModeOnceOrDrop, true, "task run once by outputWorker; refused when the connection is disposing"},
	{"server.ConnSubscriber.Enqueue", 1, ModeOnceOrDrop, true, "interface view of wsConn.Enqueue"},
	// cache worker
	{"rescache.EventSubscription.Enqueue", 1, ModeOnce, true, "task run once by processQueue with e.mu held"},
	{"rescache.EventSubscription.enqueueUnlock", 1, ModeOnce, true, "lock task run once by processQueue"},
	// subscription combinators (LIN obligations on their bodies)
	{"server.Subscription.OnReady", 1, ModeOnce, false, "inline if ready, else from testReady via readyCallbacks"},
	{"server.Subscription.CanGet", 1, ModeOnce, false, "delegates to loadAccess"},
	{"server.Subscription.CanCall", 2, ModeOnce, false, "delegates to loadAccess"},
	{"server.Subscription.loadAccess", 1, ModeOnce, false, "inline with a cached verdict, else from the access answer task via accessCallbacks"},
	// requests
	{"server.wsConn.Access", 2, ModeOnce, true, "forwards to Cache.Access"},
	{"server.ConnSubscriber.Access", 2, ModeOnce, true, "interface view of wsConn.Access"},
	{"rescache.Cache.Access", 4, ModeOnce, true, "via sendRequest, on the resource's cache worker"},
	{"rescache.Cache.Call", 8, ModeOnce, true, "via sendRequest"},
	{"rescache.Cache.Auth", 8, ModeOnce, true, "via sendRequest"},
	{"rescache.Cache.CustomAuth", 6, ModeOnce, true, "mq completion"},
	{"rescache.Cache.sendRequest", 4, ModeOnce, true, "mq completion re-queued on the event subscription"},
	{"mq.Client.SendRequest", 3, ModeOnce, true, "adapter contract (C18): exactly one completion on another goroutine"},
	{"nats.Client.SendRequest", 3, ModeOnce, true, "proved by LIN/sendrequest (C18)"},
	{"rescache.Throttle.Add", 1, ModeOnce, false, "inline when a slot is free, else from Done on a fresh goroutine"},
	// request handlers (rpc.Requester and their implementations)
	{"rpc.Requester.GetResource", 2, ModeOnce, false, "LIN obligation on wsConn.GetResource"},
	{"rpc.Requester.SubscribeResource", 2, ModeOnce, false, "LIN obligation"},
	{"rpc.Requester.UnsubscribeResource", 3, ModeOnce, false, "LIN obligation"},
	{"rpc.Requester.CallResource", 4, ModeOnce, false, "LIN obligation"},
	{"rpc.Requester.AuthResource", 4, ModeOnce, false, "LIN obligation"},
	{"rpc.Requester.NewResource", 3, ModeOnce, false, "LIN obligation"},
	{"server.wsConn.GetResource", 2, ModeOnce, false, "LIN obligation"},
	{"server.wsConn.SubscribeResource", 2, ModeOnce, false, "LIN obligation"},
	{"server.wsConn.UnsubscribeResource", 3, ModeOnce, false, "LIN obligation"},
	{"server.wsConn.CallResource", 4, ModeOnce, false, "LIN obligation"},
	{"server.wsConn.AuthResource", 4, ModeOnce, false, "LIN obligation"},
	{"server.wsConn.NewResource", 3, ModeOnce, false, "LIN obligation"},
	{"server.wsConn.call", 4, ModeOnce, false, "LIN obligation"},
	{"server.wsConn.handleCallAuthResponse", 4, ModeOnce, false, "LIN obligation"},
	{"server.wsConn.handleResourceResult", 2, ModeOnce, false, "LIN obligation"},
	{"server.wsConn.GetHTTPSubscription", 2, ModeOnce, false, "LIN obligation"},
	{"server.wsConn.CallHTTPResource", 4, ModeOnce, false, "LIN obligation"},
	{"server.wsConn.AuthResourceNoResult", 4, ModeOnce, false, "LIN obligation"},
	{"server.Service.temporaryConn", 3, ModeOnceOrDrop, true, "runs cb on the temporary connection's worker unless the service is stopping (503) or header auth answers directly"},
	// visitors / handlers (multi-shot)
	{"server.Subscription.traverse", 2, ModeMulti, false, "visitor"},
	{"rescache.Cache.forEachMatch", 2, ModeMulti, false, "visitor"},
	{"mq.Client.Subscribe", 2, ModeMulti, true, "event handler"},
	{"nats.Client.Subscribe", 2, ModeMulti, true, "event handler"},
	// configuration hooks
	{"mq.Client.SetClosedHandler", 1, ModeStore, false, "hook"},
	{"nats.Client.SetClosedHandler", 1, ModeStore, false, "hook"},
	{"server.Service.SetOnWSClose", 1, ModeStore, false, "hook"},
	{"server.Service.SetOnUnsubscribe", 1, ModeStore, false, "hook"},
	{"rescache.Cache.SetOnUnsubscribe", 1, ModeStore, false, "hook"},
	{"server.RegisterAPIEncoderFactory", 1, ModeStore, false, "hook"},
}

// Combinators resolves the table against the loaded program. Unresolved
// entries are reported by the anchors rule (UNDECIDED), never silently lost.
func (p *Prog) Combinators() map[*types.Func]map[int]Comb {
	if p.combs != nil {
		return p.combs
	}
	p.combs = map[*types.Func]map[int]Comb{}
	for _, d := range combTable {
		f := p.lookupFunc(d.Fn)
		if f == nil {
			p.combMissing = append(p.combMissing, d.Fn)
			continue
		}
		arg := fixArg(f, d.Arg)
		if p.combs[f] == nil {
			p.combs[f] = map[int]Comb{}
		}
		p.combs[f][arg] = Comb{Mode: d.Mode, Async: d.Async}
	}
	return p.combs
}

// fixArg keeps a table's argument index valid when a signature was reordered:
// if the parameter at the recorded index (receiver = 0 for methods) is no
// longer function-typed and exactly one parameter is, that one is meant.
func fixArg(f *types.Func, arg int) int {
	sig, ok := f.Type().(*types.Signature)
	if !ok {
		return arg
	}
	off := 0
	if sig.Recv() != nil {
		off = 1
	}
	isFn := func(i int) bool {
		if i < 0 || i >= sig.Params().Len() {
			return false
		}
		_, ok := sig.Params().At(i).Type().Underlying().(*types.Signature)
		return ok
	}
	if isFn(arg - off) {
		return arg
	}
	hit := -1
	for i := 0; i < sig.Params().Len(); i++ {
		if isFn(i) {
			if hit >= 0 {
				return arg
			}
			hit = i
		}
	}
	if hit >= 0 {
		return hit + off
	}
	return arg
}

// lookupFunc resolves "pkg.Type.Method" or "pkg.Func".
func (p *Prog) lookupFunc(q string) *types.Func {
	n := 0
	for _, c := range q {
		if c == '.' {
			n++
		}
	}
	if n == 1 {
		return p.PkgFunc(q)
	}
	return p.Method(q)
}

// combFor returns the table entry of a callee, if any.
func (p *Prog) combFor(f *types.Func) map[int]Comb {
	return p.Combinators()[f]
}
