package main

import (
	"fmt"
	"go/constant"
	"go/token"
	"go/types"
	"os"
	"sort"
	"strings"

	"golang.org/x/tools/go/callgraph"
	"golang.org/x/tools/go/callgraph/cha"
	"golang.org/x/tools/go/callgraph/vta"
	"golang.org/x/tools/go/packages"
	"golang.org/x/tools/go/ssa"
	"golang.org/x/tools/go/ssa/ssautil"
)

const modPath = "github.com/resgateio/resgate"

// Prog is the loaded, type-checked program in SSA form plus the indexes the
// rules work on. Everything is rebuilt from the working tree on every run.
type Prog struct {
	roleMemo       map[string]*ssa.Function
	fvUsers        map[*ssa.Function][]*ssa.Function
	hbDone         bool
	hbField        *types.Var
	hbSet, hbClear *ssa.Function
	globalSet      map[*ssa.Global]int      // 1: only ever set to allocations, 2: anything else
	addrArgs       map[*types.Var][]addrArg // field -> call sites handing the field's address to a helper that derefs it
	esStates       map[*ssa.Function]map[ssa.Instruction]int
	implDepth      int                                  // recursion depth of helperImplies
	boundMakers    map[*ssa.Function][]*ssa.MakeClosure // bound-method wrapper -> the places that make the method value
	fieldSeen      map[string]string                    // anchor -> type, recorded for `resverif anchors`
	Dir            string
	Fset           *token.FileSet
	Pkgs           []*packages.Package
	SSA            *ssa.Program
	Repo           []*ssa.Function          // every repository function incl. closures, sorted by name
	ByNm           map[string]*ssa.Function // short name -> function
	CG             *callgraph.Graph
	Typs           map[string]*types.Package // short pkg name ("server", "rescache", ...) -> package
	viewDepth      int
	parent         map[*ssa.Function]*ssa.MakeClosure // closure fn -> its (unique) MakeClosure
	stores         map[*types.Var][]*ssa.Store        // field -> stores through FieldAddr
	loads          map[*types.Var][]ssa.Instruction   // field -> loads (UnOp on FieldAddr, Field)
	faddrs         map[*types.Var][]*ssa.FieldAddr
	nAllFuncs      int
	combs          map[*types.Func]map[int]Comb
	combMissing    []string
	mayWrite       map[*ssa.Function]map[*types.Var]bool
	initOnly       map[*types.Var]bool
	roleFieldBusy  map[string]bool
	ctxCache       *ctxInfo
	fuzzy          []string // anchors resolved to a renamed object
}

// addrArg: a call that passes &x.f to a repository function which loads or
// stores through that parameter.
type addrArg struct {
	Call   ssa.CallInstruction
	Writes bool
	Reads  bool
}

func shortName(s string) string {
	s = strings.ReplaceAll(s, modPath+"/server/", "")
	return strings.ReplaceAll(s, modPath+"/", "")
}

func fnName(f *ssa.Function) string {
	if f == nil {
		return "<nil>"
	}
	return shortName(f.String())
}

// Load loads the repository rooted at dir with the tag `verif` and builds SSA
// and a VTA call graph. It fails on any type error.
func Load(dir string, goarch string) (*Prog, error) {
	env := append(os.Environ(), "GOFLAGS=-mod=mod", "GOPROXY=off", "GOSUMDB=off", "GOTOOLCHAIN=local", "GOWORK=off")
	if goarch != "" {
		env = append(env, "GOARCH="+goarch, "GOOS=linux", "CGO_ENABLED=0")
	}
	cfg := &packages.Config{
		Mode:       packages.LoadAllSyntax,
		Dir:        dir,
		Env:        env,
		BuildFlags: []string{"-tags=verif"},
		Tests:      false,
	}
	pkgs, err := packages.Load(cfg, ".", "./server/...", "./nats/...", "./logger/...")
	if err != nil {
		return nil, err
	}
	nerr := 0
	packages.Visit(pkgs, nil, func(p *packages.Package) {
		for _, e := range p.Errors {
			if strings.HasPrefix(p.PkgPath, modPath) {
				fmt.Fprintf(os.Stderr, "load error: %s: %v\n", p.PkgPath, e)
				nerr++
			}
		}
	})
	if nerr > 0 {
		return nil, fmt.Errorf("%d load/type errors in repository packages", nerr)
	}
	nrepo := 0
	for _, p := range pkgs {
		if strings.HasPrefix(p.PkgPath, modPath) {
			nrepo++
		}
	}
	if nrepo < 10 {
		return nil, fmt.Errorf("only %d repository packages loaded (expected >= 10)", nrepo)
	}
	prog, _ := ssautil.AllPackages(pkgs, ssa.InstantiateGenerics)
	prog.Build()

	p := &Prog{Dir: dir, Fset: prog.Fset, Pkgs: pkgs, SSA: prog,
		ByNm: map[string]*ssa.Function{}, Typs: map[string]*types.Package{},
		parent: map[*ssa.Function]*ssa.MakeClosure{},
		stores: map[*types.Var][]*ssa.Store{}, loads: map[*types.Var][]ssa.Instruction{},
		faddrs: map[*types.Var][]*ssa.FieldAddr{},
	}
	for _, pk := range pkgs {
		if strings.HasPrefix(pk.PkgPath, modPath) {
			p.Typs[pk.Types.Name()] = pk.Types
		}
	}
	all := ssautil.AllFunctions(prog)
	p.nAllFuncs = len(all)
	for f := range all {
		if f.Pkg == nil && f.Parent() == nil {
			// synthetic wrappers ($bound, $thunk) have no package: keep those of repo receivers
			if !strings.Contains(f.String(), modPath) {
				continue
			}
		}
		pkg := f.Package()
		if pkg == nil {
			if f.Parent() != nil {
				pkg = f.Parent().Package()
			}
		}
		if pkg != nil && !strings.HasPrefix(pkg.Pkg.Path(), modPath) {
			continue
		}
		if pkg == nil && !strings.Contains(f.String(), modPath) {
			continue
		}
		if f.Blocks == nil {
			continue
		}
		p.Repo = append(p.Repo, f)
	}
	sort.Slice(p.Repo, func(i, j int) bool { return fnName(p.Repo[i]) < fnName(p.Repo[j]) })
	for _, f := range p.Repo {
		p.ByNm[fnName(f)] = f
	}
	p.indexContainerTypes()
	p.index()
	p.CG = vta.CallGraph(all, cha.CallGraph(prog))
	return p, nil
}

// indexContainerTypes fills containerTypeField for this program's types.
func (p *Prog) indexContainerTypes() {
	count := map[*types.Named]int{}
	pick := map[*types.Named]*types.Var{}
	for _, pk := range p.Typs {
		for _, nm := range pk.Scope().Names() {
			tn, ok := pk.Scope().Lookup(nm).(*types.TypeName)
			if !ok {
				continue
			}
			st, ok := tn.Type().Underlying().(*types.Struct)
			if !ok {
				continue
			}
			for k := 0; k < st.NumFields(); k++ {
				f := st.Field(k)
				n, ok := f.Type().(*types.Named)
				if !ok || n.Obj() == nil || n.Obj().Pkg() == nil || !strings.HasPrefix(n.Obj().Pkg().Path(), modPath) {
					continue
				}
				switch n.Underlying().(type) {
				case *types.Slice, *types.Map:
					count[n]++
					pick[n] = f
				}
			}
		}
	}
	for n, c := range count {
		if c == 1 && n.NumMethods() > 0 {
			containerTypeField[n] = pick[n]
		}
	}
}

func (p *Prog) index() {
	for _, f := range p.Repo {
		for _, b := range f.Blocks {
			for _, in := range b.Instrs {
				switch x := in.(type) {
				case *ssa.MakeClosure:
					if fn, ok := x.Fn.(*ssa.Function); ok {
						p.parent[fn] = x
						if fn.Synthetic != "" && strings.HasSuffix(fn.Name(), "$bound") {
							if p.boundMakers == nil {
								p.boundMakers = map[*ssa.Function][]*ssa.MakeClosure{}
							}
							p.boundMakers[fn] = append(p.boundMakers[fn], x)
						}
					}
				case *ssa.FieldAddr:
					fv := fieldOfAddr(x)
					if fv != nil {
						p.faddrs[fv] = append(p.faddrs[fv], x)
						// the field's address handed to a helper that reads / writes through it
						if refs := x.Referrers(); refs != nil {
							for _, r := range *refs {
								call, ok := r.(ssa.CallInstruction)
								if !ok {
									continue
								}
								sf := call.Common().StaticCallee()
								if sf == nil || len(sf.Blocks) == 0 || !strings.HasPrefix(sf.Package().Pkg.Path(), modPath) {
									continue
								}
								args := callArgs(call.Common())
								for ai, a := range args {
									if a != ssa.Value(x) || ai >= len(sf.Params) {
										continue
									}
									prm := sf.Params[ai]
									aa := addrArg{Call: call}
									for _, pr := range *prm.Referrers() {
										switch y := pr.(type) {
										case *ssa.Store:
											if y.Addr == ssa.Value(prm) {
												aa.Writes = true
											}
										case *ssa.UnOp:
											if y.Op == token.MUL {
												aa.Reads = true
											}
										}
									}
									if aa.Writes || aa.Reads {
										if p.addrArgs == nil {
											p.addrArgs = map[*types.Var][]addrArg{}
										}
										p.addrArgs[fv] = append(p.addrArgs[fv], aa)
									}
								}
							}
						}
					}
				case *ssa.Store:
					if fa, ok := x.Addr.(*ssa.FieldAddr); ok {
						if fv := fieldOfAddr(fa); fv != nil {
							p.stores[fv] = append(p.stores[fv], x)
						}
					}
					// `*q = ...` in a method of a container type one field has
					if prm, ok := x.Addr.(*ssa.Parameter); ok {
						if fv := containerFieldOfRecv(prm); fv != nil {
							p.stores[fv] = append(p.stores[fv], x)
						}
					}
				case *ssa.UnOp:
					if x.Op == token.MUL {
						if fa, ok := x.X.(*ssa.FieldAddr); ok {
							if fv := fieldOfAddr(fa); fv != nil {
								p.loads[fv] = append(p.loads[fv], x)
							}
						}
						if prm, ok := x.X.(*ssa.Parameter); ok {
							if fv := containerFieldOfRecv(prm); fv != nil {
								p.loads[fv] = append(p.loads[fv], x)
							}
						}
					}
				case *ssa.Field:
					if st, ok := x.X.Type().Underlying().(*types.Struct); ok {
						p.loads[st.Field(x.Field)] = append(p.loads[st.Field(x.Field)], x)
					}
				}
			}
		}
	}
}

func fieldOfAddr(fa *ssa.FieldAddr) *types.Var {
	pt, ok := fa.X.Type().Underlying().(*types.Pointer)
	if !ok {
		return nil
	}
	st, ok := pt.Elem().Underlying().(*types.Struct)
	if !ok {
		return nil
	}
	return st.Field(fa.Field)
}

// Fn returns the repository function with the given short name, or nil. A
// method that was renamed is found through its receiver type when exactly
// one method has a similar name.
func (p *Prog) Fn(name string) *ssa.Function {
	if f := p.ByNm[name]; f != nil {
		// a method that moved into an embedded struct leaves a promoted-method wrapper under its old name:
		// the code is in the method the wrapper calls
		if f.Synthetic != "" && !strings.HasSuffix(f.Name(), "$bound") && f.Parent() == nil {
			if m := boundMethod(f); m != nil {
				if mf := p.SSA.FuncValue(m); mf != nil && len(mf.Blocks) > 0 && mf.Synthetic == "" {
					return mf
				}
			}
		}
		return f
	}
	// an anchor that can be found by the role it plays is looked for that way before a similar name is
	// accepted (mqUnsubscribe -> evictUnused must not resolve to Subscribe)
	if _, ok := roleFns[name]; !ok {
		if f := p.fnNoRole(name); f != nil {
			return f
		}
	}
	if r, ok := roleFns[name]; ok {
		if p.roleMemo == nil {
			p.roleMemo = map[string]*ssa.Function{}
		}
		if f, done := p.roleMemo[name]; done {
			return f
		}
		p.roleMemo[name] = nil // guards against re-entry
		f := r(p)
		if f == nil {
			f = p.fnNoRole(name)
		} else {
			p.fuzzy = append(p.fuzzy, name+" -> "+fnName(f)+" (by role)")
		}
		p.roleMemo[name] = f
		return f
	}
	return nil
}

// roleFns: functions that are found by what they do when their name is gone.
var roleFns = map[string]func(p *Prog) *ssa.Function{

	// the connection worker: the one method of the connection that its constructor starts with a go statement
	"(*server.wsConn).outputWorker": func(p *Prog) *ssa.Function {
		ctor := p.fnNoRole("(*server.Service).newWSConn")
		if ctor == nil {
			return nil
		}
		var hit *ssa.Function
		for _, g := range p.withHelpers(ctor) {
			for _, in := range instrsOf(g) {
				if gs, ok := in.(*ssa.Go); ok {
					if tf := gs.Common().StaticCallee(); tf != nil && tf.Signature.Recv() != nil && strings.HasSuffix(tf.Signature.Recv().Type().String(), "server.wsConn") {
						if hit != nil && hit != tf {
							return nil
						}
						hit = tf
					}
				}
			}
		}
		return hit
	},
}

func (p *Prog) fnNoRole(name string) *ssa.Function {
	if f := p.ByNm[name]; f != nil {
		return f
	}
	// "(*pkg.Type).method" or "pkg.func"
	if strings.HasPrefix(name, "(") {
		end := strings.Index(name, ").")
		if end < 0 || strings.Contains(name, "$") {
			return nil
		}
		recv := strings.TrimPrefix(strings.TrimPrefix(name[1:end], "*"), "")
		if m := p.Method(recv + "." + name[end+2:]); m != nil {
			return p.SSA.FuncValue(m)
		}
		return nil
	}
	if i := strings.IndexByte(name, '.'); i > 0 && !strings.Contains(name, "$") {
		pk := p.Typs[name[:i]]
		if pk == nil {
			return nil
		}
		var names []string
		var fs []*types.Func
		for _, n := range pk.Scope().Names() {
			if f, ok := pk.Scope().Lookup(n).(*types.Func); ok {
				names = append(names, n)
				fs = append(fs, f)
			}
		}
		if j := similarName(name[i+1:], names); j >= 0 {
			p.fuzzy = append(p.fuzzy, name+" -> "+names[j])
			return p.SSA.FuncValue(fs[j])
		}
	}
	return nil
}

// FnFamily: the functions a table entry stands for. Normally the one function
// of that name (or its renamed successor); when it is gone and the type has
// methods whose names are the old name with one word inserted
// (removeCount -> removeDirectCount, removeIndirectCount: a bool parameter
// replaced by two functions), those.
func (p *Prog) FnFamily(name string) []*ssa.Function {
	if f := p.Fn(name); f != nil {
		return []*ssa.Function{f}
	}
	if !strings.HasPrefix(name, "(") {
		return nil
	}
	end := strings.Index(name, ").")
	if end < 0 {
		return nil
	}
	recv := strings.TrimPrefix(name[1:end], "*")
	old := name[end+2:]
	n := p.Named(recv)
	if n == nil {
		return nil
	}
	words := func(s string) []string {
		var out []string
		cur := ""
		for i, r := range s {
			if i > 0 && r >= 'A' && r <= 'Z' {
				out = append(out, cur)
				cur = ""
			}
			cur += string(r)
		}
		return append(out, cur)
	}
	var fam []*ssa.Function
	for k := 0; k < n.NumMethods(); k++ {
		m := n.Method(k)
		ws := words(m.Name())
		if len(ws) < 2 {
			continue
		}
		for skip := 1; skip < len(ws); skip++ {
			cand := ""
			for i, w := range ws {
				if i != skip {
					cand += w
				}
			}
			if cand == old {
				if f := p.SSA.FuncValue(m); f != nil && len(f.Blocks) > 0 {
					fam = append(fam, f)
				}
				break
			}
		}
	}
	if len(fam) >= 2 {
		p.fuzzy = append(p.fuzzy, fmt.Sprintf("%s -> a family of %d functions", name, len(fam)))
		return fam
	}
	return nil
}

// FnNameOf returns the current name of the function a table names: the name
// itself when it exists, the name of the function it resolves to when it was
// renamed, else the name unchanged.
func (p *Prog) FnNameOf(name string) string {
	if f := p.Fn(name); f != nil {
		return fnName(f)
	}
	return name
}

// ConstInt returns the value of an integer constant of the repository
// ("server.stateDeleted"), or def when it is not declared.
func (p *Prog) ConstInt(q string, def int64) int64 {
	i := strings.IndexByte(q, '.')
	if i < 0 {
		return def
	}
	if pk := p.Typs[q[:i]]; pk != nil {
		if cst, ok := pk.Scope().Lookup(q[i+1:]).(*types.Const); ok {
			if v, exact := constant.Int64Val(constant.ToInt(cst.Val())); exact {
				return v
			}
		}
	}
	return def
}

func (p *Prog) Named(q string) *types.Named {
	i := strings.IndexByte(q, '.')
	if i < 0 {
		return nil
	}
	pk := p.Typs[q[:i]]
	if pk == nil {
		return nil
	}
	o := pk.Scope().Lookup(q[i+1:])
	if o == nil {
		return nil
	}
	n, _ := o.Type().(*types.Named)
	return n
}

// Field looks up a struct field "pkg.Type.field".
func (p *Prog) Field(q string) *types.Var {
	i := strings.LastIndexByte(q, '.')
	if i < 0 {
		return nil
	}
	n := p.Named(q[:i])
	if n == nil {
		return nil
	}
	st, ok := n.Underlying().(*types.Struct)
	if !ok {
		return nil
	}
	for k := 0; k < st.NumFields(); k++ {
		if st.Field(k).Name() == q[i+1:] {
			// same name, but the state was wrapped into a small struct (count int64 -> count subscriberCount{n}):
			// the anchor is the one field inside of the recorded type
			if want, known := anchorFieldTypes[q]; known && !anchorTypeMatches(st.Field(k).Type(), want) {
				if ws, isStruct := st.Field(k).Type().Underlying().(*types.Struct); isStruct {
					var hit *types.Var
					nhit := 0
					for j := 0; j < ws.NumFields(); j++ {
						if anchorTypeMatches(ws.Field(j).Type(), want) {
							hit = ws.Field(j)
							nhit++
						}
					}
					if nhit == 1 {
						p.fuzzy = append(p.fuzzy, q+" -> "+st.Field(k).Name()+"."+hit.Name()+" (wrapped)")
						return hit
					}
				}
			}
			if p.fieldSeen == nil {
				p.fieldSeen = map[string]string{}
			}
			p.fieldSeen[q] = types.TypeString(st.Field(k).Type(), shortQual) + "|" + typeShape(st.Field(k).Type())
			return st.Field(k)
		}
	}
	// moved into an embedded struct: promoted field
	if n.Obj() != nil {
		if o, _, _ := types.LookupFieldOrMethod(n, true, n.Obj().Pkg(), q[i+1:]); o != nil {
			if v, isVar := o.(*types.Var); isVar && v.IsField() {
				p.fuzzy = append(p.fuzzy, q+" -> promoted field")
				return v
			}
		}
	}
	// all fields reachable by selection: the struct's own and those promoted from embedded structs
	var all []*types.Var
	var collect func(st *types.Struct, depth int)
	collect = func(st *types.Struct, depth int) {
		for k := 0; k < st.NumFields(); k++ {
			f := st.Field(k)
			all = append(all, f)
			// fields promoted from embedded structs, and fields of a nested struct value of one of the
			// repository's own types (state grouped into a small struct: counts, a queue wrapper, a set)
			ft := f.Type()
			if pt, ok := ft.Underlying().(*types.Pointer); ok && f.Embedded() {
				ft = pt.Elem()
			}
			nested := false
			if nt, ok := ft.(*types.Named); ok && nt.Obj() != nil && nt.Obj().Pkg() != nil && strings.HasPrefix(nt.Obj().Pkg().Path(), modPath) {
				nested = true
			}
			if (f.Embedded() || nested) && depth < 3 {
				if es, ok := ft.Underlying().(*types.Struct); ok {
					collect(es, depth+1)
				}
			}
		}
	}
	collect(st, 0)
	allFields := all
	// when the anchor's type is on record, only fields of that type can be the renamed field
	if want, ok := anchorFieldTypes[q]; ok {
		var typed []*types.Var
		for _, f := range all {
			if anchorTypeMatches(f.Type(), want) {
				typed = append(typed, f)
			}
		}
		all = typed
	}
	// renamed field: a unique field with a similar name
	var names []string
	for _, f := range all {
		names = append(names, f.Name())
	}
	if j := similarName(q[i+1:], names); j >= 0 {
		p.fuzzy = append(p.fuzzy, q+" -> "+names[j])
		return all[j]
	}
	// renamed beyond recognition: the only field of the recorded type that is not itself a named anchor
	if want, ok := anchorFieldTypes[q]; ok {
		hit := -1
		ambiguous := false
		for k, f := range all {
			if _, named := anchorFieldTypes[q[:i+1]+f.Name()]; named {
				continue
			}
			if anchorTypeMatches(f.Type(), want) {
				if hit >= 0 {
					ambiguous = true
				}
				hit = k
			}
		}
		if hit >= 0 && !ambiguous {
			p.fuzzy = append(p.fuzzy, q+" -> "+names[hit]+" (by type "+want+")")
			return all[hit]
		}
	}
	// the field's type itself mentions a renamed repository type: match by the shape of the type
	if want, ok := anchorFieldShapes[q]; ok && strings.Contains(want, "~") {
		hit := -1
		n := 0
		for k, f := range allFields {
			if _, named := anchorFieldTypes[q[:i+1]+f.Name()]; named {
				continue
			}
			if typeShape(f.Type()) == want || typeShape(f.Type().Underlying()) == want {
				hit = k
				n++
			}
		}
		if n == 1 {
			p.fuzzy = append(p.fuzzy, q+" -> "+allFields[hit].Name()+" (by type shape "+want+")")
			return allFields[hit]
		}
	}
	// renamed beyond recognition, with siblings of the same type: found by the role it plays
	if rf, ok := roleFields[q]; ok {
		if p.roleFieldBusy == nil {
			p.roleFieldBusy = map[string]bool{}
		}
		if !p.roleFieldBusy[q] {
			p.roleFieldBusy[q] = true
			f := rf(p, st)
			p.roleFieldBusy[q] = false
			if f != nil {
				p.fuzzy = append(p.fuzzy, q+" -> "+f.Name()+" (by role)")
				return f
			}
		}
	}
	return nil
}

// roleFields: fields that are found by what is done with them when their name is gone.
var roleFields = map[string]func(p *Prog, st *types.Struct) *types.Var{
	// the HTTP server of the service: the *http.Server field that startHTTPServer stores to
	"server.Service.h": func(p *Prog, st *types.Struct) *types.Var {
		fn := p.Fn("(*server.Service).startHTTPServer")
		if fn == nil {
			return nil
		}
		var hit *types.Var
		for _, g := range p.withHelpers(fn) {
			for _, in := range instrsOf(g) {
				s, ok := in.(*ssa.Store)
				if !ok {
					continue
				}
				fa, ok := s.Addr.(*ssa.FieldAddr)
				if !ok {
					continue
				}
				f := fieldOfAddr(fa)
				if f == nil || !strings.HasSuffix(f.Type().String(), "net/http.Server") {
					continue
				}
				owned := false
				for k := 0; k < st.NumFields(); k++ {
					if st.Field(k) == f {
						owned = true
					}
				}
				if !owned {
					continue
				}
				if hit != nil && hit != f {
					return nil
				}
				hit = f
			}
		}
		return hit
	},
}

// typeShape renders a type with the names of the repository's own named
// types erased ("map[*github.com/nats-io/nats.go.Subscription]*~"), so that a
// field is still recognised after the type it mentions was renamed.
func typeShape(t types.Type) string {
	s := types.TypeString(t, func(pk *types.Package) string {
		if strings.HasPrefix(pk.Path(), modPath) {
			return "~"
		}
		return pk.Path()
	})
	var b strings.Builder
	for i := 0; i < len(s); i++ {
		b.WriteByte(s[i])
		if s[i] == '~' && i+1 < len(s) && s[i+1] == '.' {
			j := i + 2
			for j < len(s) && (s[j] == '_' || s[j] >= '0' && s[j] <= '9' || s[j] >= 'a' && s[j] <= 'z' || s[j] >= 'A' && s[j] <= 'Z') {
				j++
			}
			i = j - 1
		}
	}
	return b.String()
}

func shortQual(pk *types.Package) string { return pk.Name() }

// anchorTypeMatches: the field has the recorded type, or a named type whose
// underlying basic type is the recorded one (uint8 flags given a name).
func anchorTypeMatches(t types.Type, want string) bool {
	if types.TypeString(t, shortQual) == want {
		return true
	}
	if _, isNamed := t.(*types.Named); isNamed {
		if b, ok := t.Underlying().(*types.Basic); ok && b.Name() == want {
			return true
		}
		// a container given a name (`type taskQueue []func()`)
		switch t.Underlying().(type) {
		case *types.Slice, *types.Map:
			if types.TypeString(t.Underlying(), shortQual) == want {
				return true
			}
		}
	}
	return false
}

// similarName returns the index of the unique candidate that is the same
// name up to case and common affixes, or contains / is contained in the
// wanted name (at least 4 characters), or -1.
func similarName(want string, cands []string) int {
	norm := func(s string) string {
		s = strings.ToLower(s)
		s = strings.ReplaceAll(s, "_", "")
		return s
	}
	w := norm(want)
	for i, c := range cands {
		if norm(c) == w {
			return i
		}
	}
	// score every candidate; the best one wins when it is strictly better than the rest
	// (direct -> directCount although indirectCount and indirectSentCount contain "direct" too)
	score := func(cn string) int {
		d := len(cn) - len(w)
		if d < 0 {
			d = -d
		}
		if len(w) >= 4 && len(cn) >= 4 {
			switch {
			case strings.HasPrefix(cn, w) || strings.HasSuffix(cn, w):
				return 500 - d
			case strings.HasPrefix(w, cn) || strings.HasSuffix(w, cn):
				return 400 - d
			case strings.Contains(cn, w) || strings.Contains(w, cn):
				return 300 - d
			}
		}
		return 0
	}
	// one word inserted or dropped (addCount -> addSubCount): a flat score, so that two such candidates tie
	// (removeCount -> removeDirectCount / removeIndirectCount is a family, resolved by FnFamily)
	words := func(s string) []string {
		var out []string
		cur := ""
		for i, r := range s {
			if i > 0 && r >= 'A' && r <= 'Z' && cur != "" {
				out = append(out, strings.ToLower(cur))
				cur = ""
			}
			cur += string(r)
		}
		return append(out, strings.ToLower(cur))
	}
	oneMore := func(long, short []string) bool {
		if len(long) != len(short)+1 || len(short) < 2 {
			return false
		}
		for skip := range long {
			ok := true
			k := 0
			for i, x := range long {
				if i == skip {
					continue
				}
				if x != short[k] {
					ok = false
					break
				}
				k++
			}
			if ok {
				return true
			}
		}
		return false
	}
	ww := words(want)
	best, second, hit := 0, 0, -1
	for i, c := range cands {
		sc := score(norm(c))
		if sc == 0 {
			if cw := words(c); oneMore(cw, ww) {
				sc = 250
			} else if oneMore(ww, cw) {
				sc = 240
			} else if len(cw) == len(ww) && len(ww) >= 2 {
				// one word replaced by another (unsubscribeDirect -> revokeDirect): the others are shared, in place
				same := 0
				for i := range cw {
					if cw[i] == ww[i] && len(cw[i]) >= 4 {
						same++
					}
				}
				if same == len(ww)-1 {
					sc = 200
				}
			}
		}
		if sc > best {
			best, second, hit = sc, best, i
		} else if sc > second {
			second = sc
		}
	}
	if hit >= 0 && best > second {
		return hit
	}
	if hit >= 0 {
		return -1 // two equally good candidates
	}
	if len(w) >= 4 {
		// unique candidate sharing a prefix of at least four characters
		n := 0
		for i, c := range cands {
			cn := norm(c)
			k := 0
			for k < len(cn) && k < len(w) && cn[k] == w[k] {
				k++
			}
			if k >= 4 {
				hit = i
				n++
			}
		}
		if n == 1 {
			return hit
		}
	}
	return -1
}

func (p *Prog) Method(q string) *types.Func {
	i := strings.LastIndexByte(q, '.')
	if i < 0 {
		return nil
	}
	n := p.Named(q[:i])
	if n == nil {
		return nil
	}
	obj, _, _ := types.LookupFieldOrMethod(types.NewPointer(n), true, n.Obj().Pkg(), q[i+1:])
	if obj == nil {
		obj, _, _ = types.LookupFieldOrMethod(n, true, n.Obj().Pkg(), q[i+1:])
	}
	if f, ok := obj.(*types.Func); ok {
		return f
	}
	// an anchor that can be found by the role it plays is looked for that way before a similar name is accepted
	// (unqueueEvents -> releaseEvents must not resolve to Event)
	if r, ok := roleMethods[q]; ok {
		if m := r(p, n); m != nil {
			p.fuzzy = append(p.fuzzy, q+" -> "+m.Name()+" (by role)")
			return m
		}
	}
	// renamed method: a unique method of the same type with a similar name
	var ms []*types.Func
	var names []string
	if it, ok := n.Underlying().(*types.Interface); ok {
		for k := 0; k < it.NumMethods(); k++ {
			ms = append(ms, it.Method(k))
			names = append(names, it.Method(k).Name())
		}
	} else {
		for k := 0; k < n.NumMethods(); k++ {
			ms = append(ms, n.Method(k))
			names = append(names, n.Method(k).Name())
		}
	}
	{
		// a method that already had its name on the reference tree is itself, not somebody's renamed successor —
		// unless one name contains the other (populateResourcesLegacy merged into populateResources)
		ref := refMethodNames(q[:i])
		if j := similarName(q[i+1:], names); j >= 0 {
			lw, lc := strings.ToLower(q[i+1:]), strings.ToLower(names[j])
			// (a wanted name that never was a method of the reference tree — a rule's alias for "Enqueue or its
			// unexported twin" — may resolve to any method)
			// an unexported method merged into its exported twin (enqueue into Enqueue) resolves to the twin, unless
			// the method is one that is found by its role when renamed (close, whose twin Close only calls it)
			_, hasRole := roleFnNames["(*"+q[:i]+")."+q[i+1:]]
			caseTwin := lw == lc && !hasRole
			if !ref[q[i+1:]] || !ref[names[j]] || caseTwin || (len(lw) != len(lc) && (strings.Contains(lw, lc) || strings.Contains(lc, lw))) {
				p.fuzzy = append(p.fuzzy, q+" -> "+names[j])
				return ms[j]
			}
		}
		var ms2 []*types.Func
		var names2 []string
		for k, nm := range names {
			if !ref[nm] {
				ms2 = append(ms2, ms[k])
				names2 = append(names2, nm)
			}
		}
		if j2 := similarName(q[i+1:], names2); j2 >= 0 {
			p.fuzzy = append(p.fuzzy, q+" -> "+names2[j2])
			return ms2[j2]
		}
	}
	// moved method: the one method of that exact name on another type of the same package
	if _, isIface := n.Underlying().(*types.Interface); !isIface {
		var moved []*types.Func
		sc := n.Obj().Pkg().Scope()
		for _, tn := range sc.Names() {
			o, ok := sc.Lookup(tn).(*types.TypeName)
			if !ok || o.IsAlias() {
				continue
			}
			nt, ok := o.Type().(*types.Named)
			if !ok || nt == n {
				continue
			}
			if _, isI := nt.Underlying().(*types.Interface); isI {
				continue
			}
			for k := 0; k < nt.NumMethods(); k++ {
				if nt.Method(k).Name() == q[i+1:] {
					moved = append(moved, nt.Method(k))
				}
			}
		}
		if len(moved) == 1 {
			p.fuzzy = append(p.fuzzy, q+" -> moved to "+moved[0].FullName())
			return moved[0]
		}
	}
	// renamed beyond recognition: found by the role it plays
	if r, ok := roleMethods[q]; ok {
		if m := r(p, n); m != nil {
			p.fuzzy = append(p.fuzzy, q+" -> "+m.Name()+" (by role)")
			return m
		}
	}
	return nil
}

// roleMethods: methods found by their signature when their name is gone.
var roleMethods = map[string]func(p *Prog, n *types.Named) *types.Func{
	// the walk over the references of a subscription: the one method of Subscription that takes the collector's
	// state and a visitor
	"server.Subscription.traverse": func(p *Prog, n *types.Named) *types.Func {
		gcT := p.Named("server.gcState")
		if gcT == nil {
			return nil
		}
		var hit *types.Func
		for k := 0; k < n.NumMethods(); k++ {
			m := n.Method(k)
			sig, _ := m.Type().(*types.Signature)
			if sig == nil || sig.Params().Len() != 2 {
				continue
			}
			if !types.Identical(sig.Params().At(0).Type(), gcT) {
				continue
			}
			if _, isFn := sig.Params().At(1).Type().Underlying().(*types.Signature); !isFn {
				continue
			}
			if hit != nil {
				return nil
			}
			hit = m
		}
		return hit
	},
}

// PkgFunc looks up a package level function "pkg.Func".
func (p *Prog) PkgFunc(q string) *types.Func {
	i := strings.IndexByte(q, '.')
	pk := p.Typs[q[:i]]
	if pk == nil {
		return nil
	}
	if f, ok := pk.Scope().Lookup(q[i+1:]).(*types.Func); ok {
		return f
	}
	var names []string
	var fs []*types.Func
	for _, n := range pk.Scope().Names() {
		if f, ok := pk.Scope().Lookup(n).(*types.Func); ok {
			names = append(names, n)
			fs = append(fs, f)
		}
	}
	if j := similarName(q[i+1:], names); j >= 0 {
		p.fuzzy = append(p.fuzzy, q+" -> "+names[j])
		return fs[j]
	}
	return nil
}

// Pos renders a position relative to the repository root.
func (p *Prog) Pos(pos token.Pos) string {
	if !pos.IsValid() {
		return "-"
	}
	ps := p.Fset.Position(pos)
	fn := ps.Filename
	if strings.HasPrefix(fn, p.Dir+"/") {
		fn = fn[len(p.Dir)+1:]
	}
	return fmt.Sprintf("%s:%d", fn, ps.Line)
}

// InstrPos finds a usable position for an instruction (falls back to the
// enclosing function).
func (p *Prog) InstrPos(in ssa.Instruction) string {
	if in == nil {
		return "-"
	}
	if in.Pos().IsValid() {
		return p.Pos(in.Pos())
	}
	if v, ok := in.(ssa.Value); ok {
		if rs := v.Referrers(); rs != nil {
			for _, r := range *rs {
				if r.Pos().IsValid() {
					return p.Pos(r.Pos())
				}
			}
		}
	}
	// nearest positioned instruction in the same block
	b := in.Block()
	if b != nil {
		for _, o := range b.Instrs {
			if o.Pos().IsValid() {
				return p.Pos(o.Pos())
			}
		}
		return p.Pos(b.Parent().Pos())
	}
	return "-"
}

// Closures returns the closures lexically created inside f (directly).
func (p *Prog) Closures(f *ssa.Function) []*ssa.Function { return f.AnonFuncs }

// TopLevel returns the outermost enclosing function of f.
func TopLevel(f *ssa.Function) *ssa.Function {
	for f.Parent() != nil {
		f = f.Parent()
	}
	return f
}

// WithClosures returns f and all closures nested in it, recursively.
func WithClosures(f *ssa.Function) []*ssa.Function {
	out := []*ssa.Function{f}
	for _, a := range f.AnonFuncs {
		out = append(out, WithClosures(a)...)
	}
	return out
}

// flagFields returns the field(s) that hold the subscription's bit flags: the
// flags field, or — when the bits were turned into separate bool fields — the
// bool fields of the struct that are no anchors of their own.
func (p *Prog) flagFields(q string) []*types.Var {
	if f := p.Field(q); f != nil {
		return []*types.Var{f}
	}
	i := strings.LastIndexByte(q, '.')
	n := p.Named(q[:i])
	if n == nil {
		return nil
	}
	st, ok := n.Underlying().(*types.Struct)
	if !ok {
		return nil
	}
	var out []*types.Var
	for k := 0; k < st.NumFields(); k++ {
		f := st.Field(k)
		if b, isB := f.Type().Underlying().(*types.Basic); isB && b.Kind() == types.Bool {
			if _, named := anchorFieldTypes[q[:i+1]+f.Name()]; !named {
				out = append(out, f)
			}
		}
	}
	if len(out) > 0 {
		p.fuzzy = append(p.fuzzy, q+" -> separate bool fields")
	}
	return out
}

// refMethodNames: the method names the type ("server.Subscription") had on the reference tree.
func refMethodNames(typ string) map[string]bool {
	out := map[string]bool{}
	for _, n := range loadGolden().Funcs {
		for _, pre := range []string{"(*" + typ + ").", "(" + typ + ")."} {
			if strings.HasPrefix(n, pre) {
				out[n[len(pre):]] = true
			}
		}
	}
	return out
}

func init() {
	// the function that takes a resource entry out of the indexes: the one that deletes from the alias index
	roleFns["(*rescache.ResourceSubscription).unregister"] = func(p *Prog) *ssa.Function {
		fLinks := p.Field("rescache.EventSubscription.links")
		if fLinks == nil {
			return nil
		}
		var hit *ssa.Function
		for _, g := range p.Repo {
			if g.Parent() != nil {
				continue
			}
			for _, in := range instrsOf(g) {
				if call, ok := isBuiltinCall(in, "delete"); ok {
					if f, _ := fieldLoad(call.Call.Args[0]); f != nil && f == fLinks {
						if hit != nil && hit != g {
							return nil
						}
						hit = g
					}
				}
			}
		}
		return hit
	}
	// the eviction callback of the cache: the method handed to the timer queue when the cache starts
	roleFns["(*rescache.Cache).mqUnsubscribe"] = func(p *Prog) *ssa.Function {
		start := p.fnNoRole("(*rescache.Cache).Start")
		if start == nil {
			return nil
		}
		var hit *ssa.Function
		for _, g := range p.withHelpers(start) {
			for _, call := range callsIn(g) {
				sf := call.Common().StaticCallee()
				if sf == nil || sf.Pkg == nil || sf.Pkg.Pkg.Name() != "timerqueue" {
					continue
				}
				for _, a := range call.Common().Args {
					mc, ok := stripConv(a).(*ssa.MakeClosure)
					if !ok {
						continue
					}
					bf, _ := mc.Fn.(*ssa.Function)
					if bf == nil {
						continue
					}
					tf := bf
					if strings.HasSuffix(bf.Name(), "$bound") {
						if m := boundMethod(bf); m != nil {
							tf = p.SSA.FuncValue(m)
						}
					}
					if tf == nil || len(tf.Blocks) == 0 {
						continue
					}
					if hit != nil && hit != tf {
						return nil
					}
					hit = tf
				}
			}
		}
		return hit
	}
	// the adapter's teardown: the one function that closes the message channel
	roleFns["(*nats.Client).close"] = func(p *Prog) *ssa.Function {
		ch := p.Field("nats.Client.mqCh")
		if ch == nil {
			return nil
		}
		var hit *ssa.Function
		for _, g := range p.Repo {
			if g.Pkg == nil || g.Pkg.Pkg.Name() != "nats" {
				continue
			}
			for _, in := range instrsOf(g) {
				if call, ok := isBuiltinCall(in, "close"); ok {
					if f, _ := fieldLoad(call.Call.Args[0]); f == ch {
						if hit != nil && hit != TopLevel(g) {
							return nil
						}
						hit = TopLevel(g)
					}
				}
			}
		}
		return hit
	}
}

// roleFnNames: the anchors that have a role-based resolver (kept apart from roleFns to avoid an initialisation cycle).
var roleFnNames = map[string]bool{"(*server.Subscription).queueEvents": true, "(*server.Subscription).unqueueEvents": true, "(*nats.Client).close": true, "(*server.wsConn).outputWorker": true, "(*rescache.Cache).mqUnsubscribe": true, "(*rescache.ResourceSubscription).unregister": true}

// holdBackRoles: the hold-back reasons of a subscription, found by what is done with them when the names are gone:
// the one field of Subscription that one method ORs its parameter into and another method masks its parameter out of,
// and those two methods.
func (p *Prog) holdBackRoles() (*types.Var, *ssa.Function, *ssa.Function) {
	if p.hbDone {
		return p.hbField, p.hbSet, p.hbClear
	}
	p.hbDone = true
	subT := p.Named("server.Subscription")
	if subT == nil {
		return nil, nil, nil
	}
	type cand struct{ set, clear map[*ssa.Function]bool }
	cs := map[*types.Var]*cand{}
	isParamMask := func(fn *ssa.Function, v ssa.Value) bool {
		v = stripConv(v)
		if u, ok := v.(*ssa.UnOp); ok && u.Op == token.XOR {
			v = stripConv(u.X)
		}
		prm, ok := v.(*ssa.Parameter)
		return ok && len(fn.Params) > 1 && prm != fn.Params[0]
	}
	for _, fn := range p.Repo {
		if fn.Parent() != nil || fn.Signature.Recv() == nil || len(fn.Params) != 2 {
			continue
		}
		rt := fn.Signature.Recv().Type()
		if pt, ok := rt.(*types.Pointer); ok {
			rt = pt.Elem()
		}
		if !types.Identical(rt, subT) {
			continue
		}
		for _, b := range fn.Blocks {
			for _, in := range b.Instrs {
				st, ok := in.(*ssa.Store)
				if !ok {
					continue
				}
				fa, ok := st.Addr.(*ssa.FieldAddr)
				if !ok || fa.X != ssa.Value(fn.Params[0]) {
					continue
				}
				bo, ok := st.Val.(*ssa.BinOp)
				if !ok {
					continue
				}
				f := fieldOfAddr(fa)
				if cs[f] == nil {
					cs[f] = &cand{map[*ssa.Function]bool{}, map[*ssa.Function]bool{}}
				}
				switch bo.Op {
				case token.OR:
					if isParamMask(fn, bo.X) || isParamMask(fn, bo.Y) {
						cs[f].set[fn] = true
					}
				case token.AND, token.AND_NOT:
					if isParamMask(fn, bo.X) || isParamMask(fn, bo.Y) {
						cs[f].clear[fn] = true
					}
				}
			}
		}
	}
	for f, c := range cs {
		if len(c.set) == 1 && len(c.clear) == 1 {
			if p.hbField != nil {
				p.hbField, p.hbSet, p.hbClear = nil, nil, nil
				return nil, nil, nil // ambiguous
			}
			p.hbField = f
			for g := range c.set {
				p.hbSet = g
			}
			for g := range c.clear {
				p.hbClear = g
			}
		}
	}
	return p.hbField, p.hbSet, p.hbClear
}

func init() {
	roleFns["(*server.Subscription).queueEvents"] = func(p *Prog) *ssa.Function { _, s, _ := p.holdBackRoles(); return s }
	roleFns["(*server.Subscription).unqueueEvents"] = func(p *Prog) *ssa.Function { _, _, c := p.holdBackRoles(); return c }
	roleFields["server.Subscription.queueFlag"] = func(p *Prog, st *types.Struct) *types.Var { f, _, _ := p.holdBackRoles(); return f }
	roleMethods["server.Subscription.queueEvents"] = func(p *Prog, n *types.Named) *types.Func {
		if _, s, _ := p.holdBackRoles(); s != nil {
			m, _ := s.Object().(*types.Func)
			return m
		}
		return nil
	}
	roleMethods["server.Subscription.unqueueEvents"] = func(p *Prog, n *types.Named) *types.Func {
		if _, _, c := p.holdBackRoles(); c != nil {
			m, _ := c.Object().(*types.Func)
			return m
		}
		return nil
	}
}
