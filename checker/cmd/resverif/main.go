// resverif decides structural (static) necessary conditions of the resgate
// properties C01..C20 from the source in /repo, without running it.
package main

import (
	"encoding/json"
	"flag"
	"fmt"
	"os"
	"path/filepath"
	"runtime/debug"
	"sort"
	"strconv"
	"strings"
	"time"
)

var properties = map[string]*Property{}

func register(p *Property) { properties[p.ID] = p }

func verifDir() string {
	if d := os.Getenv("VERIF_DIR"); d != "" {
		return d
	}
	exe, err := os.Executable()
	if err == nil {
		d := filepath.Dir(filepath.Dir(exe))
		if _, err := os.Stat(filepath.Join(d, "properties.jsonl")); err == nil {
			return d
		}
	}
	return "/verif"
}

func main() {
	if len(os.Args) < 2 {
		usage()
	}
	switch os.Args[1] {
	case "check":
		os.Exit(cmdCheck(os.Args[2:]))
	case "list":
		ids := make([]string, 0, len(properties))
		for id := range properties {
			ids = append(ids, id)
		}
		sort.Strings(ids)
		for _, id := range ids {
			p := properties[id]
			fmt.Printf("%s  %s\n", id, p.Title)
			for _, r := range p.Rules {
				fmt.Printf("      %-28s min=%d  %s\n", r.Name, r.Min, r.Doc)
			}
		}
	case "describe":
		out := map[string]interface{}{}
		for id, pr := range properties {
			var rules []map[string]interface{}
			for _, r := range pr.Rules {
				rules = append(rules, map[string]interface{}{"name": r.Name, "min": r.Min, "doc": r.Doc})
			}
			out[id] = map[string]interface{}{"title": pr.Title, "explanation": pr.Explanation, "assumptions": pr.Assumptions, "rules": rules}
		}
		b, _ := json.MarshalIndent(out, "", " ")
		fmt.Println(string(b))
	case "anchors":
		os.Exit(cmdAnchors(os.Args[2:]))
	case "ctx":
		os.Exit(cmdCtx(os.Args[2:]))
	case "writers":
		os.Exit(cmdWriters(os.Args[2:]))
	case "paths":
		os.Exit(cmdPaths(os.Args[2:]))
	case "lockstats":
		os.Exit(cmdLockStats(os.Args[2:]))
	case "resolve":
		os.Exit(cmdResolve(os.Args[2:]))
	case "golden":
		os.Exit(cmdGolden(os.Args[2:]))
	case "linpaths":
		os.Exit(cmdLinPaths(os.Args[2:]))
	case "explain":
		os.Exit(cmdExplain(os.Args[2:]))
	default:
		usage()
	}
}

func usage() {
	fmt.Fprintln(os.Stderr, "usage: resverif check -p <Cnn|all> [-tier quick|thorough] [-repo /repo] | list | explain <replay.json>")
	os.Exit(2)
}

type replayRec struct {
	Property string `json:"property"`
	Ob       Ob     `json:"obligation"`
	Repo     string `json:"repo"`
	Tier     string `json:"tier"`
}

func cmdCheck(args []string) int {
	fs := flag.NewFlagSet("check", flag.ExitOnError)
	pid := fs.String("p", "", "property id (Cnn) or 'all'")
	tier := fs.String("tier", "", "quick|thorough")
	repo := fs.String("repo", "/repo", "repository root")
	noEvidence := fs.Bool("no-evidence", false, "do not write evidence/violation files (self-test)")
	verbose := fs.Bool("v", false, "print every obligation")
	only := fs.String("rule", "", "only run rules whose name contains this string")
	fs.Parse(args)
	if *tier == "" {
		*tier = os.Getenv("VERIF_TIER")
	}
	if *tier == "" {
		*tier = "quick"
	}
	if *tier != "quick" && *tier != "thorough" {
		fmt.Fprintln(os.Stderr, "bad tier")
		return 2
	}
	seed, _ := strconv.Atoi(os.Getenv("VERIF_SEED"))
	var ids []string
	if *pid == "all" {
		for id := range properties {
			ids = append(ids, id)
		}
		sort.Strings(ids)
	} else if properties[*pid] != nil {
		ids = []string{*pid}
	} else {
		fmt.Fprintf(os.Stderr, "unknown property %q\n", *pid)
		return 2
	}

	t0 := time.Now()
	abs, _ := filepath.Abs(*repo)
	prog, err := Load(abs, "")
	if err != nil {
		fmt.Printf("UNDECIDED load: %v\n", err)
		return 2
	}
	loadS := time.Since(t0).Seconds()
	fmt.Printf("loaded %s: %d repository functions (%d incl. dependencies), call graph %d nodes, %.1fs\n",
		abs, len(prog.Repo), prog.nAllFuncs, len(prog.CG.Nodes), loadS)
	progs := []*Prog{prog}
	if *tier == "thorough" {
		thoroughBoost = true
		p386, err := Load(abs, "386")
		if err != nil {
			fmt.Printf("UNDECIDED load GOARCH=386: %v\n", err)
			return 2
		}
		fmt.Printf("loaded second configuration GOOS=linux GOARCH=386: %d repository functions\n", len(p386.Repo))
		progs = append(progs, p386)
	}
	known, err := loadKnown(filepath.Join(verifDir(), "known_findings.txt"))
	if err != nil {
		fmt.Printf("UNDECIDED %v\n", err)
		return 2
	}

	exit := 0
	for _, id := range ids {
		e := runProperty(progs, properties[id], *tier, seed, known, *noEvidence, *verbose, *only, loadS)
		if e > exit {
			exit = e
		}
	}
	return exit
}

func runProperty(progs []*Prog, prop *Property, tier string, seed int, known []knownFinding, noEvidence, verbose bool, only string, loadS float64) (exit int) {
	t0 := time.Now()
	vdir := verifDir()
	var all []Ob
	instances := map[string]map[string]int{}
	var notes []string
	vacuous := []string{}
	internal := []string{}

	for ci, prog := range progs {
		cfgName := "default"
		if ci == 1 {
			cfgName = "GOARCH=386"
		}
		if len(prog.combMissing) > 0 || len(prog.Combinators()) == 0 {
			prog.Combinators()
		}
		for _, r := range prop.Rules {
			if only != "" && !strings.Contains(r.Name, only) {
				continue
			}
			res := &RuleResult{Rule: r.Name, MinInst: r.Min}
			ctx := &Ctx{P: prog, Tier: tier, res: res}
			func() {
				defer func() {
					if x := recover(); x != nil {
						internal = append(internal, fmt.Sprintf("rule %s panicked: %v\n%s", r.Name, x, debug.Stack()))
					}
				}()
				r.Run(ctx)
			}()
			if ci == 0 {
				instances[r.Name] = map[string]int{"min": r.Min, "found": res.Instances}
				all = append(all, res.Obs...)
				notes = append(notes, res.Notes...)
			} else {
				// second configuration must agree: only its non-discharged obligations are added
				for _, o := range res.Obs {
					if o.Status != OK {
						o.Detail = "[" + cfgName + "] " + o.Detail
						all = append(all, o)
					}
				}
			}
			if res.Instances < r.Min {
				vacuous = append(vacuous, fmt.Sprintf("%s: %d instances found, at least %d expected [%s]", r.Name, res.Instances, r.Min, cfgName))
			}
			nOK, nBad := 0, 0
			for _, o := range res.Obs {
				if o.Status == OK {
					nOK++
				} else {
					nBad++
				}
			}
			if ci == 0 {
				fmt.Printf("%s %-30s instances=%d obligations=%d discharged=%d open=%d\n", prop.ID, r.Name, res.Instances, len(res.Obs), nOK, nBad)
			}
		}
	}

	// classify
	var viols, kfs []Ob
	kfText := map[string]string{}
	discharged := 0
	distinct := map[string]bool{}
	for _, o := range all {
		if !o.Trivial {
			distinct[o.Key()] = true
		}
		if o.Status == OK {
			discharged++
			continue
		}
		matched := false
		for _, k := range known {
			if k.Kind == "finding" && k.Property == prop.ID && k.Key == o.Key() {
				matched = true
				kfText[o.Key()] = k.Text
			}
		}
		if matched {
			kfs = append(kfs, o)
		} else {
			viols = append(viols, o)
		}
	}
	if verbose {
		for _, o := range all {
			fmt.Printf("  [%s] %s @%s %s\n", o.Status, o.Key(), o.Pos, o.Detail)
		}
	}
	seenKF := map[string]bool{}
	for _, o := range kfs {
		if seenKF[o.Key()] {
			continue
		}
		seenKF[o.Key()] = true
		fmt.Printf("KNOWN-FINDING: property=%s %s [%s] %s\n", prop.ID, kfText[o.Key()], o.Key(), o.Pos)
	}
	if !noEvidence {
		os.RemoveAll(filepath.Join(vdir, "out", "violations", prop.ID))
	}
	for i, o := range viols {
		path := filepath.Join(vdir, "out", "violations", prop.ID, fmt.Sprintf("%s-%d.json", prop.ID, i+1))
		if !noEvidence {
			writeJSON(path, replayRec{Property: prop.ID, Ob: o, Repo: progs[0].Dir, Tier: tier})
		}
		fmt.Printf("  %s: %s\n    construct: %s %s\n    at: %s\n    %s\n", strings.ToUpper(o.Status), o.Rule, o.Construct, o.What, o.Pos, o.Detail)
		fmt.Printf("VIOLATION property=%s replay=%s\n", prop.ID, path)
	}
	for _, v := range vacuous {
		fmt.Printf("UNDECIDED property=%s anti-vacuity: %s\n", prop.ID, v)
	}
	for _, v := range internal {
		fmt.Printf("UNDECIDED property=%s internal: %s\n", prop.ID, v)
	}

	// samples: a deterministic selection of obligations, rotated by seed
	var samples []Ob
	if len(all) > 0 {
		step := len(all) / 8
		if step == 0 {
			step = 1
		}
		for i := seed % step; i < len(all) && len(samples) < 10; i += step {
			samples = append(samples, all[i])
		}
	}
	for _, o := range append(viols, kfs...) {
		if len(samples) < 16 {
			samples = append(samples, o)
		}
	}
	var st *selftestResult
	if tier == "thorough" && !noEvidence {
		r := runSelftest(prop.ID, progs[0].Dir)
		st = &r
		fmt.Printf("%s self-test: %d/%d breaking patches reported, %d/%d behaviour-preserving patches quiet, %d skipped\n", prop.ID, r.Detected, r.Breaking, r.Quiet, r.Benign, len(r.Skipped))
		for _, f := range r.Failures {
			fmt.Printf("UNDECIDED property=%s self-test: %s\n", prop.ID, f)
			internal = append(internal, "self-test: "+f)
		}
	}
	wall := time.Since(t0).Seconds() + loadS
	var kfKeys []string
	for k := range seenKF {
		kfKeys = append(kfKeys, k)
	}
	sort.Strings(kfKeys)
	ev := evidence{
		PropertyID: prop.ID, Tier: tier, Seed: seed, Level: "other",
		Assumptions: prop.Assumptions, WallS: wall, Violations: len(viols),
		Coverage: map[string]interface{}{
			"explanation":            prop.Explanation,
			"obligations":            len(all),
			"discharged":             discharged,
			"evaluations":            len(all),
			"distinct_nontrivial":    len(distinct),
			"rule":                   "one obligation per (rule instance, construct, clause); distinct = distinct (rule, construct, clause) keys; non-trivial = the construct contains at least one acquire, sink, store or call site for the rule to examine (obligations on empty sink sets are marked trivial and not counted)",
			"samples":                samples,
			"instances":              instances,
			"analysed":               map[string]interface{}{"repository_functions": len(progs[0].Repo), "all_functions": progs[0].nAllFuncs, "callgraph_nodes": len(progs[0].CG.Nodes), "configurations": len(progs), "packages": len(progs[0].Typs)},
			"known_findings_matched": kfKeys,
			"notes":                  notes,
			"checker_cmd":            "resverif check -p " + prop.ID + " -tier " + tier,
			"trusted_base":           []string{"go/types and go/ssa (golang.org/x/tools v0.29.0)", "VTA call graph for interface calls", "frozen combinator table (checker/cmd/resverif/combs.go)", "library semantics: encoding/json, nats.go, timerqueue, gorilla/websocket, net/http"},
			"exhaustive":             false,
		},
	}
	if st != nil {
		ev.Coverage["selftest"] = st
	}
	if !noEvidence {
		if err := writeJSON(filepath.Join(vdir, "evidence", prop.ID+".json"), ev); err != nil {
			fmt.Printf("UNDECIDED cannot write evidence: %v\n", err)
			return 2
		}
	}
	fmt.Printf("%s: %d obligations, %d discharged, %d violations, %d known findings, %.1fs\n", prop.ID, len(all), discharged, len(viols), len(seenKF), wall)
	if len(viols) > 0 {
		return 1
	}
	if len(vacuous) > 0 || len(internal) > 0 {
		return 2
	}
	return 0
}

func cmdExplain(args []string) int {
	if len(args) < 1 {
		usage()
	}
	b, err := os.ReadFile(args[0])
	if err != nil {
		fmt.Fprintln(os.Stderr, err)
		return 2
	}
	var rec replayRec
	if err := json.Unmarshal(b, &rec); err != nil {
		fmt.Fprintln(os.Stderr, err)
		return 2
	}
	prop := properties[rec.Property]
	if prop == nil {
		fmt.Fprintln(os.Stderr, "unknown property in record")
		return 2
	}
	fmt.Printf("replaying obligation %q of %s on %s\n", rec.Ob.Key(), rec.Property, rec.Repo)
	prog, err := Load(rec.Repo, "")
	if err != nil {
		fmt.Printf("UNDECIDED load: %v\n", err)
		return 2
	}
	found := false
	bad := false
	for _, r := range prop.Rules {
		if r.Name != rec.Ob.Rule {
			continue
		}
		res := &RuleResult{Rule: r.Name}
		r.Run(&Ctx{P: prog, Tier: rec.Tier, res: res})
		for _, o := range res.Obs {
			if o.Key() == rec.Ob.Key() {
				found = true
				fmt.Printf("[%s] %s\n  at %s\n  %s\n", o.Status, o.Key(), o.Pos, o.Detail)
				if o.Status != OK {
					bad = true
				}
			}
		}
		fmt.Printf("rule: %s — %s\n", r.Name, r.Doc)
	}
	if !found {
		fmt.Println("the obligation no longer exists on the current tree")
		return 0
	}
	if bad {
		fmt.Printf("VIOLATION property=%s replay=%s\n", rec.Property, args[0])
		return 1
	}
	return 0
}

// cmdAnchors prints the frozen table of field anchors and their types as Go
// source (anchors_gen.go). It is run by hand on a tree where every anchor
// resolves by name; the table lets Field() recognise a renamed field by its
// type when the name gives no clue.
func cmdAnchors(args []string) int {
	repo := "/repo"
	if len(args) > 0 {
		repo = args[0]
	}
	prog, err := Load(repo, "")
	if err != nil {
		fmt.Fprintln(os.Stderr, err)
		return 2
	}
	var ids []string
	for id := range properties {
		ids = append(ids, id)
	}
	sort.Strings(ids)
	for _, id := range ids {
		for _, r := range properties[id].Rules {
			func() {
				defer func() { recover() }()
				r.Run(&Ctx{P: prog, Tier: "quick", res: &RuleResult{Rule: r.Name}})
			}()
		}
	}
	var keys []string
	for k := range prog.fieldSeen {
		keys = append(keys, k)
	}
	sort.Strings(keys)
	fmt.Println("// Code generated by `resverif anchors`; DO NOT EDIT.\n\npackage main\n\n// anchorFieldTypes: field anchors used by the rules and the type each had on the tree the rules were written for.\nvar anchorFieldTypes = map[string]string{")
	for _, k := range keys {
		fmt.Printf("\t%q: %q,\n", k, strings.SplitN(prog.fieldSeen[k], "|", 2)[0])
	}
	fmt.Println("}")
	fmt.Println("\n// anchorFieldShapes: the same types with the repository's own type names erased.\nvar anchorFieldShapes = map[string]string{")
	for _, k := range keys {
		fmt.Printf("\t%q: %q,\n", k, strings.SplitN(prog.fieldSeen[k], "|", 2)[1])
	}
	fmt.Println("}")
	return 0
}
