package main

// CONF/service-lifecycle (C20): start / stop of the service and its parts, as
// path rules over the functions that do it. Written after the mutation sweep:
// the suite starts and stops the service a few hundred times, always in the
// one good order, so it passes with nearly any of these conditions dropped.

import (
	"fmt"
	"go/token"
	"go/types"
	"strings"

	"golang.org/x/tools/go/ssa"
)

// pathRule runs a trace over fn and hands every path to check; check returns a
// complaint or "".
func pathRule(c *Ctx, fn *ssa.Function, what string, sp *Spec, minPaths int, check func(tr *Tracer, path []Ev) string) {
	p := c.P
	c.inst(1)
	tr := runTrace(p, fn, sp)
	bad := ""
	for _, path := range tr.Paths {
		if b := check(tr, path); b != "" {
			bad = b + ": " + tr.FmtPath(path)
		}
	}
	if len(tr.Paths) < minPaths {
		bad = fmt.Sprintf("shape not recognised: %d paths", len(tr.Paths))
	}
	if tr.Trunc {
		bad = "path budget exhausted"
	}
	c.check(bad == "", fnName(fn), what, p.Pos(fn.Pos()), fmt.Sprintf("%d paths", len(tr.Paths)), bad)
}

// resolvedField: the member a value is a load of — directly, or through a pointer to the member that was
// handed to a helper (`shutdownServer(&s.h, …)` … `*srv`).
func resolvedField(t *Tracer, fr *Frame, v ssa.Value) *types.Var {
	r := t.Resolve(fr, v)
	if g, _ := fieldLoad(r.V); g != nil {
		return g
	}
	if u, ok := r.V.(*ssa.UnOp); ok && u.Op == token.MUL {
		if fa, ok := t.Resolve(r.Fr, u.X).V.(*ssa.FieldAddr); ok {
			return fieldOfAddr(fa)
		}
	}
	return nil
}

func fieldTestEv(t *Tracer, fr *Frame, i *ssa.If, dir bool, f *types.Var, name string) []Ev {
	if f == nil {
		return nil
	}
	if x, nn, ok := nilTest(i, dir); ok {
		if g := resolvedField(t, fr, x); g == f {
			if nn {
				return []Ev{{Kind: name + "!=nil"}}
			}
			return []Ev{{Kind: name + "==nil"}}
		}
	}
	v := i.Cond
	neg := false
	if u, ok := v.(*ssa.UnOp); ok && u.Op == token.NOT {
		v, neg = u.X, true
	}
	if g := resolvedField(t, fr, v); g == f {
		if dir != neg {
			return []Ev{{Kind: name + "=true"}}
		}
		return []Ev{{Kind: name + "=false"}}
	}
	return nil
}

func storeEv(t *Tracer, fr *Frame, in ssa.Instruction, f *types.Var, name string) []Ev {
	st, ok := in.(*ssa.Store)
	if !ok || f == nil {
		return nil
	}
	fa, ok := st.Addr.(*ssa.FieldAddr)
	if !ok {
		// a store through a pointer to the member that was handed to a helper (`*srv = nil`)
		fa, ok = t.Resolve(fr, st.Addr).V.(*ssa.FieldAddr)
	}
	if !ok || fieldOfAddr(fa) != f {
		return nil
	}
	v := t.Resolve(fr, st.Val).V
	switch {
	case isNilConst(v):
		return []Ev{{Kind: name + ":=nil"}}
	default:
		if b, ok := constBool(v); ok {
			return []Ev{{Kind: fmt.Sprintf("%s:=%v", name, b)}}
		}
	}
	return []Ev{{Kind: name + ":=set"}}
}

func ruleServiceLifecycle(c *Ctx) {
	p := c.P
	fStop := p.Field("server.Service.stop")
	fStopping := p.Field("server.Service.stopping")
	fH := p.Field("server.Service.h")
	fStarted := p.Field("rescache.Cache.started")
	fInCh := p.Field("rescache.Cache.inCh")

	// 1. Stop goes ahead only for a running service that is not already stopping
	if fn := p.Fn("(*server.Service).Stop"); fn != nil && fStop != nil && fStopping != nil {
		sp := &Spec{}
		sp.Branch = func(t *Tracer, fr *Frame, i *ssa.If, dir bool) []Ev {
			if e := fieldTestEv(t, fr, i, dir, fStop, "stop"); e != nil {
				return e
			}
			return fieldTestEv(t, fr, i, dir, fStopping, "stopping")
		}
		sp.Classify = func(t *Tracer, fr *Frame, in ssa.Instruction) []Ev {
			return storeEv(t, fr, in, fStopping, "stopping")
		}
		pathRule(c, fn, "Stop goes ahead only for a service that is running and not already stopping", sp, 2, func(tr *Tracer, path []Ev) string {
			bi := indexKind(path, "stopping:=true")
			if bi < 0 {
				return ""
			}
			if j := indexKind(path, "stop!=nil"); j < 0 || j > bi {
				return "the shutdown begins on a path that has not established that the service is running: a redundant Stop (a late loss of the messaging connection after Stop) sends on and closes a nil stop channel"
			}
			if j := indexKind(path, "stopping=false"); j < 0 || j > bi {
				return "the shutdown begins on a path that has not established that no shutdown is in progress: two Stops run the teardown twice and the second closes the closed stop channel"
			}
			return ""
		})
	} else {
		c.undecided("(*server.Service).Stop", "anchor", "-", "not found")
	}

	// 2. a failed start is cleaned up by Stop
	if fn := p.Fn("(*server.Service).Start"); fn != nil {
		start := p.Fn("(*server.Service).start")
		stopM := p.Method("server.Service.Stop")
		sp := &Spec{NoHelpers: true}
		sp.Branch = func(t *Tracer, fr *Frame, i *ssa.If, dir bool) []Ev {
			if x, nn, ok := nilTest(i, dir); ok && isErrorType(x.Type()) {
				rv := t.Resolve(fr, x).V
				if cl, ok := rv.(*ssa.Call); ok && start != nil && cl.Call.StaticCallee() == start {
					if nn {
						return []Ev{{Kind: "start-failed"}}
					}
					return []Ev{{Kind: "start-ok"}}
				}
				if u, ok := rv.(*ssa.UnOp); ok {
					// named result spilled to a cell
					if al, ok := u.X.(*ssa.Alloc); ok {
						for _, r := range *al.Referrers() {
							if st, ok := r.(*ssa.Store); ok {
								if cl, ok := st.Val.(*ssa.Call); ok && start != nil && cl.Call.StaticCallee() == start {
									if nn {
										return []Ev{{Kind: "start-failed"}}
									}
									return []Ev{{Kind: "start-ok"}}
								}
							}
						}
					}
				}
			}
			return nil
		}
		sp.Classify = func(t *Tracer, fr *Frame, in ssa.Instruction) []Ev {
			if stopM != nil {
				if _, ok := isCallTo(in, stopM); ok {
					return []Ev{{Kind: "stop", Stop: true}}
				}
			}
			return nil
		}
		pathRule(c, fn, "a start that fails half way is cleaned up by Stop", sp, 2, func(tr *Tracer, path []Ev) string {
			if hasKind(path, "start-failed") && !hasKind(path, "stop") {
				return "a failed start is not followed by Stop: the messaging connection, the cache workers and the stop channel of the half-started service stay behind, and the next Start is a no-op"
			}
			if !hasKind(path, "start-failed") && !hasKind(path, "start-ok") {
				return "the result of start() is not consulted"
			}
			return ""
		})
	}

	// 3. startMQClient: success means connected, cache started, closed handler installed
	if fn := p.Fn("(*server.Service).startMQClient"); fn != nil {
		sp := &Spec{NoHelpers: true}
		callName := func(cl *ssa.Call) string {
			if f := calleeFunc(&cl.Call); f != nil {
				return f.Name()
			}
			return ""
		}
		sp.Classify = func(t *Tracer, fr *Frame, in ssa.Instruction) []Ev {
			if cl, ok := in.(*ssa.Call); ok {
				switch callName(cl) {
				case "Connect":
					return []Ev{{Kind: "connect"}}
				case "Start":
					return []Ev{{Kind: "cache-start"}}
				case "SetClosedHandler":
					return []Ev{{Kind: "closed-handler"}}
				}
			}
			if r, ok := in.(*ssa.Return); ok && fr == t.RootFr && len(r.Results) == 1 {
				rv := t.Resolve(fr, r.Results[0]).V
				if isNilConst(rv) {
					return []Ev{{Kind: "return:ok"}}
				}
				if cl, ok := rv.(*ssa.Call); ok {
					return []Ev{{Kind: "return:err-of-" + callName(cl)}}
				}
				return []Ev{{Kind: "return:err"}}
			}
			return nil
		}
		sp.Branch = func(t *Tracer, fr *Frame, i *ssa.If, dir bool) []Ev {
			if x, nn, ok := nilTest(i, dir); ok && isErrorType(x.Type()) {
				if cl, ok := t.Resolve(fr, x).V.(*ssa.Call); ok {
					if nn {
						return []Ev{{Kind: "failed:" + callName(cl)}}
					}
					return []Ev{{Kind: "ok:" + callName(cl)}}
				}
			}
			return nil
		}
		pathRule(c, fn, "the messaging client counts as started only when connected, the cache started and the closed handler installed", sp, 3, func(tr *Tracer, path []Ev) string {
			ok := hasKind(path, "return:ok")
			for _, e := range path {
				// `return err` on the edge where that err is nil is a success return in disguise
				if strings.HasPrefix(e.Kind, "return:err-of-") && hasKind(path, "ok:"+strings.TrimPrefix(e.Kind, "return:err-of-")) {
					ok = true
				}
			}
			if ok {
				for _, k := range []string{"connect", "ok:Connect", "cache-start", "ok:Start", "closed-handler"} {
					if !hasKind(path, k) {
						return "startMQClient reports success on a path without '" + k + "': the service runs with a cache that is not started or without the handler that stops it when the messaging connection is lost"
					}
				}
				return ""
			}
			if hasKind(path, "failed:Connect") || hasKind(path, "failed:Start") {
				return ""
			}
			return "startMQClient fails on a path on which neither Connect nor the cache start failed"
		})
	}

	// 4. stopMQClient: the done signal follows the Close it waits for
	if fn := p.Fn("(*server.Service).stopMQClient"); fn != nil {
		n := 0
		// the functions this teardown starts with a go statement (a closure, or a method named for it)
		var started []*ssa.Function
		for _, h := range p.withNewHelpers(fn) {
			for _, in := range instrsOf(h) {
				gs, ok := in.(*ssa.Go)
				if !ok {
					continue
				}
				if mc, ok := gs.Call.Value.(*ssa.MakeClosure); ok {
					started = append(started, mc.Fn.(*ssa.Function))
				} else if sf := gs.Call.StaticCallee(); sf != nil && p.isRepoFn(sf) {
					if sf.Synthetic != "" {
						if m := boundMethod(sf); m != nil {
							if mf := p.SSA.FuncValue(m); mf != nil {
								sf = mf
							}
						}
					}
					started = append(started, sf)
				}
			}
		}
		for _, g := range started {
			var closeCall ssa.Instruction
			for _, call := range callsIn(g) {
				if f := calleeFunc(call.Common()); f != nil && f.Name() == "Close" {
					closeCall = call
				}
			}
			if closeCall == nil {
				continue
			}
			n++
			sp := &Spec{NoHelpers: true}
			sp.Classify = func(t *Tracer, fr *Frame, in ssa.Instruction) []Ev {
				if cl, ok := in.(ssa.CallInstruction); ok {
					if b, ok := cl.Common().Value.(*ssa.Builtin); ok && b.Name() == "close" {
						return []Ev{{Kind: "signal-done"}}
					}
					if f := calleeFunc(cl.Common()); f != nil && f.Name() == "Close" {
						return []Ev{{Kind: "mq-close"}}
					}
				}
				return nil
			}
			pathRule(c, g, "the messaging client is closed before the waiting Stop is told so", sp, 1, func(tr *Tracer, path []Ev) string {
				ci, di := indexKind(path, "mq-close"), indexKind(path, "signal-done")
				if ci < 0 || di < 0 || di < ci {
					return "Stop is told that the messaging client is closed before (or without) closing it: the cache is stopped while the listener still delivers into it (send on closed channel)"
				}
				return ""
			})
		}
		if n == 0 {
			c.inst(1)
			if handsBoundMethod(p, fn, "Close") {
				c.ok(fnName(fn), "the messaging client is closed before the waiting Stop is told so", p.Pos(fn.Pos()), "Close is handed to a waiting helper as a function value: the helper's order is not re-derived")
			} else {
				c.viol(fnName(fn), "the messaging client is closed before the waiting Stop is told so", p.Pos(fn.Pos()), "no closing goroutine found")
			}
		}
	}

	// 5. cache Start / Stop
	if fn := p.Fn("(*rescache.Cache).Start"); fn != nil && fStarted != nil {
		sp := &Spec{NoHelpers: true}
		sp.Classify = func(t *Tracer, fr *Frame, in ssa.Instruction) []Ev {
			if e := storeEv(t, fr, in, fStarted, "started"); e != nil {
				return e
			}
			if r, ok := in.(*ssa.Return); ok && fr == t.RootFr && len(r.Results) == 1 {
				if isNilConst(t.Resolve(fr, r.Results[0]).V) {
					return []Ev{{Kind: "return:ok"}}
				}
				return []Ev{{Kind: "return:err"}}
			}
			return nil
		}
		sp.Branch = func(t *Tracer, fr *Frame, i *ssa.If, dir bool) []Ev {
			if x, nn, ok := nilTest(i, dir); ok && isErrorType(x.Type()) {
				if nn {
					return []Ev{{Kind: "subscribe-failed"}}
				}
				return []Ev{{Kind: "subscribe-ok"}}
			}
			return fieldTestEv(t, fr, i, dir, fStarted, "started")
		}
		pathRule(c, fn, "the cache counts as started exactly when its system subscription succeeded", sp, 2, func(tr *Tracer, path []Ev) string {
			if hasKind(path, "return:ok") && (!hasKind(path, "started:=true") || !hasKind(path, "subscribe-ok")) {
				return "the cache reports a successful start without the system subscription (no reset or token-reset event would ever arrive) or without marking itself started (Stop would leave the workers and pending evictions behind)"
			}
			if hasKind(path, "return:err") && !hasKind(path, "subscribe-failed") && !hasKind(path, "started=true") {
				return "the cache start fails although the system subscription succeeded"
			}
			return ""
		})
	}
	if fn := p.Fn("(*rescache.Cache).Stop"); fn != nil && fStarted != nil && fInCh != nil {
		sp := &Spec{NoHelpers: true}
		sp.Branch = func(t *Tracer, fr *Frame, i *ssa.If, dir bool) []Ev {
			return fieldTestEv(t, fr, i, dir, fStarted, "started")
		}
		sp.Classify = func(t *Tracer, fr *Frame, in ssa.Instruction) []Ev {
			if cl, ok := in.(ssa.CallInstruction); ok {
				if b, ok := cl.Common().Value.(*ssa.Builtin); ok && b.Name() == "close" {
					return []Ev{{Kind: "close-workers"}}
				}
			}
			return storeEv(t, fr, in, fStarted, "started")
		}
		pathRule(c, fn, "the cache is torn down exactly when it is started", sp, 2, func(tr *Tracer, path []Ev) string {
			if hasKind(path, "close-workers") && !hasKind(path, "started=true") {
				return "the worker channel is closed on a path that has not established that the cache is started: a Stop after a failed Start closes a nil (or already closed) channel and the shutdown panics"
			}
			if hasKind(path, "started=true") && (!hasKind(path, "close-workers") || !hasKind(path, "started:=false")) {
				return "a started cache is not torn down completely"
			}
			return ""
		})
	}

	// 6. HTTP server
	if fn := p.Fn("(*server.Service).startHTTPServer"); fn != nil && fH != nil {
		sp := &Spec{NoHelpers: true}
		sp.Classify = func(t *Tracer, fr *Frame, in ssa.Instruction) []Ev {
			if _, ok := in.(*ssa.Go); ok {
				return []Ev{{Kind: "serve"}}
			}
			return storeEv(t, fr, in, fH, "h")
		}
		pathRule(c, fn, "a started HTTP server is recorded so that Stop can shut it down", sp, 2, func(tr *Tracer, path []Ev) string {
			if hasKind(path, "serve") && !hasKind(path, "h:=set") {
				return "the HTTP server is started without being recorded: Stop cannot shut it down, the port stays bound and the next Start fails"
			}
			return ""
		})
	}
	if fn := p.Fn("(*server.Service).stopHTTPServer"); fn != nil && fH != nil {
		sp := &Spec{}
		sp.Branch = func(t *Tracer, fr *Frame, i *ssa.If, dir bool) []Ev {
			return fieldTestEv(t, fr, i, dir, fH, "h")
		}
		sp.Classify = func(t *Tracer, fr *Frame, in ssa.Instruction) []Ev {
			if cl, ok := in.(ssa.CallInstruction); ok {
				if isMethodOf(cl.Common(), "net/http", "Server", "Shutdown") || isMethodOf(cl.Common(), "net/http", "Server", "Close") {
					return []Ev{{Kind: "shutdown"}}
				}
			}
			return storeEv(t, fr, in, fH, "h")
		}
		pathRule(c, fn, "a recorded HTTP server is shut down and forgotten by Stop", sp, 2, func(tr *Tracer, path []Ev) string {
			if hasKind(path, "h==nil") {
				if hasKind(path, "shutdown") {
					return "Shutdown on a nil server"
				}
				return ""
			}
			if !hasKind(path, "h!=nil") {
				return "the server is shut down (or not) without asking whether there is one"
			}
			if !hasKind(path, "shutdown") || !hasKind(path, "h:=nil") {
				return "a running HTTP server survives Stop (no Shutdown, or the server is not forgotten): the listener stays bound and clients are still served from a stopped gateway"
			}
			return ""
		})
	}

	// 7. stopWSHandler waits for the connections on a goroutine of its own, raced against the timeout
	if fn := p.Fn("(*server.Service).stopWSHandler"); fn != nil {
		c.inst(1)
		bad := ""
		nWait := 0
		for _, g := range p.withNewHelpers(fn) {
			for _, call := range callsIn(g) {
				if f := calleeFunc(call.Common()); f != nil && f.Name() == "Wait" && f.Pkg() != nil && f.Pkg().Path() == "sync" {
					nWait++
					// the function containing the Wait is started with a go statement
					started := false
					if mc := p.parent[g]; mc != nil && mc.Referrers() != nil {
						for _, r := range *mc.Referrers() {
							if _, isGo := r.(*ssa.Go); isGo {
								started = true
							}
						}
					}
					if n := p.CG.Nodes[g]; n != nil && !started {
						for _, e := range n.In {
							if _, isGo := e.Site.(*ssa.Go); isGo {
								started = true
							}
						}
					}
					if !started {
						bad = "Stop waits for the connections' wait group on its own goroutine (" + p.InstrPos(call) + "): the timeout it is raced against can never fire, and one connection that does not finish blocks the shutdown for ever"
					}
				}
			}
		}
		if nWait == 0 {
			bad = "no wait for the connections found"
			if handsBoundMethod(p, fn, "Wait") {
				bad = "" // the wait is handed to a helper as a function value (awaitTimeout(s.wg.Wait, …)): not re-derived
			}
		}
		c.check(bad == "", fnName(fn), "the wait for the connections runs on a goroutine of its own, raced against the timeout", p.Pos(fn.Pos()), fmt.Sprintf("%d waits, each on a goroutine started for it", nWait), bad)
	}

	// 8. a connection that could not be created (service stopping) is not used
	if fn := p.Fn("(*server.Service).wsHandler"); fn != nil {
		newConn := p.Fn("(*server.Service).newWSConn")
		if newConn != nil {
			for _, call := range callsIn(fn) {
				cv, ok := call.(*ssa.Call)
				if !ok || cv.Call.StaticCallee() != newConn {
					continue
				}
				vs := map[ssa.Value]bool{cv: true}
				spillLoads(cv, vs)
				nonNil := func(i *ssa.If) (bool, bool) {
					for _, d := range []bool{true, false} {
						if x, nn, isN := nilTest(i, d); isN && nn && vs[x] {
							return d, true
						}
					}
					return false, false
				}
				for v := range vs {
					if v.Referrers() == nil {
						continue
					}
					for _, r := range *v.Referrers() {
						at := derefOf(r, v)
						if at == nil {
							if cl, ok := r.(ssa.CallInstruction); ok {
								for _, a := range cl.Common().Args {
									if a == v {
										at = cl
									}
								}
							}
						}
						if at == nil {
							continue
						}
						c.inst(1)
						c.check(p.guardedBy(at, nonNil) != nil, fnName(fn), "a connection that was refused (service stopping) is not used", p.InstrPos(at), "under conn != nil",
							"the connection newWSConn returned is used on a path that has not established that it is non-nil: during Stop a new WebSocket request dereferences nil (or is served by a stopping gateway)")
					}
				}
			}
		}
	}

	// 9. admission precedes the handshake: the service decides whether it takes the connection (newWSConn,
	//    under the service lock, atomically with Stop) before it answers the upgrade request. An upgrade that
	//    is answered first leaves a refused client with an open socket nobody owns or closes.
	if fn := p.Fn("(*server.Service).wsHandler"); fn != nil {
		newConn := p.Fn("(*server.Service).newWSConn")
		if newConn != nil {
			fns := p.withNewHelpers(fn)
			admitted := func(at ssa.Instruction) bool {
				for _, call := range callsIn(at.Block().Parent()) {
					if call.Common().StaticCallee() == newConn && dominates(call, at) {
						return true
					}
				}
				return false
			}
			for _, g := range fns {
				for _, call := range callsIn(g) {
					m := calleeFunc(call.Common())
					if m == nil || m.Name() != "Upgrade" || m.Pkg() == nil || !strings.Contains(m.Pkg().Path(), "websocket") {
						continue
					}
					c.inst(1)
					ok := admitted(call)
					if !ok && g != fn && g.Parent() == nil {
						// the handshake lives in a helper: every call of the helper lies behind the admission
						ok = true
						n := 0
						for _, h := range fns {
							for _, hc := range callsIn(h) {
								if hc.Common().StaticCallee() == g {
									n++
									if !admitted(hc) {
										ok = false
									}
								}
							}
						}
						ok = ok && n > 0
					}
					c.check(ok, fnName(g), "the service admits a WebSocket connection before it answers the handshake", p.InstrPos(call), "Upgrade dominated by newWSConn",
						"the handshake is answered on a path that has not asked newWSConn: a request arriving while the service stops gets an established WebSocket that is in no registry and is never closed")
				}
			}
		}
	}
}

// handsBoundMethod: fn (or a helper extracted from it) hands the bound method value x.<name> to some function.
func handsBoundMethod(p *Prog, fn *ssa.Function, name string) bool {
	for _, g := range p.withNewHelpers(fn) {
		for _, call := range callsIn(g) {
			for _, a := range call.Common().Args {
				if mc, ok := stripConv(a).(*ssa.MakeClosure); ok {
					if bf, ok := mc.Fn.(*ssa.Function); ok && strings.HasSuffix(bf.Name(), "$bound") && strings.HasPrefix(bf.Name(), name) {
						return true
					}
				}
			}
		}
	}
	return false
}
