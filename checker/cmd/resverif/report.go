package main

import (
	"bufio"
	"encoding/json"
	"fmt"
	"os"
	"path/filepath"
	"sort"
	"strings"
)

// Status of one obligation.
const (
	OK        = "discharged"
	Violation = "violation"
	Undecided = "undecided"
)

// Ob is one obligation: a rule instance evaluated on a construct.
type Ob struct {
	Rule      string `json:"rule"`
	Construct string `json:"construct"`      // function / field / call site the obligation is about (no line numbers)
	What      string `json:"what,omitempty"` // short stable description of the clause on that construct
	Pos       string `json:"pos,omitempty"`  // file:line, for reports only
	Status    string `json:"status"`
	Detail    string `json:"detail,omitempty"` // path / guard found / reason
	Trivial   bool   `json:"trivial,omitempty"`
}

// Key identifies an obligation independent of positions.
func (o Ob) Key() string {
	k := o.Rule + " " + o.Construct
	if o.What != "" {
		k += " " + o.What
	}
	return k
}

// RuleResult is what a rule function returns.
type RuleResult struct {
	Rule      string
	Obs       []Ob
	Instances int // how many constructs the rule found to examine
	MinInst   int // minimum confirmed by hand (anti-vacuity)
	Notes     []string
}

// Ctx is passed to rules.
type Ctx struct {
	P    *Prog
	Tier string
	res  *RuleResult
}

func (c *Ctx) ob(o Ob) {
	c.res.Obs = append(c.res.Obs, o)
}

func (c *Ctx) ok(construct, what, pos, detail string) {
	c.ob(Ob{Rule: c.res.Rule, Construct: construct, What: what, Pos: pos, Status: OK, Detail: detail})
}

func (c *Ctx) viol(construct, what, pos, detail string) {
	c.ob(Ob{Rule: c.res.Rule, Construct: construct, What: what, Pos: pos, Status: Violation, Detail: detail})
}

func (c *Ctx) undecided(construct, what, pos, detail string) {
	c.ob(Ob{Rule: c.res.Rule, Construct: construct, What: what, Pos: pos, Status: Undecided, Detail: detail})
}

func (c *Ctx) check(cond bool, construct, what, pos, okDetail, badDetail string) bool {
	if cond {
		c.ok(construct, what, pos, okDetail)
	} else {
		c.viol(construct, what, pos, badDetail)
	}
	return cond
}

func (c *Ctx) inst(n int) { c.res.Instances += n }
func (c *Ctx) note(f string, a ...interface{}) {
	c.res.Notes = append(c.res.Notes, fmt.Sprintf(f, a...))
}

// Rule is a named rule with its minimum instance count.
type Rule struct {
	Name string
	Min  int
	Run  func(c *Ctx)
	Doc  string
}

// Property groups the rules deciding (clauses of) one property.
type Property struct {
	ID          string
	Title       string
	Explanation string // decided / not decided clauses
	Assumptions []string
	Rules       []Rule
}

// ---------------------------------------------------------------------------
// known findings

type knownFinding struct {
	Kind     string // "finding" or "fixed"
	Property string
	Key      string // rule + construct + what
	Text     string
	Commit   string
}

func loadKnown(path string) ([]knownFinding, error) {
	f, err := os.Open(path)
	if err != nil {
		if os.IsNotExist(err) {
			return nil, nil
		}
		return nil, err
	}
	defer f.Close()
	var out []knownFinding
	sc := bufio.NewScanner(f)
	sc.Buffer(make([]byte, 1<<20), 1<<20)
	for sc.Scan() {
		line := strings.TrimSpace(sc.Text())
		if line == "" || strings.HasPrefix(line, "#") {
			continue
		}
		// finding: property=C07 key=<rule construct what> :: text
		// fixed: property=C08 commit=<sha> key=<...> :: text
		var kf knownFinding
		switch {
		case strings.HasPrefix(line, "finding:"):
			kf.Kind = "finding"
			line = strings.TrimSpace(line[len("finding:"):])
		case strings.HasPrefix(line, "fixed:"):
			kf.Kind = "fixed"
			line = strings.TrimSpace(line[len("fixed:"):])
		default:
			return nil, fmt.Errorf("known findings: bad line %q", line)
		}
		text := ""
		if i := strings.Index(line, " :: "); i >= 0 {
			text = line[i+4:]
			line = line[:i]
		}
		kf.Text = text
		for _, fld := range splitFields(line) {
			switch {
			case strings.HasPrefix(fld, "property="):
				kf.Property = fld[len("property="):]
			case strings.HasPrefix(fld, "commit="):
				kf.Commit = fld[len("commit="):]
			case strings.HasPrefix(fld, "key="):
				kf.Key = strings.Trim(fld[len("key="):], "\"")
			}
		}
		out = append(out, kf)
	}
	return out, sc.Err()
}

// splitFields splits on spaces but keeps key="..." together.
func splitFields(s string) []string {
	var out []string
	cur := ""
	inq := false
	for _, r := range s {
		switch {
		case r == '"':
			inq = !inq
			cur += string(r)
		case r == ' ' && !inq:
			if cur != "" {
				out = append(out, cur)
			}
			cur = ""
		default:
			cur += string(r)
		}
	}
	if cur != "" {
		out = append(out, cur)
	}
	return out
}

// ---------------------------------------------------------------------------
// evidence

type evidence struct {
	PropertyID  string                 `json:"property_id"`
	Tier        string                 `json:"tier"`
	Seed        int                    `json:"seed"`
	Level       string                 `json:"level"`
	Coverage    map[string]interface{} `json:"coverage"`
	Assumptions []string               `json:"assumptions"`
	WallS       float64                `json:"wall_s"`
	Violations  int                    `json:"violations"`
}

func writeJSON(path string, v interface{}) error {
	if err := os.MkdirAll(filepath.Dir(path), 0o755); err != nil {
		return err
	}
	b, err := json.MarshalIndent(v, "", " ")
	if err != nil {
		return err
	}
	return os.WriteFile(path, append(b, '\n'), 0o644)
}

func sortedKeys(m map[string]bool) []string {
	var out []string
	for k := range m {
		out = append(out, k)
	}
	sort.Strings(out)
	return out
}
