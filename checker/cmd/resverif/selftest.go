package main

import (
	"encoding/json"
	"fmt"
	"os"
	"os/exec"
	"path/filepath"
	"sort"
	"strconv"
	"strings"
	"sync"
)

// Self-test of the checker (thorough tier): every patch of the corpus that is
// recorded in mutants/INDEX.json as detected by this property is applied to a
// scratch copy of the repository (removed afterwards) and must be reported
// again; every behaviour-preserving patch must leave the check quiet. A
// failure means the checker is broken: exit 2, never a property verdict.

type indexEntry struct {
	Kind       string   `json:"kind"`
	DetectedBy []string `json:"detected_by"`
	Error      string   `json:"error"`
}

type selftestResult struct {
	Breaking int      `json:"breaking_patches"`
	Detected int      `json:"detected"`
	Benign   int      `json:"benign_patches"`
	Quiet    int      `json:"quiet"`
	Failures []string `json:"failures"`
	Skipped  []string `json:"skipped"`
	Patches  []string `json:"patches"`
}

func runSelftest(propID, repo string) selftestResult {
	var res selftestResult
	vdir := verifDir()
	b, err := os.ReadFile(filepath.Join(vdir, "mutants", "INDEX.json"))
	if err != nil {
		res.Failures = append(res.Failures, "mutants/INDEX.json: "+err.Error())
		return res
	}
	idx := map[string]indexEntry{}
	if err := json.Unmarshal(b, &idx); err != nil {
		res.Failures = append(res.Failures, "mutants/INDEX.json: "+err.Error())
		return res
	}
	type job struct {
		patch  string
		benign bool
	}
	var jobs []job
	var keys []string
	for k := range idx {
		keys = append(keys, k)
	}
	sort.Strings(keys)
	for _, k := range keys {
		e := idx[k]
		if e.Error != "" {
			continue
		}
		if e.Kind == "benign" {
			jobs = append(jobs, job{k, true})
			continue
		}
		for _, p := range e.DetectedBy {
			if p == propID {
				jobs = append(jobs, job{k, false})
			}
		}
	}
	// the behaviour-preserving corpus is large: replay a rotating sample of it (VERIF_SEED picks the window),
	// every breaking patch recorded for this property is always replayed
	{
		const maxBenign = 60
		seed, _ := strconv.Atoi(os.Getenv("VERIF_SEED"))
		var ben, brk []job
		for _, j := range jobs {
			if j.benign {
				ben = append(ben, j)
			} else {
				brk = append(brk, j)
			}
		}
		if len(ben) > maxBenign {
			start := (seed * 17) % len(ben)
			var pick []job
			for i := 0; i < maxBenign; i++ {
				pick = append(pick, ben[(start+i*len(ben)/maxBenign)%len(ben)])
			}
			ben = pick
		}
		jobs = append(brk, ben...)
	}
	exe, _ := os.Executable()
	env := append(os.Environ(), "GOFLAGS=-mod=mod", "GOPROXY=off", "GOSUMDB=off", "GOTOOLCHAIN=local", "GOWORK=off")
	var mu sync.Mutex
	sem := make(chan struct{}, 6)
	var wg sync.WaitGroup
	for _, j := range jobs {
		wg.Add(1)
		go func(j job) {
			defer wg.Done()
			sem <- struct{}{}
			defer func() { <-sem }()
			d, err := os.MkdirTemp("", "resverif-selftest-")
			if err != nil {
				mu.Lock()
				res.Failures = append(res.Failures, j.patch+": "+err.Error())
				mu.Unlock()
				return
			}
			defer os.RemoveAll(d)
			run := func(dir string, name string, args ...string) (string, int) {
				cmd := exec.Command(name, args...)
				cmd.Dir = dir
				cmd.Env = env
				out, err := cmd.CombinedOutput()
				code := 0
				if err != nil {
					code = 1
					if ee, ok := err.(*exec.ExitError); ok {
						code = ee.ExitCode()
					}
				}
				return string(out), code
			}
			if _, rc := run("/", "rsync", "-a", "--exclude", ".git", repo+"/", d+"/"); rc != 0 {
				mu.Lock()
				res.Failures = append(res.Failures, j.patch+": copy failed")
				mu.Unlock()
				return
			}
			if _, rc := run(d, "patch", "-p1", "-s", "--no-backup-if-mismatch", "-i", filepath.Join(vdir, j.patch)); rc != 0 {
				// the repository under test has moved away from the tree the corpus was made for
				mu.Lock()
				res.Skipped = append(res.Skipped, j.patch+": does not apply to the tree under test")
				mu.Unlock()
				return
			}
			if _, rc := run(d, "go", "build", "./..."); rc != 0 {
				mu.Lock()
				res.Skipped = append(res.Skipped, j.patch+": does not build on the tree under test")
				mu.Unlock()
				return
			}
			out, rc := run(vdir, exe, "check", "-p", propID, "-repo", d, "-no-evidence", "-tier", "quick")
			mu.Lock()
			defer mu.Unlock()
			res.Patches = append(res.Patches, j.patch)
			if j.benign {
				res.Benign++
				if rc == 0 {
					res.Quiet++
				} else {
					res.Failures = append(res.Failures, fmt.Sprintf("%s: behaviour-preserving patch raises an alarm (exit %d): %s", j.patch, rc, firstAlarm(out)))
				}
			} else {
				res.Breaking++
				if rc == 1 && strings.Contains(out, "VIOLATION property="+propID) {
					res.Detected++
				} else {
					res.Failures = append(res.Failures, fmt.Sprintf("%s: breaking patch is no longer reported (exit %d)", j.patch, rc))
				}
			}
		}(j)
	}
	wg.Wait()
	sort.Strings(res.Patches)
	sort.Strings(res.Failures)
	sort.Strings(res.Skipped)
	return res
}

func firstAlarm(out string) string {
	for _, l := range strings.Split(out, "\n") {
		if strings.Contains(l, "construct:") {
			return strings.TrimSpace(l)
		}
	}
	return ""
}
