package main

import (
	"fmt"
	"go/constant"
	"go/token"
	"go/types"
	"strings"

	"golang.org/x/tools/go/ssa"
)

// WHO-MAY-CALL: the state-changing event handlers are reached only through
// handleEvent (which stamps the event and applies the not-loaded and
// resetting discards); full model/collection application only behind the
// matching kind test (C12.4, C15.3, C01.1).
func ruleHandlerCallers(c *Ctx) {
	p := c.P
	he := "(*rescache.ResourceSubscription).handleEvent"
	for _, nm := range []string{"handleEventChange", "handleEventAdd", "handleEventRemove", "handleEventDelete"} {
		m := p.Method("rescache.ResourceSubscription." + nm)
		if m == nil {
			c.undecided("rescache.ResourceSubscription."+nm, "anchor", "-", "not found")
			continue
		}
		for _, f := range p.Repo {
			for _, call := range callsIn(f) {
				if _, ok := isCallTo(call, m); !ok {
					continue
				}
				c.inst(1)
				_, owned := p.ownedBy(f, func(n string) bool { return n == he })
				c.check(owned, fnName(f), nm+" is reached only through handleEvent", p.InstrPos(call), "called from handleEvent (or a helper only it calls)",
					"the handler is called directly: the event is not stamped with the resource version and the not-loaded / resetting discards are bypassed (subscribers drop the event, or an unloaded resource is dereferenced)")
			}
		}
	}
	fState := p.Field("rescache.ResourceSubscription.state")
	for _, spec := range []struct {
		nm   string
		want int64
	}{{"processResetModel", 4}, {"processResetCollection", 3}} {
		m := p.Method("rescache.ResourceSubscription." + spec.nm)
		if m == nil {
			continue
		}
		for _, f := range p.Repo {
			for _, call := range callsIn(f) {
				if _, ok := isCallTo(call, m); !ok {
					continue
				}
				c.inst(1)
				g := p.guardedBy(call, fieldCmpGuard(fState, 5, func(v int64) bool { return v == spec.want }))
				c.check(g != nil, fnName(f), spec.nm+" only for a cached resource of that kind", p.InstrPos(call), "dominated by the test of rs.state",
					"a full model/collection is applied to a cached resource that is not (yet) of that kind: nil dereference on a cache worker terminates the gateway")
			}
		}
	}
}

// DOM/path-prefix (C14): a path is cut by the length of the api prefix only
// after it was checked to start with that prefix.
func rulePathPrefix(c *Ctx) {
	p := c.P
	for _, nm := range []string{"server.PathToRID", "server.PathToRIDAction"} {
		fn := p.Fn(nm)
		if fn == nil {
			c.undecided(nm, "anchor", "-", "not found")
			continue
		}
		n := 0
		for _, g := range append([]*ssa.Function{fn}, staticCallees(p, fn)...) {
			for _, in := range instrsOf(g) {
				sl, ok := in.(*ssa.Slice)
				if !ok || sl.Low == nil {
					continue
				}
				// path[len(prefix):]
				call, ok := sl.Low.(*ssa.Call)
				if !ok {
					continue
				}
				if b, ok := call.Call.Value.(*ssa.Builtin); !ok || b.Name() != "len" {
					continue
				}
				if _, ok := call.Call.Args[0].(*ssa.Parameter); !ok {
					continue
				}
				n++
				c.inst(1)
				g := p.guardedBy(sl, func(i *ssa.If) (bool, bool) {
					v := i.Cond
					neg := false
					if u, ok := v.(*ssa.UnOp); ok && u.Op == token.NOT {
						v, neg = u.X, true
					}
					if cl, ok := v.(*ssa.Call); ok && calleeName(&cl.Call) == "strings.HasPrefix" {
						if cl.Call.Args[0] == sl.X && cl.Call.Args[1] == call.Call.Args[0] {
							return !neg, true
						}
					}
					return false, false
				})
				c.check(g != nil, nm, "path cut by the prefix length only after strings.HasPrefix(path, prefix)", p.InstrPos(sl), "dominated by the prefix test on the same path and prefix",
					"the raw path is sliced by the prefix length without checking the prefix: a path whose prefix only decodes to the api path (percent-encoding) yields a resource id shifted by some bytes")
			}
		}
		if n == 0 {
			c.inst(1)
			c.ok(nm, "path cut by the prefix length only after strings.HasPrefix(path, prefix)", p.Pos(fn.Pos()), "no slicing by prefix length (e.g. strings.TrimPrefix / CutPrefix is used)")
		}
	}
}

func staticCallees(p *Prog, fn *ssa.Function) []*ssa.Function {
	var out []*ssa.Function
	seen := map[*ssa.Function]bool{fn: true}
	for _, call := range callsIn(fn) {
		if sf := call.Common().StaticCallee(); sf != nil && p.isRepoFn(sf) && sf.Pkg == fn.Pkg && !seen[sf] {
			seen[sf] = true
			out = append(out, sf)
		}
	}
	return out
}

// DOM/ascii-fold (C17.4): the allow-list comparison folds ASCII case only.
func ruleASCIIFold(c *Ctx) {
	p := c.P
	fn := p.Fn("server.matchesOrigins")
	if fn == nil {
		c.undecided("server.matchesOrigins", "anchor", "-", "not found")
		return
	}
	c.inst(1)
	bad := ""
	for _, g := range append([]*ssa.Function{fn}, staticCallees(p, fn)...) {
		for _, call := range callsIn(g) {
			switch calleeName(call.Common()) {
			case "unicode.ToLower", "unicode.ToUpper", "unicode.ToTitle", "unicode.SimpleFold", "strings.ToLower", "strings.ToUpper", "strings.EqualFold", "bytes.EqualFold":
				bad = calleeName(call.Common()) + " @" + p.InstrPos(call)
			}
		}
	}
	c.check(bad == "", fnName(fn), "origins are compared ignoring ASCII case only", p.Pos(fn.Pos()), "no Unicode case folding in the comparison",
		"Unicode case folding ("+bad+") maps non-ASCII letters (U+0130, U+212A …) onto ASCII ones: an origin that is not ASCII-case-equal to a listed one is served")
	// wildcard handling and the list itself: allow-list entries are lower-cased by the ASCII helper
	if v := p.Fn("server.validateAllowOrigin"); v != nil {
		c.inst(1)
		ok := false
		for _, call := range callsIn(v) {
			if calleeName(call.Common()) == "server.toLowerASCII" {
				ok = true
			}
		}
		c.check(ok, fnName(v), "allow-list entries are normalised with the ASCII-only lower-casing", p.Pos(v.Pos()), "toLowerASCII", "entries normalised differently from the comparison")
	}
}

// CONF/worker-loop (C03.2, C11): the queue workers run every accepted task:
// their loops are controlled by the queue length only.
func ruleWorkerLoops(c *Ctx) {
	p := c.P
	type spec struct {
		fn     string
		queues []string
		extra  []string // other fields whose tests are part of the loop protocol
	}
	for _, s := range []spec{
		{"(*server.wsConn).outputWorker", []string{"server.wsConn.queue"}, nil},
		{"(*rescache.EventSubscription).processQueue", []string{"rescache.EventSubscription.queue", "rescache.EventSubscription.locks"}, nil},
	} {
		fn := p.Fn(s.fn)
		if fn == nil {
			c.undecided(s.fn, "anchor", "-", "not found")
			continue
		}
		qf := map[*types.Var]bool{}
		for _, q := range s.queues {
			if f := p.Field(q); f != nil {
				qf[f] = true
			}
		}
		// every condition of the function is about len/cap/nil-ness of its queues or the channel receive
		okCond := func(v ssa.Value) bool {
			seen := map[ssa.Value]bool{}
			var ok func(v ssa.Value, d int) bool
			ok = func(v ssa.Value, d int) bool {
				if seen[v] {
					return true // loop-carried index
				}
				seen[v] = true
				if d > 12 {
					return false
				}
				switch x := v.(type) {
				case *ssa.Const:
					return true
				case *ssa.Parameter:
					// the loop index handed to a queue accessor (`q.at(idx)`)
					bt, isB := x.Type().Underlying().(*types.Basic)
					return isB && bt.Info()&types.IsInteger != 0 && x.Parent() != fn
				case *ssa.BinOp:
					return ok(x.X, d+1) && ok(x.Y, d+1)
				case *ssa.UnOp:
					if f, _ := fieldLoad(x); f != nil {
						return qf[f]
					}
					if x.Op == token.NOT {
						return ok(x.X, d+1)
					}
					return false
				case *ssa.Phi:
					for _, e := range x.Edges {
						if !ok(e, d+1) {
							return false
						}
					}
					return true
				case *ssa.Call:
					if b, isB := x.Call.Value.(*ssa.Builtin); isB && (b.Name() == "len" || b.Name() == "cap") {
						return ok(x.Call.Args[0], d+1)
					}
					// a phase helper reporting on the queue: every returned value is itself such a condition
					if sf := x.Call.StaticCallee(); sf != nil && sf.Pkg == fn.Pkg && sf.Object() != nil && !sf.Object().Exported() && len(sf.Blocks) > 0 {
						nret := 0
						for _, in := range instrsOf(sf) {
							if r, isR := in.(*ssa.Return); isR {
								for _, rv := range r.Results {
									nret++
									if !ok(rv, d+1) {
										return false
									}
								}
							}
						}
						return nret > 0
					}
					return false
				case *ssa.Extract: // v, ok := <-ch ; range over channel
					return true
				}
				return false
			}
			return ok(v, 0)
		}
		n := 0
		bad := ""
		// the worker and the phase helpers it is split into (those that touch the queue)
		scope := []*ssa.Function{fn}
		for _, h := range p.withHelpers(fn) {
			if h == fn || h.Parent() != nil {
				continue
			}
			touches := false
			for _, in := range instrsOf(h) {
				if fa, isFA := in.(*ssa.FieldAddr); isFA && qf[fieldOfAddr(fa)] {
					touches = true
				}
			}
			if touches {
				scope = append(scope, h)
			}
		}
		for _, g := range scope {
			for _, in := range instrsOf(g) {
				i, isIf := in.(*ssa.If)
				if !isIf {
					continue
				}
				n++
				if !okCond(i.Cond) {
					bad = "condition @" + p.InstrPos(i) + " depends on something other than the queue itself"
				}
				// tasks are appended while the worker has released the mutex to run one: a loop over the queue
				// re-reads its length on every iteration (a `range` fixes it at loop entry and misses them)
				loops := blocksInLoops(g)
				if loops[i.Block()] {
					var lens []*ssa.Call
					var collect func(v ssa.Value, d int)
					seenV := map[ssa.Value]bool{}
					collect = func(v ssa.Value, d int) {
						if v == nil || seenV[v] || d > 6 {
							return
						}
						seenV[v] = true
						switch x := v.(type) {
						case *ssa.BinOp:
							collect(x.X, d+1)
							collect(x.Y, d+1)
						case *ssa.UnOp:
							if x.Op == token.NOT {
								collect(x.X, d+1)
							}
						case *ssa.Call:
							if b, isB := x.Call.Value.(*ssa.Builtin); isB && b.Name() == "len" {
								if f, _ := fieldLoad(x.Call.Args[0]); f != nil && qf[f] {
									lens = append(lens, x)
								}
							}
						}
					}
					collect(i.Cond, 0)
					for _, lc := range lens {
						if !loops[lc.Block()] {
							bad = "the loop over the queue takes its length once, before the loop (@" + p.InstrPos(lc) + "): a task appended while the worker runs another with the mutex released is never run and never re-dispatched"
						}
					}
				}
			}
		}
		c.inst(1)
		c.check(bad == "" && n > 0, s.fn, "every accepted task is run: the worker loop is controlled by its queue only", p.Pos(fn.Pos()), fmt.Sprintf("%d conditions, all on len/cap/nil of the queue", n),
			"the worker can leave tasks it has accepted unexecuted ("+bad+"): their continuations and the releases they hold never run")
	}
}

// PAIR/gc-countdown (C02, structural part of the collector): in the
// count-down visitor of tryDelete, an edge that is discounted from the
// indirect count is also discounted, by the parent's sent-ness, from the
// indirectsent count — on every path.
func ruleGCCountdown(c *Ctx) {
	p := c.P
	fn := p.Fn("(*server.wsConn).tryDelete")
	if fn == nil {
		c.undecided("(*server.wsConn).tryDelete", "anchor", "-", "not found")
		return
	}
	gcHold, gcSent := gcRecordFields(p, fn)
	// visitor closures passed to traverse
	trav := p.Method("server.Subscription.traverse")
	var visitors []*ssa.Function
	for _, g := range p.withHelpers(fn) {
		for _, call := range callsIn(g) {
			if _, ok := isCallTo(call, trav); ok {
				if mc, ok := stripConv(callArgs(call.Common())[2]).(*ssa.MakeClosure); ok {
					visitors = append(visitors, mc.Fn.(*ssa.Function))
				}
			}
		}
	}
	if len(visitors) == 0 {
		c.viol(fnName(fn), "count-down visitor found", p.Pos(fn.Pos()), "no traverse visitor")
		return
	}
	// every decision on the indirect counts is taken after the count-down traversal
	{
		var firstTrav ssa.Instruction
		containsTrav := func(g *ssa.Function) bool {
			for _, h := range p.withHelpers(g) {
				for _, call := range callsIn(h) {
					if _, ok := isCallTo(call, trav); ok {
						return true
					}
				}
			}
			return false
		}
		for _, call := range callsIn(fn) {
			if firstTrav != nil {
				break
			}
			if _, ok := isCallTo(call, trav); ok {
				firstTrav = call
			} else if sf := call.Common().StaticCallee(); sf != nil && p.isRepoFn(sf) && sf != fn && sf.Pkg == fn.Pkg && containsTrav(sf) {
				firstTrav = call // the count-down lives in a helper
			}
		}
		for _, g := range p.withHelpers(fn) {
			if g.Parent() != nil {
				continue
			}
			for _, in := range instrsOf(g) {
				i, ok := in.(*ssa.If)
				if !ok {
					continue
				}
				x, _, _, isCmp := cmpConst(i.Cond)
				if !isCmp {
					continue
				}
				f, _ := fieldLoad(x)
				if f == nil || !(strings.EqualFold(f.Name(), "indirect") || strings.EqualFold(f.Name(), "indirectsent") || gcHold[f] || gcSent[f] || f == p.Field("server.Subscription.indirect") || f == p.Field("server.Subscription.indirectsent")) {
					continue
				}
				c.inst(1)
				ok2 := g != fn || (firstTrav != nil && dominates(firstTrav, i))
				if g != fn {
					// in a helper: the helper must be called after the count-down
					ok2 = false
					for _, call := range callsIn(fn) {
						if call.Common().StaticCallee() == g && firstTrav != nil && dominates(firstTrav, call) {
							ok2 = true
						}
					}
					if firstTrav == nil {
						ok2 = true // traversal itself lives in a helper: order checked by the helper sequence
					}
				}
				c.check(ok2, fnName(g), "keep/delete decision uses the counts as they are after the count-down", p.InstrPos(i), "decision dominated by the count-down traversal",
					"the collector decides on the raw counts before discounting the references inside the sub-graph: a cyclic or self-referencing resource is never collected (its subscription stays behind with zero direct count)")
			}
		}
	}
	v := visitors[0]
	c.inst(1)
	isField := func(fa *ssa.FieldAddr, name string) bool {
		f := fieldOfAddr(fa)
		if f == nil || f.Pkg() == nil || f.Pkg().Name() != "server" {
			return false
		}
		sf := p.Field("server.Subscription." + name)
		if f == sf {
			return false
		}
		if name == "indirect" && len(gcHold) > 0 {
			return gcHold[f]
		}
		if name == "indirectsent" && len(gcSent) > 0 {
			return gcSent[f]
		}
		want := name
		if sf != nil {
			want = sf.Name()
		}
		return strings.EqualFold(f.Name(), want)
	}
	minus := func(v ssa.Value) (string, bool) {
		b, ok := v.(*ssa.BinOp)
		if !ok || b.Op != token.SUB {
			return "", false
		}
		if k, isC := constInt(b.Y); isC && k == 1 {
			return "1", true
		}
		return "diff", true
	}
	sp := &Spec{InlineHelpers: true}
	sp.Classify = func(t *Tracer, fr *Frame, in ssa.Instruction) []Ev {
		st, ok := in.(*ssa.Store)
		if !ok {
			return nil
		}
		fa, ok := st.Addr.(*ssa.FieldAddr)
		if !ok {
			return nil
		}
		switch {
		case isField(fa, "indirect"):
			if _, ok := minus(st.Val); ok {
				return []Ev{{Kind: "indirect-"}}
			}
			return []Ev{{Kind: "indirect="}}
		case isField(fa, "indirectsent"):
			if _, ok := minus(st.Val); ok {
				return []Ev{{Kind: "indirectsent-"}}
			}
			return []Ev{{Kind: "indirectsent="}}
		}
		return nil
	}
	tr := runTrace(p, v, sp)
	bad := ""
	n := 0
	for _, path := range tr.Paths {
		a, b := countKind(path, "indirect-"), countKind(path, "indirectsent-")
		if a+b > 0 {
			n++
		}
		if a != b {
			bad = fmt.Sprintf("a path of the count-down visitor discounts indirect %d times but indirectsent %d times: a subscription reached by several paths keeps a sent-count surplus and is wrongly considered still held by the client: %s", a, b, tr.FmtPath(path))
		}
	}
	if n == 0 {
		bad = "no discounting path found"
	}
	c.check(bad == "", fnName(v), "indirect and indirectsent are discounted together on every path of the count-down", p.Pos(v.Pos()), fmt.Sprintf("%d paths", len(tr.Paths)), bad)
	_ = strings.Join
}

// gcRecordFields finds the collector's own bookkeeping fields by data flow: the
// fields (of any struct but Subscription) that tryDelete and its helpers fill
// from Subscription.indirect and Subscription.indirectsent.
func gcRecordFields(p *Prog, fn *ssa.Function) (holders, sent map[*types.Var]bool) {
	holders, sent = map[*types.Var]bool{}, map[*types.Var]bool{}
	sfInd := p.Field("server.Subscription.indirect")
	sfSent := p.Field("server.Subscription.indirectsent")
	for _, g := range p.withHelpers(fn) {
		for _, in := range instrsOf(g) {
			st, ok := in.(*ssa.Store)
			if !ok {
				continue
			}
			fa, ok := st.Addr.(*ssa.FieldAddr)
			if !ok {
				continue
			}
			tf := fieldOfAddr(fa)
			if tf == nil || tf == sfInd || tf == sfSent {
				continue
			}
			v := st.Val
			if b, isB := v.(*ssa.BinOp); isB && b.Op == token.SUB {
				v = b.X
			}
			if f, _ := fieldLoad(v); f != nil {
				if f == sfInd && sfInd != nil {
					holders[tf] = true
				}
				if f == sfSent && sfSent != nil {
					sent[tf] = true
				}
			}
		}
	}
	return
}

// withHelpers returns fn, its closures and, transitively, the unexported
// functions of its package that it calls statically (extracted helpers).
func (p *Prog) withHelpers(fn *ssa.Function) []*ssa.Function {
	seen := map[*ssa.Function]bool{}
	var out []*ssa.Function
	var rec func(f *ssa.Function, depth int)
	rec = func(f *ssa.Function, depth int) {
		if seen[f] || depth > 4 {
			return
		}
		seen[f] = true
		for _, g := range WithClosures(f) {
			out = append(out, g)
			for _, call := range callsIn(g) {
				sf := call.Common().StaticCallee()
				if sf != nil && p.isRepoFn(sf) && sf.Pkg == TopLevel(fn).Pkg && sf.Object() != nil && !sf.Object().Exported() && sf.Parent() == nil {
					rec(sf, depth+1)
				}
			}
		}
	}
	rec(fn, 0)
	return out
}

// DOM/gc-mark (C09, C08): the mark pass of the subscription collector. A node
// that still has holders outside the released sub-graph, or that is reached
// from such a node (a propagated keep), is marked kept — also when an earlier
// visit along a to-be-deleted path already marked it for deletion — and the
// keep is propagated to its references. Only a node already marked kept may
// stop the traversal without that. Otherwise a subscription shared between a
// released and a kept parent is disposed while the client still holds it (its
// cache use is given back under a live client subscription).
func ruleGCMark(c *Ctx) {
	p := c.P
	fn := p.Fn("(*server.wsConn).tryDelete")
	trav := p.Method("server.Subscription.traverse")
	gcT := p.Named("server.gcState")
	if fn == nil || trav == nil || gcT == nil {
		c.undecided("(*server.wsConn).tryDelete", "anchor", "-", "not found")
		return
	}
	kKeep, kUnsend, kDelete := p.ConstInt("server.gcStateKeep", -1), p.ConstInt("server.gcStateUnsend", -1), p.ConstInt("server.gcStateDelete", -1)
	nStates := kUnsend + 1
	if kUnsend < kKeep {
		nStates = kKeep + 1
	}
	isMarkField := func(f *types.Var) bool {
		return f != nil && types.Identical(f.Type(), gcT)
	}
	indName := "indirect"
	sfInd := p.Field("server.Subscription.indirect")
	if sfInd != nil {
		indName = sfInd.Name()
	}
	// the collector's own holder count: the field of its bookkeeping record that is filled from the
	// subscription's indirect count (by name as a fallback)
	holderFields, _ := gcRecordFields(p, fn)
	isHolders := func(f *types.Var) bool {
		if f == nil || f == sfInd {
			return false
		}
		if len(holderFields) > 0 {
			return holderFields[f]
		}
		return f.Pkg() != nil && f.Pkg().Name() == "server" && strings.EqualFold(f.Name(), indName)
	}
	var visitors []*ssa.Function
	for _, g := range p.withHelpers(fn) {
		for _, call := range callsIn(g) {
			if _, ok := isCallTo(call, trav); ok {
				if mc, ok := stripConv(callArgs(call.Common())[2]).(*ssa.MakeClosure); ok {
					vf := mc.Fn.(*ssa.Function)
					if vf.Synthetic != "" {
						// bound method value: the method is the visitor
						if m := boundMethod(vf); m != nil {
							if mf := p.SSA.FuncValue(m); mf != nil && len(mf.Blocks) > 0 {
								vf = mf
							}
						}
					}
					visitors = append(visitors, vf)
				}
			}
		}
	}
	n := 0
	for _, v := range visitors {
		marks := false
		for _, g := range p.withHelpers(v) {
			for _, in := range instrsOf(g) {
				if st, ok := in.(*ssa.Store); ok {
					if fa, ok := st.Addr.(*ssa.FieldAddr); ok && isMarkField(fieldOfAddr(fa)) {
						if k, isC := constInt(st.Val); isC && k == kKeep {
							marks = true
						}
					}
				}
			}
		}
		if !marks {
			continue
		}
		n++
		c.inst(1)
		var stateParam *ssa.Parameter
		for _, prm := range v.Params {
			if types.Identical(prm.Type(), gcT) {
				stateParam = prm
			}
		}
		setNote := func(set map[int64]bool) string {
			var ss []string
			for k := int64(0); k < nStates; k++ {
				if set[k] {
					ss = append(ss, fmt.Sprint(k))
				}
			}
			return strings.Join(ss, ",")
		}
		sp := &Spec{InlineHelpers: true}
		sp.Classify = func(t *Tracer, fr *Frame, in ssa.Instruction) []Ev {
			switch x := in.(type) {
			case *ssa.Store:
				if fa, ok := x.Addr.(*ssa.FieldAddr); ok && isMarkField(fieldOfAddr(fa)) {
					if k, isC := constInt(t.Resolve(fr, x.Val).V); isC {
						return []Ev{{Kind: fmt.Sprintf("mark=%d", k)}}
					}
					return []Ev{{Kind: "mark=?"}}
				}
			case *ssa.Return:
				if fr == t.RootFr && len(x.Results) == 1 {
					if k, isC := constInt(t.Resolve(fr, x.Results[0]).V); isC {
						return []Ev{{Kind: fmt.Sprintf("return=%d", k)}}
					}
					return []Ev{{Kind: "return=?"}}
				}
			}
			return nil
		}
		sp.Branch = func(t *Tracer, fr *Frame, i *ssa.If, dir bool) []Ev {
			cond, d := ssa.Value(i.Cond), dir
			if pv, flip := t.P.predicateView(i); pv != nil {
				cond = pv.Cond
				if flip {
					d = !d
				}
			}
			x, op, k, ok := cmpConst(cond)
			if !ok {
				return nil
			}
			if f, _ := fieldLoad(x); f != nil {
				switch {
				case isMarkField(f):
					return []Ev{{Kind: "markset", Note: setNote(satisfying(op, k, d, nStates))}}
				case isHolders(f):
					set := satisfying(op, k, d, 4)
					if len(set) == 1 && set[0] {
						return []Ev{{Kind: "not-held"}}
					}
					return nil
				}
			}
			if rv := t.Resolve(fr, x); rv.V == ssa.Value(stateParam) && stateParam != nil {
				return []Ev{{Kind: "inset", Note: setNote(satisfying(op, k, d, nStates))}}
			}
			return nil
		}
		tr := runTrace(p, v, sp)
		bad := ""
		has := func(note string, k int64) bool {
			for _, s := range strings.Split(note, ",") {
				if s == fmt.Sprint(k) {
					return true
				}
			}
			return false
		}
		for _, path := range tr.Paths {
			kept := map[int64]bool{}
			for k := int64(0); k < nStates; k++ {
				kept[k] = true
			}
			inKeepPossible, notHeld, marksKeep, marksDelete, retKeep, stored := true, false, false, false, false, false
			for _, e := range path {
				switch {
				case e.Kind == "markset" && !stored:
					for k := range kept {
						if !has(e.Note, k) {
							delete(kept, k)
						}
					}
				case e.Kind == "inset":
					if !has(e.Note, kKeep) {
						inKeepPossible = false
					}
				case e.Kind == "not-held":
					notHeld = true
				case strings.HasPrefix(e.Kind, "mark="):
					stored = true
					switch e.Kind {
					case fmt.Sprintf("mark=%d", kKeep), fmt.Sprintf("mark=%d", kUnsend):
						marksKeep = true
					case fmt.Sprintf("mark=%d", kDelete):
						marksDelete = true
					}
				case e.Kind == fmt.Sprintf("return=%d", kKeep):
					retKeep = true
				}
			}
			alreadyKept := len(kept) > 0
			for k := range kept {
				if k != kKeep && k != kUnsend {
					alreadyKept = false
				}
			}
			free := notHeld && !inKeepPossible
			switch {
			case marksDelete && !free:
				bad = "a node is marked for deletion on a path that has not established that it has no holder left and is not reached from a kept node: " + tr.FmtPath(path)
			case marksKeep && !retKeep:
				bad = "a node is marked kept without propagating the keep to its references: " + tr.FmtPath(path)
			case !alreadyKept && !free && !marksKeep:
				bad = "a path leaves a node that may still be held (or is reached from a kept node) without marking it kept — an earlier deletion mark stays, the shared subscription is disposed under a live client subscription: " + tr.FmtPath(path)
			}
		}
		if tr.Trunc {
			bad = "path budget exhausted"
		}
		c.check(bad == "", fnName(v), "a node that is held or reached from a kept node is marked kept (also over an earlier deletion mark) and propagates the keep", p.Pos(v.Pos()), fmt.Sprintf("%d paths", len(tr.Paths)), bad)
	}
	if n == 0 {
		c.viol(fnName(fn), "mark visitor of the collector found", p.Pos(fn.Pos()), "no traverse visitor stores a keep mark")
	}
}

// TABLE/rid-split (C14): the validator of resource ids (codec.IsValidRID)
// validates the characters up to the FIRST '?' and leaves everything behind it
// — the query — unchecked. The splitter that cuts a resource id into the
// resource name (which becomes the subject) and the query must cut at that
// same first '?'. A cut anywhere else (the last '?') leaves unchecked bytes,
// among them '?' itself, in the name and so in the subject. Accepted idioms:
// the index of strings.IndexByte/Index/IndexRune/IndexAny, strings.Cut,
// strings.SplitN(…, 2), and an ascending scan that stops at the first '?'.
func ruleRIDSplit(c *Ctx) {
	p := c.P
	fn := p.Fn("server.parseRID")
	if fn == nil {
		c.undecided("server.parseRID", "anchor", "-", "not found")
		return
	}
	c.inst(1)
	isQ := func(v ssa.Value) bool {
		v = stripConv(v)
		if k, ok := v.(*ssa.Const); ok && k.Value != nil {
			if k.Value.Kind() == constant.String {
				return constant.StringVal(k.Value) == "?"
			}
			if n, exact := constant.Int64Val(constant.ToInt(k.Value)); exact {
				return n == '?'
			}
		}
		return false
	}
	var firstIdx func(v ssa.Value, depth int) (bool, string)
	firstIdx = func(v ssa.Value, depth int) (bool, string) {
		if depth > 6 {
			return false, "too deep"
		}
		switch x := v.(type) {
		case *ssa.Call:
			nm := calleeName(&x.Call)
			switch nm {
			case "strings.IndexByte", "strings.Index", "strings.IndexRune", "strings.IndexAny":
				if isQ(x.Call.Args[1]) {
					return true, nm
				}
				return false, nm + " of something else than '?'"
			}
			if sf := x.Call.StaticCallee(); sf != nil && p.isRepoFn(sf) && len(sf.Blocks) > 0 {
				ok, why := true, ""
				n := 0
				for _, in := range instrsOf(sf) {
					if r, isR := in.(*ssa.Return); isR && len(r.Results) == 1 {
						n++
						if k, isC := constInt(r.Results[0]); isC && k < 0 {
							continue
						}
						if o, w := firstIdx(r.Results[0], depth+1); !o {
							ok, why = false, w
						}
					}
				}
				return ok && n > 0, why
			}
			return false, "index computed by " + nm
		case *ssa.Phi:
			// ascending scan: 0, i+1
			asc := true
			for _, e := range x.Edges {
				if k, isC := constInt(e); isC && k == 0 {
					continue
				}
				if b, isB := e.(*ssa.BinOp); isB && b.Op == token.ADD && b.X == ssa.Value(x) {
					if k, isC := constInt(b.Y); isC && k == 1 {
						continue
					}
				}
				asc = false
			}
			if asc {
				return true, "ascending scan"
			}
			ok := true
			why := ""
			for _, e := range x.Edges {
				if o, w := firstIdx(e, depth+1); !o {
					ok, why = false, w
				}
			}
			return ok, why
		case *ssa.Extract:
			if nx, ok := x.Tuple.(*ssa.Next); ok && x.Index == 1 {
				_ = nx
				return true, "range scan"
			}
		}
		return false, fmt.Sprintf("cut position is %s", v.String())
	}
	var nameOK func(v ssa.Value, depth int) (bool, string)
	nameOK = func(v ssa.Value, depth int) (bool, string) {
		v = stripConv(v)
		if depth > 6 {
			return false, "too deep"
		}
		switch x := v.(type) {
		case *ssa.Parameter:
			return true, "whole id"
		case *ssa.Slice:
			if x.Low != nil {
				if k, isC := constInt(x.Low); !isC || k != 0 {
					return false, "the name does not start at the beginning of the id"
				}
			}
			if x.High == nil {
				return nameOK(x.X, depth+1)
			}
			ok, why := firstIdx(x.High, 0)
			if !ok {
				return false, why
			}
			if strings.Contains(why, "scan") {
				// the scan position must be tested for '?'
				g := p.guardedBy(x, func(i *ssa.If) (bool, bool) {
					b, isB := i.Cond.(*ssa.BinOp)
					if !isB || (b.Op != token.EQL && b.Op != token.NEQ) {
						return false, false
					}
					if isQ(b.Y) || isQ(b.X) {
						return b.Op == token.EQL, true
					}
					return false, false
				})
				if g == nil {
					return false, "scan position not tested for '?'"
				}
			}
			return true, why
		case *ssa.Phi:
			for _, e := range x.Edges {
				if o, w := nameOK(e, depth+1); !o {
					return false, w
				}
			}
			return true, "merge"
		case *ssa.Extract:
			if cl, ok := x.Tuple.(*ssa.Call); ok && calleeName(&cl.Call) == "strings.Cut" && x.Index == 0 && isQ(cl.Call.Args[1]) {
				return true, "strings.Cut"
			}
		case *ssa.UnOp:
			// SplitN(rid, "?", 2)[0]
			if ia, ok := x.X.(*ssa.IndexAddr); ok && x.Op == token.MUL {
				if k, isC := constInt(ia.Index); isC && k == 0 {
					if cl, ok := ia.X.(*ssa.Call); ok && calleeName(&cl.Call) == "strings.SplitN" && isQ(cl.Call.Args[1]) {
						if n, isC := constInt(cl.Call.Args[2]); isC && n == 2 {
							return true, "strings.SplitN(…, 2)"
						}
					}
				}
			}
		case *ssa.Call:
			if sf := x.Call.StaticCallee(); sf != nil && p.isRepoFn(sf) && len(sf.Blocks) > 0 {
				for _, in := range instrsOf(sf) {
					if r, isR := in.(*ssa.Return); isR && len(r.Results) >= 1 {
						if o, w := nameOK(r.Results[0], depth+1); !o {
							return false, w
						}
					}
				}
				return true, "helper"
			}
		}
		return false, fmt.Sprintf("name is %s", v.String())
	}
	bad, how := "", ""
	n := 0
	for _, in := range instrsOf(fn) {
		r, ok := in.(*ssa.Return)
		if !ok || len(r.Results) < 1 {
			continue
		}
		n++
		if o, w := nameOK(r.Results[0], 0); !o {
			bad = "the resource name is not the part of the id before its first '?' (" + w + "): the validator leaves everything behind the first '?' unchecked, so unchecked bytes — '?' among them — reach the subject"
		} else {
			how += w + "; "
		}
	}
	if n == 0 {
		bad = "no return found"
	}
	c.check(bad == "", fnName(fn), "the resource name is cut at the first '?' of the id, the place up to which the validator checks", p.Pos(fn.Pos()), how, bad)
}
